# Seeded generator of MIR text modules aimed at the insn bookkeeping of mir.c process_inlines() (used by
# tools/gen_c17_scen.py for the C17 / C18 API histories).  MIR_link copies the insns of an inlined callee one by one
# (MIR_copy_insn), frees the copied RET, stores "cold" code placed after the last ret for later (only when the callee has
# no non-top alloca), brackets the copy with BSTART/BEND and jumps over in-place trailing code otherwise, merges a top
# alloca of the callee into the caller's, duplicates labels.  Which of these arms run is selected by
#   * WHERE the callee's alloca stands: none | first insn with a constant size (top; used or not; size through a mov) |
#     after a label / a branch / a call (non-top) | size not a constant (non-top) | a top one AND a non-top one
#   * WHERE its ret stands: last insn | in the middle (a block placed after it jumps back) | several rets | ret first of
#     several trailing blocks
#   * HOW it is called: `inline` insn | plain `call` of a small callee (<= 50 insns: inlined too) | a callee too big for
#     `call` | several times from one caller | nested (the callee itself contains inlined calls) | recursive (never inlined)
#   * the caller: own top alloca or none; call first / in the middle / in a loop
# Every module m<name> exports  f<name>: func i64, i64:n  (C type long f (long)); values depend on n only; helper
# functions are named g<name>_<i> (they do not start with f: the scenario generator calls f<name> only).

ALLOCA = ['none', 'top', 'top-unused', 'top-mov', 'after-label', 'after-branch', 'after-call', 'var-size', 'top+nontop']
LAYOUT = ['ret-last', 'ret-middle', 'multi-ret', 'ret-then-blocks', 'switch']
NONTOP = ('after-label', 'after-branch', 'after-call', 'var-size', 'top+nontop')


def _use(p, v, r, off=0):
    """store v into the block p, read it back into r"""
    return ['  mov i64:%d(%s), %s' % (off, p, v), '  mov %s, i64:%d(%s)' % (r, off, p)]


def callee(rng, gname, mod, alloca, layout, nres=1, inner=None, big=False):
    """-> lines of  g: func i64 [, i64], i64:n.  `inner` = (proto, name, 'inline'|'call') of a callee called from here."""
    g = gname
    L = ['%s: func %s, i64:n' % (g, ', '.join(['i64'] * nres)), '  local i64:p, i64:q, i64:r, i64:s, i64:t']
    k1, k2 = rng.randrange(1, 90), rng.randrange(100, 900)
    size = rng.choice([8, 16, 24, 40, 64])
    # --- head: what stands before the first label
    if alloca in ('top', 'top+nontop'):
        L += ['  alloca p, %d' % size] + _use('p', 'n', 'r', rng.choice([0, 8]) if size >= 16 else 0)
    elif alloca == 'top-unused':
        L += ['  alloca p, %d' % size, '  mov r, n']
    elif alloca == 'top-mov':
        L += ['  mov t, %d' % size, '  alloca p, t'] + _use('p', 'n', 'r')
    elif alloca == 'var-size':
        L += ['  and t, n, 7', '  lsh t, t, 3', '  add t, t, 16', '  alloca p, t'] + _use('p', 'n', 'r', 8)
    else:
        L += ['  mov r, n']
    L += ['  mov s, %d' % k1]

    def nontop_alloca(reg):
        # an alloca that is not a top alloca where it stands (after a label / branch / call)
        if alloca == 'after-call':
            return ['  call ph%s, host_add, t, r, s' % mod, '  alloca %s, %d' % (reg, size)] + _use(reg, 't', 'r')
        return ['  alloca %s, %d' % (reg, size)] + _use(reg, 'r', 't') + ['  add r, t, %d' % k1]
    has_nontop = alloca in ('after-label', 'after-branch', 'after-call', 'top+nontop')
    if inner is not None:
        L += ['  and t, r, 15', '  %s %s, %s, q, t' % (inner[2], inner[0], inner[1]), '  add r, r, q']
    if big:
        for i in range(rng.choice([55, 70])):
            L.append('  %s r, r, %d' % (rng.choice(['add', 'xor', 'sub']), rng.randrange(1, 1000)))
    res = lambda: '  ret ' + ', '.join(['r', 's'][:nres])
    if layout == 'ret-last':
        if has_nontop:
            if alloca == 'after-branch':
                L += ['  bgt L%s_a, n, 1000000' % g]
            else:
                L += ['L%s_a:' % g] if alloca in ('after-label', 'top+nontop') else []
            L += nontop_alloca('q')
            if alloca == 'after-branch':
                L += ['L%s_a:' % g]
        L += ['  add r, r, %d' % k2, res()]
    elif layout == 'ret-middle':
        # the shape of a C function whose slow path was placed after the return
        L += ['  bgt L%s_big, n, %d' % (g, rng.choice([3, 10])), '  add r, r, 1', 'L%s_fin:' % g, res(), 'L%s_big:' % g]
        if has_nontop:
            L += nontop_alloca('q')
        L += ['  add r, r, %d' % k2, '  jmp L%s_fin' % g]
    elif layout == 'multi-ret':
        L += ['  blt L%s_b, n, %d' % (g, rng.choice([2, 5])), '  and t, n, 1', '  bt L%s_c, t' % g]
        if has_nontop:
            L += nontop_alloca('q')
        L += ['  add r, r, 3', res(), 'L%s_b:' % g, '  add r, r, %d' % k2, res(), 'L%s_c:' % g]
        if has_nontop and rng.random() < 0.5:
            L += ['  alloca q, 16'] + _use('q', 's', 't') + ['  add r, r, t']
        L += ['  sub r, r, s', res()]
    elif layout == 'switch':
        # labels of the copy are operands of a switch (duplicated labels redirected in every operand); one case after the ret
        L += ['  and t, n, 3', '  switch t, L%s_0, L%s_1, L%s_2, L%s_0' % (g, g, g, g), 'L%s_0:' % g, '  add r, r, 1', '  jmp L%s_fin' % g,
              'L%s_1:' % g]
        if has_nontop:
            L += nontop_alloca('q')
        L += ['  add r, r, %d' % k2, 'L%s_fin:' % g, res(), 'L%s_2:' % g, '  mul r, r, 3', '  jmp L%s_fin' % g]
    else:  # ret-then-blocks: ret is (after simplification) followed by several blocks which all jump back
        L += ['  and t, n, 3', '  beq L%s_1, t, 1' % g, '  beq L%s_2, t, 2' % g, 'L%s_fin:' % g, res(), 'L%s_1:' % g]
        if has_nontop:
            L += nontop_alloca('q')
        L += ['  add r, r, 11', '  jmp L%s_fin' % g, 'L%s_2:' % g, '  mul s, s, 3', '  bne L%s_fin, r, 0' % g, '  add r, r, %d' % k2,
              '  jmp L%s_fin' % g]
    L.append('  endfunc')
    return L


def caller(rng, mod, fname, calls, own_alloca, loop):
    """calls: list of (how, proto, callee, nres).  -> lines of f"""
    L = ['%s: func i64, i64:n' % fname, '  local i64:a, i64:x, i64:y, i64:z, i64:w, i64:i']
    calls = list(calls)
    if any(c[3] == 'blk' for c in calls):
        L[1] += ', i64:v'
        L += ['  alloca v, 16']
        if own_alloca == 'none':
            own_alloca = 'plain'
    if own_alloca == 'top':
        L += ['  alloca w, 32', '  mov i64:8(w), n', '  mov a, i64:8(w)', '  mov x, 0']
    elif own_alloca == 'unused':
        L += ['  alloca w, 16', '  mov a, n', '  mov x, 0']
    elif own_alloca == 'none' and calls and calls[0][3] != 'blk' and rng.random() < 0.35:
        # the first insn of the caller is the call itself (head_func_insn == call)
        how, pr, g, nres = calls.pop(0)
        L += ['  %s %s, %s, %s, n' % (how, pr, g, ', '.join(['x', 'z'][:nres])), '  mov a, n']
    else:
        L += ['  mov a, n', '  mov x, 0']
    L += ['  mov i, %d' % (3 if loop else 1), 'L%s_loop:' % fname]
    for how, pr, g, nres in calls:
        if nres == 'blk':
            L += ['  mov i64:(v), a', '  mov i64:8(v), %d' % rng.randrange(1, 99), '  and y, a, 15', '  %s %s, %s, y, blk:16(v), y' % (how, pr, g),
                  '  add x, x, y', '  add x, x, i64:(v)']
            continue
        L += ['  and y, a, 31', '  %s %s, %s, %s, y' % (how, pr, g, ', '.join(['y', 'z'][:nres])), '  add x, x, y']
        if nres == 2:
            L += ['  add x, x, z']
        L += ['  add a, a, %d' % rng.randrange(1, 9)]
    L += ['  sub i, i, 1', '  bgt L%s_loop, i, 0' % fname, '  ret x', '  endfunc']
    return L


def inl_module(rng, name, force=None, ncallees=None):
    """MIR text of module m<name>.  force = (alloca kind, layout, how) makes the first callee that shape."""
    L = ['m%s: module' % name, '  export f%s' % name, '  import host_add', 'ph%s: proto i64, i64:a, i64:b' % name,
         'p1%s: proto i64, i64:n' % name, 'p2%s: proto i64, i64, i64:n' % name, 'pb%s: proto i64, blk:16(b), i64:n' % name]
    k = ncallees or rng.choice([1, 1, 2, 3, 4])
    gs, calls = [], []
    for i in range(k):
        g = 'g%s_%d' % (name, i)
        al, lay = rng.choice(ALLOCA), rng.choice(LAYOUT)
        how = rng.choice(['inline', 'inline', 'call'])
        if i == 0 and force is not None:
            al, lay, how = force
        else:
            # the boundary: a non-top alloca together with code after the ret; one callee in three is drawn from it
            if rng.random() < 0.33:
                al, lay = rng.choice(NONTOP), rng.choice(LAYOUT[1:])
        nres = 2 if rng.random() < 0.15 else 1
        inner = None
        if gs and rng.random() < 0.35:
            # nested inlining: this callee inlines (or calls) an earlier one
            pg = rng.choice(gs)
            inner = ('p%d%s' % (pg[1], name), pg[0], rng.choice(['inline', 'call']))
            if pg[1] == 2:
                inner = None
        big = force is None and rng.random() < 0.08
        body = callee(rng, g, name, al, lay, nres, inner, big)
        if force is None and rng.random() < 0.07:
            # a recursive callee: the call of itself is never inlined (func_item == called_func_item)
            j = next(j for j, l in enumerate(body) if l.startswith('  mov s,'))
            body[j + 1:j + 1] = ['  ble L%s_nr, n, 0' % g, '  sub t, n, 1', '  %s p%d%s, %s, %s, t' % (rng.choice(['inline', 'call']), nres, name, g, ', '.join(['q', 't'][:nres])),
                                 '  add r, r, q', 'L%s_nr:' % g]
        L += body
        gs.append((g, nres))
        for _ in range(rng.choice([1, 1, 2, 3]) if force is None else 2):
            calls.append((how if rng.random() < 0.8 else rng.choice(['inline', 'call']), 'p%d%s' % (nres, name), g, nres))
    blk = force is None and rng.random() < 0.2
    if blk:
        # a callee with a block argument: inlining copies the block (alloca + block move with labels of its own)
        g = 'g%s_b' % name
        L += ['%s: func i64, blk:16(b), i64:n' % g, '  local i64:r, i64:t', '  mov r, i64:(b)',
              '  mov t, i64:8(b)', '  add r, r, t', '  add r, r, n', '  mov i64:(b), 0', '  mov i64:8(b), 0']
        if rng.random() < 0.5:
            L += ['  bgt L%s_x, n, 9' % g, 'L%s_f:' % g, '  ret r', 'L%s_x:' % g, '  alloca t, 16', '  mov i64:(t), r', '  mov r, i64:(t)', '  jmp L%s_f' % g]
        else:
            L += ['  ret r']
        L += ['  endfunc']
        for _ in range(rng.choice([1, 2])):
            calls.append((rng.choice(['inline', 'call']), 'pb%s' % name, g, 'blk'))
    if force is None:
        rng.shuffle(calls)
    if force is None and rng.random() < 0.25:
        # the caller stands BEFORE its callees: it refers to them through forward items (ref_def chain), and they are
        # copied into it before their own calls have been inlined
        i0 = next(i for i, l in enumerate(L) if ': func' in l)
        L = L[:i0] + ['  forward ' + ', '.join(sorted({c[2] for c in calls}))] + caller(
            rng, name, 'f' + name, calls, rng.choice(['none', 'none', 'top', 'unused']), loop=rng.random() < 0.4) + L[i0:]
        L += ['  endmodule', '']
        return '\n'.join(L)
    L += caller(rng, name, 'f' + name, calls, rng.choice(['none', 'none', 'top', 'unused']) if force is None else 'none',
                loop=rng.random() < 0.4 if force is None else False)
    L += ['  endmodule', '']
    return '\n'.join(L)


def exhaustive_inl_modules(name):
    """one small module per (alloca kind x layout x call kind): the whole neighbourhood of the case split"""
    import random
    out = []
    for i, al in enumerate(ALLOCA):
        for j, lay in enumerate(LAYOUT):
            for h, how in enumerate(['inline', 'call']):
                n = '%s_%d_%d_%d' % (name, i, j, h)
                out.append((inl_module(random.Random(7 * i + 3 * j + h), n, force=(al, lay, how), ncallees=1), 'f' + n))
    return out


if __name__ == '__main__':
    import random, sys
    print(inl_module(random.Random(int(sys.argv[1]) if len(sys.argv) > 1 else 1), 'q'))

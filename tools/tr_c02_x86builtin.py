#!/usr/bin/env python3
# tr_c02_x86builtin: regenerate coq/gen/X86Builtins.v from mir-gen-x86_64.c of the CURRENT tree.
# The x86-64 generator has no instruction pattern for some conversion opcodes (today UI2F UI2D UI2LD LD2I):
# target_machinize replaces them by a call of a small C function of the generator itself ("builtin"), chosen
# by get_builtin.  Source constructs read here (after gcc -E -P of mir-gen.c):
#  * target_machinize: the case labels in front of the block that calls `get_builtin (gen_ctx, code, ...)`
#    -> x86_builtin_codes (the opcodes executed by a builtin);
#  * get_builtin: for each `case MIR_X:` the result type (`res_type = MIR_T_..`), the argument type of the prototype and
#    the C function handed to `_MIR_builtin_func`;
#  * that C function: symbolically executed (locals, calls of other functions inlined, implicit conversion of the
#    argument to the parameter type and of the returned value to the return type) to one C expression of the operand
#    -> x86_builtin_table : opcode |-> SAssign T e (MirV.Mir.CExpr), the same row language as the interpreter table.
# Anything not understood becomes SUnknown (no semantics => the theorems over the table fail, never skipped).
import sys, os, re
sys.path.insert(0, os.path.dirname(os.path.abspath(__file__)))
import vlib
import tr_opcodes
from tr_c02_clib import *
import tr_c02_interp as I
import tr_c02_x86pat as X

MIR_T = {'MIR_T_I64': 'CI64', 'MIR_T_U64': 'CU64', 'MIR_T_F': 'CF', 'MIR_T_D': 'CD', 'MIR_T_LD': 'CLD'}


def return_type(src, name):
    """the declared return type of function `name` (text in front of its definition)"""
    for m in re.finditer(r'\b%s\s*\(' % re.escape(name), src):
        i = m.end()
        depth = 1
        while depth and i < len(src):
            depth += {'(': 1, ')': -1}.get(src[i], 0)
            i += 1
        j = i
        while j < len(src) and src[j] in ' \t\r\n':
            j += 1
        if j < len(src) and src[j] == '{':
            k = max(src.rfind(';', 0, m.start()), src.rfind('}', 0, m.start()))
            t = src[k + 1:m.start()]
            t = re.sub(r'\b(static|inline|__inline__|__inline|extern|const)\b', ' ', t)
            t = re.sub(r'__attribute__\s*\(\(.*?\)\)', ' ', t)
            return re.sub(r'\s+', ' ', t).strip()
    return None


class BExec(I.Exec):
    """the interpreter translator's symbolic executor + conversion of a returned value to the declared return type"""

    def eval(self, e, fr):
        r = super().eval(e, fr)
        if e[0] == 'call' and e[1][0] == 'id' and r[0] == 'rv':
            rt = return_type(self.src, e[1][1])
            if rt is None:
                raise Unsupported('return type of ' + e[1][1])
            r = ('rv', conv(ctype_of(rt), r[1]))
        return r


def machinize_codes(src):
    r = find_function(src, 'target_machinize')
    if r is None:
        return None
    m = re.search(r'((?:case\s+MIR_\w+\s*:\s*)+)\{(?:[^{}]|\{[^{}]*\})*?\bget_builtin\s*\(\s*gen_ctx\s*,\s*code\s*,', r[1])
    return re.findall(r'MIR_(\w+)', m.group(1)) if m else None


def builtin_cases(src):
    """[(opcode, text of its case in get_builtin)]"""
    r = find_function(src, 'get_builtin')
    if r is None:
        return []
    body = r[1]
    ms = list(re.finditer(r'((?:case\s+MIR_\w+\s*:\s*)+)', body))
    out = []
    for i, m in enumerate(ms):
        end = ms[i + 1].start() if i + 1 < len(ms) else len(body)
        for op in re.findall(r'MIR_(\w+)', m.group(1)):
            out.append((op, body[m.end():end]))
    return out


def translate(repo):
    src = X.preprocess(repo)
    ops = tr_opcodes.opcodes(repo)
    value_ops = set(ops[:ops.index('LADDR')]) if 'LADDR' in ops else set(ops)
    problems = []
    codes = machinize_codes(src)
    cases = [(o, t) for o, t in builtin_cases(src) if o in value_ops]
    if codes is None:
        # the dispatch in target_machinize is not in the shape known here: every value opcode get_builtin knows is taken
        codes = [o for o, _ in cases]
    codes = [c for c in codes if c in value_ops]
    rows = []
    for op, text in cases:
        try:
            m = re.search(r'_MIR_builtin_func\s*\((?:[^(),]|\([^()]*\))*,(?:[^(),]|\([^()]*\))*,(?:[^(),]|\([^()]*\))*,\s*(\w+)\s*\)', text)
            if not m:
                raise Unsupported('no _MIR_builtin_func call')
            fn = m.group(1)
            mr = re.search(r'\bres_type\s*=\s*(MIR_T_\w+)', text)
            mp = re.search(r'_MIR_builtin_proto\s*\([^;]*?&\s*res_type\s*,\s*(\d+)\s*,\s*(MIR_T_\w+)\s*,', text)
            if not mr or not mp or mp.group(1) != '1' or mr.group(1) not in MIR_T or mp.group(2) not in MIR_T:
                raise Unsupported('prototype of the builtin')
            T, A = MIR_T[mr.group(1)], MIR_T[mp.group(2)]
            ex = BExec(src, {})
            ex.typedefs = set(ex.typedefs) | {'int64_t', 'uint64_t', 'int32_t', 'uint32_t'}
            r = ex.eval(('call', ('id', fn), [('id', '__operand')]), {'__operand': {'type': (None, 0), 'val': ('rv', ('EVar', 1, A))}})
            if ex.effects or r[0] != 'rv':
                raise Unsupported('builtin with side effects')
            st = ('SAssign', T, conv(T, r[1]))
        except Unsupported as e:
            st = ('SUnknown', '%s: %s' % (e, text[:80]))
        except (KeyError, IndexError, ValueError, TypeError, AttributeError) as e:
            st = ('SUnknown', 'translator error %r: %s' % (e, text[:80]))
        rows.append((op, st))
    return rows, codes, problems


def emit(rows, codes):
    s = '(* GENERATED on every run by tools/tr_c02_x86builtin.py from mir-gen-x86_64.c of the checked tree. *)\n'
    s += 'From Coq Require Import ZArith List String.\nFrom MirV Require Import Mir.Opcode Mir.CExpr.\n'
    s += 'Import ListNotations.\nLocal Open Scope Z_scope.\nLocal Open Scope string_scope.\n\n'
    s += '(* the C functions behind the opcodes the x86-64 generator executes by a call (get_builtin), as expressions of the operand *)\n'
    s += 'Definition x86_builtin_table : list (opcode * cstmt) :=\n  [ '
    s += '\n  ; '.join('(%s, %s)' % (o, coq_stmt(st)) for o, st in rows) + ' ].\n\n'
    s += '(* the opcodes target_machinize replaces by a call of their builtin *)\n'
    s += 'Definition x86_builtin_codes : list opcode := [' + '; '.join(codes) + '].\n'
    return s


def main():
    rows, codes, problems = translate(vlib.REPO)
    out = os.path.join(vlib.COQDIR, 'gen', 'X86Builtins.v')
    os.makedirs(os.path.dirname(out), exist_ok=True)
    txt = emit(rows, codes)
    old = open(out).read() if os.path.exists(out) else None
    if old != txt:
        open(out + '.tmp%d' % os.getpid(), 'w').write(txt)
        os.rename(out + '.tmp%d' % os.getpid(), out)
    unk = [o for o, st in rows if st[0] == 'SUnknown']
    print('X86Builtins: %d rows (%s), %d opcodes dispatched to a builtin, %d unknown%s' % (
        len(rows), ' '.join(o for o, _ in rows), len(codes), len(unk), (': ' + ' '.join(unk)) if unk else ''))
    return problems


if __name__ == '__main__':
    main()

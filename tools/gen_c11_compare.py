# Shared by checks/c10.py and checks/c11.py: build the two harness variants and the model driver,
# run cases, parse the '|'-separated result lines, classify failures, shrink.
import os, re, sys, json
import vlib
import gen_c11_modules as G

ASAN_ENV = {'ASAN_OPTIONS': 'detect_leaks=0:abort_on_error=0', 'UBSAN_OPTIONS': 'print_stacktrace=1'}


def build_all(variant='plain'):
    # the hash of the compression layer reads unaligned words on purpose (mir-hash.h, x86): not ours to judge (C12)
    extra = ['-fno-sanitize=alignment'] if variant == 'asan' else []
    raw = vlib.build_harness('c11_io_raw', ['c11_io.c'], variant=variant, units=('mir',), defs=['-DMIR_NO_BIN_COMPRESSION'] + extra)
    cmpr = vlib.build_harness('c11_io', ['c11_io.c'], variant=variant, units=('mir',), defs=extra)
    model = vlib.ocaml_build('c11', 'Extract_C11', ['c11x'], 'driver_c11.ml')
    # private copies: build/repo-* is pruned by concurrent checks of other properties
    import shutil, glob, time
    d = os.path.join(vlib.BUILD, 'c11exe')
    os.makedirs(d, exist_ok=True)
    res = []
    for e in (raw, cmpr):
        tgt = os.path.join(d, '%s-%s-%s' % (vlib.repo_hash(), variant, os.path.basename(e)))
        if not os.path.exists(tgt):
            shutil.copy2(e, tgt + '.tmp%d' % os.getpid())
            os.rename(tgt + '.tmp%d' % os.getpid(), tgt)
        os.utime(tgt)
        res.append(tgt)
    for old in sorted(glob.glob(os.path.join(d, '*')), key=os.path.getmtime)[:-24]:
        if time.time() - os.path.getmtime(old) > 3600:
            try:
                os.remove(old)
            except OSError:
                pass
    return res[0], res[1], model


def tables_tie():
    rc, out, err = vlib.sh([sys.executable, os.path.join(vlib.VERIF, 'tools', 'tr_c11_tables.py'), '--check'])
    rc2, out2, err2 = vlib.sh([sys.executable, os.path.join(vlib.VERIF, 'tools', 'tr_opcodes.py'), '--check'])
    return rc == 0 and rc2 == 0, (out + err + out2 + err2).strip()


def insn_table(exe):
    rc, out, err = vlib.sh([exe, 'table'], check=True)
    return out.strip().split('\n')


def fields(line):
    d = {}
    for f in line.split('|'):
        if '=' in f:
            k, v = f.split('=', 1)
            d[k] = v
    return d


def run(exe, cases, timeout=1800, env=None):
    """-> list of field dicts, one per case (robust to a dying harness)"""
    e = dict(ASAN_ENV)
    if env:
        e.update(env)
    rc, out, err = vlib.run_lines(exe, cases, timeout=timeout, env=e)
    if len(out) != len(cases):
        # the harness itself died (should not happen: cases run in forked children); run one by one
        out = []
        for c in cases:
            r, o, er = vlib.run_lines(exe, [c], timeout=300, env=e)
            out.append(o[0] if o else 'CRASH=harness-died')
    return [fields(l) for l in out]


def run_model(model, cases, timeout=3000):
    """the extracted code is not tail recursive: run it with an unlimited stack"""
    rc, out, err = vlib.sh(['bash', '-c', 'ulimit -s unlimited 2>/dev/null || ulimit -s 4000000; exec "$0"', model],
                           input=('\n'.join(cases) + '\n').encode(), timeout=timeout)
    lines = out.split('\n')[:-1] if out.endswith('\n') else out.split('\n')
    return rc, lines, err


MODEL_MAX_CASE = 120000     # description bytes above which the (quadratic) model is not run


def run_all(exes, cases, jobs=4, which=('raw', 'cmpr', 'model')):
    """-> (raw results, compressed results, model results), the three programs run concurrently and the
    model additionally on `jobs` interleaved slices"""
    from concurrent.futures import ThreadPoolExecutor
    raw, cmpr, model = exes
    n = len(cases)
    k = max(1, min(jobs - 1, n // 8)) if n > 1 else 1
    # big cases dominate: deal the cases round-robin after sorting by size
    order = sorted([i for i in range(n) if len(cases[i]) <= MODEL_MAX_CASE], key=lambda i: -len(cases[i]))
    slices = [sl for sl in (order[j::k] for j in range(k)) if sl] if 'model' in which else []
    with ThreadPoolExecutor(max_workers=jobs + 1) as ex:
        f1 = ex.submit(run, raw, cases) if 'raw' in which else None
        f2 = ex.submit(run, cmpr, cases) if 'cmpr' in which and cmpr != raw else None
        fm = [ex.submit(run_model, model, [cases[i] for i in sl]) for sl in slices]
        r1 = f1.result() if f1 else [{'SKIPPED': '1'} for _ in range(n)]
        r2 = f2.result() if f2 else (r1 if cmpr == raw else [{'SKIPPED': '1'} for _ in range(n)])
        rm = [{'SKIPPED': '1'} for _ in range(n)]
        for sl, f in zip(slices, fm):
            rc, lines, err = f.result()
            if len(lines) != len(sl):
                raise vlib.BuildError('model driver died: rc=%d %s' % (rc, err[-400:]))
            for i, l in zip(sl, lines):
                d = fields(l)
                if l.startswith('DRIVER-ERROR'):
                    d['DRIVER-ERROR'] = l
                rm[i] = d
    return r1, r2, rm


def unhex(h):
    try:
        return bytes.fromhex(h)
    except ValueError:
        return None


def text_of(d, key, ref=None):
    """decoded text of a T-field ('=' means identical to the reference text)"""
    v = d.get(key)
    if v is None:
        return None
    if v == '=':
        return ref
    if v.startswith('ERR'):
        return None
    b = unhex(v)
    return b.decode('latin-1') if b is not None else None


def canon_struct(t, text_path):
    """structural dump (harness field S*) up to what a round trip may change.  Text path (MIR_scan_string): labels are
    names, renumbered per module in order of first occurrence; every integer literal is re-read as MIR_OP_INT with the
    same bits; a non-empty string gets a final NUL if it lacks one (known finding, not generated).  Binary path:
    nothing (labels travel by number)."""
    if t is None or not text_path:
        return t
    out = []
    labs = {}
    for line in t.split('\n'):
        w = line.split(' ')
        if w[0] == 'module':
            labs = {}
        for i, x in enumerate(w):
            if x.startswith('l:') and w[0] in ('insn', 'label', 'lref'):
                if x not in labs:
                    labs[x] = 'l#%d' % (len(labs) + 1)
                w[i] = labs[x]
            elif x.startswith('u:') and w[0] == 'insn':
                w[i] = 'i:' + x[2:]
            elif x.startswith('s:') and w[0] == 'insn' and len(x) > 2 and not x.endswith('00'):
                w[i] = x + '00'
        out.append(' '.join(w))
    return '\n'.join(out)


def first_diff(a, b):
    """first differing line of two dumps, for the message"""
    la, lb = (a or '').split('\n'), (b or '').split('\n')
    for i in range(max(len(la), len(lb))):
        x = la[i] if i < len(la) else '<end>'
        y = lb[i] if i < len(lb) else '<end>'
        if x != y:
            return 'line %d: `%s` became `%s`' % (i + 1, x[:160], y[:160])
    return 'no difference'


LABEL_RE = re.compile(r'\bL(\d+)\b')


def canon_labels_text(t):
    """rename labels L<n> by first occurrence, module by module (the scanner's labels are module-scoped names)"""
    out = []
    for mod in re.split(r'(?<=\tendmodule\n)', t):
        m = {}

        def sub(mm):
            k = mm.group(1)
            if k not in m:
                m[k] = len(m) + 1
            return 'L#%d' % m[k]
        # only label positions: "L<n>:" at line start, and operands " L<n>" / ", L<n>" / "\tL<n>"
        out.append(re.sub(r'(?:(?<=^)|(?<=[\t ,]))L(\d+)\b', sub, mod, flags=re.M))
    return ''.join(out)


def err_class(msg):
    """stable class of an error message (numbers and names removed)"""
    m = re.sub(r'^ERR:', '', msg or '')
    m = re.sub(r'ln \d+', 'ln N', m)
    m = re.sub(r'\d+', 'N', m)
    return m[:80]


def ld_pad_positions(case_line):
    return None


def diff_only_ld_padding(model_hex, impl_hex):
    """True when the byte strings have equal length and differ only inside the 6 padding bytes of a
    TAG_LD payload (the model writes zeros there).  Tokens are re-parsed from the model bytes."""
    a, b = unhex(model_hex), unhex(impl_hex)
    if a is None or b is None or len(a) != len(b):
        return False
    diffs = [i for i in range(len(a)) if a[i] != b[i]]
    if not diffs:
        return True
    pads = set()
    for p in ld_positions(a):
        pads.update(range(p + 11, p + 17))
    return all(i in pads for i in diffs)


def ld_positions(a):
    """offsets of TAG_LD tags in a raw stream (walk header, strings, tokens)"""
    pos = []
    try:
        i = 0

        def uint(i):
            c = a[i]
            if c & 0x80:
                return c & 0x7f, i + 1
            n = c - 1 + 1
            return int.from_bytes(a[i + 1:i + 1 + n], 'little'), i + 1 + n
        _, i = uint(i)
        nstr, i = uint(i)
        for _ in range(nstr):
            ln, i = uint(i)
            i += ln
        while i < len(a):
            c = a[i]
            if c & 0x80:
                i += 1
            elif 1 <= c <= 8:
                i += 1 + c
            elif 9 <= c <= 16:
                i += 1 + (c - 8)
            elif c == 17:
                i += 5
            elif c == 18:
                i += 9
            elif c == 19:
                pos.append(i)
                i += 17
            elif 20 <= c <= 35:
                i += 1 + ((c - 20) % 4 + 1)
            else:
                i += 1
    except IndexError:
        pass
    return pos


def stmt_kinds(case):
    ks = {}
    for s in case.split(';'):
        w = s.split()
        if not w:
            continue
        k = w[0]
        if k == 'insn':
            for o in w[2:]:
                ok = 'op:' + o.split(':', 1)[0]
                ks[ok] = ks.get(ok, 0) + 1
        ks[k] = ks.get(k, 0) + 1
    return ks


def shrink_case(case, fails, max_steps=250):
    """delta debugging that keeps the block structure: first whole items (func..endfunc as one unit),
    then the statements inside the remaining functions"""
    stmts = [s.strip() for s in case.split(';') if s.strip()]
    units, cur = [], None
    for s in stmts:
        k = s.split()[0]
        if k == 'func':
            cur = [s]
        elif k == 'endfunc' and cur is not None:
            cur.append(s)
            units.append(cur)
            cur = None
        elif cur is not None:
            cur.append(s)
        else:
            units.append([s])
    if cur:
        units.append(cur)
    fixed = lambda u: u[0].split()[0] in ('module', 'endmodule', 'exec')

    def join(us):
        return ' ; '.join(s for u in us for s in u)
    idx = [i for i, u in enumerate(units) if not fixed(u)]

    def fails_units(sub):
        keep = set(sub)
        return fails(join([u for i, u in enumerate(units) if fixed(u) or i in keep]))
    keep = vlib.shrink_list(idx, fails_units, max_steps=max_steps // 2) if len(idx) > 1 else idx
    units = [u for i, u in enumerate(units) if fixed(u) or i in set(keep)]
    # inside functions
    for ui, u in enumerate(units):
        if u[0].split()[0] != 'func' or len(u) <= 3:
            continue
        body = list(range(1, len(u) - 1))

        def fails_body(sub):
            nu = [u[0]] + [u[i] for i in sub] + [u[-1]]
            return fails(join(units[:ui] + [nu] + units[ui + 1:]))
        kb = vlib.shrink_list(body, fails_body, max_steps=max_steps // 2)
        if fails_body(kb):
            units[ui] = [u[0]] + [u[i] for i in kb] + [u[-1]]
    return join(units)


def read_corpus(name):
    """corpus lines:  [@sig=<signature>] <case>"""
    p = os.path.join(vlib.VERIF, 'corpus', name)
    res = []
    if os.path.exists(p):
        for l in open(p):
            l = l.strip()
            if not l or l.startswith('#'):
                continue
            sig = None
            m = re.match(r'@sig=(\S+)\s+(.*)', l)
            if m:
                sig, l = m.group(1), m.group(2)
            res.append((sig, l))
    return res

# C09 (round 3, wave y): decoration layer for the preprocessor inputs.  C11 5.1.1.2: phase 2 deletes every
# backslash immediately followed by a new-line; phase 3 replaces every comment by ONE space and only then (phase 4)
# directives are recognised.  So the token sequence of a text does not change when
#   * a run of white space between two pp-tokens is replaced by other white space and/or comments -- inside a
#     directive only space, tab and comments (6.10p5), a /* */ comment may span lines there (it is one space, the
#     directive goes on after it); between ordinary tokens also new-lines and // comments;
#   * backslash-new-line is inserted at ANY character position (inside identifiers, numbers, punctuators, string
#     literals, directive names, between the two characters that open or close a comment ...).
# Inserting a comment where there was no white space is also well-defined (it separates tokens, and it makes the
# spelling seen by # differ) -- done with a smaller probability, never between a macro name and the `(` of its
# parameter list in a #define.  The check compares `c2m -E` with gcc and clang on the decorated text.
import re
import gen_c09_macro as M

_LEXD = re.compile(r'(?P<ws>[ \t]+)|' + M._TOK.pattern, re.X)

# the inside of comments: things that look like openers, closers, quotes, directives, macro names
_BLOCK_1 = ['', ' ', ' c ', '*', '**', ' // ', ' /* ', ' " ', " ' ", " don't ", ' #define X 1 ', ' \\ ',
            '/', ' a * / b ', ' #endif ', ' @ $ ` ']
_BLOCK_N = ['\n', ' a\n b ', '\n\n', ' x\n * y\n ', '\n#define X 1\n', ' "\n', " '\n ", ' //\n', '*\n*', '\n#endif\n',
            ' /*\n', ' tail \\\n spliced ', '\n/', '/\n']
_LINE_C = ['', ' c', ' /* not open', ' */', " don't", ' "', ' #define X 1', ' // again', ' tail \\\n continued comment',
           '/', '*']


# `#include H("f.h" )`: a macro-expanded #include operand that ends in white space is rejected by /repo 166dfacf
# ("wrong #include", fixes/C09-9.patch); checks/c09.py measures it on the tree under test and sets this switch
INCLUDE_TRAILING_WS_OK = False


def well_formed(text, strict=False):
    """translation phases 2-3 by hand: False when the text has an unterminated comment / string / character constant, a
    stray quote (strict: or a backslash outside literals) after comment removal, or ends in backslash-new-line -- inputs whose
    behaviour C11 leaves undefined (6.4p3, 5.1.1.2p2); used to keep the shrinker inside the property's quantifier"""
    if text.endswith('\\\n') or (text and not text.endswith('\n')):
        return False
    t = text.replace('\\\n', '')
    i, n = 0, len(t)
    while i < n:
        c = t[i]
        if c == '/' and t[i + 1:i + 2] == '*':
            j = t.find('*/', i + 2)
            if j < 0:
                return False
            i = j + 2
        elif c == '/' and t[i + 1:i + 2] == '/':
            j = t.find('\n', i)
            i = n if j < 0 else j
        elif c in '"\'':
            j = i + 1
            while j < n and t[j] != c:
                if t[j] == '\n':
                    return False
                j += 2 if t[j] == '\\' else 1
            if j >= n:
                return False
            i = j + 1
        elif c == '\\' and strict:
            return False        # a pp-token of its own; next to # it can make an invalid string literal (6.10.3.2p2)
        else:
            i += 1
    return True


def block_comment(rng, multi, names=()):
    if multi:
        body = rng.choice(_BLOCK_N)
    else:
        body = rng.choice(_BLOCK_1)
    if names and rng.random() < 0.25:
        body += ' ' + rng.choice(list(names)) + '(1) '
    return '/*' + body + '*/'


def ws_variant(rng, directive, feats, names, had_ws):
    """a replacement for the white space between two tokens (had_ws) or something to put between two adjacent tokens"""
    k = rng.random()
    pad_l = rng.choice(['', ' ', '\t']) if had_ws else ''
    pad_r = rng.choice(['', ' ', '  ']) if had_ws else ''
    if k < 0.40:
        feats.add('block-comment' + ('' if had_ws else '-as-separator'))
        return pad_l + block_comment(rng, False, names) + pad_r
    if k < 0.75:
        feats.add(('multi-line-comment-in-directive' if directive else 'multi-line-comment') + ('' if had_ws else '-as-separator'))
        return pad_l + block_comment(rng, True, names) + pad_r
    if k < 0.83:
        feats.add('two-comments')
        return pad_l + block_comment(rng, rng.random() < 0.5, names) + rng.choice(['', ' ']) + block_comment(rng, rng.random() < 0.5, names) + pad_r
    if not had_ws:
        feats.add('block-comment-as-separator')
        return '/**/'
    if directive:
        return rng.choice(['\t', '  ', ' \t '])
    k = rng.random()
    if k < 0.4:
        feats.add('newline-between-tokens')
        return rng.choice(['\n', ' \n ', '\n\n'])
    if k < 0.8:
        feats.add('line-comment-between-tokens')
        return ' //' + rng.choice(_LINE_C) + '\n'
    return rng.choice(['\t', '  ', '\f', '\v'])


def decorate_line(rng, line, feats, names=(), p_ws=0.3, p_sep=0.06, p_tail=0.2):
    """one source line (no new-line inside) -> decorated text (may span several lines)"""
    pieces = []
    pos = 0
    for m in _LEXD.finditer(line):
        if m.start() != pos:
            return line                     # something this lexer does not know: leave the line alone
        pos = m.end()
        pieces.append(('w' if m.group('ws') is not None else 't', m.group(0)))
    if pos != len(line):
        return line
    toks = [s for k, s in pieces if k == 't']
    directive = bool(toks) and toks[0] == '#'
    is_define = directive and len(toks) > 1 and toks[1] == 'define'
    is_include = directive and len(toks) > 1 and toks[1] == 'include'
    if is_include and '<' in toks:
        return line                         # <header> is not a sequence of ordinary pp-tokens
    out = []
    nt = 0                                  # tokens seen so far
    prev = None

    def incl_guard(nxt):
        return is_include and nxt == ')' and not INCLUDE_TRAILING_WS_OK

    def sep_ok(nxt):
        if incl_guard(nxt):
            return False
        # never glue `/` to a comment opener, never separate a #define's name from its `(`
        if prev is None:
            return True
        if is_define and nt == 3 and nxt == '(':
            return False
        return True

    i = 0
    n = len(pieces)
    # slot before the first token
    if pieces and pieces[0][0] == 't' and rng.random() < p_sep * 2:
        feats.add('comment-before-first-token' + ('-of-directive' if directive else ''))
        out.append(block_comment(rng, rng.random() < 0.4, names) + rng.choice(['', ' ']))
    while i < n:
        k, s = pieces[i]
        if k == 'w':
            if prev is not None and i + 1 < n and rng.random() < p_ws and not incl_guard(pieces[i + 1][1]):
                v = ws_variant(rng, directive, feats, names, True)
                if prev == '/' and v.startswith('/'):
                    v = ' ' + v
                out.append(v)
            else:
                out.append(s)
        else:
            if prev is not None and pieces[i - 1][0] == 't' and rng.random() < p_sep and sep_ok(s):
                v = ws_variant(rng, directive, feats, names, False)
                if prev == '/' and v.startswith('/'):
                    v = ' ' + v
                out.append(v)
            out.append(s)
            prev = s
            nt += 1
        i += 1
    if rng.random() < p_tail:
        k = rng.random()
        if k < 0.5:
            feats.add('line-comment-at-end' + ('-of-directive' if directive else ''))
            out.append(rng.choice(['', ' ']) + ('' if prev != '/' else ' ') + '//' + rng.choice(_LINE_C))
        else:
            feats.add('block-comment-at-end' + ('-of-directive' if directive else ''))
            out.append((' ' if prev == '/' else rng.choice(['', ' '])) + block_comment(rng, rng.random() < 0.5, names))
    return ''.join(out)


def splice(rng, text, feats, p_line=0.3):
    """backslash-new-line at random character positions (never changes anything after translation phase 2); the
    positions next to an existing new-line are left alone only where a `\\` precedes (that would be a different splice)"""
    lines = text.split('\n')
    out = []
    for li, line in enumerate(lines):
        if line and rng.random() < p_line:
            for _ in range(rng.choice([1, 1, 2, 3])):
                p = rng.randint(0, len(line))
                if p > 0 and line[p - 1] == '\\':
                    continue                # `\\` `\\` new-line: which backslash goes would depend on the reading
                line = line[:p] + '\\\n' + line[p:]
            feats.add('splice')
            if re.search(r'[A-Za-z0-9_]\\\n[A-Za-z0-9_]', line):
                feats.add('splice-inside-word')
            if re.search(r'^\s*#[^\n]*\\\n|^\s*\\\n\s*#', line):
                feats.add('splice-in-directive')
            if re.search(r'[^\sA-Za-z0-9_]\\\n[^\sA-Za-z0-9_]', line):
                feats.add('splice-between-punctuation-characters')
        out.append(line)
    return '\n'.join(out)


def decorate(rng, text, names=(), level=None):
    """text: a generated case (lines end with new-line) -> (decorated text, features)"""
    feats = set()
    level = level if level is not None else rng.choice([0.15, 0.3, 0.3, 0.5])
    lines = text.split('\n')
    last = len(lines) - 1 if lines and lines[-1] == '' else len(lines)
    out = []
    for li, line in enumerate(lines):
        if li >= last or not line:
            out.append(line)
            continue
        out.append(decorate_line(rng, line, feats, names, p_ws=level, p_sep=level / 5, p_tail=level / 1.5))
    res = '\n'.join(out)
    if rng.random() < 0.6:
        res = splice(rng, res, feats, p_line=rng.choice([0.15, 0.3, 0.6]))
    return res, sorted(feats)


# ------------------------------------------------------------------ sources that the macro generator does not produce
INC_NAME = 'c09inc.h'
INC_TEXT = ('/* header used by the #include cases */\n#ifndef C09INC_N\n#define C09INC_N 0\n#endif\n'
            '#define C09INC(x) [ x , C09INC_N ]\nc09inc_body ;\n')


def gen_include_case(rng, idx):
    """#include in its three forms (6.10.2: "h", macro-expanded) followed by a use of what the header defines"""
    px = 'n%d_' % idx
    k = rng.random()
    lines = []
    if rng.random() < 0.5:
        lines.append('#define C09INC_N %s' % rng.choice(['1', '22', px + 'v']))
    if k < 0.6:
        lines.append('#include "%s"' % INC_NAME)
        f = 'include-quoted'
    elif k < 0.85:
        lines.append('#define %sH "%s"' % (px, INC_NAME))
        lines.append('#include %sH' % px)
        f = 'include-macro'
    else:
        lines.append('#define %sH(x) x' % px)
        lines.append('#include %sH("%s")' % (px, INC_NAME))
        f = 'include-macro-call'
    lines.append('C09INC(%s) ;' % rng.choice(['1', 'p', 'C09INC_N', 'C09INC(2)']))
    lines.append('#undef C09INC')
    lines.append('#undef C09INC_N')
    return '\n'.join(lines) + '\n', [f]

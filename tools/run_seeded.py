#!/usr/bin/env python3
# Runs the registered check of a property against seeded breaking changes WITHOUT touching /repo:
# each patch is applied in a scratch worktree under /var/tmp which the check reads via VERIF_REPO.
# usage: tools/run_seeded.py [--tier quick] [--patch FILE --prop Cxx | seeded-dir ...]
import sys, os, json, subprocess, glob, shutil, argparse, time
H = os.path.dirname(os.path.dirname(os.path.abspath(__file__)))


def run_patch(prop, patch, tier='quick', seed='1', keep=False):
    wt = '/var/tmp/seed-%s-%d' % (prop, os.getpid())
    subprocess.run(['git', '-C', '/repo', 'worktree', 'add', '-q', '--detach', wt], check=True)
    try:
        r = subprocess.run(['git', '-C', wt, 'apply', '--3way', os.path.abspath(patch)], capture_output=True, text=True)
        if r.returncode != 0:
            r = subprocess.run(['git', '-C', wt, 'apply', os.path.abspath(patch)], capture_output=True, text=True)
            if r.returncode != 0:
                return dict(applied=False, err=r.stderr[-500:])
        env = dict(os.environ, VERIF_REPO=wt, VERIF_SEED=seed)
        t0 = time.time()
        p = subprocess.run([os.path.join(H, 'check'), prop, '--tier', tier], cwd=H, env=env, capture_output=True, text=True)
        viol = [l for l in p.stdout.split('\n') if l.startswith('VIOLATION')]
        return dict(applied=True, rc=p.returncode, caught=bool(viol) and p.returncode == 1, violations=viol[:3],
                    no_input=any('no-failing-input-found' in v for v in viol), wall=round(time.time() - t0, 1),
                    tail=p.stdout[-600:] if not viol else '')
    finally:
        subprocess.run(['git', '-C', '/repo', 'worktree', 'remove', '--force', wt])


if __name__ == '__main__':
    ap = argparse.ArgumentParser()
    ap.add_argument('--tier', default='quick')
    ap.add_argument('--seed', default='1')
    ap.add_argument('--patch')
    ap.add_argument('--prop')
    ap.add_argument('dirs', nargs='*')
    a = ap.parse_args()
    if a.patch:
        print(json.dumps(run_patch(a.prop, a.patch, a.tier, a.seed), indent=1))
        sys.exit(0)
    dirs = a.dirs or sorted(glob.glob(os.path.join(H, 'seeded', '*')))
    for d in dirs:
        mf = os.path.join(d, 'meta.json')
        if not os.path.exists(mf):
            continue
        m = json.load(open(mf))
        res = run_patch(m['property'], os.path.join(d, 'patch.diff'), a.tier, a.seed)
        print('%-28s %s %s' % (os.path.basename(d), m['property'], json.dumps(res)))

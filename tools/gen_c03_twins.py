#!/usr/bin/env python3
# C03, round 3 (wave 6): "prototype twins" -- ONE program (one context, one interpreter) making several calls through
# prototypes that are identical except for ONE detail, in both orders.
#
# Everything an engine caches per call SHAPE (mir-interp.c get_ff_interface: the machine-code stubs of _MIR_get_ff_call
# keyed by arg_vars_num / nres / nargs / result types / argument types / block sizes; the interpreter shims of
# _MIR_get_interp_shim; wrappers) is only exercised by a program in which a second call has ALMOST the key of an
# earlier one.  The programs of gen_c03_progs.py / gen_c03_abi.py give every callee its own, unrelated prototype, and
# each call line runs in a fresh context: a cache hit with a different size / type never happened.
#
# A family = a base parameter list + neighbours differing in one detail:
#   size    size of one by-value block of a class (blk1: 1..16, blk2: 4..16, blk3/4: 9..16, blk: 8..64, rblk: 8..48)
#   kind    class of one block of the same size (blk / blk1..blk4 / rblk)
#   itype   type of one integer argument (i64 i32 u8 i16 u32 i8 u16 u64 p)
#   ftype   type of one floating argument (f d ld)
#   ret     result type (i64 i32 u8 d f ld)
#   nargs   one more / one fewer trailing argument
#   va      number of variable arguments of the C function ext_va (same prototype, different call insns)
#   cnat    native C functions of harness/c03_prog.h taking a structure / scalar by value (ext_s4 .. ext_m40, ext_i32 ..)
# Callees are MIR functions of an earlier module entered through their address in a register (so the interpreter goes
# through a call stub and every engine keeps the call) or by name, or C functions imported from the harness.
# Two entries run the same calls in opposite orders (drv_f: as listed, drv_r: reversed); the check calls them in both
# sequences in one context and alone.  Every callee folds every argument byte into its result; the expected value of
# an entry is computed here (expected ()) and compared too.
import struct
import gen_c03_abi as A

M64 = (1 << 64) - 1
NW = 24   # words of the driver's buffer
NP = 12   # parameter positions


def sx(v, bits):
    v &= (1 << bits) - 1
    return v - (1 << bits) if v >> (bits - 1) else v


EXT = {'i64': lambda v: v, 'u64': lambda v: v, 'p': lambda v: v, 'i32': lambda v: sx(v, 32), 'u32': lambda v: v & 0xffffffff,
       'i16': lambda v: sx(v, 16), 'u16': lambda v: v & 0xffff, 'i8': lambda v: sx(v, 8), 'u8': lambda v: v & 0xff}
RETS = ['i64', 'i32', 'u8', 'd', 'f', 'ld', 'u32', 'i8', 'i16', 'u16', 'u64', 'p']   # (wave 7) every result type
# (wave 7) second results: functions with TWO results, every mix of classes in both orders
RETS2 = ['i64', 'i64', 'd', 'd', 'f', 'i32', 'u32', 'u8', 'i16', 'p', 'ld']
# pairs a C caller sees as a two-eightbyte structure (f,f would share one eightbyte; ld pairs are x87 / MEMORY)
C_PAIR_T = ['i64', 'i64', 'd', 'd', 'f', 'i32', 'u32', 'u8', 'i16', 'u16', 'i8', 'p', 'u64']
SIZES = {0: [8, 16, 17, 24, 40, 64], 1: [1, 3, 7, 8, 9, 12, 15, 16], 2: [4, 8, 12, 16], 3: [9, 12, 13, 16], 4: [9, 12, 13, 16]}
RBLK_SIZES = [8, 16, 24, 48]
# native C callees of harness/c03_prog.h: name -> parameter
CNAT = {'ext_s1': ('blk', 1, 1), 'ext_s4': ('blk', 1, 4), 'ext_s8': ('blk', 1, 8), 'ext_s12': ('blk', 1, 12), 'ext_s16': ('blk', 1, 16),
        'ext_sf4': ('blk', 2, 4), 'ext_sd8': ('blk', 2, 8), 'ext_sd16': ('blk', 2, 16),
        'ext_sid': ('blk', 3, 16), 'ext_sdi': ('blk', 4, 16),
        'ext_m17': ('blk', 0, 17), 'ext_m24': ('blk', 0, 24), 'ext_m40': ('blk', 0, 40),
        'ext_i64': 'i64', 'ext_i32': 'i32', 'ext_u8': 'u8', 'ext_i16': 'i16', 'ext_f1': 'f', 'ext_d1': 'd',
        'ext_ri8': 'i64', 'ext_ru8': 'i64', 'ext_ri16': 'i64', 'ext_ru16': 'i64', 'ext_ri32': 'i64', 'ext_ru32': 'i64', 'ext_ru64': 'i64'}
# (wave 7) result type of the prototype a native callee is called through (default i64): the C function returns the
# whole 64-bit hash, the caller has to narrow it to the prototype's type
CNAT_RET = {'ext_ri8': 'i8', 'ext_ru8': 'u8', 'ext_ri16': 'i16', 'ext_ru16': 'u16', 'ext_ri32': 'i32', 'ext_ru32': 'u32', 'ext_ru64': 'u64'}
CNAT_FAMS = [['ext_s1', 'ext_s4', 'ext_s8', 'ext_s12', 'ext_s16'], ['ext_sf4', 'ext_sd8', 'ext_sd16'],
             ['ext_s16', 'ext_sd16', 'ext_sid', 'ext_sdi', 'ext_m17', 'ext_m24'], ['ext_s8', 'ext_sd8', 'ext_i64', 'ext_d1'],
             ['ext_m17', 'ext_m24', 'ext_m40'], ['ext_i64', 'ext_i32', 'ext_u8', 'ext_i16'], ['ext_f1', 'ext_d1'],
             ['ext_i64', 'ext_ri8', 'ext_ru8', 'ext_ri16', 'ext_ru16', 'ext_ri32', 'ext_ru32', 'ext_ru64'],
             ['ext_ri32', 'ext_ru32', 'ext_i64'], ['ext_ri8', 'ext_ru8', 'ext_ri16', 'ext_ru16']]


def rand_param(rng):
    r = rng.random()
    if r < 0.4:
        return rng.choice(A.INT_T)
    if r < 0.6:
        return rng.choice(['d', 'd', 'f', 'ld'])
    if r < 0.9:
        c = rng.randrange(5)
        return ('blk', c, rng.choice(SIZES[c]))
    return ('rblk', rng.choice(RBLK_SIZES))


def rclass(t):
    return 'f' if t in ('f', 'd') else 'x' if t == 'ld' else 'i'


def family(rng, what):
    """-> list of (params, ret) differing in one detail"""
    pre = [rand_param(rng) for _ in range(rng.choice([0, 0, 1, 2, 5, 6]))]
    post = [rand_param(rng) for _ in range(rng.choice([0, 0, 1, 2]))]
    if sum(1 for p in pre + post if A.is_rblk(p)) > 1:     # one result block area in the driver
        pre = [p for p in pre if not A.is_rblk(p)]
    ret = rng.choice(RETS)
    if what == 'size':
        c = rng.choice([1, 1, 1, 2, 2, 3, 4, 0, 'r'])
        if c == 'r':
            pre, post = [p for p in pre if not A.is_rblk(p)], [p for p in post if not A.is_rblk(p)]
            foc = [('rblk', s) for s in RBLK_SIZES]
        else:
            foc = [('blk', c, s) for s in rng.sample(SIZES[c], min(len(SIZES[c]), rng.randint(2, 5)))]
    elif what == 'kind':
        s = rng.choice([8, 16, 16, 12])
        pre, post = [p for p in pre if not A.is_rblk(p)], [p for p in post if not A.is_rblk(p)]
        foc = [('blk', c, s) for c in range(5) if s in SIZES[c] or c == 0] + [('rblk', s if s % 8 == 0 else 16)]
    elif what == 'itype':
        foc = rng.sample(A.INT_T, rng.randint(2, 5))
    elif what == 'ftype':
        foc = ['f', 'd', 'ld']
    elif what == 'ret':
        return [(pre + post, r) for r in rng.sample(RETS, rng.randint(4, len(RETS)))]
    elif what == 'mret':    # two results: the same first / second type with every other type in the other place, both orders
        t = rng.choice(RETS2)
        fam = [(pre + post, (t, u) if rng.random() < 0.5 else (u, t)) for u in rng.sample(sorted(set(RETS2)), rng.randint(3, 6))]
        fam += [(pre + post, (t,)), (pre + post, fam[0][1][::-1])]    # one result only; the first pair in the other order
        for _ in range(rng.choice([0, 1, 2])):      # three / four results, at most two per register class, any order
            while True:
                ts = tuple(rng.choice(RETS2) for _ in range(rng.choice([3, 3, 4])))
                if all(sum(1 for x in ts if rclass(x) == c) <= 2 for c in 'ifx'):
                    break
            fam.append((pre + post, ts))
        return [f for k, f in enumerate(fam) if f not in fam[:k]]
    else:   # nargs
        base = pre + post
        ext = [p for p in (rand_param(rng), rand_param(rng)) if not A.is_rblk(p)]
        fam = [(base + ext[:k], ret) for k in range(len(ext) + 1)]
        if base:
            fam.append((base[:-1], ret))
        return fam
    rng.shuffle(foc)
    return [(pre + [f] + post, ret) for f in foc]


def gen_program(rng):
    nfam = rng.randint(1, 3)
    kinds = [rng.choice(['size', 'size', 'size', 'kind', 'itype', 'ftype', 'ret', 'ret', 'nargs', 'mret', 'mret']) for _ in range(nfam)]
    callees, calls = [], []       # calls: ('mir', callee index, how) | ('c', name) | ('va', k)
    for what in kinds:
        for params, ret in family(rng, what):
            rets = list(ret) if isinstance(ret, tuple) else [ret]
            callees.append(dict(name='tw%d' % len(callees), params=list(params), ret=', '.join(rets), rets=rets, raw=rng.random() < 0.4))
            calls.append(('mir', len(callees) - 1, rng.choice(['reg', 'reg', 'name'])))
    if rng.random() < 0.6:
        kinds.append('cnat')
        fam = rng.choice(CNAT_FAMS)
        for n in rng.sample(fam, rng.randint(2, len(fam))):
            calls.append(('c', n))
    if rng.random() < 0.4:
        kinds.append('va')
        for k in rng.sample(range(0, 6), rng.randint(2, 4)):
            calls.append(('va', k))
    if rng.random() < 0.5:       # families interleaved instead of one after the other
        rng.shuffle(calls)
    # (wave 7) entries with two results called from C through their public address (and by MIR_interp_arr)
    mres = []
    for k in range(rng.randint(1, 3)):
        while True:
            ts = [rng.choice(C_PAIR_T), rng.choice(C_PAIR_T)]
            if ts != ['f', 'f']:
                break
        mres.append(dict(name='mre%d' % k, rets=ts, raw=rng.random() < 0.4))
    return dict(callees=callees, calls=calls, kinds=kinds, mres=mres)


def callee_text(c):
    o = ['%s: func %s' % (c['name'], A.sig_text(c)), '  local i64:r, i64:t, d:dt, f:ft, ld:rx, ' + RLOCALS]
    b = ['mov r, 17', 'mov t, 0']
    for j, p in enumerate(c['params']):
        b += A.fold_param(p, 'a%d' % j)
    for j, p in enumerate(c['params']):
        if A.is_rblk(p):
            for off in range(0, p[1], 8):
                b += ['add t, r, %d' % off, 'mov i64:%d(a%d), t' % (off, j)]
    b += ret_code(c['rets'], 'r', c.get('raw', False))
    return o + ['  ' + l for l in b] + ['  endfunc']


RLOCALS = ', '.join('i64:q%d, d:qd%d, f:qf%d, ld:qx%d' % (k, k, k, k) for k in range(4))
NARROW = {'i64': 'mov', 'u64': 'mov', 'p': 'mov', 'i32': 'ext32', 'u32': 'uext32', 'i16': 'ext16', 'u16': 'uext16', 'i8': 'ext8', 'u8': 'uext8'}


def ret_code(rets, h, raw=False):
    """the function's results from the hash in register h (result k: res_hash (h, k) narrowed / converted to its type)"""
    b, regs = [], []
    for k, ty in enumerate(rets):
        b.append('mov q%d, %s' % (k, h) if k == 0 else 'mul q%d, %s, 33' % (k, h))
        if k:
            b.append('add q%d, q%d, %d' % (k, k, k))
        if ty in NARROW:
            if not raw:     # raw: the function returns the whole 64-bit hash, narrowing to the result type is the engines' job
                b.append('%s q%d, q%d' % (NARROW[ty], k, k))
            regs.append('q%d' % k)
        elif ty == 'd':
            b += ['and q%d, q%d, 1048575' % (k, k), 'i2d qd%d, q%d' % (k, k), 'dmul qd%d, qd%d, 0.5' % (k, k)]
            regs.append('qd%d' % k)
        elif ty == 'f':
            b += ['and q%d, q%d, 65535' % (k, k), 'i2f qf%d, q%d' % (k, k), 'fmul qf%d, qf%d, 0.5f' % (k, k)]
            regs.append('qf%d' % k)
        else:
            b += ['and q%d, q%d, 1048575' % (k, k), 'i2ld qx%d, q%d' % (k, k)]
            regs.append('qx%d' % k)
    return b + ['ret ' + ', '.join(regs)]


def fconst(p, j):
    return {'d': '%d.5', 'f': '%d.5f', 'ld': '%d.5l'}[p] % (j + 1)


def call_lines(d, k, call):
    """MIR lines of call number k of the driver"""
    o = []
    if call[0] == 'va':
        return ['call pv, ext_va, ri, %d%s' % (call[1], ''.join(', iv%d' % j for j in range(call[1]))), 'mov t, ri'] + A.FOLD
    if call[0] == 'c':
        p = CNAT[call[1]]
        arg = A.ptext(p, 'bp0') if A.is_blk(p) else (fconst(p, 0) if p in ('f', 'd') else 'iv0')
        return ['mov ri, -1', 'call pc_%s, %s, ri, %s' % (call[1], call[1], arg), 'mov t, ri'] + A.FOLD
    c = d['callees'][call[1]]
    args = []
    for j, p in enumerate(c['params']):
        if A.is_blk(p):
            args.append(A.ptext(p, 'bp%d' % j))
        elif A.is_rblk(p):
            for off in range(0, 48, 8):
                o.append('mov i64:%d(rb), 0' % off)
            args.append('rblk:%d(rb)' % p[1])
        elif p in ('d', 'f', 'ld'):
            args.append(fconst(p, j))
        else:
            args.append('iv%d' % j)
    res = [{'d': 'rd', 'f': 'rf', 'ld': 'rx'}.get(ty, 'ri') + (str(k + 1) if k else '') for k, ty in enumerate(c['rets'])]
    for x in res:     # whatever the register held before is not part of the result
        if x.startswith('ri'):
            o.append('mov %s, -1' % x)
    tgt = c['name']
    if call[2] == 'reg':
        o.append('mov t3, %s' % c['name'])
        tgt = 't3'
    o.append('call p_%s, %s, %s%s' % (c['name'], tgt, ', '.join(res), ''.join(', ' + a for a in args)))
    for x in res:
        o += {'ri': ['mov t, %s' % x], 'rd': ['dmul dt, %s, 2.0' % x, 'd2i t, dt'], 'rf': ['f2d dt, %s' % x, 'dmul dt, dt, 2.0', 'd2i t, dt'],
              'rx': ['ld2i t, %s' % x]}[x[:2]] + A.FOLD
    for p in c['params']:
        if A.is_rblk(p):
            for off in range(0, p[1], 8):
                o += ['mov t, i64:%d(rb)' % off] + A.FOLD
    return o


def driver_text(d, name, calls):
    o = ['%s: func i64, i64:a0, i64:a1' % name,
         '  local i64:r, i64:t, i64:t3, d:dt, i64:ri, d:rd, f:rf, ld:rx, ' + ', '.join('i64:ri%d, d:rd%d, f:rf%d, ld:rx%d' % (k, k, k, k) for k in (2, 3, 4)) + ', i64:buf, i64:rb, '
         + ', '.join('i64:iv%d' % k for k in range(NP)) + ', ' + ', '.join('i64:bp%d' % k for k in range(NP))]
    b = ['mov r, 5', 'mov t, 0', 'mov ri, 0', 'alloca buf, %d' % (8 * NW), 'alloca rb, 48']
    for k in range(NW):
        b += ['mul t, a0, %d' % (2 * k + 3), 'add t, t, a1', 'add t, t, %d' % k, 'mov i64:%d(buf), t' % (8 * k)]
    for k in range(NP):
        b += ['mov iv%d, i64:%d(buf)' % (k, 8 * k), 'add bp%d, buf, %d' % (k, 8 * k)]
    for k, call in enumerate(calls):
        b += call_lines(d, k, call)
    for k in range(NW):     # by-value copies: the caller's buffer is as it was
        b += ['mov t, i64:%d(buf)' % (8 * k)] + A.FOLD
    b.append('ret r')
    return o + ['  ' + l for l in b] + ['  endfunc']


def emit(d):
    o = ['m0: module', '  export ' + ', '.join(c['name'] for c in d['callees'])] if d['callees'] else ['m0: module']
    for c in d['callees']:
        o += callee_text(c)
    if not d['callees']:
        o += ['  export t_none', 't_none: func i64', '  ret 0', '  endfunc']
    o.append('  endmodule')
    o += ['m1: module', '  export drv_f, drv_r']
    if d['callees']:
        o.append('  import ' + ', '.join(c['name'] for c in d['callees']))
    for c in d['callees']:
        o.append('p_%s: proto %s' % (c['name'], A.sig_text(c)))
    cn = sorted(set(x[1] for x in d['calls'] if x[0] == 'c'))
    for n in cn:
        o += ['  import %s' % n, 'pc_%s: proto %s, %s' % (n, CNAT_RET.get(n, 'i64'), A.ptext(CNAT[n], 'a0'))]
    if any(x[0] == 'va' for x in d['calls']):
        o += ['  import ext_va', 'pv: proto i64, i64:n, ...']
    o += driver_text(d, 'drv_f', d['calls'])
    o += driver_text(d, 'drv_r', list(reversed(d['calls'])))
    for m in d['mres']:
        o += ['  export ' + m['name'], '%s: func %s, i64:a0, i64:a1' % (m['name'], ', '.join(m['rets'])), '  local i64:r, ' + RLOCALS,
              '  mul r, a0, 3', '  add r, r, a1'] + ['  ' + l for l in ret_code(m['rets'], 'r', m['raw'])] + ['  endfunc']
    o.append('  endmodule')
    return '\n'.join(o) + '\n'


# ---------------------------------------------------------------- expected values

def fold(r, t):
    return (r * 31 + t) & M64


def fold_val(r, p, words, pos):
    """what a callee (MIR or C) adds to its hash for parameter p at position pos"""
    if A.is_blk(p):
        raw = b''.join(struct.pack('<Q', w) for w in words[pos:pos + 9])
        s = p[2]
        for off in range(0, s - s % 8, 8):
            r = fold(r, struct.unpack_from('<Q', raw, off)[0])
        for off in range(s - s % 8, s):
            r = fold(r, raw[off])
        return r
    if A.is_rblk(p):
        return r
    if p in ('d', 'f', 'ld'):
        return fold(r, 4 * (pos + 1) + 2)
    return fold(r, EXT[p](words[pos]))


def ret_val(r, ret):
    if ret in EXT:
        return EXT[ret](r) & M64
    return {'d': r & 1048575, 'f': r & 65535, 'ld': r & 1048575}[ret] & M64


def res_hash(h, k):
    return h if k == 0 else (h * 33 + k) & M64


def expected_mre(m, a0, a1):
    """the words the harness prints for a two-result entry called from C: integers narrowed, d / f as their bits"""
    h, o = (a0 * 3 + a1) & M64, []
    for k, ty in enumerate(m['rets']):
        v = res_hash(h, k)
        if ty in EXT:
            o.append(sx(EXT[ty](v) & M64, 64))
        elif ty == 'd':
            o.append(struct.unpack('<q', struct.pack('<d', (v & 1048575) * 0.5))[0])
        else:
            o.append(struct.unpack('<I', struct.pack('<f', (v & 65535) * 0.5))[0])
    return o


def expected(d, rev, a0, a1):
    words = [(a0 * (2 * k + 3) + a1 + k) & M64 for k in range(NW)]
    r = 5
    for call in (list(reversed(d['calls'])) if rev else d['calls']):
        if call[0] == 'va':
            s = call[1]
            for j in range(call[1]):
                s = (s * 5 + words[j]) & M64
            r = fold(r, s)
        elif call[0] == 'c':
            r = fold(r, ret_val(fold_val(17, CNAT[call[1]], words, 0), CNAT_RET.get(call[1], 'i64')))
        else:
            c = d['callees'][call[1]]
            h = 17
            for j, p in enumerate(c['params']):
                h = fold_val(h, p, words, j)
            for k, ty in enumerate(c['rets']):
                r = fold(r, ret_val(res_hash(h, k), ty))
            for p in c['params']:
                if A.is_rblk(p):
                    for off in range(0, p[1], 8):
                        r = fold(r, (h + off) & M64)
    for k in range(NW):
        r = fold(r, words[k])
    return sx(r, 64)


def program(rng):
    """the dict shape of gen_c03_progs.gen_program"""
    d = gen_program(rng)
    funcs = [dict(name=c['name'], module=0, kind='twin', lref=False) for c in d['callees']]
    funcs += [dict(name=m['name'], module=1, kind='twin', lref=False) for m in d['mres']]
    ents = [dict(name=n, module=1, kind='ii', lref=False) for n in ('drv_f', 'drv_r')]
    return dict(text=emit(d), nmodules=2, layered=True, funcs=funcs + ents, entries=ents, features=sorted(set(d['kinds'])), desc=d)


if __name__ == '__main__':
    import random, sys
    rng = random.Random(int(sys.argv[1]) if len(sys.argv) > 1 else 1)
    p = program(rng)
    sys.stdout.write(p['text'])
    sys.stderr.write('%s f=%d r=%d\n' % (p['features'], expected(p['desc'], False, 3, 4), expected(p['desc'], True, 3, 4)))

# C07 part P (round 3, wave y): address constants.  C11 6.6p9: an address constant is a pointer to an lvalue designating
# an object of static storage duration (or a null pointer, or a function designator); it is created with unary & or by
# the decay of an array, and the operators [] . -> & * and pointer casts may be used in creating it, plus/minus an
# integer constant expression.  c2mir evaluates them in check_const_addr_p (base object + byte offset) for every
# static-storage initialiser and for the offsetof idiom `(size_t) &((T *) 0)->m...`.  The generator builds random
# aggregate types (multi-dimensional arrays, structs with array members, nested structs, arrays of structs, unions),
# walks a random designator path into an object and writes the address of the designated sub-object in many
# equivalent spellings, in every static context (file scope, block scope, members of static aggregates, designated
# initialisers) and once at run time; the observable is the byte offset of the pointer from the start of the object
# (printed by the program; gcc is the reference; the Python layout below predicts it too).
# Everything is UB-free: indices stay inside their array (one past the end only for the outermost & / + form).

# c2mir (at /repo 166dfacf) rejects, with an error, address constants in which an array-typed SUB-object decays (`g[1]`,
# `g[1] + 2`, `*(g + 1)`, `s.v`, `s.v + 1`) and the commuted subscript `1[g]`: outside its supported subset, so the generator
# does not emit them unless these switches are on (development: to see what a fix of that limitation would have to pass)
DECAY_SUBOBJECT = False
COMMUTED_INDEX = False
# genuine defect of /repo 166dfacf (reported, witness corpus/c07_prog_addr_of_array_arith.c, no patch yet): `&A` of an array A is typed like the decayed A (pointer to
# the ELEMENT), so `&A + 1` / `&g[1] - 1` move by one element instead of one array, at compile time and at run time alike.
# While it is open the generator does not add a non-zero constant to the address of an array.
ADDR_OF_ARRAY_ARITH = False

SCALARS = [('char', 1), ('short', 2), ('int', 4), ('long', 8), ('float', 4), ('double', 8), ('long double', 16),
           ('unsigned char', 1), ('void *', 8)]


def sizeof(t):
    k = t[0]
    if k == 'sc':
        return t[2]
    if k == 'arr':
        return t[2] * sizeof(t[1])
    return t[3]


def alignof(t):
    k = t[0]
    if k == 'sc':
        return t[2]
    if k == 'arr':
        return alignof(t[1])
    return t[4]


def mk_aggr(kind, tag, members):
    off, al, offs = 0, 1, {}
    for n, mt in members:
        a = alignof(mt)
        al = max(al, a)
        if kind == 'struct':
            off = (off + a - 1) // a * a
            offs[n] = off
            off += sizeof(mt)
        else:
            offs[n] = 0
            off = max(off, sizeof(mt))
    size = (off + al - 1) // al * al
    return (kind, tag, members, size, al, offs)


def cdecl(t, inner):
    """C declaration of `inner` with type t"""
    k = t[0]
    if k == 'sc':
        return '%s %s' % (t[1], inner) if not t[1].endswith('*') else '%s%s' % (t[1], inner)
    if k == 'arr':
        if inner.startswith('*'):
            inner = '(%s)' % inner
        return cdecl(t[1], '%s[%d]' % (inner, t[2]))
    return '%s %s %s' % (k, t[1], inner)


def ptr_decl(t, name):
    return cdecl(t, '*' + name)


class AddrGen:
    def __init__(self, rng, tagpx=''):
        self.r = rng
        self.px = tagpx
        self.types = []       # aggregate types in declaration order
        self.objs = []        # (name, type)
        self.feats = set()

    def scalar(self):
        n, s = self.r.choice(SCALARS)
        return ('sc', n, s)

    def array_of(self, t, maxdims=3):
        r = self.r
        nd = r.choice([1, 2, 2, 2, 3][:maxdims + 2])
        nd = min(nd, maxdims)
        for _ in range(nd):
            t = ('arr', t, r.choice([2, 3, 3, 4, 5]))
        return t

    def member_type(self, depth):
        r = self.r
        k = r.random()
        if k < 0.25:
            return self.scalar()
        if k < 0.65 or not self.types or depth <= 0:
            return self.array_of(self.scalar())
        inner = r.choice(self.types)
        if r.random() < 0.5:
            return inner
        return self.array_of(inner, maxdims=2)

    def gen_types(self):
        r = self.r
        for i in range(r.randint(2, 4)):
            kind = 'union' if (i > 0 and r.random() < 0.2) else 'struct'
            members = [('m%d' % j, self.member_type(1 if i > 0 else 0)) for j in range(r.randint(2, 5))]
            # keep objects small: the whole type at most a few KB
            t = mk_aggr(kind, '%sA%d' % (self.px, i), members)
            while sizeof(t) > 4096 and len(members) > 1:
                members.pop()
                t = mk_aggr(kind, '%sA%d' % (self.px, i), members)
            self.types.append(t)
        # objects: multi-dimensional arrays of scalars, aggregates, arrays of aggregates
        n = 0
        for _ in range(r.randint(2, 3)):
            self.objs.append(('g%d' % n, self.array_of(self.scalar())))
            n += 1
        for t in self.types:
            if sizeof(t) > 4096:
                continue
            if r.random() < 0.6:
                self.objs.append(('g%d' % n, t))
                n += 1
            if r.random() < 0.6 and sizeof(t) <= 512:
                self.objs.append(('g%d' % n, self.array_of(t, maxdims=2)))
                n += 1

    # ------------------------------------------------------------ designator paths
    def path(self, t, must_start_member=False):
        """random walk: [( 'i', index, array type) | ('m', name, aggregate type)], final type, byte offset"""
        r = self.r
        steps, off = [], 0
        while True:
            k = t[0]
            if k == 'sc':
                break
            if steps and r.random() < 0.22 and not (must_start_member and not steps):
                break
            if k == 'arr':
                n = t[2]
                i = r.choice([0, n - 1, n - 1, r.randrange(n), r.randrange(n), max(1, r.randrange(n))])
                steps.append(('i', i, t))
                off += i * sizeof(t[1])
                t = t[1]
            else:
                name, mt = r.choice(t[2])
                steps.append(('m', name, t))
                off += t[5][name]
                t = mt
        return steps, t, off

    def render(self, base, steps, plain=False, whole=True):
        """an lvalue expression for base followed by the steps, in a random equivalent spelling"""
        r = self.r
        x = base
        for si, (k, v, t) in enumerate(steps):
            c = 0.0 if plain else r.random()
            if k == 'i':
                if c < 0.70 or plain:
                    x = '%s[%d]' % (x, v)
                elif c < 0.82 and ((si == 0 and whole) or DECAY_SUBOBJECT):
                    x = '(*(%s + %d))' % (x, v)
                    self.feats.add('index-as-deref-of-sum')
                elif c < 0.88 and COMMUTED_INDEX:
                    x = '%d[%s]' % (v, x)
                    self.feats.add('index-commuted')
                elif c < 0.94:
                    a = r.randint(0, v)
                    x = '(%s + %d)[%d]' % (x, a, v - a)
                    self.feats.add('index-split')
                elif (si == 0 and whole) or DECAY_SUBOBJECT:
                    x = '(*(%d + %s))' % (v, x)
                    self.feats.add('index-as-deref-of-sum')
                else:
                    x = '%s[%d]' % (x, v)
            else:
                if c < 0.85 or plain:
                    x = '%s.%s' % (x, v)
                else:
                    x = '(&%s)->%s' % (x, v)
                    self.feats.add('member-through-address')
        return x

    def classify(self, steps, t):
        """feature names describing the boundary the path lives on"""
        idx = [(s[1], s[2]) for s in steps if s[0] == 'i']
        for j, (i, at) in enumerate(idx):
            inner_is_array = at[1][0] == 'arr'
            if inner_is_array and i != 0:
                self.feats.add('nonzero-index-in-non-last-dimension')
                if sizeof(at[1]) != 8:
                    self.feats.add('nonzero-index-of-row-with-size-not-8')
            if at[1][0] in ('struct', 'union') and i != 0:
                self.feats.add('nonzero-index-into-array-of-aggregates')
        if any(s[0] == 'm' for s in steps) and idx:
            self.feats.add('member-and-index')
        if t[0] == 'arr':
            self.feats.add('designates-sub-array')
        elif t[0] != 'sc':
            self.feats.add('designates-aggregate')

    def pointer_expr(self, base, bt):
        """(expression text, declared-type text maker or None, byte offset from the start of base, pointee type)"""
        r = self.r
        steps, t, off = self.path(bt)
        self.classify(steps, t)
        if not steps:
            # the whole object
            k = r.random()
            if bt[0] == 'arr' and k < 0.5:
                j = r.randint(0, bt[2])
                self.feats.add('array-plus-constant')
                return r.choice(['%s + %d' % (base, j), '&%s[%d]' % (base, j), '%d + %s' % (j, base)]), bt[1], j * sizeof(bt[1])
            if k < 0.8:
                return '&%s' % base, bt, 0
            if bt[0] == 'arr' and not ADDR_OF_ARRAY_ARITH:
                return '&%s' % base, bt, 0
            self.feats.add('address-plus-one')
            return '&%s + 1' % base, bt, sizeof(bt)
        L = self.render(base, steps)
        k = r.random()
        last = steps[-1]
        if t[0] == 'arr' and k < 0.35:
            # the designated object is an array: decay, decay + k, &L[k]
            n = t[2]
            j = r.choice([0, 1, n - 1, n, r.randint(0, n)])
            form = r.random()
            if not DECAY_SUBOBJECT:
                self.feats.add('element-of-designated-sub-array')
                d = r.randint(-j, n - j)
                if form < 0.5 or d == 0 or (t[1][0] == 'arr' and not ADDR_OF_ARRAY_ARITH):
                    return '&%s[%d]' % (L, j), t[1], off + j * sizeof(t[1])
                return '&%s[%d] %s %d' % (L, j, '+' if d > 0 else '-', abs(d)), t[1], off + (j + d) * sizeof(t[1])
            self.feats.add('decayed-sub-array-plus-constant')
            if form < 0.25 and j == 0:
                return L, t[1], off
            if form < 0.6:
                return '%s + %d' % (L, j), t[1], off + j * sizeof(t[1])
            if form < 0.8:
                return '&%s[%d]' % (L, j), t[1], off + j * sizeof(t[1])
            a = r.randint(0, n - j) if n - j > 0 else 0
            return '%s + %d - %d' % (L, j + a, a), t[1], off + j * sizeof(t[1])
        if last[0] == 'i' and k < 0.55:
            # &X[i] spelled as X + i (also one past the end of X), or moved by a constant inside X
            X = self.render(base, steps[:-1])
            n, i = last[2][2], last[1]
            base_off = off - i * sizeof(t)
            j = r.choice([i, i, n, r.randint(0, n)])
            form = r.random()
            self.feats.add('pointer-arithmetic-inside-array')
            if not DECAY_SUBOBJECT and len(steps) > 1:
                form = 0.4 + form * 0.45
            if t[0] == 'arr' and not ADDR_OF_ARRAY_ARITH and 0.4 <= form < 0.7:
                form = 0.7
            if form < 0.4:
                return '%s + %d' % (X, j), t, base_off + j * sizeof(t)
            if form < 0.7:
                return '&%s[%d] + %d' % (X, i, j - i) if j >= i else '&%s[%d] - %d' % (X, i, i - j), t, base_off + j * sizeof(t)
            if form < 0.85:
                return '&%s[%d]' % (X, j), t, base_off + j * sizeof(t)
            return '%d + %s' % (j, X), t, base_off + j * sizeof(t)
        if k < 0.65 and (t[0] != 'arr' or ADDR_OF_ARRAY_ARITH):
            self.feats.add('address-plus-one')
            return '&%s + 1' % L, t, off + sizeof(t)
        if k < 0.75:
            c = r.randint(0, sizeof(t))
            self.feats.add('char-pointer-cast-plus-constant')
            return '(char *) &%s + %d' % (L, c), ('sc', 'char', 1), off + c
        if k < 0.80:
            self.feats.add('address-of-deref-of-address')
            return '&*&%s' % L, t, off
        return '&%s' % L, t, off

    def offsetof_expr(self, st, plain=False):
        r = self.r
        steps, t, off = self.path(st, must_start_member=True)
        if not steps:
            return None
        self.classify(steps, t)
        self.feats.add('offsetof')
        desig = self.render('', steps, plain=True)[1:]        # drop the leading '.'
        k = r.random()
        if k < 0.5:
            return 'offsetof (%s %s, %s)' % (st[0], st[1], desig), off
        self.feats.add('offsetof-idiom')
        L = self.render('((%s %s *) 0)->' % (st[0], st[1]) + steps[0][1], steps[1:], plain=plain, whole=False)
        return '(size_t) &%s' % L, off


def generate(rng, nprobes=48):
    """-> (program text, features, expected output lines as computed from the LP64 layout)"""
    g = AddrGen(rng)
    g.gen_types()
    r = rng
    L = ['#include <stdio.h>', '#include <stddef.h>', '']
    for t in g.types:
        L.append('%s %s {' % (t[0], t[1]))
        for n, mt in t[2]:
            L.append('  %s;' % cdecl(mt, n))
        L.append('};')
    for n, t in g.objs:
        L.append('%s%s;' % (r.choice(['', 'static ']), cdecl(t, n)))
    L.append('')
    L.append('static void pr (const char *id, const void *p, const void *base) {')
    L.append('  printf ("%s %ld\\n", id, (long) ((const char *) p - (const char *) base));')
    L.append('}')
    glob, body, expect = [], [], []
    structs = [t for t in g.types if t[0] in ('struct', 'union')]
    k = 0
    while k < nprobes:
        w = r.random()
        if w < 0.14 and structs:
            st = r.choice(structs)
            ctx = r.random()
            oe = g.offsetof_expr(st, plain=ctx >= 0.8)      # an array size must be an integer constant expression
            if oe is None:
                continue
            e, off = oe
            if ctx < 0.45:
                glob.append('static size_t o%d = %s;' % (k, e))
                body.append('printf ("o%d %%lu\\n", (unsigned long) o%d);' % (k, k))
                g.feats.add('ctx:static-size_t')
            elif ctx < 0.6:
                body.append('{ static unsigned long o = %s; printf ("o%d %%lu\\n", o); }' % (e, k))
                g.feats.add('ctx:block-static-size_t')
            elif ctx < 0.8:
                body.append('{ unsigned long o = %s; printf ("o%d %%lu\\n", o); }' % (e, k))
                g.feats.add('ctx:run-time')
            else:
                glob.append('static char oa%d[%s + 1];' % (k, e))
                body.append('printf ("o%d %%lu\\n", (unsigned long) sizeof (oa%d) - 1);' % (k, k))
                g.feats.add('ctx:array-size')
            expect.append('o%d %d' % (k, off))
            k += 1
            continue
        if w < 0.30:
            # several address constants inside one static aggregate initialiser
            m = r.randint(2, 4)
            items = []
            for j in range(m):
                base, bt = r.choice(g.objs)
                e, pt, off = g.pointer_expr(base, bt)
                items.append((base, e, off))
            form = r.random()
            if form < 0.4:
                glob.append('static void *t%d[] = { %s };' % (k, ', '.join(e for _, e, _ in items)))
                acc = ['t%d[%d]' % (k, j) for j in range(m)]
                g.feats.add('ctx:static-pointer-array')
            elif form < 0.7:
                glob.append('static struct { int tag; const void *p[%d]; long z; } t%d = { %d, { %s }, 7 };'
                            % (m, k, k, ', '.join(e for _, e, _ in items)))
                acc = ['t%d.p[%d]' % (k, j) for j in range(m)]
                g.feats.add('ctx:static-struct-with-pointer-array')
            else:
                order = list(range(m))
                r.shuffle(order)
                glob.append('static struct { char c; void *p%s; } t%d = { %s };'
                            % (', *p'.join([''] + [str(j) for j in range(1, m)])[0:0] + ', *p'.join(str(j) for j in range(m)), k,
                               ', '.join('.p%d = %s' % (j, items[j][1]) for j in order)))
                acc = ['t%d.p%d' % (k, j) for j in range(m)]
                g.feats.add('ctx:designated-static-struct')
            for j, (base, e, off) in enumerate(items):
                body.append('pr ("t%d_%d", %s, &%s);' % (k, j, acc[j], base))
                expect.append('t%d_%d %d' % (k, j, off))
            k += 1
            continue
        base, bt = r.choice(g.objs)
        e, pt, off = g.pointer_expr(base, bt)
        ctx = r.random()
        tform = r.random()
        if tform < 0.45:
            decl = ptr_decl(pt, 'p%d' % k) if ctx < 0.8 else ptr_decl(pt, 'p')
            g.feats.add('decl:exact-pointer-type')
        elif tform < 0.8 or e.startswith('(char *)'):
            decl = 'void *p%d' % k if ctx < 0.8 else 'void *p'
            g.feats.add('decl:void-pointer')
        else:
            decl = 'char *p%d' % k if ctx < 0.8 else 'char *p'
            e = '(char *) (%s)' % e if not e.startswith('(char *)') else e
            g.feats.add('decl:char-pointer-cast')
        if e.startswith('(char *)') and 'char' not in decl.split('*')[0] and 'void' not in decl:
            decl = 'char *p%d' % k if ctx < 0.8 else 'char *p'
        if ctx < 0.55:
            glob.append('%s%s = %s;' % (r.choice(['static ', 'static ', '', 'static const ']) if 'const' not in decl else 'static ', decl, e)
                        if True else '')
            body.append('pr ("p%d", p%d, &%s);' % (k, k, base))
            g.feats.add('ctx:file-scope')
        elif ctx < 0.8:
            # same name pattern, block scope
            body.append('{ static %s = %s; pr ("p%d", p%d, &%s); }' % (decl, e, k, k, base))
            g.feats.add('ctx:block-scope-static')
        else:
            body.append('{ %s = %s; pr ("p%d", p, &%s); }' % (decl, e, k, base))
            g.feats.add('ctx:run-time')
        expect.append('p%d %d' % (k, off))
        k += 1
    L += glob
    L.append('')
    L.append('int main (void) {')
    L += ['  ' + b for b in body]
    L.append('  return 0;')
    L.append('}')
    return '\n'.join(L) + '\n', sorted(g.feats), expect

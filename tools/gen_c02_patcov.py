#!/usr/bin/env python3
# gen_c02_patcov: which rows of patterns[] (mir-gen-x86_64.c) do the generated C02 cases really select?
# Measurement only (never a verdict): a private copy of the checked tree's sources is made under build/, ONE line is
# inserted in front of the `out_insn (gen_ctx, insn, patterns[ind].replacement, NULL);` of target_translate (a call of
# c02_pat_hook (ind), defined in harness/c02_patcov_hook.c), the C02 harness is built against that copy and run on the
# case lines; the indexes are mapped to rows through tools/tr_c02_x86pat.rows (table order = index, checked there).
# /repo itself is never touched.  If the anchor line is not found (refactored encoder) the measurement is skipped.
import sys, os, re, shutil, glob, json
sys.path.insert(0, os.path.dirname(os.path.abspath(__file__)))
import vlib
import tr_c02_x86pat as X

ANCHOR = 'out_insn (gen_ctx, insn, patterns[ind].replacement, NULL);'
HOOK = '{ extern void c02_pat_hook (int); c02_pat_hook (ind); } '
# rows no case can select, with the reason (keyed by opcode + operand pattern, so table reordering does not matter)
UNREACHABLE = os.path.join(vlib.VERIF, 'corpus', 'c02_x86_unreachable.json')


def build():
    """-> path of the instrumented harness, or None"""
    d = os.path.join(vlib.BUILD, 'patcov-' + vlib.repo_hash()[:16])
    hs = [os.path.join(vlib.VERIF, 'harness', f) for f in ('c02_insn.c', 'c02_patcov_hook.c')]
    exe = os.path.join(d, 'c02_patcov-' + vlib.file_hash(hs)[:12])
    if os.path.exists(exe):
        return exe
    src = os.path.join(d, 'src')
    import time
    for old in glob.glob(os.path.join(vlib.BUILD, 'patcov-*')):       # builds for other trees, unused for three hours
        try:
            if old != d and time.time() - os.path.getmtime(old) > 3 * 3600:
                shutil.rmtree(old, ignore_errors=True)
        except OSError:
            pass
    shutil.rmtree(d, ignore_errors=True)
    os.makedirs(src)
    for f in glob.glob(os.path.join(vlib.REPO, '*.[ch]')):
        shutil.copy(f, src)
    p = os.path.join(src, 'mir-gen-x86_64.c')
    try:
        s = open(p).read()
    except OSError:
        return None
    if s.count(ANCHOR) != 1:
        return None
    open(p, 'w').write(s.replace(ANCHOR, HOOK + ANCHOR))
    comp, vflags = vlib.VARIANTS['plain']
    cmd = [comp] + vlib.CFLAGS_COMMON + vflags + ['-I' + src, '-I' + os.path.join(vlib.VERIF, 'harness')] + hs + \
          [os.path.join(src, 'mir.c'), os.path.join(src, 'mir-gen.c'), '-o', exe + '.tmp', '-lm', '-ldl', '-lpthread']
    rc, out, err = vlib.sh(cmd, timeout=900)
    if rc != 0:
        return None
    os.rename(exe + '.tmp', exe)
    shutil.rmtree(src, ignore_errors=True)
    return exe


def measure(lines, jobs=4):
    """-> None (not measurable) or dict(total, selected, never=[(index, opcode, pattern, replacement)], counts={index: n})"""
    with vlib.Lock('c02-patcov-build'):
        exe = build()
    if exe is None:
        return None
    rows = X.rows(X.preprocess(vlib.REPO))
    counts = {}
    from concurrent.futures import ThreadPoolExecutor

    def one(k):
        out = '%s.cov%d.%d' % (exe, os.getpid(), k)
        vlib.sh([exe, 'run'], input=('\n'.join(lines[k::jobs]) + '\n').encode(), timeout=3600, env=dict(os.environ, C02_PATCOV_OUT=out))
        r = {}
        try:
            for l in open(out):
                i, n = l.split()
                r[int(i)] = int(n)
            os.remove(out)
        except OSError:
            pass
        return r
    with ThreadPoolExecutor(max_workers=jobs) as ex:
        for r in ex.map(one, range(jobs)):
            for i, n in r.items():
                counts[i] = counts.get(i, 0) + n
    never = [(i,) + rows[i] for i in range(len(rows)) if i not in counts]
    return dict(total=len(rows), selected=len(counts), never=never, counts=counts)


def unreachable():
    try:
        return {(e['opcode'], e['pattern']): e['why'] for e in json.load(open(UNREACHABLE))}
    except (OSError, ValueError):
        return {}


if __name__ == '__main__':
    ls = [l.strip() for l in open(sys.argv[1]) if l.strip()]
    m = measure(ls)
    if m is None:
        print('not measurable')
        sys.exit(0)
    un = unreachable()
    print('%d rows, %d selected' % (m['total'], m['selected']))
    for i, c, p, r in m['never']:
        print('%4d %-8s %-14s %-50s %s' % (i, c, p, r[:50], un.get((c, p), 'REACHABLE?')))

#!/usr/bin/env python3
# coordinator: stability of the registered quick checks on the UNCHANGED tree over many seeds.
# usage: tools/seed_sweep.py <first_seed> <last_seed> [Cxx ...]   -> one line per (check, seed)
import sys, os, subprocess, json, glob, time
H = os.path.dirname(os.path.dirname(os.path.abspath(__file__)))
a, b = int(sys.argv[1]), int(sys.argv[2])
props = sys.argv[3:] or [json.load(open(f))['property_id'] for f in sorted(glob.glob(H + '/checks/*.meta.json'))]
for s in range(a, b + 1):
    for p in props:
        t0 = time.time()
        r = subprocess.run([H + '/check', p, '--tier', 'quick'], cwd=H, env=dict(os.environ, VERIF_SEED=str(s)),
                           capture_output=True, text=True)
        viol = [l for l in r.stdout.split('\n') if l.startswith('VIOLATION')]
        print(p, 'seed', s, 'rc', r.returncode, '%.0fs' % (time.time() - t0), 'OK' if r.returncode == 0 and not viol else 'ALARM ' + ' | '.join(viol[:2]) + r.stdout[-200:].replace('\n', ' '), flush=True)

# C05/C06: prototype generator, MIR text builders, image decoding/comparison helpers.
# All randomness comes from the rng handed in by the check (chk.rng).
import struct, binascii

ITYS = ['i8', 'u8', 'i16', 'u16', 'i32', 'u32', 'i64', 'u64', 'p']
NSTK = 1024


def is_blk(t):
    return t.startswith('blk') or t.startswith('rblk')


def ty_size(t):
    """bytes MIR holds for an argument of (textual) type t in the vals buffer"""
    if is_blk(t):
        return int(t.split(':')[1])
    return {'f': 4, 'd': 8, 'ld': 10}.get(t, 8)


def nwords(t):
    if t.startswith('rblk'):
        return 1
    if t.startswith('blk'):
        return (ty_size(t) + 7) // 8
    return 2 if t == 'ld' else 1


def slot_size(t):
    s = ty_size(t)
    return max(16, (s + 15) // 16 * 16)


# ---------------------------------------------------------------- prototype generation

def gen_arg_type(rng, style, tail=False, cf=False):
    """one argument type; tail=True: a variadic actual (MIR passes those as i64 / d / ld / blocks)"""
    r = rng.random()
    if tail:
        if style == 'int':
            w = [('i64', 6), ('d', 1), ('ld', 1), ('blk', 1)]
        elif style == 'fp':
            w = [('i64', 1), ('d', 6), ('ld', 1), ('blk', 1)]
        else:
            w = [('i64', 3), ('d', 3), ('ld', 1), ('blk', 2)]
    else:
        if style == 'int':
            w = [('int', 8), ('f', 1), ('d', 1), ('ld', 1), ('blk', 1)]
        elif style == 'fp':
            w = [('int', 1), ('f', 3), ('d', 5), ('ld', 1), ('blk', 1)]
        elif style == 'blk':
            w = [('int', 2), ('f', 1), ('d', 2), ('ld', 1), ('blk', 6)]
        elif style == 'ld':
            w = [('int', 4), ('d', 2), ('ld', 3), ('blk', 1)]
        else:
            w = [('int', 4), ('f', 2), ('d', 3), ('ld', 1), ('blk', 3)]
    tot = sum(x for _, x in w)
    k = rng.random() * tot
    for name, x in w:
        k -= x
        if k < 0:
            break
    if name == 'int':
        return rng.choice(ITYS)
    if name == 'blk':
        c = rng.choice([0, 0, 1, 1, 2, 2, 3, 4, 'r'] if not tail and not cf else [0, 1, 2, 3, 4])
        if cf:  # sizes for which a C struct of that psABI class exists (gen_c05_cfile.struct_def)
            return {0: 'blk:%d' % rng.choice([3, 5, 12, 16, 17, 24, 40, 64]), 1: 'blk1:%d' % rng.choice([1, 4, 8, 9, 12, 16]),
                    2: 'blk2:%d' % rng.choice([4, 8, 12, 16]), 3: 'blk3:%d' % rng.choice([12, 16]),
                    4: 'blk4:%d' % rng.choice([9, 12, 13, 16])}[c]
        if c == 0:
            return 'blk:%d' % rng.choice([1, 3, 8, 9, 12, 16, 17, 24, 32, 40, 57, 64, 200])
        if c in (1, 2):
            return 'blk%d:%d' % (c, rng.choice([1, 4, 7, 8, 9, 12, 15, 16]))
        if c in (3, 4):
            return 'blk%d:%d' % (c, rng.choice([9, 12, 13, 16, 16]))
        return 'rblk:%d' % rng.choice([8, 16, 24, 100])
    return name


LEGAL_RES_POOL = ITYS + ['f', 'd', 'ld']


def gen_results(rng):
    n = rng.choice([0, 1, 1, 1, 2, 2, 3, 4, 5, 6])
    res = []
    cnt = {'i': 0, 'x': 0, 'l': 0}
    tries = 0
    while len(res) < n and tries < 50:
        tries += 1
        t = rng.choice(LEGAL_RES_POOL)
        c = 'x' if t in ('f', 'd') else 'l' if t == 'ld' else 'i'
        if cnt[c] >= 2:
            continue
        cnt[c] += 1
        res.append(t)
    return res


C_RESULTS = [[], ['i64', 'i64'], ['d', 'd'], ['i64', 'd'], ['d', 'i64'], ['ld', 'ld'], ['p', 'u64']]


def gen_proto(rng, maxargs=20, min_fixed=0, cf=False):
    style = rng.choice(['int', 'fp', 'blk', 'ld', 'mix', 'mix'])
    n = rng.choice([0, 1, 2, 3, 5, 6, 7, 8, 9, 10, 12, 14, 17, maxargs])
    vararg = rng.random() < 0.35
    nfixed = n
    if vararg:
        n = max(n, min_fixed)
        nfixed = rng.randint(min_fixed, n)
    args = []
    for i in range(n):
        args.append(gen_arg_type(rng, style, tail=i >= nfixed, cf=cf))
    # keep the stack argument area well inside the probe's capture window
    while sum(slot_size(a) for a in args) > 600:
        args.pop()
        nfixed = min(nfixed, len(args))
    if vararg and nfixed < min_fixed:
        vararg = False
    if cf:
        res = rng.choice(C_RESULTS) if rng.random() < 0.5 else [rng.choice(LEGAL_RES_POOL)]
        if rng.random() < 0.1 and not vararg:
            args, nfixed, res = ['rblk:%d' % rng.choice([17, 24, 40])] + args, nfixed + 1, []
        return dict(args=args, nfixed=nfixed, vararg=vararg, res=res, style='c-' + style)
    return dict(args=args, nfixed=nfixed, vararg=vararg, res=gen_results(rng), style=style)


def boundary_protos():
    """prototypes aimed at the case splits of the assignment proofs"""
    out = []
    i6 = ['i64'] * 6
    d8 = ['d'] * 8
    for k in (5, 6, 7):
        out.append(dict(args=['i64'] * k + ['ld'], nfixed=k + 1, vararg=False, res=['i64']))
        out.append(dict(args=['i32'] * k + ['blk1:16', 'i8'], nfixed=k + 2, vararg=False, res=[]))
        out.append(dict(args=['u8'] * k + ['blk3:16', 'd', 'u16'], nfixed=k + 3, vararg=False, res=['d']))
    for k in (6, 7, 8, 9):
        out.append(dict(args=['d'] * k + ['blk2:16', 'f'], nfixed=k + 2, vararg=False, res=['f', 'f']))
        out.append(dict(args=['f'] * k + ['blk4:12', 'i64', 'd'], nfixed=k + 3, vararg=False, res=['ld', 'ld']))
    out.append(dict(args=['blk3:16', 'd'], nfixed=2, vararg=False, res=[]))
    out.append(dict(args=['blk4:16', 'd', 'i64'], nfixed=3, vararg=False, res=[]))
    out.append(dict(args=['blk1:16', 'd'] + d8, nfixed=10, vararg=False, res=[]))
    out.append(dict(args=['blk1:8', 'f'] * 4 + d8, nfixed=16, vararg=False, res=[]))
    out.append(dict(args=i6 + ['i64', 'ld', 'i64', 'ld'], nfixed=10, vararg=False, res=['ld']))
    out.append(dict(args=i6 + d8 + ['i8', 'f', 'u16', 'ld', 'blk:9', 'ld'], nfixed=20, vararg=False, res=['i8', 'u16']))
    out.append(dict(args=['p', 'd', 'i64', 'd'], nfixed=1, vararg=True, res=['i32']))
    out.append(dict(args=['p', 'blk2:16'], nfixed=1, vararg=True, res=[]))
    out.append(dict(args=['p', 'blk3:16', 'blk4:16', 'd'], nfixed=1, vararg=True, res=[]))
    out.append(dict(args=['p'] + ['d'] * 9 + ['i64'] * 7 + ['ld'], nfixed=1, vararg=True, res=['d']))
    out.append(dict(args=['rblk:24', 'i64'], nfixed=2, vararg=False, res=[]))
    out.append(dict(args=[], nfixed=0, vararg=False, res=['i8', 'd', 'ld', 'u32', 'ld', 'f']))
    # far beyond the register files (and beyond the interpreter's initial 64-element per-call arrays)
    out.append(dict(args=['i64'] * 70, nfixed=70, vararg=False, res=['i64']))
    out.append(dict(args=['i64', 'd'] * 45, nfixed=90, vararg=False, res=['i64', 'd']))
    out.append(dict(args=['u8', 'f', 'i16', 'd', 'u32', 'ld'] * 11, nfixed=66, vararg=False, res=['u16', 'ld']))
    out.append(dict(args=['p'] + ['i64', 'd'] * 35, nfixed=1, vararg=True, res=['i32']))
    for p in out:
        p['style'] = 'boundary'
    return out


def session_seeds():
    """base prototypes for sessions: one register-passed block + a scalar after it"""
    out = []
    for b in ('blk1:16', 'blk1:8', 'blk2:16', 'blk2:8', 'blk3:16', 'blk4:12', 'blk:24', 'rblk:16'):
        out.append(dict(args=[b, 'i64', 'd'], nfixed=3, vararg=False, res=['i64'], style='session'))
        out.append(dict(args=['i32', b, 'f', 'u8'], nfixed=4, vararg=False, res=['u32', 'f'], style='session'))
    out.append(dict(args=['p', 'i64', 'd'], nfixed=1, vararg=True, res=['i32'], style='session'))
    # the same arguments, results that differ only after the first one (per-signature trampoline cache)
    for r in (['i64', 'd'], ['d', 'i64'], ['i64', 'i64', 'd'], ['u8', 'f', 'i64']):
        out.append(dict(args=['i64', 'd'], nfixed=2, vararg=False, res=r, style='session'))
    return out


def result_class_sessions():
    """call sequences through prototypes that agree in everything but the class of a result after the first one"""
    out = []
    for ra, rb in ((['i64', 'd'], ['i64', 'i64']), (['d', 'i64'], ['d', 'd']), (['u8', 'f', 'i64'], ['u8', 'i64', 'f']),
                   (['i64', 'i64', 'd', 'd'], ['i64', 'd', 'i64', 'd'])):
        mk = lambda r: dict(args=['i64', 'd'], nfixed=2, vararg=False, res=list(r), style='session')
        out.append([mk(ra), mk(rb), mk(ra)])
        out.append([mk(rb), mk(ra)])
    return out


def gen_values(rng, proto):
    """random bit patterns: per argument the bytes MIR holds (8 for ints/p/d, 4 for f, 10 for ld, size for blocks)"""
    vals = []
    for t in proto['args']:
        n = ty_size(t)
        if rng.random() < 0.15:
            b = bytes([rng.choice([0x00, 0xff, 0x80, 0x7f])] * n)
        else:
            b = bytes(rng.getrandbits(8) for _ in range(n))
        vals.append(b)
    rets = dict(rax=rng.getrandbits(64), rdx=rng.getrandbits(64), xmm0=rng.getrandbits(64), xmm1=rng.getrandbits(64),
                st0=ld_pattern(rng), st1=ld_pattern(rng))
    return vals, rets


def ld_pattern(rng):
    """a valid normal x87 extended value (so that fld/fstp round-trips bit-exactly)"""
    mant = (1 << 63) | rng.getrandbits(63)
    exp = rng.randint(1, 0x7ffe)
    sign = rng.getrandbits(1)
    return mant.to_bytes(8, 'little') + ((sign << 15) | exp).to_bytes(2, 'little')


def fix_values(proto, vals, rng):
    """long double argument values must be valid x87 patterns (they travel through fld/fstp)"""
    out = []
    for t, b in zip(proto['args'], vals):
        out.append(ld_pattern(rng) if t == 'ld' else b)
    return out


# ---------------------------------------------------------------- vals buffer layout

def layout(proto):
    offs = []
    o = 0
    for t in proto['args']:
        offs.append(o)
        o += slot_size(t)
    return offs, o


def vals_bytes(proto, vals):
    offs, tot = layout(proto)
    buf = bytearray(tot if tot else 16)
    for o, b in zip(offs, vals):
        buf[o:o + len(b)] = b
    return bytes(buf)


# ---------------------------------------------------------------- MIR text

def reg_type(t):
    if t in ('f', 'd', 'ld'):
        return t
    return 'i64'


def proto_text(proto, name='pr'):
    parts = list(proto['res'])
    for i, t in enumerate(proto['args'][:proto['nfixed']]):
        if is_blk(t):
            k, s = t.split(':')
            parts.append('%s:%s(a%d)' % (k, s, i))
        else:
            parts.append('%s:a%d' % (t, i))
    if proto['vararg']:
        parts.append('...')
    return '%s: proto %s' % (name, ', '.join(parts))


VBASE = 2048   # vals region of the k-th call of a session
OBASE = 256    # outs region of the k-th call of a session


def c05_items(proto, k=0):
    """proto item + caller function of the k-th call of a session"""
    offs, _ = layout(proto)
    sfx = '' if k == 0 else str(k)
    pr = 'pr' + sfx
    L = [proto_text(proto, pr), 'export caller' + sfx, 'caller%s: func' % sfx]
    loc = ['i64:v', 'i64:o']
    body = ['mov v, vals', 'mov o, outs']
    if k:
        body += ['add v, v, %d' % (VBASE * k), 'add o, o, %d' % (OBASE * k)]
    ops = []
    for i, (t, o) in enumerate(zip(proto['args'], offs)):
        rt = reg_type(t)
        loc.append('%s:a%d' % (rt, i))
        if is_blk(t):
            body.append('add a%d, v, %d' % (i, o))
            kk, s = t.split(':')
            ops.append('%s:%s(a%d)' % (kk, s, i))
        else:
            mv = {'f': 'fmov', 'd': 'dmov', 'ld': 'ldmov'}.get(t, 'mov')
            mt = t if t in ('f', 'd', 'ld') else 'i64'
            body.append('%s a%d, %s:%d(v)' % (mv, i, mt, o))
            ops.append('a%d' % i)
    rops = []
    for i, t in enumerate(proto['res']):
        loc.append('%s:r%d' % (reg_type(t), i))
        rops.append('r%d' % i)
    L.append('local ' + ', '.join(loc))
    L += body
    L.append('call ' + ', '.join([pr, 'probe'] + rops + ops))
    for i, t in enumerate(proto['res']):
        mv = {'f': 'fmov', 'd': 'dmov', 'ld': 'ldmov'}.get(t, 'mov')
        mt = t if t in ('f', 'd', 'ld') else 'i64'
        L.append('%s %s:%d(o), r%d' % (mv, mt, 16 * i, i))
    L += ['ret', 'endfunc']
    return L


def c05_mir(protos):
    """module whose `caller<k>` loads the argument values of call k from `vals`, calls `probe` through
    prototype k and stores every result (full register width) into `outs`; protos: one prototype or a list"""
    if isinstance(protos, dict):
        protos = [protos]
    L = ['m: module', 'import probe, vals, outs']
    for k, p in enumerate(protos):
        L += c05_items(p, k)
    L.append('endmodule')
    return '\n'.join(L) + '\n'


def session_vals(protos, valss):
    buf = bytearray(VBASE * len(protos))
    for k, (p, v) in enumerate(zip(protos, valss)):
        b = vals_bytes(p, v)
        buf[VBASE * k:VBASE * k + len(b)] = b
    return bytes(buf)


def related_proto(rng, p):
    """a prototype that differs from p in one aspect (aimed at per-signature caches)"""
    q = dict(p, args=list(p['args']), res=list(p['res']))
    kinds = []
    if any(a.startswith('blk') for a in q['args']):
        kinds += ['blksize'] * 3
    if q['args']:
        kinds += ['argtype', 'swap', 'drop']
    if q['res']:
        kinds += ['restype']
    if len(q['res']) >= 2 and 'ld' not in q['res']:
        kinds += ['resclass'] * 2
    if q['vararg'] and q['args']:
        kinds += ['nfixed']
    if not kinds:
        return dict(q, args=['i64'], nfixed=1)
    k = rng.choice(kinds)
    if k == 'blksize':
        idx = rng.choice([i for i, a in enumerate(q['args']) if a.startswith('blk')])
        c, s = q['args'][idx].split(':')
        s = int(s)
        if c == 'blk':
            ns = rng.choice([x for x in (1, 8, 9, 16, 17, 24, 40) if x != s])
        elif c in ('blk1', 'blk2'):
            ns = rng.choice([x for x in (1, 7, 8, 9, 12, 16) if (x <= 8) != (s <= 8)] or [8])
        else:
            ns = rng.choice([x for x in (9, 12, 13, 16) if x != s])
        q['args'][idx] = '%s:%d' % (c, ns)
    elif k == 'argtype':
        idx = rng.randrange(len(q['args']))
        a = q['args'][idx]
        tail = idx >= q['nfixed']
        if a in ITYS:
            q['args'][idx] = rng.choice(['i64', 'd'] if tail else [t for t in ITYS if t != a] + ['d', 'f'])
        elif a in ('f', 'd'):
            q['args'][idx] = 'i64' if tail else ('d' if a == 'f' else rng.choice(['f', 'i32']))
        elif a == 'ld':
            q['args'][idx] = 'd'
        elif a.startswith('blk'):
            c, s = a.split(':')
            s = int(s)
            nc = rng.choice([x for x in ('blk', 'blk1', 'blk2', 'blk3', 'blk4') if x != c])
            if nc in ('blk3', 'blk4'):
                s = min(max(s, 9), 16)
            elif nc in ('blk1', 'blk2'):
                s = min(s, 16)
            q['args'][idx] = '%s:%d' % (nc, s)
    elif k == 'swap' and len(q['args']) >= 2:
        i = rng.randrange(len(q['args']) - 1)
        if (i < q['nfixed']) == (i + 1 < q['nfixed']):
            q['args'][i], q['args'][i + 1] = q['args'][i + 1], q['args'][i]
    elif k == 'drop':
        idx = rng.randrange(len(q['args']))
        del q['args'][idx]
        if idx < q['nfixed']:
            q['nfixed'] -= 1
    elif k == 'restype':
        idx = rng.randrange(len(q['res']))
        r = q['res'][idx]
        if r in ITYS:
            q['res'][idx] = rng.choice([t for t in ITYS if t != r])
        elif r in ('f', 'd'):
            q['res'][idx] = 'd' if r == 'f' else 'f'
    elif k == 'resclass':
        # a result other than the first one changes its register class (when the combination stays legal)
        idx = rng.randrange(1, len(q['res']))
        r = q['res'][idx]
        nr = rng.choice(['d', 'f']) if r in ITYS else rng.choice(['i64', 'u8', 'i32'])
        cand = q['res'][:idx] + [nr] + q['res'][idx + 1:]
        if sum(1 for x in cand if x in ITYS) <= 2 and sum(1 for x in cand if x in ('f', 'd')) <= 2:
            q['res'] = cand
    elif k == 'nfixed':
        q['nfixed'] = rng.randint(0, len(q['args']))
        for i in range(q['nfixed'], len(q['args'])):
            a = q['args'][i]
            if a in ITYS:
                q['args'][i] = 'i64'
            elif a == 'f':
                q['args'][i] = 'd'
            elif a.startswith('rblk'):
                q['args'][i] = 'i64'
    return q


# ---------------------------------------------------------------- model line

def model_line(cid, proto, vals, rets, vals_addr):
    offs, _ = layout(proto)
    toks = []
    for t, b, o in zip(proto['args'], vals, offs):
        if t.startswith('rblk'):
            ws = ['%016x' % (vals_addr + o)]
        else:
            n = nwords(t)
            bb = b + bytes(8 * n - len(b))
            ws = ['%016x' % int.from_bytes(bb[8 * k:8 * k + 8], 'little') for k in range(n)]
        toks.append('%s=%s' % (t, ','.join(ws)))
    r = ['%016x' % rets[k] for k in ('rax', 'rdx', 'xmm0', 'xmm1')]
    return '%s %s args %s res %s ret %s' % (cid, ('v%d' % proto['nfixed']) if proto['vararg'] else '0', ' '.join(toks),
                                            ' '.join(proto['res']), ' '.join(r))


def parse_model(line):
    w = line.split()
    d = dict(id=w[0], img=[], res=[], rv=[])
    mode = None
    for x in w[1:]:
        if x in ('img', 'res', 'rv'):
            mode = x
        elif mode == 'img' and x[0] in 'GXS' and x[1:2].isdigit():
            l, rest = x.split('=')
            v, ob = rest.split('/')
            d['img'].append((l, v, int(ob)))
        elif '=' in x:
            k, v = x.split('=')
            d[k] = v
        elif mode == 'res':
            d['res'].append(x)
        elif mode == 'rv':
            d['rv'].append(x)
    return d


def ret_bytes(rets):
    b = rets['rax'].to_bytes(8, 'little') + rets['rdx'].to_bytes(8, 'little') + rets['xmm0'].to_bytes(8, 'little') \
        + rets['xmm1'].to_bytes(8, 'little') + rets['st0'] + bytes(6) + rets['st1'] + bytes(6)
    return b


# ---------------------------------------------------------------- image decoding

def parse_impl(line):
    w = line.split()
    d = dict(id=w[0], status=w[1])
    if w[1] != 'ok':
        d['detail'] = ' '.join(w[2:])
        return d
    for x in w[2:]:
        k, v = x.split('=', 1)
        if k == 'vals':
            d[k] = int(v, 16)
        else:
            d[k] = b'' if v == '-' else binascii.unhexlify(v)
    return d


def img_loc_bytes(img, loc):
    """the 8 bytes at an eightbyte location of a captured c05_img"""
    k, n = loc[0], int(loc[1:])
    if k == 'G':
        return img[8 * n:8 * n + 8]
    if k == 'X':
        return img[64 + 16 * n:64 + 16 * n + 8]
    return img[256 + n:256 + n + 8]


def img_fields(img):
    return dict(rax=int.from_bytes(img[48:56], 'little'), rsp=int.from_bytes(img[56:64], 'little'),
                rflags=int.from_bytes(img[192:200], 'little'), fcw=int.from_bytes(img[208:210], 'little'),
                ftw=int.from_bytes(img[216:218], 'little'), mxcsr=int.from_bytes(img[240:244], 'little'),
                count=int.from_bytes(img[248:256], 'little'))


def compare_c05(proto, m, impl, rets, results_only=False):
    """returns list of mismatch descriptions (empty = the call followed the ABI)"""
    bad = []
    if impl['status'] != 'ok':
        return ['%s %s' % (impl['status'], impl.get('detail', ''))]
    if results_only:
        return compare_results(proto, m, impl, rets)
    img = impl['img']
    f = img_fields(img)
    if f['count'] != 1:
        bad.append('probe entered %d times' % f['count'])
        return bad
    for loc, v, ob in m['img']:
        if ob == 0:
            continue
        want = bytes.fromhex(v)[::-1][:ob]
        got = img_loc_bytes(img, loc)[:ob]
        if want != got:
            bad.append('%s: callee sees %s, ABI value %s' % (loc, got.hex(), want.hex()))
    if f['rsp'] % 16 != 8:
        bad.append('stack not 16-byte aligned at the call (rsp at entry = ...%x)' % (f['rsp'] & 0xff))
    if proto['vararg']:
        al = f['rax'] & 0xff
        if not (int(m['nsse']) <= al <= 8):
            bad.append('%%al=%d for a variadic call using %s vector registers' % (al, m['nsse']))
    if f['ftw'] != 0xffff:
        bad.append('x87 stack not empty at the call (tag word %04x)' % f['ftw'])
    if f['rflags'] & 0x400:
        bad.append('DF set at the call')
    return bad + compare_results(proto, m, impl, rets)


def compare_results(proto, m, impl, rets):
    """results as MIR sees them"""
    bad = []
    outs = impl['outs']
    for i, (t, rl) in enumerate(zip(proto['res'], m['res'])):
        got = outs[16 * i:16 * i + 16]
        if rl in ('RAX', 'RDX'):
            want = bytes.fromhex(m['rv'][i])[::-1]
            if got[:8] != want:
                bad.append('result %d (%s in %s): MIR sees %s, expected %s' % (i, t, rl, got[:8].hex(), want.hex()))
        elif rl in ('XMM0', 'XMM1'):
            n = 4 if t == 'f' else 8
            want = rets[rl.lower()].to_bytes(8, 'little')[:n]
            if got[:n] != want:
                bad.append('result %d (%s in %s): MIR sees %s, expected %s' % (i, t, rl, got[:n].hex(), want.hex()))
        elif rl in ('ST0', 'ST1'):
            want = rets[rl.lower()]
            if got[:10] != want:
                bad.append('result %d (ld in %s): MIR sees %s, expected %s' % (i, rl, got[:10].hex(), want.hex()))
    return bad


def proto_sig(proto):
    s = '%s%s->%s' % (','.join(proto['args'][:proto['nfixed']]),
                      (',...' + ','.join(proto['args'][proto['nfixed']:])) if proto['vararg'] else '',
                      ','.join(proto['res']))
    if proto.get('cty') or proto.get('rcty'):   # C shapes of the aggregates (gen_c05_ctypes): part of the identity
        import hashlib
        s += '#' + hashlib.sha1(repr((proto.get('cty'), proto.get('rcty'))).encode()).hexdigest()[:8]
    return s


def hexs(b):
    return binascii.hexlify(b).decode() if b else '-'


def ret_bytes_n(proto, rets):
    nfp = sum(1 for t in proto['res'] if t == 'ld')
    return ret_bytes(rets) + nfp.to_bytes(4, 'little') + bytes(12)


def run_harness(vlib, impl, lines, env=None, timeout=1800):
    """run the probe harness; rows by case id.  A harness that cannot start is a build error, and a
    case that crashed / timed out is re-run once on its own (load spikes must not look like findings)."""
    rc, out, err = vlib.run_lines(impl, lines, timeout=timeout, env=env)
    rows = {}
    for l in out:
        if l.strip():
            r = parse_impl(l)
            rows.setdefault(r['id'], r)
    if lines and not rows:
        raise vlib.BuildError('probe harness produced no output (rc=%d): %s' % (rc, err[-500:]))
    for l in lines:
        cid = l.split(' ', 1)[0]
        r = rows.get(cid)
        if r is None or r['status'] in ('crash', 'missing'):
            rc1, out1, err1 = vlib.run_lines(impl, [l], timeout=300, env=env)
            for x in out1:
                if x.strip():
                    r1 = parse_impl(x)
                    if r1['id'] == cid:
                        rows[cid] = r1
                        break
    return rows, err


# ---------------------------------------------------------------- anchored source drift (informational)
ANCHORS = {
    'mir-x86_64.c': ['va_arg_builtin', 'va_block_arg_builtin', '_MIR_get_ff_call', '_MIR_get_interp_shim'],
    'mir-gen-x86_64.c': ['target_call_used_hard_reg_p', 'get_fp_arg_reg', 'get_int_arg_reg', 'get_arg_reg', 'machinize_call',
                         'target_get_stack_slot_offset', 'target_machinize', 'target_make_prolog_epilog'],
    'mir-interp.c': ['ff_interface_eq', 'call', 'interp'],
}


def function_text(src, name):
    """text of the C function `name` (definition starting at column 0), comments and blanks removed"""
    import re
    m = re.search(r'^[A-Za-z_][^\n;{}()]*\b%s \([^;{]*\)\s*\{' % re.escape(name), src, re.M)
    if not m:
        return None
    i = m.end()
    depth = 1
    while i < len(src) and depth:
        depth += {'{': 1, '}': -1}.get(src[i], 0)
        i += 1
    body = src[m.start():i]
    body = re.sub(r'/\*.*?\*/', '', body, flags=re.S)
    body = re.sub(r'//[^\n]*', '', body)
    return re.sub(r'\s+', '', body)


def anchor_hashes(repo):
    import hashlib, os
    out = {}
    for f, names in ANCHORS.items():
        try:
            src = open(os.path.join(repo, f), errors='replace').read()
        except OSError:
            src = ''
        for n in names:
            t = function_text(src, n)
            out['%s:%s' % (f, n)] = hashlib.sha1(t.encode()).hexdigest()[:16] if t else 'missing'
    return out


def anchor_drift(vlib, chk):
    """compare the hashes of the transcribed C functions with those recorded when the Coq transcriptions
    were last reviewed (corpus/c05_anchors.json); a difference is a NOTE in the evidence, never a violation:
    the correspondence run decides whether behaviour changed"""
    import json, os
    cur = anchor_hashes(vlib.REPO)
    path = os.path.join(vlib.VERIF, 'corpus', 'c05_anchors.json')
    try:
        ref = json.load(open(path))
    except (OSError, ValueError):
        ref = {}
    changed = sorted(k for k in cur if ref.get(k) != cur[k])
    chk.cov['transcribed_functions'] = len(cur)
    chk.cov['transcribed_functions_changed_since_review'] = changed
    if changed:
        chk.log('note: source of transcribed functions changed since the Coq models were reviewed: %s '
                '(the theorems speak about the reviewed text; the correspondence run below decides)' % ', '.join(changed))
        chk.notes.append('transcribed functions changed since review: ' + ', '.join(changed))
    return changed


# ---------------------------------------------------------------- several by-value aggregates in one prototype (round 3)
AGG_MENU = ['blk1:8', 'blk1:16', 'blk1:12', 'blk2:8', 'blk2:16', 'blk2:4', 'blk3:16', 'blk4:16', 'blk3:12', 'blk4:12', 'blk:24', 'blk:40']


def agg_regs(t):
    """(integer registers, vector registers) an aggregate of MIR block type t needs when passed in registers"""
    k, s = t.split(':')
    n = (int(s) + 7) // 8
    return {'blk': (0, 0), 'blk1': (n, 0), 'blk2': (0, n), 'blk3': (1, 1), 'blk4': (1, 1)}[k]


def aggregate_core():
    """aimed at the fit test of aggregate arguments: scalars fill a register class up to k short of its end, an
    aggregate that does not fit any more follows (it goes to memory and must NOT consume registers), then aggregates
    and scalars that still fit into what is really left, then ones that do not"""
    out = []
    mk = lambda a, res=('i64',), nf=None: out.append(dict(args=list(a), nfixed=len(a) if nf is None else nf, vararg=nf is not None,
                                                          res=list(res), style='agg-core'))
    for k in (4, 5, 6):   # integer class
        mk(['i64'] * k + ['blk1:16', 'blk1:8', 'i64', 'blk1:8', 'i64'])
        mk(['i32'] * k + ['blk3:16', 'blk1:8', 'blk2:8', 'blk1:16', 'd'], res=['d'])
        mk(['p'] * k + ['blk1:16', 'blk1:16', 'blk1:8', 'blk1:8', 'blk1:8'], res=[])
    for k in (6, 7, 8):   # vector class
        mk(['d'] * k + ['blk2:16', 'blk2:8', 'd', 'blk2:4', 'f'], res=['d'])
        mk(['f'] * k + ['blk4:16', 'blk2:8', 'blk1:8', 'blk2:16', 'i64'])
        mk(['d'] * k + ['blk2:16', 'blk2:16', 'blk2:8', 'blk2:8'], res=[])
    # nothing consumed by a memory-class aggregate: four two-double aggregates still fill xmm0..7
    mk(['i64'] * 6 + ['blk3:16'] + ['blk2:16'] * 4 + ['blk2:8'], res=['d', 'd'])
    mk(['d'] * 8 + ['blk4:16'] + ['blk1:16'] * 3 + ['blk1:8'], res=['i64', 'i64'])
    mk(['blk:24', 'blk1:16', 'blk:40', 'blk1:16', 'blk1:16', 'blk1:16', 'blk1:8'])
    mk(['blk1:16', 'blk1:16', 'blk1:16', 'blk1:16', 'blk1:8', 'blk2:16', 'blk3:16', 'blk4:12', 'blk2:8'])
    mk(['i64', 'i64', 'i64', 'i64', 'i64', 'blk3:16', 'blk4:16', 'blk1:8', 'd', 'd', 'd', 'd', 'd', 'd', 'd', 'blk3:12', 'blk2:8'], res=['d'])
    # the same boundary in a variadic tail
    mk(['p', 'i64', 'i64', 'i64', 'i64', 'blk1:16', 'blk1:8', 'i64'], nf=1)
    mk(['p'] + ['d'] * 7 + ['blk2:16', 'blk2:8', 'd'], nf=1, res=[])
    mk(['i64', 'i64', 'i64', 'i64', 'i64', 'blk1:16', 'blk1:8', 'blk1:8'], nf=6)
    # long doubles consume no register
    mk(['ld', 'i64', 'i64', 'i64', 'i64', 'i64', 'ld', 'blk1:16', 'ld', 'blk1:8', 'blk1:8'], res=['ld'])
    return out


def gen_aggregate_proto(rng):
    """pre-scalars filling the register classes up to the boundary, 2..5 aggregates of all classes, scalars in between"""
    ni = rng.choice([0, 3, 4, 5, 6, 7])
    nd = rng.choice([0, 0, 5, 6, 7, 8, 9])
    pre = [rng.choice(['i64', 'i32', 'p', 'u8']) for _ in range(ni)] + [rng.choice(['d', 'd', 'f']) for _ in range(nd)]
    rng.shuffle(pre)
    if rng.random() < 0.25:
        pre.insert(rng.randrange(len(pre) + 1), 'ld')
    args = list(pre)
    for _ in range(rng.choice([2, 2, 3, 3, 4, 5])):
        args.append(rng.choice(AGG_MENU))
        if rng.random() < 0.35:
            args.append(rng.choice(['i64', 'd', 'i16', 'f']))
    if rng.random() < 0.3:  # aggregates first, scalars after them
        k = len(pre)
        args = args[k:] + args[:k]
    while sum(slot_size(a) for a in args) > 600:
        args.pop()
    vararg = rng.random() < 0.2 and len(args) >= 2
    nfixed = len(args)
    if vararg:
        nfixed = rng.randint(1, len(args) - 1)
        args = args[:nfixed] + [a if is_blk(a) or a in ('i64', 'd', 'ld') else ('d' if a == 'f' else 'i64') for a in args[nfixed:]]
        if is_blk(args[nfixed - 1]):   # va_start needs a named scalar last (keeps the generated C simple)
            args.insert(nfixed, 'i64')
            nfixed += 1
    res = rng.choice([[], ['i64'], ['d'], ['i32'], ['i64', 'd'], ['d', 'd'], ['i64', 'i64'], ['ld'], ['f']])
    return dict(args=args, nfixed=nfixed, vararg=vararg, res=res, style='agg')


# ---------------------------------------------------------------- aggregates given as C type trees (round 3, wave v)

def shaped_proto(shapes, pre=(), post=(), ret=None, style='shape', between=None):
    """prototype passing the C aggregates `shapes` (gen_c05_ctypes trees) by value after the scalars `pre`; `ret`: a
    tree returned by value (<= 16 bytes) or a list of MIR result types"""
    import gen_c05_ctypes as T
    args, cty, cval = list(pre), [None] * len(pre), [None] * len(pre)
    valid = lambda t: sorted({b for o, n, _ in T.scalars(t) for b in range(o, o + n)})   # bytes that are not padding
    for i, t in enumerate(shapes):
        args.append(T.blk_type(t))
        cty.append(T.ctext(t))
        cval.append(valid(t))
        if between and i + 1 < len(shapes):
            args.append(between)
            cty.append(None)
            cval.append(None)
    args += list(post)
    cty += [None] * len(post)
    cval += [None] * len(post)
    p = dict(args=args, nfixed=len(args), vararg=False, res=[], style=style, cty=cty, cval=cval)
    if isinstance(ret, tuple) and T.res_types(ret):
        p.update(res=T.res_types(ret), rcty=T.ctext(ret), rsize=T.size_align(ret)[0], rval=valid(ret))
    elif isinstance(ret, list):
        p['res'] = ret
    return p


def zero_padding(proto, vals):
    """padding bytes of aggregates given as C type trees carry no value; an implementation may copy them or load a
    narrower member zero-extended (gcc: movss / movl), so they are passed as zero: every conforming image then agrees"""
    cv = proto.get('cval')
    if not cv:
        return vals
    return [b if c is None else bytes(x if i in set(c) else 0 for i, x in enumerate(b)) for b, c in zip(vals, cv)]


def shaped_core():
    """every aimed shape (gen_c05_ctypes.aimed_shapes) passed in registers (packed while both register files last) and
    the first one of each prototype also returned by value"""
    import gen_c05_ctypes as T
    out, cur, ni, nx = [], [], 0, 0
    def flush():
        if cur:
            out.append(shaped_proto(cur, ret=cur[0], style='shape-core', between='i64' if len(out) % 3 == 0 else 'd' if len(out) % 3 == 1 else None))
    for d, t in T.aimed_shapes():
        i, x = agg_regs(T.blk_type(t))
        if cur and (ni + i > 5 or nx + x > 7 or len(cur) >= 4):
            flush()
            cur, ni, nx = [], 0, 0
        cur.append(t)
        ni, nx = ni + i, nx + x
    flush()
    return out


def gen_shaped_proto(rng):
    """random C aggregates (nested structs / unions / arrays / anonymous members, mixed classes inside eightbytes) at
    the places the flat menu is used: alone, after scalars that leave 0..2 registers of a class, in variadic tails,
    as results"""
    import gen_c05_ctypes as T
    ni = rng.choice([0, 0, 0, 2, 4, 5, 6])
    nd = rng.choice([0, 0, 0, 4, 6, 7, 8])
    pre = [rng.choice(['i64', 'i32', 'p']) for _ in range(ni)] + [rng.choice(['d', 'f']) for _ in range(nd)]
    rng.shuffle(pre)
    shapes = [T.gen_shape(rng, rng.random() < 0.88) for _ in range(rng.choice([1, 2, 2, 3, 4]))]
    r = rng.random()
    ret = T.gen_shape(rng) if r < 0.45 else shapes[0] if r < 0.6 else rng.choice([[], ['i64'], ['d'], ['f'], ['i64', 'd'], ['d', 'd']])
    p = shaped_proto(shapes, pre=pre, ret=ret, between=rng.choice([None, None, 'i64', 'd', 'i32', 'f']))
    if rng.random() < 0.3:   # scalars after the aggregates
        k = len(pre)
        p['args'], p['cty'], p['cval'] = p['args'][k:] + p['args'][:k], p['cty'][k:] + p['cty'][:k], p['cval'][k:] + p['cval'][:k]
    if rng.random() < 0.15 and len(p['args']) >= 2:   # aggregates in a variadic tail
        nf = rng.randint(1, len(p['args']) - 1)
        args = p['args'][:nf] + [a if is_blk(a) or a in ('i64', 'd') else ('d' if a == 'f' else 'i64') for a in p['args'][nf:]]
        cty, cval = list(p['cty']), list(p['cval'])
        if is_blk(args[nf - 1]):
            args.insert(nf, 'i64')
            cty.insert(nf, None)
            cval.insert(nf, None)
            nf += 1
        p.update(args=args, cty=cty, cval=cval, nfixed=nf, vararg=True)
    return p

# C07 bit-field probes: struct shapes with one target bit-field (declared type, width, position in its
# storage unit set by the members before it, neighbours after it), C probe units that store values
# into the field and print the assignment's value, the value read back and the bytes of the whole
# object, and `c2m -S` units whose MIR text is compared with the Coq model's store_code / load_code.
# Model parameters (coq/C07/BitField.v bfield): ubits, usigned (MIR memory type), bsigned, bool.
TYPES = {  # name: (C spelling, ubits, MIR memory type, bsigned, is _Bool)
    'bool': ('_Bool', 8, 'u8', False, True),
    'char': ('char', 8, 'i8', True, False),
    'schar': ('signed char', 8, 'i8', True, False),
    'uchar': ('unsigned char', 8, 'u8', False, False),
    'short': ('short', 16, 'i16', True, False),
    'ushort': ('unsigned short', 16, 'u16', False, False),
    'int': ('int', 32, 'i32', True, False),
    'uint': ('unsigned int', 32, 'u32', False, False),
    'long': ('long', 64, 'i64', True, False),
    'ulong': ('unsigned long', 64, 'u64', False, False),
    'llong': ('long long', 64, 'i64', True, False),
    'ullong': ('unsigned long long', 64, 'u64', False, False),
    # enum bit-fields: c2m and gcc both read a field narrower than int of an enum without negative
    # enumerators as unsigned; the unit is accessed through the enum's compatible type
    'enum': ('enum EP', 32, 'i32', False, False),      # c2m: compatible type int (see design: implementation-defined)
    'enumn': ('enum EN', 32, 'i32', True, False),
}
PRELUDE = ('#include <stdio.h>\ntypedef unsigned long long u64;\nenum EP { EPA, EPB, EPC = 100 };\n'
           'enum EN { ENA = -1, ENB = 5 };\n'
           'static void dump (const char *tag, int k, int j, u64 r, u64 rb, const unsigned char *b, int n) {\n'
           '  printf ("%s %d %d %llx %llx ", tag, k, j, r, rb);\n'
           '  for (int i = 0; i < n; i++) printf ("%02x", b[i]);\n  printf ("\\n");\n}\n')


def lit(v):
    if v == -(1 << 63):
        return '(-9223372036854775807LL-1)'
    return '(%dLL)' % v


def gen_case(rng):
    """a struct: list of members ('bf', type, width, name) | ('bf0', type) | ('m', ctype, name); target name"""
    t = rng.choice(list(TYPES))
    cs, ubits, mt, sg, isb = TYPES[t]
    maxw = 1 if isb else (31 if t.startswith('enum') else ubits)
    wpool = [1, 2, 3, 5, 7, 8, 9, 15, 16, 17, 24, 31, 32, 33, 40, 63, 64, ubits - 1, ubits, ubits // 2, ubits // 2 + 1]
    mem = []
    n = 0

    def fresh():
        nonlocal n
        n += 1
        return 'm%d' % n

    def some_bf(pref=None):
        tt = pref if pref and rng.random() < 0.7 else rng.choice(list(TYPES))
        mw = 1 if TYPES[tt][4] else (31 if tt.startswith('enum') else TYPES[tt][1])
        return ('bf', tt, rng.choice([w for w in wpool if 1 <= w <= mw] + [rng.randint(1, mw)]), fresh())
    w = rng.choice([x for x in wpool if 1 <= x <= maxw] + [rng.randint(1, maxw), rng.randint(1, maxw)])
    shape = rng.random()
    if shape < 0.3 and not isb and ubits > 1:
        # the field ends exactly at the end of its unit: one field of the same type before it fills the rest
        w = min(w, ubits - 1)
        if rng.random() < 0.3:
            mem.append(('m', rng.choice(['char', 'short', 'int', 'long']), fresh()))
        mem.append(('bf', t if not t.startswith('enum') or ubits - w <= 31 else 'int', ubits - w, fresh()))
    elif shape < 0.45:
        pass                          # first member: bit offset 0
    else:
        for _ in range(rng.choice([1, 1, 2, 2, 3])):
            k = rng.random()
            if k < 0.7:
                mem.append(some_bf(t))
            elif k < 0.78:
                mem.append(('bf0', rng.choice(['char', 'int', 'long', t])))
            else:
                mem.append(('m', rng.choice(['char', 'short', 'int', 'unsigned char', 'long']), fresh()))
    mem.append(('bf', t, w, 'f'))
    for _ in range(rng.choice([0, 1, 1, 2])):
        mem.append(some_bf(t) if rng.random() < 0.8 else ('m', rng.choice(['char', 'short', 'int']), fresh()))
    # values aimed at the width's boundaries
    vs = {0, 1, -1, (1 << (w - 1)) - 1, 1 << (w - 1), -(1 << (w - 1)), -(1 << (w - 1)) - 1, (1 << w) - 1, 1 << w,
          (1 << w) + 1, 1 << 32, (1 << 63) - 1, -(1 << 63), 2, 256, rng.randint(-(1 << 63), (1 << 63) - 1),
          rng.randint(0, (1 << w) - 1), rng.randint(-(1 << 63), (1 << 63) - 1)}
    vs = [v for v in vs if -(1 << 63) <= v < (1 << 63)]
    vals = rng.sample(sorted(vs), min(6, len(vs)))
    fills = [rng.choice(['00', 'ff', 'a5', 'rnd']) for _ in vals]
    seeds = [rng.randrange(1 << 30) for _ in vals]
    forms = [rng.choice(['var', 'const', 'ptr']) for _ in vals]
    # initialiser probes: values for the named members, as a positional prefix and as a shuffled designated subset
    nm = [m for m in mem if m[0] != 'bf0']
    pool = [0, 1, -1, 2, 3, 5, 127, 128, 255, 256, 32767, 65535, (1 << 31) - 1, 1 << 31, (1 << 32) - 1, 1 << 32,
            (1 << 63) - 1, -(1 << 63), rng.randint(-(1 << 63), (1 << 63) - 1), rng.randint(0, 1 << 16)]
    ivals = [rng.choice(pool + [(1 << m[2]) - 1, 1 << (m[2] - 1)] if m[0] == 'bf' else pool) for m in nm]
    npos = rng.randint(1, len(nm))
    des = rng.sample(range(len(nm)), rng.randint(1, len(nm)))
    # a sequence of dependent stores / loads of the target and one other member through a pointer
    others = [i for i, m in enumerate(nm) if not (m[0] == 'bf' and m[3] == 'f')]
    bfo = [i for i in others if nm[i][0] == 'bf']
    seq = None
    if others:
        seq = (rng.choice(bfo) if bfo and rng.random() < 0.8 else rng.choice(others), rng.choice(pool), rng.choice(pool))
    return dict(type=t, width=w, members=mem, vals=vals, fills=fills, seeds=seeds, forms=forms, ivals=ivals, npos=npos, des=des,
                seq=seq)


def struct_text(k, c):
    s = ['struct S%d {' % k]
    for m in c['members']:
        if m[0] == 'bf':
            s.append('  %s %s : %d;' % (TYPES[m[1]][0], m[3], m[2]))
        elif m[0] == 'bf0':
            s.append('  %s : 0;' % TYPES[m[1]][0])
        else:
            s.append('  %s %s;' % (m[1], m[2]))
    s.append('};')
    s.append('union U%d { struct S%d s; unsigned char b[sizeof (struct S%d)]; };' % (k, k, k))
    return s


def fill_bytes(kind, seed, n):
    if kind == 'rnd':
        x = seed or 1
        out = []
        for _ in range(n):
            x = (x * 1103515245 + 12345) & 0x7fffffff
            out.append((x >> 16) & 0xff)
        return out
    return [int(kind, 16)] * n


def named(c):
    return [m for m in c['members'] if m[0] != 'bf0']


def probe_unit(cases):
    """One C translation unit.  Output lines:
       N k <member index> <bytes>   the object (zeroed) after storing all-ones into that member: its bits
       V k j <r> <rb> <bytes>       after filling with pattern j and executing r = (f = v_j); rb = f"""
    s = [PRELUDE]
    for k, c in enumerate(cases):
        s += struct_text(k, c)
        s.append('static long long vals%d[] = { %s };' % (k, ', '.join(lit(v) for v in c['vals']) or '0'))
        s.append('static long long setp%d (struct S%d *p, long long v) { return p->f = v; }' % (k, k))
        nm = named(c)
        mname = lambda m: m[3] if m[0] == 'bf' else m[2]
        pos = '{ %s }' % ', '.join(lit(v) for v in c['ivals'][:c['npos']])
        des = '{ %s }' % ', '.join('.%s = %s' % (mname(nm[i]), lit(c['ivals'][i])) for i in c['des'])
        if 'static' in c.get('iforms', ('static', 'auto')):
            s.append('static struct S%d sp%d = %s;\nstatic struct S%d sd%d = %s;' % (k, k, pos, k, k, des))
        if c.get('seq'):
            mn = mname(nm[c['seq'][0]])
            s.append('static void seq%d (struct S%d *p, long long a, long long b) {\n  p->f = a; p->%s = b; p->f = (u64) p->f + 1u; '
                     'p->%s = (u64) p->%s + 3u; p->f = (u64) p->f + (u64) p->%s;\n}' % (k, k, mn, mn, mn, mn))
        s.append('static void t%d (void) {' % k)
        s.append('  union U%d u; int n = (int) sizeof u.b; long long r;' % k)
        for mi, m in enumerate(named(c)):
            s.append('  for (int i = 0; i < n; i++) u.b[i] = 0;')
            s.append('  u.s.%s = -1; dump ("N", %d, %d, 0, 0, u.b, n);' % (m[3] if m[0] == 'bf' else m[2], k, mi))
        for j, v in enumerate(c['vals']):
            if c['fills'][j] == 'rnd':
                s.append('  { unsigned x = %du; for (int i = 0; i < n; i++) { x = (x * 1103515245u + 12345u) & 0x7fffffffu; '
                         'u.b[i] = (unsigned char) (x >> 16); } }' % (c['seeds'][j] or 1))
            else:
                s.append('  for (int i = 0; i < n; i++) u.b[i] = 0x%s;' % c['fills'][j])
            f = c['forms'][j]
            if f == 'var':
                s.append('  r = (u.s.f = vals%d[%d]);' % (k, j))
            elif f == 'const':
                s.append('  r = (u.s.f = %s);' % lit(v))
            else:
                s.append('  r = setp%d (&u.s, vals%d[%d]);' % (k, k, j))
            s.append('  dump ("V", %d, %d, (u64) r, (u64) (long long) u.s.f, u.b, n);' % (k, j))
        if 'static' in c.get('iforms', ('static', 'auto')):
            s.append('  dump ("I", %d, 0, 0, 0, (const unsigned char *) &sp%d, n);' % (k, k))
            s.append('  dump ("I", %d, 1, 0, 0, (const unsigned char *) &sd%d, n);' % (k, k))
        if c.get('seq'):
            s.append('  for (int i = 0; i < n; i++) u.b[i] = 0xa5;')
            s.append('  seq%d (&u.s, %s, %s); dump ("I", %d, 4, 0, 0, u.b, n);' % (k, lit(c['seq'][1]), lit(c['seq'][2]), k))
        s.append('  { struct S%d ap = %s; dump ("I", %d, 2, 0, 0, (const unsigned char *) &ap, n); }' % (k, pos, k))
        s.append('  { struct S%d ad = %s; dump ("I", %d, 3, 0, 0, (const unsigned char *) &ad, n); }' % (k, des, k))
        s.append('}')
    s.append('int main (void) {')
    for k in range(len(cases)):
        s.append('  t%d ();' % k)
    s.append('  return 0;\n}')
    return '\n'.join(s) + '\n'


def code_unit(cases):
    """functions whose MIR text (`c2m -S`) shows the emitted store / load sequence of case k"""
    s = ['enum EP { EPA, EPB, EPC = 100 };\nenum EN { ENA = -1, ENB = 5 };']
    for k, c in enumerate(cases):
        s += struct_text(k, c)[:-1]
        s.append('void st%d (struct S%d *p, long x) { p->f = x; }' % (k, k))
        s.append('long ld%d (struct S%d *p) { return p->f; }' % (k, k))
    return '\n'.join(s) + '\n'


def parse_out(out):
    """{'N': {(k, mi): bytes}, 'V': {(k, j): (r, rb, bytes)}}"""
    N, V = {}, {}
    for l in out.split('\n'):
        w = l.split()
        if len(w) == 6 and w[0] in ('N', 'V', 'I'):
            try:
                k, j, r, rb, b = int(w[1]), int(w[2]), int(w[3], 16), int(w[4], 16), bytes.fromhex(w[5])
            except ValueError:
                continue
            if w[0] == 'N':
                N[(k, j)] = b
            elif w[0] == 'I':
                V[(k, 'I', j)] = b
            else:
                V[(k, j)] = (r, rb, b)
    return N, V


INIT_FORMS = ['static object, positional initialiser', 'static object, designated initialiser',
              'automatic object, positional initialiser', 'automatic object, designated initialiser',
              'dependent stores and loads of two members through a pointer']


def member_extents(c, k, N):
    """[(A, width)] of the named members from the reference run (bits set by storing all-ones), or None"""
    out = []
    for mi, m in enumerate(named(c)):
        b = N.get((k, mi))
        if b is None:
            return None
        x = int.from_bytes(b, 'little')
        if x == 0:
            return None
        A = (x & -x).bit_length() - 1
        w = x.bit_length() - A
        if x != ((1 << w) - 1) << A:
            return None
        out.append((A, w))
    return out


def init_expect(c, ext, form):
    """named bits of the object after initialisation form 0..3 (C11 6.7.9: members without initialiser are
    zero; each value converted to the member's type: modulo 2^width, != 0 for _Bool)"""
    nm = named(c)
    idx = list(range(c['npos'])) if form in (0, 2) else c['des']
    M = 0
    for i in idx:
        A, w = ext[i]
        v = c['ivals'][i]
        bits = (1 if v != 0 else 0) if (nm[i][0] == 'bf' and TYPES[nm[i][1]][4]) else v % (1 << w)
        M = (M & ~(((1 << w) - 1) << A)) | (bits << A)
    return M


MEMBER_SIGNED = {'char': True, 'short': True, 'int': True, 'unsigned char': False, 'long': True}


def seq_expect(c, ext, size):
    """named bits after seq (object pre-filled with a5): p->f = a; p->m = b; p->f = (u64) p->f + 1; p->m = (u64) p->m + 3;
    p->f = (u64) p->f + (u64) p->m   (reads sign- or zero-extend, stores reduce modulo 2^width, _Bool stores != 0)"""
    nm = named(c)
    mi, a, b = c['seq']
    fi = [i for i, m in enumerate(nm) if m[0] == 'bf' and m[3] == 'f'][0]

    def props(i):
        m = nm[i]
        if m[0] == 'bf':
            return TYPES[m[1]][3], TYPES[m[1]][4]
        return MEMBER_SIGNED[m[1]], False

    def conv(i, v):
        sg, isb = props(i)
        w = ext[i][1]
        return (1 if v % (1 << 64) != 0 else 0) if isb else v % (1 << w)

    def rd(i, bits):
        sg, isb = props(i)
        w = ext[i][1]
        return bits - (1 << w) if sg and bits >> (w - 1) else bits
    f = conv(fi, a)
    m = conv(mi, b)
    f = conv(fi, rd(fi, f) + 1)
    m = conv(mi, rd(mi, m) + 3)
    f = conv(fi, rd(fi, f) + rd(mi, m))
    M = int.from_bytes(bytes([0xa5] * size), 'little')
    for i, bits in ((fi, f), (mi, m)):
        A, w = ext[i]
        M = (M & ~(((1 << w) - 1) << A)) | (bits << A)
    return M


def mixed_units(c, ext):
    """bit-fields whose storage units have different sizes and share bytes (the shape of the known finding
    prog:corpus:c07_prog_mixed_bitfield_init.c)"""
    us = []
    for m, (A, w) in zip(named(c), ext):
        if m[0] == 'bf':
            S = TYPES[m[1]][1]
            us.append((S, (A // S) * (S // 8), (A // S) * (S // 8) + S // 8))
    for i in range(len(us)):
        for j in range(i):
            if us[i][0] != us[j][0] and us[i][1] < us[j][2] and us[j][1] < us[i][2]:
                return True
    return False


def layout(c, k, N):
    """from the reference run: (size, A, w, named mask) of case k: absolute bit position and width of the
    target field and the bits that belong to named members; None when the measurement is unusable"""
    ms = named(c)
    mask = 0
    tgt = None
    size = None
    for mi, m in enumerate(ms):
        b = N.get((k, mi))
        if b is None:
            return None
        size = len(b)
        x = int.from_bytes(b, 'little')
        mask |= x
        if m[0] == 'bf' and m[3] == 'f':
            tgt = x
    if not tgt:
        return None
    A = (tgt & -tgt).bit_length() - 1
    w = tgt.bit_length() - A
    if tgt != ((1 << w) - 1) << A or w != c['width']:
        return None
    return size, A, w, mask


def mir_functions(text):
    """{name: [insn text]} from `c2m -S` output"""
    fs, cur = {}, None
    for l in text.split('\n'):
        t = l.strip()
        if not t or t.startswith('#'):
            continue
        if ':' in t.split()[0] and len(t.split()) > 1 and t.split()[1] == 'func':
            cur = t.split(':')[0]
            fs[cur] = []
        elif t == 'endfunc':
            cur = None
        elif cur is not None and not t.startswith('local'):
            fs[cur].append(t)
    return fs


def split_insn(t):
    w = t.replace(',', ' ').split()
    return w[0], w[1:]


def is_mem(o):
    return '(' in o and ':' in o


def canon_access(insns, kind):
    """the bit-field access part of a function: from the insn reading the unit to the insn writing it
    (store) or through the shifts that follow (load); operands renamed: unit, val (defined outside the
    part), t0, t1, ... in order of first definition.  Returns (text, memory type, displacement)"""
    start = None
    for i, t in enumerate(insns):
        op, a = split_insn(t)
        if op == 'mov' and len(a) == 2 and is_mem(a[1]):
            start = i
            break
    if start is None:
        return None
    part = []
    for t in insns[start:]:
        op, a = split_insn(t)
        if kind == 'load' and part and op not in ('lsh', 'rsh', 'ursh'):
            break
        part.append((op, a))
        if kind == 'store' and a and is_mem(a[0]):
            break
    mem = [o for op, a in part for o in a if is_mem(o)][0]
    ty, rest = mem.split(':', 1)
    disp = rest.split('(')[0]
    names = {}
    out = []
    for op, a in part:
        b = []
        for idx, o in enumerate(a):
            if is_mem(o):
                b.append('unit')
            elif o.lstrip('-').isdigit():
                b.append(o)
            else:
                if o not in names:
                    names[o] = ('t%d' % len([v for v in names.values() if v != 'val'])) if idx == 0 else 'val'
                b.append(names[o])
        out.append(' '.join([op] + b))
    return '|'.join(out), ty, int(disp) if disp else 0


def canon_model(code):
    """the model's text 'mov r2 unit|and r2 r2 N|...' with registers renamed in order of first definition"""
    names = {}
    out = []
    for t in code.split('|'):
        w = t.split()
        b = []
        for idx, o in enumerate(w[1:]):
            if o.startswith('r') and o[1:].isdigit():
                if o not in names:
                    names[o] = 't%d' % len(names)
                b.append(names[o])
            else:
                b.append(o)
        out.append(' '.join([w[0]] + b))
    return '|'.join(out)

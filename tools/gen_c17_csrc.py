# C translation units for the C17 / C18 API histories (used by tools/gen_c17_scen.py): c2mir feature coverage.
# Every unit defines   long f@N@ (long n)   (@N@ is replaced by a unique serial), compiles without errors in c2mir's
# default (non-pedantic) mode, needs no external header file unless it names one of HEADERS (written by the script's
# `file` command into a private include directory, compile option I), and computes a result that does not depend on
# the clock or on addresses.
# Each entry: (tag, source, opts) -- opts = compile options the unit NEEDS (macro commands / I), '' if none.

HEADERS = {
    'c17cfg.h': """#ifndef C17CFG_H
#define C17CFG_H
#include "c17sub.h"
#define CFG_SCALE(x) ((x) * CFG_BASE + 1)
typedef struct cfg_pair { long a, b; } cfg_pair_t;
static inline long cfg_sum (cfg_pair_t p) { return p.a + p.b; }
#endif
""",
    'c17sub.h': """#ifndef C17SUB_H
#define C17SUB_H
#include <stdint.h>
#define CFG_BASE 7
enum cfg_kind { CFG_A = 1, CFG_B = 4, CFG_C = CFG_A + CFG_B };
#endif
#ifndef C17SUB_TWICE
#define C17SUB_TWICE 1
#else
#undef C17SUB_TWICE
#define C17SUB_TWICE 2
#endif
""",
}

UNITS = []


def unit(tag, src, opts=''):
    UNITS.append((tag, src, opts))


# --- preprocessor: differing redefinitions of function-like macros without #undef (a warning in default mode),
#     function-like <-> object-like, identical redefinition, #undef + #define
unit('redef', """#define SCALE(x) ((x) * 2)
#define OBJ 3
#define TWICE(a) ((a) + (a))
static long a@N@ (long v) { return SCALE (v) + OBJ + TWICE (v); }
#define SCALE(x, y) ((x) * (y))
#define OBJ (4 + 1)
#define TWICE(a) ((a) + (a))
static long b@N@ (long v) { return SCALE (v, 3) + OBJ + TWICE (v); }
#define SCALE 10
#define OBJ(p, q, r) ((p) + (q) + (r))
static long c@N@ (long v) { return SCALE + OBJ (v, 1, 2); }
#undef SCALE
#define SCALE(first, second, third) ((first) - (second) + (third))
#define SCALE(a, b, c) ((a) - (b) + (c))
#define SCALE(a, b, c) ((a) - (b) + (c) + 0)
long f@N@ (long n) { return a@N@ (n) + b@N@ (n) * 3 + c@N@ (n) * 5 + SCALE (n, 1, 2); }
""")

# --- variadic macros, # and ##, nested calls, empty arguments, _Pragma / #pragma, #line, null directive, __COUNTER__-free
unit('vamacro', """#define APPLY(f, ...) f (__VA_ARGS__)
#define SUM3(a, b, c) ((a) + (b) + (c))
#define FIRST(a, ...) (a)
#define STR_(x) #x
#define STR(x) STR_ (x)
#define GLUE_(a, b) a##b
#define GLUE(a, b) GLUE_ (a, b)
#define GLUE3(a, b, c) GLUE (GLUE (a, b), c)
#define STRV(...) #__VA_ARGS__
#define EMPTY
#define ID(x) x
#define CALL2(m, a) m (m (a))
#define INC(x) ((x) + 1)
#
#pragma once
_Pragma ("something harmless")
#line 500 "renamed@N@.c"
static const char s@N@[] = STR (GLUE3 (al, lo, cator)) STR (EMPTY) STRV (a + b  ,  "q\\"uote" 'c');
long f@N@ (long n) {
  long GLUE (va, lue) = APPLY (SUM3, n, ID (2), CALL2 (INC, 3)) EMPTY;
  long t = FIRST (n, ignored, also ignored) + APPLY (INC, APPLY (INC, n));
  int line = __LINE__;
  return value + t + (long) sizeof (s@N@) + (line > 500) + s@N@[2];
}
""")

# --- conditional compilation paths driven from the command line (-D / -U)
unit('cmdline', """#ifndef LIMIT@N@
#error LIMIT@N@ must come from the command line
#endif
#if LIMIT@N@ >= 10 && !defined(NOTDEF@N@) && (MODE@N@ - 0) == 2
#define PICK(a, b) (a)
#elif LIMIT@N@ < 0
#define PICK(a, b) (b)
#else
#define PICK(a, b) ((a) + (b))
#endif
#ifdef __x86_64__
#define ARCH 1
#else
#define ARCH 0
#endif
long f@N@ (long n) { return PICK (n * LIMIT@N@, -n) + ARCH + NAME@N@; }
""", 'DLIMIT@N@=11,DMODE@N@=2,DNOTDEF@N@,UNOTDEF@N@,DNAME@N@=(40+2),DLIMIT@N@=12')

# --- every built-in header; iso646 operators; stdbool; stdalign; stdnoreturn; float/limits constants
unit('headers', """#include <float.h>
#include <iso646.h>
#include <limits.h>
#include <stdalign.h>
#include <stdarg.h>
#include <stdbool.h>
#include <stddef.h>
#include <stdint.h>
#include <stdnoreturn.h>
#include <stdint.h>
static noreturn void stop@N@ (void) { for (;;) ; }
static alignas (16) char buf@N@[32];
long f@N@ (long n) {
  bool t = n > 3 and n < 100 or not n;
  size_t al = alignof (max_align_t) + alignof (long double) + sizeof (buf@N@);
  ptrdiff_t d = &buf@N@[9] - &buf@N@[2];
  int64_t big = INT64_MAX / 3; uint16_t h = UINT16_MAX; intptr_t ip = (intptr_t) 0;
  if (n == -12345) stop@N@ ();
  return t + (long) al + d + (big > 0) + h + ip + (DBL_DIG > FLT_DIG) + (CHAR_BIT xor 1) + (LONG_MAX == INT64_MAX) + (n bitand 5);
}
""")

# --- user headers from an include directory: nested include, guards, a header included twice, "..." and <...> forms,
#     macro-expanded include name
unit('userinc', """#include "c17cfg.h"
#include <c17sub.h>
#define HNAME "c17sub.h"
#include HNAME
#include "c17cfg.h"
long f@N@ (long n) {
  cfg_pair_t p = {n, CFG_C};
  enum cfg_kind k = n % 2 ? CFG_A : CFG_B;
  return CFG_SCALE (n) + cfg_sum (p) + k + C17SUB_TWICE;
}
""", 'I')

# --- typedef / enum / union / nested struct / compound literals / designated initialisers / struct by value
unit('aggr', """typedef struct in@N@ { short s; char c[3]; } in@N@_t;
typedef struct out@N@ { in@N@_t in[2]; long l; double d; union { int i; float f; unsigned char b[4]; } u; } out@N@_t;
enum col@N@ { RED@N@, GREEN@N@ = 5, BLUE@N@ };
struct big@N@ { long v[9]; };
static struct big@N@ mk@N@ (long n) { struct big@N@ b = {.v = {[2] = n, [8] = 3 * n}}; return b; }
static long sumbig@N@ (struct big@N@ b, in@N@_t small) { long s = small.s; for (int i = 0; i < 9; i++) s += b.v[i]; return s; }
static out@N@_t glob@N@ = {.in = {[1] = {.s = 7, .c = "xy"}}, .l = 11, .u.i = 0x01020304};
long f@N@ (long n) {
  out@N@_t o = glob@N@, *p = &o;
  in@N@_t *q = &(in@N@_t){.s = (short) n, .c = {1, 2, 3}};
  long arr[4] = {1, 2, 3, ((struct big@N@){.v = {[3] = n}}).v[3]};
  enum col@N@ c = n & 1 ? BLUE@N@ : GREEN@N@;
  struct big@N@ b = mk@N@ (n), b2;
  b2 = b;
  p->in[0] = *q;
  p->d = 2.5;
  return o.in[0].s + o.in[0].c[2] + o.in[1].s + o.in[1].c[1] + o.l + o.u.b[0] + arr[3] + c + sumbig@N@ (b2, *q) + (long) p->d
         + (long) sizeof (out@N@_t);
}
""")

# --- dense and sparse switch, fall through, nested loops with break/continue, goto, labels as values
unit('control', """static long disp@N@ (long n) {
  static const void *const tab[] = {&&l0, &&l1, &&l2};
  long r = 0;
  goto *tab[n % 3 < 0 ? 0 : n % 3];
l0: r += 1;
l1: r += 10;
l2: r += 100;
  return r;
}
long f@N@ (long n) {
  long r = 0;
  for (long i = 0; i < 40; i++) {
    switch ((i + n) % 12) {
    case 0: r += 1; break;
    case 1: r += 2;
    case 2: r += 3; break;
    case 3: case 4: case 5: r ^= i; break;
    case 6: continue;
    case 7: r -= 2; break;
    case 8: r *= 3; r %= 100003; break;
    case 9: { long j = 0; while (1) { if (++j > 5) break; if (j & 1) continue; r += j; } } break;
    case 10: if (i > 30) goto out; break;
    default: r += 7;
    }
    switch (i * 1000) { case 5000: r += 5; break; case 20000: r += 20; break; case 39000: r += 39; break; }
  }
out:
  return r + disp@N@ (n < 0 ? -n : n);
}
""")

# --- long double, float, mixed conversions, unsigned wrap, shifts, division, comparison chains
unit('arith', """long f@N@ (long n) {
  long double ld = 1.25L; float fl = 0.5f; double d = 3.0; unsigned char uc = 250; signed char sc = -3; unsigned long ul = ~0ul;
  short sh = (short) (n * 1000); unsigned int ui = 7u;
  for (int i = 0; i < 10; i++) { ld = ld * 1.5L + i; fl = fl * 2.0f - (float) i / 4; d = d / 1.5 + fl; uc += 3; sc = (signed char) (sc * 2); }
  ul >>= 60; ui <<= 3; ui |= (unsigned) n & 0xf0u; ui ^= ui >> 2;
  long q = n ? 1000 / (n < 0 ? -n : n) : 0, rem = n ? 1000 % (n < 0 ? -n : n) : 0;
  return (long) ld + (long) fl + (long) d + uc + sc + (long) ul + sh + ui + q + rem + (ld > d) + (fl <= d) + (n >= 0 && d != 0.0)
         + (long) (unsigned char) n + (long) (float) n + (-n >> 1) + (int) (ld * 3);
}
""")

# --- static data with relocations: pointers to other statics (with offsets), tables of strings and of function
#     pointers, wide / escaped string literals, static locals, const folding in initialisers
unit('relocs', """static long one@N@ (long x) { return x + 1; }
static long two@N@ (long x) { return x * 2; }
static long arr@N@[6] = {5, 6, 7, 8, 9, 10};
static long *mid@N@ = &arr@N@[3];
static long *const ends@N@[2] = {arr@N@, arr@N@ + 5};
static const char *const names@N@[] = {"zero", "one", "two", "three\\tfour", "\\x41\\101\\n"};
static long (*const fns@N@[]) (long) = {one@N@, two@N@, one@N@};
static struct { const char *s; long *p; long (*f) (long); int k; } recs@N@[] = {{"ab", &arr@N@[1], two@N@, sizeof (arr@N@) / sizeof (arr@N@[0])}, {"cde", arr@N@ + 4, one@N@, 1 << 4}};
static const int wide@N@[] = {L'a', L'\\0'};
long f@N@ (long n) {
  static long calls = 0;
  long r = *mid@N@ + *ends@N@[1] - *ends@N@[0] + names@N@[(n & 3) + 1][0] + names@N@[4][1];
  calls++;
  for (unsigned i = 0; i < 3; i++) r = fns@N@[i](r);
  for (unsigned i = 0; i < 2; i++) r += recs@N@[i].s[1] + *recs@N@[i].p + recs@N@[i].f (i) + recs@N@[i].k;
  return r + calls * 0 + wide@N@[0] + (long) sizeof (L"ab") + "lit"[1];
}
""")

# --- alloca, multi-dimensional arrays, pointer arithmetic (c2mir has no variable-length arrays)
unit('alloca', """extern void *alloca (unsigned long);
long f@N@ (long n) {
  long k = (n < 0 ? -n : n) % 13 + 2;
  long v[16]; int m[3][4]; long r = 0;
  char *a = alloca ((unsigned long) k * 2);
  for (long i = 0; i < k; i++) { v[i] = i * i; a[2 * i] = (char) i; a[2 * i + 1] = (char) -i; }
  for (int i = 0; i < 3; i++) for (int j = 0; j < 4; j++) m[i][j] = i * 4 + j;
  long *p = v + k, *q = v;
  while (q != p) r += *q++;
  { long w[8][2]; w[k / 2][1] = 9; r += (long) (sizeof (w) / sizeof (w[0])) + w[k / 2][1]; }
  return r + (long) sizeof (v) + m[2][3] + *(*(m + 1) + 2) + (long) (p - v) + a[2] + a[3];
}
""")

# --- inline functions, recursion through pointers, _Static_assert, _Generic, _Alignof, old-style definition,
#     variadic with doubles, comma, nested ternaries
unit('funcs', """#include <stdarg.h>
_Static_assert (sizeof (long) == 8, "LP64");
static inline long sq@N@ (long x) { return x * x; }
inline long cube@N@ (long x) { return x * sq@N@ (x); }
extern long cube@N@ (long);
static long old@N@ (a, b) long a; int b; { return a - b; }
static double avg@N@ (int k, ...) { va_list ap, ap2; double s = 0; va_start (ap, k); va_copy (ap2, ap); for (int i = 0; i < k; i++) s += va_arg (ap, double); va_end (ap); s += va_arg (ap2, double); va_end (ap2); return s / k; }
static long ack@N@ (long m, long n) { return m == 0 ? n + 1 : n == 0 ? ack@N@ (m - 1, 1) : ack@N@ (m - 1, ack@N@ (m, n - 1)); }
#define KIND(x) _Generic ((x), long: 1, double: 2, char *: 3, default: 4)
long f@N@ (long n) {
  long (*fp) (long) = n & 1 ? sq@N@ : cube@N@;
  long r = (n++, fp (n % 50));
  return r + old@N@ (n, 2) + (long) avg@N@ (3, 1.0, 2.5, (double) n) + ack@N@ (2, 3) + KIND (n) + KIND (1.5) * 10 + KIND ("s") * 100
         + KIND ('c') * 1000 + (long) _Alignof (double);
}
""")

# --- bit-fields (signed, unsigned, zero-width, crossing units), unions of structs, compound assignment on fields
unit('bits', """struct bf@N@ { unsigned a : 3; int b : 5; unsigned : 0; unsigned long c : 33; int d : 1; unsigned e : 12, g : 20; };
union pun@N@ { struct { unsigned char lo, hi; } b; unsigned short w; };
long f@N@ (long n) {
  struct bf@N@ x = {7, -16, 0x1ffffffffUL, -1, 0xabc, 0x12345};
  union pun@N@ p; long r;
  x.a += (unsigned) n; x.b -= 3; x.c ^= (unsigned long) n << 20; x.e++; x.g >>= 4; x.d = (int) n;
  p.w = 0x1234; p.b.lo ^= 0xff;
  r = x.a + x.b + (long) (x.c >> 8) + x.d + x.e + x.g + p.w + (long) sizeof (struct bf@N@);
  return r;
}
""")

# --- libc-like imports resolved by the harness (memset/memcpy/strlen/labs), implicit struct copies (block moves)
unit('imports', """extern void *memset (void *, int, unsigned long);
extern void *memcpy (void *, const void *, unsigned long);
extern unsigned long strlen (const char *);
extern long labs (long);
extern long host_add (long, long);
struct blk@N@ { char c[200]; long tail; };
static struct blk@N@ keep@N@;
long f@N@ (long n) {
  struct blk@N@ a, b;
  memset (&a, (int) (n & 7), sizeof (a));
  a.tail = labs (-n);
  b = a;
  keep@N@ = b;
  memcpy (a.c, "hello, world", 13);
  return (long) strlen (a.c) + keep@N@.c[100] + keep@N@.tail + host_add (b.c[199], a.c[4]);
}
""")

# --- many declarations / scopes / shadowing / long expression chains (symbol-table and node churn)
unit('scopes', """typedef long T@N@;
static T@N@ g@N@ = 3;
long f@N@ (long n) {
  T@N@ r = g@N@;
  { T@N@ g@N@ = 4; r += g@N@; { enum { g@N@ = 9 }; r += g@N@; } r += g@N@; }
  for (int i = 0; i < 3; i++) { long T@N@ = i; r += T@N@; }
  struct loc { struct loc *next; long v; } c = {0, 3}, b = {&c, 2}, a = {&b, 1};
  for (struct loc *p = &a; p; p = p->next) r = r * 3 + p->v;
  r += ((((((((n + 1) * 2 - 3) / 2 + 4) % 1000 - 5) ^ 6) | 7) & 0xffff) << 2) >> 1;
  return r + (n > 0 ? n > 10 ? n > 100 ? 3 : 2 : 1 : 0);
}
""")

# C07: typed-expression probes.  Builds (a) model queries for ocaml/driver_c07.ml and (b) C translation
# units that evaluate the same typed expressions in constant contexts and at run time.
TYPES = ['bool', 'char', 'schar', 'uchar', 'short', 'ushort', 'int', 'uint', 'long', 'ulong', 'llong', 'ullong',
         'float', 'double', 'ldouble']
INT_TYPES = TYPES[:12]
CNAME = {'bool': '_Bool', 'char': 'char', 'schar': 'signed char', 'uchar': 'unsigned char', 'short': 'short',
         'ushort': 'unsigned short', 'int': 'int', 'uint': 'unsigned int', 'long': 'long', 'ulong': 'unsigned long',
         'llong': 'long long', 'ullong': 'unsigned long long', 'float': 'float', 'double': 'double',
         'ldouble': 'long double'}
WIDTH = {'bool': 1, 'char': 8, 'schar': 8, 'uchar': 8, 'short': 16, 'ushort': 16, 'int': 32, 'uint': 32, 'long': 64,
         'ulong': 64, 'llong': 64, 'ullong': 64}
SIGNED = {'bool': False, 'char': True, 'schar': True, 'uchar': False, 'short': True, 'ushort': False, 'int': True,
          'uint': False, 'long': True, 'ulong': False, 'llong': True, 'ullong': False}
ORD = {t: i for i, t in enumerate(TYPES)}
BINOPS = ['+', '-', '*', '/', '%', '&', '|', '^', '<<', '>>', '==', '!=', '<', '<=', '>', '>=']
UNOPS = ['+', '-', '~', '!']

TN_MACRO = ('#define TN(e) _Generic((e), int:6, unsigned int:7, long:8, unsigned long:9, long long:10, '
            'unsigned long long:11, float:12, double:13, long double:14, default:-1)\n')


def tmin(t):
    return -(1 << (WIDTH[t] - 1)) if SIGNED[t] else 0


def tmax(t):
    return (1 << (WIDTH[t] - 1)) - 1 if SIGNED[t] else (1 << WIDTH[t]) - 1


def boundary(t):
    w = WIDTH[t]
    vs = {tmin(t), tmin(t) + 1, tmax(t), tmax(t) - 1, 0, 1, 2, 3, 7}
    if SIGNED[t]:
        vs |= {-1, -2, -7}
    for k in (w - 1, w, w // 2, 31, 32, 63):
        if tmin(t) <= k <= tmax(t):
            vs.add(k)
    if w >= 8:
        vs.add(1 << (w // 2))
        vs.add((1 << (w // 2)) - 1)
    return sorted(v for v in vs if tmin(t) <= v <= tmax(t))


def hexs(v):
    return ('-%x' % -v) if v < 0 else '%x' % v


def wide_lit(v):
    if v == -(1 << 63):
        return '(-9223372036854775807LL-1)'
    if v < 0:
        return '(-%dLL)' % -v
    if v > (1 << 63) - 1:
        return '%dULL' % v
    return '%dLL' % v


def typed_lit(t, v):
    return '((%s)%s)' % (CNAME[t], wide_lit(v))


def as_u64(v):
    return v % (1 << 64)


# _Generic selection itself: the controlling expression is NOT promoted (C11 6.5.1.1p2-3), top-level
# qualifiers are dropped by lvalue conversion (DR 481), so every basic type selects its own association
TN2_MACRO = ('#define TN2(e) _Generic((e), _Bool:0, char:1, signed char:2, unsigned char:3, short:4, unsigned short:5, '
             'int:6, unsigned int:7, long:8, unsigned long:9, long long:10, unsigned long long:11, float:12, double:13, '
             'long double:14, default:-1)\n')
# character constants: 6.4.4.4p10 integer character constant: int; p11 u'x' char16_t, U'x' char32_t (<uchar.h>:
# uint_least16_t / uint_least32_t = unsigned short / unsigned int); L'x' (wchar_t = int) is the known finding
# prog:corpus:c07_prog_wchar_const.c and is probed there
CHAR_CONSTS = [("'a'", 6), ("'\\xff'", 6), ("'\\0'", 6), ("'\\377'", 6), ("u'a'", 5), ("U'a'", 7), ("u'\\xffff'", 5)]
# promotion of bit-fields of type _Bool / int / unsigned (6.3.1.1p2): int if int can represent all values of
# the field, else unsigned int; char and short bit-fields (implementation-defined types, gcc: like int)
BF_PROM = [(t, w) for t in ('int', 'uint') for w in (1, 2, 7, 8, 15, 16, 17, 30, 31, 32)] + \
          [('bool', 1), ('char', 1), ('char', 7), ('char', 8), ('uchar', 8), ('schar', 3), ('short', 16), ('ushort', 16),
           ('ushort', 9), ('short', 1)]


def fixed_expect(name):
    """expected type id of the probes whose expectation does not come from the Coq conversion model"""
    w = name.split()
    if w[0] in ('glv', 'gcast', 'gclv'):
        return int(w[1])
    if w[0] == 'chr':
        return CHAR_CONSTS[int(w[1])][1]
    if w[0] == 'chrsize':
        return 4
    if w[0] == 'bfp':
        t, wd = BF_PROM[int(w[1])]
        return ORD['uint'] if (t == 'uint' and wd == 32) else ORD['int']
    return None


def type_probe_unit(lits):
    """C text printing one line per probe: 'conv i j id', 'cond i j id', 'shift i j id', 'cmp i j id',
    'un op i id', 'lit k id'.  lits: list of literal spellings."""
    s = ['#include <stdio.h>\n', TN_MACRO, TN2_MACRO]
    for i, t in enumerate(TYPES):
        s.append('%s v%d;\n' % (CNAME[t], i))
        s.append('const %s cv%d = 1;\n' % (CNAME[t], i))
    s.append('volatile int vc;\n')
    s.append('struct BFP { %s } bfp;\n' % ' '.join('%s b%d : %d;' % (CNAME[t], k, w) for k, (t, w) in enumerate(BF_PROM)))
    rows = []
    n = len(TYPES)
    for i in range(n):
        for j in range(n):
            rows.append(('conv %d %d' % (i, j), 'TN(v%d + v%d)' % (i, j)))
            rows.append(('mul %d %d' % (i, j), 'TN(v%d * v%d)' % (i, j)))
            rows.append(('cond %d %d' % (i, j), 'TN(vc ? v%d : v%d)' % (i, j)))
            rows.append(('cmp %d %d' % (i, j), 'TN(v%d < v%d)' % (i, j)))
            if i < 12 and j < 12:
                rows.append(('shift %d %d' % (i, j), 'TN(v%d << v%d)' % (i, j)))
                rows.append(('and %d %d' % (i, j), 'TN(v%d & v%d)' % (i, j)))
    for i in range(n):
        rows.append(('un + %d' % i, 'TN(+v%d)' % i))
        rows.append(('un - %d' % i, 'TN(-v%d)' % i))
        rows.append(('un ! %d' % i, 'TN(!v%d)' % i))
        if i < 12:
            rows.append(('un ~ %d' % i, 'TN(~v%d)' % i))
    for k, l in enumerate(lits):
        rows.append(('lit %d' % k, 'TN(%s)' % l))
    for i in range(n):
        rows.append(('glv %d' % i, 'TN2(v%d)' % i))
        rows.append(('gcast %d' % i, 'TN2((%s)v6)' % CNAME[TYPES[i]]))
        rows.append(('gclv %d' % i, 'TN2(cv%d)' % i))
    for k, (c, _) in enumerate(CHAR_CONSTS):
        rows.append(('chr %d' % k, 'TN2(%s)' % c))
    rows.append(('chrsize 0', "(int) sizeof ('a')"))
    for k in range(len(BF_PROM)):
        rows.append(('bfp %d +' % k, 'TN(+bfp.b%d)' % k))
        rows.append(('bfp %d -' % k, 'TN(bfp.b%d - 1)' % k))
        rows.append(('bfp %d <<' % k, 'TN(bfp.b%d << 1)' % k))
    s.append('static const signed char tab[] = {\n')
    for r in rows:
        s.append('  %s,\n' % r[1])
    s.append('};\nstatic const char *const names[] = {\n')
    for r in rows:
        s.append('  "%s",\n' % r[0])
    s.append('};\nint main (void) {\n  for (int i = 0; i < %d; i++) printf ("%%s %%d\\n", names[i], tab[i]);\n'
             '  return 0;\n}\n' % len(rows))
    return ''.join(s), [r[0] for r in rows]


LIT_VALUES = [0, 1, 7, 2 ** 15, 2 ** 16 - 1, 2 ** 31 - 1, 2 ** 31, 2 ** 32 - 1, 2 ** 32, 2 ** 63 - 1, 2 ** 63, 2 ** 64 - 1]
LIT_SUFFIXES = ['-', 'u', 'U', 'l', 'L', 'ul', 'UL', 'lu', 'Lu', 'll', 'LL', 'ull', 'ULL', 'llu', 'LLU']


def literal_cases():
    out = []
    for v in LIT_VALUES:
        for r in 'dxo':
            for sfx in LIT_SUFFIXES:
                body = {'d': '%d', 'x': '0x%x', 'o': '0%o'}[r] % v
                out.append((r, sfx, v, body + ('' if sfx == '-' else sfx)))
    return out


# ------------------------------------------------------------------ value probes
def gen_value_cases(rng, n):
    """typed operator applications as model queries: ('bin', op, ta, va, tb, vb) | ('un', op, ta, va) |
    ('cast', t, ta, va) | ('cond', tc, vc, ta, va, tb, vb) | ('land'|'lor', ta, va, tb, vb)"""
    out = []
    for _ in range(n):
        r = rng.random()
        ta, tb = rng.choice(INT_TYPES), rng.choice(INT_TYPES)
        va, vb = pick(rng, ta), pick(rng, tb)
        if r < 0.66:
            op = rng.choice(BINOPS)
            if op in ('<<', '>>') and rng.random() < 0.85:
                vb = rng.choice([v for v in (0, 1, 2, 7, 15, 16, 31, 32, 33, 63) if tmin(tb) <= v <= tmax(tb)])
            if op in ('/', '%') and vb == 0 and rng.random() < 0.9:
                vb = rng.choice([v for v in (1, 2, 3, -1, 7, tmax(tb)) if tmin(tb) <= v <= tmax(tb)])
            out.append(('bin', op, ta, va, tb, vb))
        elif r < 0.78:
            out.append(('un', rng.choice(UNOPS), ta, va))
        elif r < 0.90:
            out.append(('cast', rng.choice(INT_TYPES), ta, va))
        elif r < 0.96:
            tc = rng.choice(INT_TYPES)
            out.append(('cond', tc, rng.choice([0, 1, tmax(tc)]), ta, va, tb, vb))
        else:
            out.append((rng.choice(['land', 'lor']), ta, va, tb, vb))
    return out


def pick(rng, t):
    if rng.random() < 0.8:
        return rng.choice(boundary(t))
    return rng.randint(tmin(t), tmax(t))


def all_boundary_bin_cases(ops=None):
    """exhaustive: every operator x type pair x boundary value pair (thorough tier)"""
    for op in (ops or BINOPS):
        for ta in INT_TYPES:
            for tb in INT_TYPES:
                for va in boundary(ta):
                    for vb in boundary(tb):
                        yield ('bin', op, ta, va, tb, vb)


def query(c):
    k = c[0]
    if k == 'bin':
        return 'bin %s %s %s %s %s' % (c[1], c[2], hexs(c[3]), c[4], hexs(c[5]))
    if k == 'un':
        return 'un %s %s %s' % (c[1], c[2], hexs(c[3]))
    if k == 'cast':
        return 'cast %s %s %s' % (c[1], c[2], hexs(c[3]))
    if k == 'cond':
        return 'cond %s %s %s %s %s %s' % (c[1], hexs(c[2]), c[3], hexs(c[4]), c[5], hexs(c[6]))
    return '%s %s %s %s %s' % (k, c[1], hexs(c[2]), c[3], hexs(c[4]))


def const_expr(c):
    """the expression with typed literal operands (a constant expression)"""
    k = c[0]
    if k == 'bin':
        return '(%s %s %s)' % (typed_lit(c[2], c[3]), c[1], typed_lit(c[4], c[5]))
    if k == 'un':
        return '(%s %s)' % (c[1], typed_lit(c[2], c[3]))
    if k == 'cast':
        return '((%s)%s)' % (CNAME[c[1]], typed_lit(c[2], c[3]))
    if k == 'cond':
        return '(%s ? %s : %s)' % (typed_lit(c[1], c[2]), typed_lit(c[3], c[4]), typed_lit(c[5], c[6]))
    return '(%s %s %s)' % (typed_lit(c[1], c[2]), '&&' if k == 'land' else '||', typed_lit(c[3], c[4]))


def runtime_expr(c, names):
    """the same expression over variables names = (x, y, z)"""
    k = c[0]
    x, y, z = names
    if k == 'bin':
        return '(%s %s %s)' % (x, c[1], y)
    if k == 'un':
        return '(%s %s)' % (c[1], x)
    if k == 'cast':
        return '((%s)%s)' % (CNAME[c[1]], x)
    if k == 'cond':
        return '(%s ? %s : %s)' % (z, x, y)
    return '(%s %s %s)' % (x, '&&' if k == 'land' else '||', y)


def operands(c):
    """[(type, value)] for x, y, z"""
    k = c[0]
    if k == 'bin':
        return [(c[2], c[3]), (c[4], c[5])]
    if k == 'un':
        return [(c[2], c[3])]
    if k == 'cast':
        return [(c[2], c[3])]
    if k == 'cond':
        return [(c[3], c[4]), (c[5], c[6]), (c[1], c[2])]
    return [(c[1], c[2]), (c[3], c[4])]


def value_unit(cases, expected, per_func=25):
    """cases with expected[i] = (type, value) from the run-time model.  Prints per case:
         k <static-init value> <array-size probe> <enum probe> <run-time, global operands> <run-time, volatile locals>
       all values as unsigned long long hex; probes are 1 when the constant expression equals the expected
       typed value."""
    s = ['#include <stdio.h>\ntypedef unsigned long long u64;\n']
    for k, c in enumerate(cases):
        et, ev = expected[k]
        ce = const_expr(c)
        s.append('static const u64 c%d = (u64)%s;\n' % (k, ce))
        s.append('static char s%d[%s == %s ? 1 : 2];\n' % (k, ce, typed_lit(et, ev)))
        s.append('enum { e%d = %s == %s ? 1 : 2 };\n' % (k, ce, typed_lit(et, ev)))
        for n, (t, v) in zip('xyz', operands(c)):
            s.append('%s g%s%d = %s;\n' % (CNAME[t], n, k, typed_lit(t, v)))
    nf = 0
    for off in range(0, len(cases), per_func):
        s.append('static void f%d (void) {\n' % nf)
        for k in range(off, min(off + per_func, len(cases))):
            c = cases[k]
            ops = operands(c)
            gl = tuple('g%s%d' % (n, k) for n in 'xyz')
            lo = tuple('l%s%d' % (n, k) for n in 'xyz')
            for n, (t, v) in zip('xyz', ops):
                s.append('  volatile %s l%s%d = %s;\n' % (CNAME[t], n, k, typed_lit(t, v)))
            s.append('  printf ("%d %%llx %%d %%d %%llx %%llx\\n", c%d, (int) sizeof (s%d), (int) e%d, (u64)%s, (u64)%s);\n'
                     % (k, k, k, k, runtime_expr(c, gl), runtime_expr(c, lo)))
        s.append('}\n')
        nf += 1
    s.append('int main (void) {\n')
    for i in range(nf):
        s.append('  f%d ();\n' % i)
    s.append('  return 0;\n}\n')
    return ''.join(s)


# ------------------------------------------------------------------ pinned implementation-defined choices
# C11 leaves these to the implementation (6.7.2.2p4: the type compatible with an enumerated type), c2m and gcc
# choose differently and both are conforming; representation and size agree, so calls between the two compilers'
# code are unaffected.  The check records c2m's documented choice and notes a change without raising an alarm.
PIN_UNIT = TN_MACRO + r'''#include <stdio.h>
enum EP { EPA, EPB };              /* no negative enumerator: c2m int, gcc unsigned int */
enum EN { ENA = -1, ENB };         /* negative enumerator: int for both */
enum EU { EUA = 0x80000000u };     /* does not fit int: unsigned int for both */
int main (void) {
  printf ("enum-nonneg-type %d\n", TN((enum EP) 0));
  printf ("enum-nonneg-minus1-lt0 %d\n", (enum EP) -1 < 0);
  printf ("enum-nonneg-size %d\n", (int) sizeof (enum EP));
  printf ("enum-neg-type %d\n", TN((enum EN) 0));
  printf ("enum-big-type %d\n", TN((enum EU) 0));
  printf ("enum-constant-type %d\n", TN(EPB));
  return 0;
}
'''
PIN_EXPECT = {   # name: (c2m as documented in design/C07.md, gcc)
    'enum-nonneg-type': (6, 7), 'enum-nonneg-minus1-lt0': (1, 0), 'enum-nonneg-size': (4, 4),
    'enum-neg-type': (6, 6), 'enum-big-type': (7, 7), 'enum-constant-type': (6, 6)}


# ------------------------------------------------------------------ floating and mixed value probes (round 3)
# A floating operand value is a string <+|-><hex mantissa>p<decimal exponent> (exactly representable in its type);
# cases: ('fbin', op, ta, va, tb, vb) | ('fun', op, ta, va) | ('fcast', t, ta, va) |
#        ('fcond', tc, vc, ta, va, tb, vb) | ('fland'|'flor', ta, va, tb, vb); integer operands as in the integer cases.
FP_TYPES = ['float', 'double', 'ldouble']
FMT = {'float': (24, 128), 'double': (53, 1024), 'ldouble': (64, 16384)}
FSUF = {'float': 'f', 'double': '', 'ldouble': 'L'}
FSIZE = {'float': 4, 'double': 8, 'ldouble': 10}
FBINOPS = ['+', '-', '*', '/', '==', '!=', '<', '<=', '>', '>=']


def is_fp(t):
    return t in FMT


def fp_ok(t, m, e):
    prec, emax = FMT[t]
    emin = 3 - emax - prec
    while m and m % 2 == 0:
        m //= 2
        e += 1
    return m == 0 or (m.bit_length() <= prec and e >= emin and m.bit_length() + e <= emax)


def fp_str(neg, m, e):
    return '%s%xp%d' % ('-' if neg else '+', m, e)


def fp_parse(s):
    m, e = s[1:].split('p')
    return s[0] == '-', int(m, 16), int(e)


def fp_boundary(t):
    prec, emax = FMT[t]
    emin = 3 - emax - prec
    vs = [(0, 0), (1, 0), (2, 0), (3, 0), (1, -1), (5, -1), (3, -2), (3, -1), (7, 0), (255, -1), (511, -1), (127, 0), (128, 0),
          (255, 0), (256, 0), (32767, 0), (32768, 0), (65535, 0), (65536, 0), (65535, -1), (1, 24), ((1 << 24) + 1, 0), ((1 << 24) - 1, 0),
          ((1 << 25) + 1, 0), ((1 << 24) + 3, 0), (1, 31), ((1 << 31) - 1, 0), ((1 << 32) - 1, 0), (1, 32), ((1 << 32) + 1, 0),
          ((1 << 31) + 1, -1), ((1 << 32) - 1, -1), (1, 53), ((1 << 53) + 1, 0), ((1 << 53) - 1, 0), ((1 << 54) + 1, 0), (1, 63),
          ((1 << 63) - 1, 0), ((1 << 63) + 1, 0), (1, 64), ((1 << 64) - 1, 0), ((1 << 64) - 1, -1), ((1 << 63) - 1, -1), (1, 65),
          ((1 << prec) - 1, 0), (1, prec), ((1 << prec) - 1, emax - prec), (1, emin + prec - 1), (1, emin), (3, emin), ((1 << prec) - 1, emin),
          ((1 << 24) - 1, 104), (1, -24), ((1 << 53) + 1, -105), ((1 << 52) + 1, -105), ((1 << 23) + 1, -47), (1, -53), (1, -64), (1, 127),
          (0xcccccd, -27), (0x1999999999999a, -56), (10, 0), (100, 0), (1000000, 0), (1, 100), (1, -100)]
    vs = [(m, e) for m, e in vs if fp_ok(t, m, e)]
    return sorted(set(vs))


def pick_fp(rng, t, narrow=None):
    prec, emax = FMT[t]
    r = rng.random()
    if narrow is not None:
        r = 0.1 if r < 0.6 else 0.3 + r
    if r < 0.08:                                  # signed zeros: - x, 0 * x, x + (-x), ?: and casts must keep / produce the sign
        return fp_str(rng.random() < 0.5, 0, 0)
    if r < 0.22 and t != 'float':
        # exactly on / next to a rounding tie of a NARROWER format, the deciding bit as low as possible (lost when the
        # value is rounded to an intermediate format first)
        q = FMT[narrow if narrow is not None else rng.choice([u for u in FP_TYPES if FMT[u][0] < prec])][0]
        top = (1 << (q - 1)) | rng.getrandbits(q - 1)
        low = rng.choice([0, 1, 1, 1 << rng.randint(0, prec - q - 2), (1 << (prec - q - 1)) - 1])
        m = (top << (prec - q)) | (1 << (prec - q - 1)) | low if rng.random() < 0.8 else (top << (prec - q)) | ((1 << (prec - q - 1)) - 1)
        e = rng.choice([-(prec - 1), -(prec - 1), 0, -prec - 5, 3 - prec])
        return fp_str(rng.random() < 0.3, m, e)
    if r < 0.78:
        m, e = rng.choice(fp_boundary(t))
    else:
        m = rng.getrandbits(rng.choice([3, 8, 24, 25, prec, prec])) | (1 if rng.random() < 0.5 else 0)
        e = rng.choice([0, 0, -1, -3, -prec, -prec + 1, 1, 5, 31 - prec, 32 - prec, 63 - prec, 64 - prec, rng.randint(-80, 80)])
        if not fp_ok(t, m, e):
            m, e = 3, -1
    return fp_str(rng.random() < 0.3, m, e)


def pick_fp_near(rng, tf, ti):
    """a value of floating type tf next to a boundary of integer type ti: the conversion is defined iff the
    truncated value is representable (C11 6.3.1.4), so both sides of tmin-1, tmin, tmax, tmax+1 and the sign bit of
    the 64-bit types (conversions to unsigned types have no MIR insn of their own)"""
    prec = FMT[tf][0]
    w = WIDTH[ti]
    base = rng.choice([1 << (w - 1), 1 << w, (1 << (w - 1)) - 1, (1 << w) - 1, 1, 0, (1 << w) - (1 << max(0, w - prec))])
    neg = SIGNED[ti] and rng.random() < 0.4 or rng.random() < 0.1
    # the nearest representable numbers around base: base itself rounded down to prec bits, +- one ulp, +- a fraction
    bl = base.bit_length()
    sh = max(0, bl - prec)
    m, e = base >> sh, sh
    k = rng.choice([0, 0, 1, -1, 2, 'half', 'tiny'])
    if k == 'half' and fp_ok(tf, 2 * m + 1, e - 1) and m.bit_length() < prec:
        m, e = 2 * m + 1, e - 1
    elif k == 'tiny' and m.bit_length() + 8 <= prec:
        m, e = (m << 8) + rng.choice([1, 255]), e - 8
    elif isinstance(k, int) and m + k > 0:
        m += k
    if not fp_ok(tf, m, e):
        return pick_fp(rng, tf)
    return fp_str(neg, m, e)


def pick_int_near_tie(rng, ti, tf):
    """an integer of type ti that is not representable in floating type tf: exactly on a rounding tie, one above / below
    it, with the deciding bit far below the tie (lost if the conversion goes through a wider floating type first)"""
    prec = FMT[tf][0]
    w = WIDTH[ti] - (1 if SIGNED[ti] else 0)
    k = rng.choice([w, w, w - 1, rng.randint(prec + 1, w)]) if w > prec + 1 else w        # bit length of the value
    top = (1 << (k - 1)) | (rng.getrandbits(prec - 1) << (k - prec))
    if rng.random() < 0.5:
        top |= 1 << (k - prec)                            # odd / even kept part: ties go to even
    half = 1 << (k - prec - 1)
    low = rng.choice([half, half + 1, half + 1, half + 1, half - 1, half - 1, half + (1 << rng.randint(0, max(0, k - prec - 2))), 0, 1])
    if low == half + 1:
        top &= ~(1 << (k - prec))                         # just above a tie of an even number: an intermediate rounding makes it the tie
    elif low == half - 1 and half > 1:
        top |= 1 << (k - prec)                            # just below a tie of an odd number
    v = (top & ~((1 << (k - prec)) - 1)) | (low & ((1 << (k - prec)) - 1)) if k - prec > 0 else top
    v = min(v, tmax(ti))
    return -v if SIGNED[ti] and rng.random() < 0.3 else v


def is_f2u64_big(c):
    """run-time conversion of a floating value >= 2^63 to a 64-bit unsigned type (fixes/C07-17.patch)"""
    if c[0] != 'fcast' or c[1] not in ('ulong', 'ullong') or not is_fp(c[2]):
        return False
    neg, m, e = fp_parse(c[3])
    return not neg and m.bit_length() + e > 63


def pick_any(rng, t):
    return pick_fp(rng, t) if is_fp(t) else pick(rng, t)


def gen_fvalue_cases(rng, n):
    out = []
    for _ in range(n):
        r = rng.random()
        # at least one floating type among the operands / the target
        ta = rng.choice(FP_TYPES if rng.random() < 0.6 else TYPES)
        tb = rng.choice(TYPES if is_fp(ta) and rng.random() < 0.75 else FP_TYPES)
        if rng.random() < 0.5:
            ta, tb = tb, ta
        va, vb = pick_any(rng, ta), pick_any(rng, tb)
        if r < 0.42:
            op = rng.choice(FBINOPS)
            if op in ('+', '-') and rng.random() < 0.25 and is_fp(ta) and is_fp(tb):
                # sums that are exact ties / just above a tie in the narrower format (rounding boundaries)
                t = ta if FMT[ta][0] <= FMT[tb][0] else tb
                prec = FMT[t][0]
                va = fp_str(False, 1, 0)
                vb = fp_str(rng.random() < 0.3, rng.choice([(1 << (prec - 1)) + 1, 1 << (prec - 1), (1 << (prec - 1)) + (1 << (prec - 12)), 3 << (prec - 2)]),
                            -(2 * prec - 1))
                if not (fp_ok(tb, *fp_parse(vb)[1:]) and fp_ok(ta, 1, 0)):
                    va, vb = pick_any(rng, ta), pick_any(rng, tb)
            out.append(('fbin', op, ta, va, tb, vb))
        elif r < 0.50:
            t = rng.choice(FP_TYPES)
            out.append(('fun', rng.choice(['+', '-', '-', '!']), t, pick_fp(rng, t)))
        elif r < 0.72:
            if rng.random() < 0.5:
                t, s = rng.choice(FP_TYPES), rng.choice(TYPES if rng.random() < 0.5 else ['long', 'ulong', 'llong', 'ullong', 'ldouble', 'double'])
            else:
                t, s = rng.choice(TYPES), rng.choice(FP_TYPES)
            v = pick_any(rng, s)
            if is_fp(s) and is_fp(t) and FMT[t][0] < FMT[s][0]:
                v = pick_fp(rng, s, narrow=t)
            if is_fp(s) and not is_fp(t) and t != 'bool' and rng.random() < 0.6:
                v = pick_fp_near(rng, s, t)
            elif is_fp(t) and not is_fp(s) and WIDTH[s] > FMT[t][0] and rng.random() < 0.75:
                v = pick_int_near_tie(rng, s, t)
            out.append(('fcast', t, s, v))
        elif r < 0.93:
            # ?: with a constant condition: integer / floating mixes of the selected and the other part
            tc = rng.choice(TYPES)
            vc = pick_any(rng, tc) if rng.random() < 0.5 else (fp_str(False, rng.choice([0, 1]), 0) if is_fp(tc) else rng.choice([0, 1]))
            out.append(('fcond', tc, vc, ta, va, tb, vb))
        else:
            out.append((rng.choice(['fland', 'flor']), ta, va, tb, vb))
    return out


def fq_val(t, v):
    return v if is_fp(t) else hexs(v)


def fquery(c):
    k = c[0]
    if k == 'fbin':
        return 'fbin %s %s %s %s %s' % (c[1], c[2], fq_val(c[2], c[3]), c[4], fq_val(c[4], c[5]))
    if k == 'fun':
        return 'fun %s %s %s' % (c[1], c[2], fq_val(c[2], c[3]))
    if k == 'fcast':
        return 'fcast %s %s %s' % (c[1], c[2], fq_val(c[2], c[3]))
    if k == 'fcond':
        return 'fcond %s %s %s %s %s %s' % (c[1], fq_val(c[1], c[2]), c[3], fq_val(c[3], c[4]), c[5], fq_val(c[5], c[6]))
    return '%s %s %s %s %s' % (k, c[1], fq_val(c[1], c[2]), c[3], fq_val(c[3], c[4]))


def fp_lit(t, v):
    neg, m, e = fp_parse(v)
    s = '0x%xp%d%s' % (m, e, FSUF[t])
    return '(-%s)' % s if neg else s


def any_lit(t, v):
    return fp_lit(t, v) if is_fp(t) else typed_lit(t, v)


def strip_f(c):
    """the case with the kind of the integer generator, for runtime_expr / operands"""
    return (c[0][1:],) + tuple(c[1:])


def fconst_expr(c):
    k = c[0]
    if k == 'fbin':
        return '(%s %s %s)' % (any_lit(c[2], c[3]), c[1], any_lit(c[4], c[5]))
    if k == 'fun':
        return '(%s %s)' % (c[1], any_lit(c[2], c[3]))
    if k == 'fcast':
        return '((%s)%s)' % (CNAME[c[1]], any_lit(c[2], c[3]))
    if k == 'fcond':
        return '(%s ? %s : %s)' % (any_lit(c[1], c[2]), any_lit(c[3], c[4]), any_lit(c[5], c[6]))
    return '(%s %s %s)' % (any_lit(c[1], c[2]), '&&' if k == 'fland' else '||', any_lit(c[3], c[4]))


def parse_fmodel(s):
    """model output `<type> <value>` -> (type, canonical value): int for integer types; for floating types the bit
    pattern of the object (an int) or 'nan'.  None for err / undef."""
    w = s.split()
    if w[0] in ('err', 'undef'):
        return None
    t = w[0]
    if not is_fp(t):
        return (t, int(w[1], 16))
    return (t, fp_bits(t, w[1]))


def fp_bits(t, view):
    prec, emax = FMT[t]
    emin = 3 - emax - prec
    ebits = {'float': 8, 'double': 11, 'ldouble': 15}[t]
    fbits = prec - 1 if t != 'ldouble' else 64          # x87: explicit integer bit
    p = view.split(':')
    if p[0] == 'nan':
        return 'nan'
    s = int(p[1])
    if p[0] == 'zero':
        return s << (ebits + fbits)
    if p[0] == 'inf':
        return (s << (ebits + fbits)) | (((1 << ebits) - 1) << fbits) | ((1 << 63) if t == 'ldouble' else 0)
    m, e = int(p[2], 16), int(p[3])
    # canonical Flocq mantissa: either prec bits, or fewer with e = emin (subnormal)
    if m.bit_length() == prec:
        biased = e - emin + 1
        frac = m if t == 'ldouble' else m - (1 << (prec - 1))
    else:
        assert e == emin, (t, view)
        biased, frac = 0, m
    return (s << (ebits + fbits)) | (biased << fbits) | frac


def canon_bits(t, bits):
    """bit pattern printed by the C side -> canonical (NaNs collapse)"""
    if not is_fp(t):
        return bits
    prec = FMT[t][0]
    ebits = {'float': 8, 'double': 11, 'ldouble': 15}[t]
    fbits = prec - 1 if t != 'ldouble' else 64
    ex = (bits >> fbits) & ((1 << ebits) - 1)
    frac = bits & ((1 << fbits) - 1)
    if t == 'ldouble':
        frac &= (1 << 63) - 1
    return 'nan' if ex == (1 << ebits) - 1 and frac != 0 else bits


def bits_lit(t, bits):
    """C constant expression with the value of the canonical result (for the == probes); None when not expressible"""
    if not is_fp(t):
        return typed_lit(t, bits if bits <= tmax(t) else bits - (1 << 64)) if SIGNED[t] else typed_lit(t, bits)
    if bits == 'nan':
        return None
    prec, emax = FMT[t]
    emin = 3 - emax - prec
    ebits = {'float': 8, 'double': 11, 'ldouble': 15}[t]
    fbits = prec - 1 if t != 'ldouble' else 64
    s = bits >> (ebits + fbits)
    ex = (bits >> fbits) & ((1 << ebits) - 1)
    frac = bits & ((1 << fbits) - 1)
    if ex == (1 << ebits) - 1:
        return None
    if ex == 0:
        m, e = frac, emin
    else:
        m, e = (frac if t == 'ldouble' else frac | (1 << (prec - 1))), ex + emin - 1
    return fp_lit(t, fp_str(s, m, e))


def fvalue_unit(cases, expected, per_func=20):
    """cases with expected[i] = (type, canonical value).  One line per case:
         k <static initialiser> <== probe in a static initialiser> <enum/array-size probe> <automatic object initialised by the
         constant expression> <run time, global operands> <run time, volatile locals>
       values are the bytes of an object of the result type (most significant first)."""
    s = ['#include <stdio.h>\ntypedef unsigned long long u64;\n'
         'static void pb (const void *p, int n) { const unsigned char *b = p; for (int i = n - 1; i >= 0; i--) printf ("%02x", b[i]); putchar (\' \'); }\n']
    meta = []
    for k, c in enumerate(cases):
        et, ev = expected[k]
        ce = fconst_expr(c)
        rt, n = (CNAME[et], FSIZE[et]) if is_fp(et) else ('u64', 8)
        conv = '' if is_fp(et) else '(u64)'
        lit = bits_lit(et, ev)
        s.append('static const %s c%d = %s%s;\n' % (rt, k, conv, ce))
        s.append('static const int p%d = %s;\n' % (k, '%s == %s' % (ce, lit) if lit else ('%s != %s' % (ce, ce) if ev == 'nan' else '1')))
        # an integer constant expression proper: a cast of a floating constant to an integer type
        ice = c[0] == 'fcast' and not is_fp(c[1]) and is_fp(c[2]) and not c[3].startswith('-') and lit
        s.append('enum { e%d = %s };\nstatic char s%d[%s];\n' % ((k, '%s == %s ? 1 : 2' % (ce, lit), k, '%s == %s ? 1 : 2' % (ce, lit)) if ice
                                                                     else (k, '1', k, '1')))
        for nm, (t, v) in zip('xyz', operands(strip_f(c))):
            s.append('%s g%s%d = %s;\n' % (CNAME[t], nm, k, any_lit(t, v)))
        meta.append((rt, n, conv))
    nf = 0
    for off in range(0, len(cases), per_func):
        s.append('static void f%d (void) {\n' % nf)
        for k in range(off, min(off + per_func, len(cases))):
            c = strip_f(cases[k])
            rt, n, conv = meta[k]
            gl = tuple('g%s%d' % (nm, k) for nm in 'xyz')
            lo = tuple('l%s%d' % (nm, k) for nm in 'xyz')
            for nm, (t, v) in zip('xyz', operands(c)):
                s.append('  volatile %s l%s%d = %s;\n' % (CNAME[t], nm, k, any_lit(t, v)))
            s.append('  { %s a = %s%s, g = %s%s, l = %s%s; int p = p%d, e = (int) e%d + (int) sizeof (s%d) - 1;\n'
                     % (rt, conv, fconst_expr(cases[k]), conv, runtime_expr(c, gl), conv, runtime_expr(c, lo), k, k, k))
            s.append('    printf ("%d "); pb (&c%d, %d); printf ("%%d %%d ", p, e); pb (&a, %d); pb (&g, %d); pb (&l, %d); putchar (\'\\n\'); }\n'
                     % (k, k, n, n, n, n))
        s.append('}\n')
        nf += 1
    s.append('int main (void) {\n')
    for i in range(nf):
        s.append('  f%d ();\n' % i)
    s.append('  return 0;\n}\n')
    return ''.join(s)

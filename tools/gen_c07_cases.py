# C07: typed-expression probes.  Builds (a) model queries for ocaml/driver_c07.ml and (b) C translation
# units that evaluate the same typed expressions in constant contexts and at run time.
TYPES = ['bool', 'char', 'schar', 'uchar', 'short', 'ushort', 'int', 'uint', 'long', 'ulong', 'llong', 'ullong',
         'float', 'double', 'ldouble']
INT_TYPES = TYPES[:12]
CNAME = {'bool': '_Bool', 'char': 'char', 'schar': 'signed char', 'uchar': 'unsigned char', 'short': 'short',
         'ushort': 'unsigned short', 'int': 'int', 'uint': 'unsigned int', 'long': 'long', 'ulong': 'unsigned long',
         'llong': 'long long', 'ullong': 'unsigned long long', 'float': 'float', 'double': 'double',
         'ldouble': 'long double'}
WIDTH = {'bool': 1, 'char': 8, 'schar': 8, 'uchar': 8, 'short': 16, 'ushort': 16, 'int': 32, 'uint': 32, 'long': 64,
         'ulong': 64, 'llong': 64, 'ullong': 64}
SIGNED = {'bool': False, 'char': True, 'schar': True, 'uchar': False, 'short': True, 'ushort': False, 'int': True,
          'uint': False, 'long': True, 'ulong': False, 'llong': True, 'ullong': False}
ORD = {t: i for i, t in enumerate(TYPES)}
BINOPS = ['+', '-', '*', '/', '%', '&', '|', '^', '<<', '>>', '==', '!=', '<', '<=', '>', '>=']
UNOPS = ['+', '-', '~', '!']

TN_MACRO = ('#define TN(e) _Generic((e), int:6, unsigned int:7, long:8, unsigned long:9, long long:10, '
            'unsigned long long:11, float:12, double:13, long double:14, default:-1)\n')


def tmin(t):
    return -(1 << (WIDTH[t] - 1)) if SIGNED[t] else 0


def tmax(t):
    return (1 << (WIDTH[t] - 1)) - 1 if SIGNED[t] else (1 << WIDTH[t]) - 1


def boundary(t):
    w = WIDTH[t]
    vs = {tmin(t), tmin(t) + 1, tmax(t), tmax(t) - 1, 0, 1, 2, 3, 7}
    if SIGNED[t]:
        vs |= {-1, -2, -7}
    for k in (w - 1, w, w // 2, 31, 32, 63):
        if tmin(t) <= k <= tmax(t):
            vs.add(k)
    if w >= 8:
        vs.add(1 << (w // 2))
        vs.add((1 << (w // 2)) - 1)
    return sorted(v for v in vs if tmin(t) <= v <= tmax(t))


def hexs(v):
    return ('-%x' % -v) if v < 0 else '%x' % v


def wide_lit(v):
    if v == -(1 << 63):
        return '(-9223372036854775807LL-1)'
    if v < 0:
        return '(-%dLL)' % -v
    if v > (1 << 63) - 1:
        return '%dULL' % v
    return '%dLL' % v


def typed_lit(t, v):
    return '((%s)%s)' % (CNAME[t], wide_lit(v))


def as_u64(v):
    return v % (1 << 64)


# _Generic selection itself: the controlling expression is NOT promoted (C11 6.5.1.1p2-3), top-level
# qualifiers are dropped by lvalue conversion (DR 481), so every basic type selects its own association
TN2_MACRO = ('#define TN2(e) _Generic((e), _Bool:0, char:1, signed char:2, unsigned char:3, short:4, unsigned short:5, '
             'int:6, unsigned int:7, long:8, unsigned long:9, long long:10, unsigned long long:11, float:12, double:13, '
             'long double:14, default:-1)\n')
# character constants: 6.4.4.4p10 integer character constant: int; p11 u'x' char16_t, U'x' char32_t (<uchar.h>:
# uint_least16_t / uint_least32_t = unsigned short / unsigned int); L'x' (wchar_t = int) is the known finding
# prog:corpus:c07_prog_wchar_const.c and is probed there
CHAR_CONSTS = [("'a'", 6), ("'\\xff'", 6), ("'\\0'", 6), ("'\\377'", 6), ("u'a'", 5), ("U'a'", 7), ("u'\\xffff'", 5)]
# promotion of bit-fields of type _Bool / int / unsigned (6.3.1.1p2): int if int can represent all values of
# the field, else unsigned int; char and short bit-fields (implementation-defined types, gcc: like int)
BF_PROM = [(t, w) for t in ('int', 'uint') for w in (1, 2, 7, 8, 15, 16, 17, 30, 31, 32)] + \
          [('bool', 1), ('char', 1), ('char', 7), ('char', 8), ('uchar', 8), ('schar', 3), ('short', 16), ('ushort', 16),
           ('ushort', 9), ('short', 1)]


def fixed_expect(name):
    """expected type id of the probes whose expectation does not come from the Coq conversion model"""
    w = name.split()
    if w[0] in ('glv', 'gcast', 'gclv'):
        return int(w[1])
    if w[0] == 'chr':
        return CHAR_CONSTS[int(w[1])][1]
    if w[0] == 'chrsize':
        return 4
    if w[0] == 'bfp':
        t, wd = BF_PROM[int(w[1])]
        return ORD['uint'] if (t == 'uint' and wd == 32) else ORD['int']
    return None


def type_probe_unit(lits):
    """C text printing one line per probe: 'conv i j id', 'cond i j id', 'shift i j id', 'cmp i j id',
    'un op i id', 'lit k id'.  lits: list of literal spellings."""
    s = ['#include <stdio.h>\n', TN_MACRO, TN2_MACRO]
    for i, t in enumerate(TYPES):
        s.append('%s v%d;\n' % (CNAME[t], i))
        s.append('const %s cv%d = 1;\n' % (CNAME[t], i))
    s.append('volatile int vc;\n')
    s.append('struct BFP { %s } bfp;\n' % ' '.join('%s b%d : %d;' % (CNAME[t], k, w) for k, (t, w) in enumerate(BF_PROM)))
    rows = []
    n = len(TYPES)
    for i in range(n):
        for j in range(n):
            rows.append(('conv %d %d' % (i, j), 'TN(v%d + v%d)' % (i, j)))
            rows.append(('mul %d %d' % (i, j), 'TN(v%d * v%d)' % (i, j)))
            rows.append(('cond %d %d' % (i, j), 'TN(vc ? v%d : v%d)' % (i, j)))
            rows.append(('cmp %d %d' % (i, j), 'TN(v%d < v%d)' % (i, j)))
            if i < 12 and j < 12:
                rows.append(('shift %d %d' % (i, j), 'TN(v%d << v%d)' % (i, j)))
                rows.append(('and %d %d' % (i, j), 'TN(v%d & v%d)' % (i, j)))
    for i in range(n):
        rows.append(('un + %d' % i, 'TN(+v%d)' % i))
        rows.append(('un - %d' % i, 'TN(-v%d)' % i))
        rows.append(('un ! %d' % i, 'TN(!v%d)' % i))
        if i < 12:
            rows.append(('un ~ %d' % i, 'TN(~v%d)' % i))
    for k, l in enumerate(lits):
        rows.append(('lit %d' % k, 'TN(%s)' % l))
    for i in range(n):
        rows.append(('glv %d' % i, 'TN2(v%d)' % i))
        rows.append(('gcast %d' % i, 'TN2((%s)v6)' % CNAME[TYPES[i]]))
        rows.append(('gclv %d' % i, 'TN2(cv%d)' % i))
    for k, (c, _) in enumerate(CHAR_CONSTS):
        rows.append(('chr %d' % k, 'TN2(%s)' % c))
    rows.append(('chrsize 0', "(int) sizeof ('a')"))
    for k in range(len(BF_PROM)):
        rows.append(('bfp %d +' % k, 'TN(+bfp.b%d)' % k))
        rows.append(('bfp %d -' % k, 'TN(bfp.b%d - 1)' % k))
        rows.append(('bfp %d <<' % k, 'TN(bfp.b%d << 1)' % k))
    s.append('static const signed char tab[] = {\n')
    for r in rows:
        s.append('  %s,\n' % r[1])
    s.append('};\nstatic const char *const names[] = {\n')
    for r in rows:
        s.append('  "%s",\n' % r[0])
    s.append('};\nint main (void) {\n  for (int i = 0; i < %d; i++) printf ("%%s %%d\\n", names[i], tab[i]);\n'
             '  return 0;\n}\n' % len(rows))
    return ''.join(s), [r[0] for r in rows]


LIT_VALUES = [0, 1, 7, 2 ** 15, 2 ** 16 - 1, 2 ** 31 - 1, 2 ** 31, 2 ** 32 - 1, 2 ** 32, 2 ** 63 - 1, 2 ** 63, 2 ** 64 - 1]
LIT_SUFFIXES = ['-', 'u', 'U', 'l', 'L', 'ul', 'UL', 'lu', 'Lu', 'll', 'LL', 'ull', 'ULL', 'llu', 'LLU']


def literal_cases():
    out = []
    for v in LIT_VALUES:
        for r in 'dxo':
            for sfx in LIT_SUFFIXES:
                body = {'d': '%d', 'x': '0x%x', 'o': '0%o'}[r] % v
                out.append((r, sfx, v, body + ('' if sfx == '-' else sfx)))
    return out


# ------------------------------------------------------------------ value probes
def gen_value_cases(rng, n):
    """typed operator applications as model queries: ('bin', op, ta, va, tb, vb) | ('un', op, ta, va) |
    ('cast', t, ta, va) | ('cond', tc, vc, ta, va, tb, vb) | ('land'|'lor', ta, va, tb, vb)"""
    out = []
    for _ in range(n):
        r = rng.random()
        ta, tb = rng.choice(INT_TYPES), rng.choice(INT_TYPES)
        va, vb = pick(rng, ta), pick(rng, tb)
        if r < 0.66:
            op = rng.choice(BINOPS)
            if op in ('<<', '>>') and rng.random() < 0.85:
                vb = rng.choice([v for v in (0, 1, 2, 7, 15, 16, 31, 32, 33, 63) if tmin(tb) <= v <= tmax(tb)])
            if op in ('/', '%') and vb == 0 and rng.random() < 0.9:
                vb = rng.choice([v for v in (1, 2, 3, -1, 7, tmax(tb)) if tmin(tb) <= v <= tmax(tb)])
            out.append(('bin', op, ta, va, tb, vb))
        elif r < 0.78:
            out.append(('un', rng.choice(UNOPS), ta, va))
        elif r < 0.90:
            out.append(('cast', rng.choice(INT_TYPES), ta, va))
        elif r < 0.96:
            tc = rng.choice(INT_TYPES)
            out.append(('cond', tc, rng.choice([0, 1, tmax(tc)]), ta, va, tb, vb))
        else:
            out.append((rng.choice(['land', 'lor']), ta, va, tb, vb))
    return out


def pick(rng, t):
    if rng.random() < 0.8:
        return rng.choice(boundary(t))
    return rng.randint(tmin(t), tmax(t))


def all_boundary_bin_cases(ops=None):
    """exhaustive: every operator x type pair x boundary value pair (thorough tier)"""
    for op in (ops or BINOPS):
        for ta in INT_TYPES:
            for tb in INT_TYPES:
                for va in boundary(ta):
                    for vb in boundary(tb):
                        yield ('bin', op, ta, va, tb, vb)


def query(c):
    k = c[0]
    if k == 'bin':
        return 'bin %s %s %s %s %s' % (c[1], c[2], hexs(c[3]), c[4], hexs(c[5]))
    if k == 'un':
        return 'un %s %s %s' % (c[1], c[2], hexs(c[3]))
    if k == 'cast':
        return 'cast %s %s %s' % (c[1], c[2], hexs(c[3]))
    if k == 'cond':
        return 'cond %s %s %s %s %s %s' % (c[1], hexs(c[2]), c[3], hexs(c[4]), c[5], hexs(c[6]))
    return '%s %s %s %s %s' % (k, c[1], hexs(c[2]), c[3], hexs(c[4]))


def const_expr(c):
    """the expression with typed literal operands (a constant expression)"""
    k = c[0]
    if k == 'bin':
        return '(%s %s %s)' % (typed_lit(c[2], c[3]), c[1], typed_lit(c[4], c[5]))
    if k == 'un':
        return '(%s %s)' % (c[1], typed_lit(c[2], c[3]))
    if k == 'cast':
        return '((%s)%s)' % (CNAME[c[1]], typed_lit(c[2], c[3]))
    if k == 'cond':
        return '(%s ? %s : %s)' % (typed_lit(c[1], c[2]), typed_lit(c[3], c[4]), typed_lit(c[5], c[6]))
    return '(%s %s %s)' % (typed_lit(c[1], c[2]), '&&' if k == 'land' else '||', typed_lit(c[3], c[4]))


def runtime_expr(c, names):
    """the same expression over variables names = (x, y, z)"""
    k = c[0]
    x, y, z = names
    if k == 'bin':
        return '(%s %s %s)' % (x, c[1], y)
    if k == 'un':
        return '(%s %s)' % (c[1], x)
    if k == 'cast':
        return '((%s)%s)' % (CNAME[c[1]], x)
    if k == 'cond':
        return '(%s ? %s : %s)' % (z, x, y)
    return '(%s %s %s)' % (x, '&&' if k == 'land' else '||', y)


def operands(c):
    """[(type, value)] for x, y, z"""
    k = c[0]
    if k == 'bin':
        return [(c[2], c[3]), (c[4], c[5])]
    if k == 'un':
        return [(c[2], c[3])]
    if k == 'cast':
        return [(c[2], c[3])]
    if k == 'cond':
        return [(c[3], c[4]), (c[5], c[6]), (c[1], c[2])]
    return [(c[1], c[2]), (c[3], c[4])]


def value_unit(cases, expected, per_func=25):
    """cases with expected[i] = (type, value) from the run-time model.  Prints per case:
         k <static-init value> <array-size probe> <enum probe> <run-time, global operands> <run-time, volatile locals>
       all values as unsigned long long hex; probes are 1 when the constant expression equals the expected
       typed value."""
    s = ['#include <stdio.h>\ntypedef unsigned long long u64;\n']
    for k, c in enumerate(cases):
        et, ev = expected[k]
        ce = const_expr(c)
        s.append('static const u64 c%d = (u64)%s;\n' % (k, ce))
        s.append('static char s%d[%s == %s ? 1 : 2];\n' % (k, ce, typed_lit(et, ev)))
        s.append('enum { e%d = %s == %s ? 1 : 2 };\n' % (k, ce, typed_lit(et, ev)))
        for n, (t, v) in zip('xyz', operands(c)):
            s.append('%s g%s%d = %s;\n' % (CNAME[t], n, k, typed_lit(t, v)))
    nf = 0
    for off in range(0, len(cases), per_func):
        s.append('static void f%d (void) {\n' % nf)
        for k in range(off, min(off + per_func, len(cases))):
            c = cases[k]
            ops = operands(c)
            gl = tuple('g%s%d' % (n, k) for n in 'xyz')
            lo = tuple('l%s%d' % (n, k) for n in 'xyz')
            for n, (t, v) in zip('xyz', ops):
                s.append('  volatile %s l%s%d = %s;\n' % (CNAME[t], n, k, typed_lit(t, v)))
            s.append('  printf ("%d %%llx %%d %%d %%llx %%llx\\n", c%d, (int) sizeof (s%d), (int) e%d, (u64)%s, (u64)%s);\n'
                     % (k, k, k, k, runtime_expr(c, gl), runtime_expr(c, lo)))
        s.append('}\n')
        nf += 1
    s.append('int main (void) {\n')
    for i in range(nf):
        s.append('  f%d ();\n' % i)
    s.append('  return 0;\n}\n')
    return ''.join(s)


# ------------------------------------------------------------------ pinned implementation-defined choices
# C11 leaves these to the implementation (6.7.2.2p4: the type compatible with an enumerated type), c2m and gcc
# choose differently and both are conforming; representation and size agree, so calls between the two compilers'
# code are unaffected.  The check records c2m's documented choice and notes a change without raising an alarm.
PIN_UNIT = TN_MACRO + r'''#include <stdio.h>
enum EP { EPA, EPB };              /* no negative enumerator: c2m int, gcc unsigned int */
enum EN { ENA = -1, ENB };         /* negative enumerator: int for both */
enum EU { EUA = 0x80000000u };     /* does not fit int: unsigned int for both */
int main (void) {
  printf ("enum-nonneg-type %d\n", TN((enum EP) 0));
  printf ("enum-nonneg-minus1-lt0 %d\n", (enum EP) -1 < 0);
  printf ("enum-nonneg-size %d\n", (int) sizeof (enum EP));
  printf ("enum-neg-type %d\n", TN((enum EN) 0));
  printf ("enum-big-type %d\n", TN((enum EU) 0));
  printf ("enum-constant-type %d\n", TN(EPB));
  return 0;
}
'''
PIN_EXPECT = {   # name: (c2m as documented in design/C07.md, gcc)
    'enum-nonneg-type': (6, 7), 'enum-nonneg-minus1-lt0': (1, 0), 'enum-nonneg-size': (4, 4),
    'enum-neg-type': (6, 6), 'enum-big-type': (7, 7), 'enum-constant-type': (6, 6)}

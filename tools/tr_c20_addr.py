#!/usr/bin/env python3
# tr_c20_addr: what mir2c's out_op prints for a MIR_OP_MEM operand, re-read from the CURRENT tree for EVERY address form
# (displacement zero / non-zero x base present / absent x index present / absent x scale 1 2 4 8) and every memory type.
#   1. the `case MIR_OP_MEM` code of out_op (after gcc -E -P) is executed symbolically: op.u.mem.disp / base / index are
#      symbols known to be non-zero when the part is present and the integer 0 when it is absent, op.u.mem.scale and
#      op.u.mem.type are concrete; conditions are evaluated, locals and assignments tracked, helper functions (out_type)
#      inlined, fprintf formats expanded; the displacement prints as $d (its conversion specification is recorded), the
#      register names as $b / $i.
#   2. the checked tree's own mir2c is run on one probe function per form, type and boundary displacement (harness mode
#      probeaddr) and the printed operand is abstracted the same way; the two texts must agree, otherwise (or when the
#      printing code is not in a form step 1 executes) the printed text is taken, with a note in the evidence.
# The address expression is parsed (C-subset parser of tr_c02_clib) into C20/AddrPrint.v aexpr terms; anything unreadable
# becomes AUnknown / a missing memory-type row, which has no semantics, so the theorems over the tables fail.
import sys, os, re
sys.path.insert(0, os.path.dirname(os.path.abspath(__file__)))
import vlib
from tr_c02_clib import *
import tr_c20_mir2c as T

MEM_TYPES = ['i8', 'u8', 'i16', 'u16', 'i32', 'u32', 'i64', 'u64', 'f', 'd', 'ld', 'p']
COQ_TYPE = {'i8': 'T_I8', 'u8': 'T_U8', 'i16': 'T_I16', 'u16': 'T_U16', 'i32': 'T_I32', 'u32': 'T_U32', 'i64': 'T_I64', 'u64': 'T_U64',
            'f': 'T_F', 'd': 'T_D', 'ld': 'T_LD', 'p': 'T_P'}
MIR_TYPE_CODE = {t: 'T_' + t.upper() for t in MEM_TYPES}
SCALES = [1, 2, 4, 8]
FORMS = [(d, b, i, s) for d in (False, True) for b in (False, True) for i in (False, True) for s in SCALES]
# x86-64 / LP64 typedefs the C-type table of tr_c02_clib does not list
EXTRA_CTYPES = {'uintptr_t': 'CU64', 'intptr_t': 'CI64', 'size_t': 'CU64', 'ptrdiff_t': 'CI64'}
PROBE_DISPS = [24, -16, 2147483647, 2147483648, -2147483649, 4294967301, 9223372036854775807, -9223372036854775808]


class Sym:
    """a run-time value of the operand known to be non-zero"""

    def __init__(self, name):
        self.name = name

    def __eq__(self, o):
        return isinstance(o, Sym) and o.name == self.name

    def __ne__(self, o):
        return not self.__eq__(o)

    def __hash__(self):
        return hash(self.name)

    def __bool__(self):
        return True


class _Break(Exception):
    pass


def member_path(e):
    if e[0] == 'id':
        return e[1]
    if e[0] in ('member', 'arrow'):
        p = member_path(e[1])
        return None if p is None else p + '.' + e[2]
    return None


class AddrPrinter(T.Printer):
    def __init__(self, src, ty, form):
        T.Printer.__init__(self, src, None)
        d, b, i, s = form
        self.opvals = {'op.mode': ('code', 'OP_MEM'), 'op.u.mem.type': ('code', MIR_TYPE_CODE[ty]),
                       'op.u.mem.disp': Sym('d') if d else 0, 'op.u.mem.base': Sym('b') if b else 0,
                       'op.u.mem.index': Sym('i') if i else 0, 'op.u.mem.scale': s}
        self.disp_fmts = set()

    def static(self, e, env):
        k = e[0]
        if k in ('member', 'arrow'):
            p = member_path(e)
            if p in self.opvals:
                return self.opvals[p]
            return None                      # oc->f, oc->ctx, oc->func ...: opaque, only passed on
        if k == 'call' and e[1][0] == 'id':
            f = e[1][1]
            if f == 'MIR_blk_type_p':
                t = self.static(e[2][0], env)
                if not (isinstance(t, tuple) and t[0] == 'code'):
                    raise Unsupported('MIR_blk_type_p of a non-type')
                return t[1].startswith('T_BLK') or t[1] == 'T_RBLK'
            if f == 'MIR_reg_name':
                r = self.static(e[2][1], env)
                if isinstance(r, Sym) and r.name in ('b', 'i'):
                    return '$' + r.name
                raise Unsupported('name of a register that is not the base / index of the operand')
            raise Unsupported('call of %s in an expression' % f)
        if k == 'bin' and e[1] in ('==', '!=', '||', '&&'):
            return T.Printer.static(self, e, env)
        if k == 'id' and e[1] in env:
            return env[e[1]]
        return T.Printer.static(self, e, env)

    def fmt(self, f, args):
        out, i, ai = '', 0, 0
        while i < len(f):
            if f[i] != '%':
                out += f[i]
                i += 1
                continue
            if f[i + 1] == '%':
                out += '%'
                i += 2
                continue
            m = re.match(r'%(l{0,2})([sdu])', f[i:])
            if not m:
                raise Unsupported('format ' + f[i:i + 8])
            a = args[ai]
            ai += 1
            i += len(m.group(0))
            spec = m.group(1) + m.group(2)
            if isinstance(a, Sym):
                if a.name != 'd' or m.group(2) == 's':
                    raise Unsupported('register number printed as a value')
                self.disp_fmts.add({'ld': 'FmtD64', 'lld': 'FmtD64', 'lu': 'FmtU64', 'llu': 'FmtU64'}.get(spec, 'FmtOther'))
                out += '$d'
            elif m.group(2) == 's':
                if not isinstance(a, str):
                    raise Unsupported('%s of a non-string')
                out += a
            else:
                if isinstance(a, bool) or not isinstance(a, int):
                    raise Unsupported('number format of a non-number')
                bits = 64 if m.group(1) else 32
                v = a % (1 << bits)
                out += str(v if m.group(2) == 'u' or v < (1 << (bits - 1)) else v - (1 << bits))
        return out

    def stmt(self, s, env):
        k = s[0]
        if k == 'switch':
            v = self.static(s[1], env)
            body = s[2]
            start = None
            for idx, st in enumerate(body):
                if st[0] == 'case' and self.static(st[1], env) == v:
                    start = idx
                    break
            if start is None:
                for idx, st in enumerate(body):
                    if st[0] == 'default':
                        start = idx
                        break
            if start is None:
                return
            try:
                for st in body[start:]:
                    if st[0] in ('case', 'default'):
                        continue
                    self.stmt(st, env)
            except _Break:
                pass
            return
        if k == 'break':
            raise _Break()
        if k == 'expr' and s[1][0] == 'assign':
            lhs, rhs = s[1][1], s[1][2]
            if lhs[0] != 'id':
                raise Unsupported('assignment to a non-variable')
            env[lhs[1]] = self.static(rhs, env)
            return
        T.Printer.stmt(self, s, env)

    def expr(self, e, env):
        if e[0] == 'call' and e[1][0] == 'id' and e[1][1] not in ('fprintf', 'mir_assert', 'assert', 'out_op'):
            # a helper: inline it; parameters of pointer / context type are opaque
            f, args = e[1][1], e[2]
            params, body = self.func(f)
            nenv = {}
            for (pn, (pt, nptr)), a in zip(params, args):
                if nptr or pt in ('MIR_context_t', 'FILE'):
                    nenv[pn] = None
                else:
                    nenv[pn] = self.static(a, env)
            try:
                for st in body:
                    self.stmt(st, nenv)
            except _Break:
                pass
            return
        T.Printer.expr(self, e, env)


def symbolic_text(src, ty, form):
    """(printed text, set of displacement formats) of out_op for a memory operand of that type and form"""
    r = find_function(src, 'out_op')
    if r is None:
        raise Unsupported('out_op not found')
    p = AddrPrinter(src, ty, form)
    body = parse_stmts(r[1], T.TYPEDEFS | {'MIR_disp_t', 'MIR_scale_t', 'uintptr_t'})
    try:
        for st in body:
            p.stmt(st, {})
    except _Break:
        pass
    return ''.join(p.out), p.disp_fmts


MEM_RE = re.compile(r'^\*\s*\(\s*([A-Za-z_][\w ]*?)\s*\*\s*\)\s*\((.*)\)$', re.S)


def split_text(text):
    """'*(T*) (addr)' -> (T, addr) or None"""
    m = MEM_RE.match(text.strip())
    return (re.sub(r'\s+', ' ', m.group(1)), m.group(2).strip()) if m else None


def probe_texts(requests):
    """requests: [(ty, form, disp)] -> [text printed for the operand or None]"""
    try:
        exe = vlib.build_harness('c20_insn', ['c02_insn.c'], units=('mir', 'mir-gen', 'mir2c'), defs=['-DC02_WITH_MIR2C'])
        lines = ['%s %s %d %d' % (ty, ('d' if form[0] else '') + ('b' if form[1] else '') + ('i' if form[2] else '') or '-', form[3], disp)
                 for ty, form, disp in requests]
        rc, out, err = vlib.sh([exe, 'probeaddr'], input=('\n'.join(lines) + '\n').encode(), timeout=300)
    except Exception:
        return [None] * len(requests)
    if rc != 0:
        return [None] * len(requests)
    res = {}
    for m in re.finditer(r'\bpa_(\d+) \(void\) \{\n(.*?)\n\}', out, re.S):
        mm = re.search(r'^\s*qa0 = (.*);$', m.group(2), re.M)
        if mm:
            res[int(m.group(1))] = mm.group(1)
    return [res.get(i) for i in range(len(requests))]


def abstract_probe(text, form, disp):
    """the printed operand with register names and the displacement constant replaced by $b $i $d -> (text, fmt or None)"""
    t = re.sub(r'\bqb\b', '$b', text)
    t = re.sub(r'\bqi\b', '$i', t)
    fmt = None
    if form[0]:
        for f, txt in (('FmtD64', str(disp)), ('FmtU64', str(disp % (1 << 64)))):
            pat = re.compile(r'(?<![\w$.])' + re.escape(txt) + r'(?![\w.])')
            if len(pat.findall(t)) == 1:
                t = pat.sub(lambda _m: '$d', t)
                fmt = f
                break
        else:
            fmt = 'FmtOther'
    return t, fmt


def same(a, b):
    return a is not None and b is not None and re.sub(r'\s+', '', a) == re.sub(r'\s+', '', b)


def to_aexpr(e):
    k = e[0]
    if k == 'id':
        return {'$d': 'ADisp', '$b': 'ABase', '$i': 'AIndex'}.get(e[1], 'AUnknown')
    if k == 'num':
        return '(ANum %s)' % e[1] if re.match(r'^(0|[1-9]\d*)$', e[1]) else 'AUnknown'
    if k == 'bin' and e[1] in ('+', '*'):
        a, b = to_aexpr(e[2]), to_aexpr(e[3])
        return '(%s %s %s)' % ('AAdd' if e[1] == '+' else 'AMul', a, b)
    if k == 'bin' and e[1] == '<<' and e[3][0] == 'num' and re.match(r'^\d+$', e[3][1]):
        return '(AShl %s %s)' % (to_aexpr(e[2]), e[3][1])
    return 'AUnknown'


def addr_to_coq(text):
    try:
        return to_aexpr(parse_expr_text(text))
    except (Unsupported, IndexError, KeyError, ValueError, TypeError):
        return 'AUnknown'


def ctype_name(txt):
    if txt in EXTRA_CTYPES:
        return EXTRA_CTYPES[txt]
    return INT_TYPES.get(txt)


def translate(repo, notes):
    src = T.preprocess(repo)
    # ---- 1. symbolic execution of the printing code
    sym = {}
    fmts = set()
    problems = set()
    for ty in MEM_TYPES:
        for form in FORMS:
            try:
                text, fs = symbolic_text(src, ty, form)
                sp = split_text(text)
                if sp is None:
                    raise Unsupported('printed operand is not *(T*) (address): %r' % text[:60])
                sym[(ty, form)] = sp
                fmts |= fs
            except Unsupported as e:
                problems.add(str(e)[:80])
            except (KeyError, IndexError, ValueError, TypeError, AttributeError) as e:
                problems.add('translator error %r' % (e,))
    # ---- 2. what the checked tree prints
    reqs = [('i64', form, disp) for form in FORMS for disp in (PROBE_DISPS if form[0] else [0])]
    reqs += [(ty, form, 24 if form[0] else 0) for ty in MEM_TYPES if ty != 'i64' for form in FORMS]
    printed = probe_texts(reqs)
    probe = {}          # (ty, form) -> (type text, address text) | 'inconsistent'
    pfmts = set()
    for (ty, form, disp), text in zip(reqs, printed):
        if text is None:
            continue
        t, f = abstract_probe(text, form, disp)
        if f:
            pfmts.add(f)
        sp = split_text(t)
        key = (ty, form)
        if sp is None or (key in probe and probe[key] != sp):
            probe[key] = 'inconsistent'
        elif key not in probe:
            probe[key] = sp
    # ---- 3. combine
    rows, types, replaced = {}, {}, 0
    for form in FORMS:
        addrs = set()
        for ty in MEM_TYPES:
            s, p = sym.get((ty, form)), probe.get((ty, form))
            if p == 'inconsistent':
                addrs.add(None)
            elif p is not None and (s is None or not same(s[1], p[1]) or not same(s[0], p[0])):
                addrs.add(re.sub(r'\s+', ' ', p[1]))
                replaced += 1
            elif s is not None:
                addrs.add(re.sub(r'\s+', ' ', s[1]))
            else:
                addrs.add(None)
        rows[form] = addrs.pop() if len(addrs) == 1 else None      # the address may not depend on the memory type
    for ty in MEM_TYPES:
        names = set()
        for form in FORMS:
            s, p = sym.get((ty, form)), probe.get((ty, form))
            if p is not None and p != 'inconsistent':
                names.add(p[0])
            elif s is not None and p is None:
                names.add(s[0])
            else:
                names.add(None)
        types[ty] = names.pop() if len(names) == 1 else None      # the type may not depend on the form
    allf = (fmts | pfmts) if fmts and not replaced else pfmts
    if fmts and pfmts and fmts != pfmts:
        allf = fmts | pfmts
    disp_fmt = allf.pop() if len(allf) == 1 else 'FmtOther'
    if replaced or (problems and probe):
        notes.append('memory operands: %d of %d (type, form) texts read from what mir2c prints for probe operands (printing code of out_op '
                     'not in a form the symbolic printer executes%s)' % (replaced, len(MEM_TYPES) * len(FORMS),
                                                                         ': ' + '; '.join(sorted(problems))[:160] if problems else ''))
    return rows, types, disp_fmt


def emit(rows, types, disp_fmt):
    b = lambda x: 'true' if x else 'false'
    s = '\n(* memory operands (tools/tr_c20_addr.py): the address expression out_op prints for every form, the conversion\n'
    s += '   specification of the displacement, the C object type named for every MIR memory type *)\n'
    s += 'Definition mir2c_disp_fmt : cfmt := %s.\n' % disp_fmt
    items = []
    for form in FORMS:
        text = rows.get(form)
        items.append('({| af_disp := %s; af_base := %s; af_index := %s; af_scale := %d |}, %s)%s' % (
            b(form[0]), b(form[1]), b(form[2]), form[3], addr_to_coq(text) if text is not None else 'AUnknown',
            '   (* %s *)' % text.replace('*)', '* )').replace('(*', '( *') if text is not None else ''))
    s += 'Definition mir2c_addr_table : list (aform * aexpr) :=\n  [ ' + '\n  ; '.join(items) + '\n  ].\n'
    titems = []
    for ty in MEM_TYPES:
        c = ctype_name(types[ty]) if types.get(ty) else None
        if c is not None:
            titems.append('(%s, %s)' % (COQ_TYPE[ty], c))
    s += 'Definition mir2c_memtype_table : list (mir_type * cty) :=\n  [ ' + '; '.join(titems) + ' ].\n'
    return s


def main(notes=None):
    notes = notes if notes is not None else []
    rows, types, disp_fmt = translate(vlib.REPO, notes)
    return emit(rows, types, disp_fmt), rows, types, disp_fmt


if __name__ == '__main__':
    notes = []
    txt, rows, types, disp_fmt = main(notes)
    print(txt)
    print('\n'.join(notes))

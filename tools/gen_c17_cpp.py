# Preprocessor-heavy C translation units for the C17 / C18 API histories (used by tools/gen_c17_scen.py).
# c2mir's preprocessor owns a population of blocks of its own (macro table, parameter vectors, one token vector per
# macro-call argument, macro-call frames, include / #if stacks, pasted and stringified tokens); which of them are
# created and released depends on the SHAPE of the macro definitions and calls, not on the C code they expand to.
# The units here walk that case split:
#   function-like macros with 0, 1, 2, 3 and variadic parameters  x  argument shapes (none, white space, a new line,
#   a comment, empty arguments between commas, parenthesised commas, nested calls, calls of parameterless macros as
#   arguments, a call completed by the rescan `F (Z,)` -> `Z ()`; c2mir wants the comma in front of empty variable arguments), macro names NOT followed by `(`, object-like macros
#   (empty, chains), #undef / redefinition (same text, other arity, function-like <-> object-like), conditional groups
#   (#if with macro calls in the expression, defined, #ifdef / #ifndef / #elif / #else, nested, skipped groups
#   containing calls), #include of small headers (option I), # and ## incl. empty operands, __VA_ARGS__ empty.
# Every unit defines  long f@N@ (long n) ; the value depends on n only.  Macro names need no serial (a compilation has
# its own macro table); names with linkage carry @N@.

ZERO_CALLS = ['%s()', '%s( )', '%s ()', '%s (  )', '%s (\n)', '%s(/* none */)', '%s (\t)', '%s\n()', '%s ( /* a */ /* b */ )']
SPACE = ['', ' ', '  ', '\n  ', ' /* c */ ']


class _Cpp:
    def __init__(self, rng):
        self.rng = rng
        self.L = []            # file-scope lines
        self.terms = []        # C expressions (long, may use n) of the current function
        self.k = 0
        self.zero = []         # names of currently defined parameterless function-like macros (value: long expr)
        self.one = []          # one-parameter macros usable as  M (expr)
        self.funcs = []
        self.used = set()      # macros named in the replacement list of another macro (kept parameterless for good)

    def nm(self, p):
        self.k += 1
        return '%s%d' % (p, self.k)

    def sp(self):
        return self.rng.choice(SPACE)

    def flush(self):
        """close the terms collected so far into a static function (macros defined later do not reach it)"""
        if not self.terms:
            return
        f = 'p@N@_%d' % (len(self.funcs) + 1)
        body = ['static long %s (long n) {' % f, '  long r = 0;']
        for t in self.terms:
            body.append('  r += %s;' % t)
        body += ['  return r;', '}']
        self.L += body
        self.funcs.append(f)
        self.terms = []

    def zcall(self, z=None, oneline=False):
        z = z or self.rng.choice(self.zero)
        if oneline:
            self.used.add(z)
        return self.rng.choice([c for c in ZERO_CALLS if not (oneline and '\n' in c)]) % z

    def arg(self, depth=0):
        rng = self.rng
        q = rng.random()
        if self.zero and q < 0.3:
            return self.zcall()
        if self.one and depth < 2 and q < 0.5:
            return '%s (%s)' % (rng.choice(self.one), self.arg(depth + 1))
        if q < 0.6:
            return 'n'
        if q < 0.7:
            return '(n, %d)' % rng.randrange(9)
        if q < 0.8:
            return 'n%s+%s%d' % (self.sp(), self.sp(), rng.randrange(50))
        return str(rng.randrange(100))

    # ---- families -----------------------------------------------------------------------------------------------
    def fn0(self):
        """parameterless function-like macros: every call shape of `Z ()`; the name without `(` is an ordinary identifier"""
        rng = self.rng
        z = self.nm('Z')
        body = rng.choice(['%d' % rng.randrange(1, 90), '(n + %d)' % rng.randrange(9), '', '(%d) /* tail */' % rng.randrange(7),
                           '((long) sizeof (long))'] + (['(%s + 1)' % self.zcall(oneline=True)] if self.zero else []))
        self.L.append('#define %s()%s%s' % (z, ' ' if body else rng.choice(['', ' ']), body))
        if body == '':
            self.terms += ['(%d %s)' % (rng.randrange(9), self.zcall(z)) for _ in range(rng.choice([1, 2, 3]))]
            return
        self.zero.append(z)
        for _ in range(rng.choice([1, 2, 4])):
            self.terms.append(self.zcall(z))
        if rng.random() < 0.5:
            # the macro name without a following parenthesis: not a macro call (the look-ahead token is given back)
            self.terms.append('({ long %s = %d; %s + %s %s; })' % (z, rng.randrange(9), z, self.zcall(z), rng.choice(['', '+ %s' % z])))
        if rng.random() < 0.4:
            w = self.nm('W')
            self.L.append('#define %s() (%s + %s)' % (w, self.zcall(z, True), self.zcall(z, True)))
            self.zero.append(w)
            self.terms.append(self.zcall(w))

    def fn1(self):
        rng = self.rng
        m = self.nm('O')
        self.L.append('#define %s(x) %s' % (m, rng.choice(['((x) * %d)' % rng.randrange(2, 9), '((x) + (x))', '(x)', '(%d)' % rng.randrange(9)])))
        self.one.append(m)
        for _ in range(rng.choice([1, 2, 3])):
            self.terms.append('%s%s(%s%s%s)' % (m, self.sp(), self.sp(), self.arg(), self.sp()))
        # a single EMPTY argument (0 tokens / white space only): the boundary next to "no parameters at all"
        e = self.nm('E')
        self.L.append('#define %s(x) (x + %d)' % (e, rng.randrange(9)))
        for _ in range(rng.choice([1, 2])):
            self.terms.append(rng.choice(ZERO_CALLS) % e)
        self.terms.append('%s (%s)' % (e, self.arg()))

    def fnn(self):
        rng = self.rng
        np_ = rng.choice([2, 3, 3, 4])
        ps = 'abcd'[:np_]
        m = self.nm('T')
        self.L.append('#define %s(%s) (%s + 0)' % (m, rng.choice([', ', ',']).join(ps), ' + '.join(ps)))
        for _ in range(rng.choice([1, 2, 3])):
            args = [rng.choice(['', ' ', '\n', self.arg(), self.arg(), '/* */']) for _ in ps]
            self.terms.append('%s (%s)' % (m, ','.join(args)))
        self.terms.append('%s (%s)' % (m, ','.join('' for _ in ps)))

    def variadic(self):
        rng = self.rng
        v = self.nm('V')
        c = self.nm('C')
        a = self.nm('A')
        self.L.append('#define %s(...) (0 __VA_ARGS__)' % v)
        self.L.append('#define %s(...) ((long) (sizeof ((long[]){0, __VA_ARGS__}) / sizeof (long)))' % c)
        self.L.append('#define %s(f, ...) f (__VA_ARGS__)' % a)
        self.terms += ['%s ()' % v, '%s( )' % v, '%s (+ %s)' % (v, self.arg()), '%s (+ %s, + 2)' % (v, self.arg())]
        self.terms += ['%s ()' % c, '%s (%s)' % (c, self.arg()), '%s (%s, %s,)' % (c, self.arg(), self.arg())]
        if self.zero:
            # the call `Z ()` is completed by the rescan of the expansion: f = a parameterless macro, no variable arguments
            z = rng.choice(self.zero)
            self.terms += ['%s (%s,)' % (a, z), '%s (%s, )' % (a, z), '%s (%s,/* */) + %s (%s,\n)' % (a, z, a, z)]
        if self.one:
            self.terms.append('%s (%s, %s)' % (a, rng.choice(self.one), self.arg()))
        n = self.nm('N')
        self.L.append('#define %s(first, ...) ((first) + %s (__VA_ARGS__))' % (n, c))
        self.terms += ['%s (n,)' % n, '%s (n, 1, 2)' % n, '%s (%s,)' % (n, self.arg())]

    def objlike(self):
        rng = self.rng
        k = self.nm('K')
        k2 = self.nm('K')
        e = self.nm('Q')
        self.L += ['#define %s %d' % (k, rng.randrange(1, 60)), '#define %s (%s + %s)' % (k2, k, k), '#define %s' % e,
                   '#define %s /* only a comment */' % self.nm('Q')]
        self.terms += [k, k2, '(%s %s %s %s)' % (e, k, e, e)]
        if self.zero:
            # an object-like macro that expands to the NAME of a parameterless function-like macro; the `(` follows outside
            z = rng.choice(self.zero)
            al = self.nm('L')
            self.L.append('#define %s %s' % (al, z))
            self.used.add(z)
            self.terms += ['%s ()' % al, '%s ( )' % al]

    def redefine(self):
        rng = self.rng
        if not self.zero:
            return self.fn0()
        z = rng.choice(self.zero)
        self.flush()
        how = rng.choice(['same', 'undef-zero', 'undef-only'] + ([] if z in self.used else ['undef-obj', 'undef-one', 'undef-obj', 'undef-one']))
        if how == 'same':
            self.L += ['#undef %s' % z, '#define %s() 11' % z, '#define %s() 11' % z]     # identical redefinition
        elif how == 'undef-zero':
            self.L += ['#undef %s' % z, '#define %s( ) (n - %d)' % (z, rng.randrange(9))]
        elif how == 'undef-obj':
            self.L += ['#undef %s' % z, '#define %s 5' % z]
            self.zero = [x for x in self.zero if x != z]
            self.terms += [z, '(%s)' % z]
            return
        elif how == 'undef-one':
            self.L += ['#undef %s' % z, '#define %s(x) (x + 2)' % z]
            self.zero = [x for x in self.zero if x != z]
            self.terms += ['%s ()' % z, '%s (n)' % z]
            return
        else:
            fn = self.nm('zf@N@_')
            self.L += ['#undef %s' % z, '#undef %s' % z, 'static long %s (void) { return 3; }' % fn, '#define %s() %s ()' % (z, fn)]
        self.terms += [self.zcall(z), self.zcall(z)]

    def conditional(self):
        rng = self.rng
        self.flush()
        z = rng.choice(self.zero) if self.zero else None
        d = self.nm('D')
        conds = ['1', '0', 'defined (%s)' % d, '!defined %s' % d, '%d > 3' % rng.randrange(9), '(2 + 2) * 3 == 12 && !0',
                 "'a' < 'b'", 'UNKNOWN_%s' % d, '1 ? 2 : 0']
        if z:
            conds += ['defined (%s)' % z, 'defined %s && 1' % z]
        x = self.nm('X')
        c1, c2 = rng.choice(conds), rng.choice(conds)
        inner = ['#define %s() %d' % (x, rng.randrange(9))]
        skipped = ['#define %s() %d' % (x, 50 + rng.randrange(9))] + (['static long sk@N@_%d (long n) { return %s; }' % (self.k, self.zcall(z))] if z else [])
        shape = rng.choice(['if-else', 'ifdef', 'ifndef', 'elif', 'nested'])
        if shape == 'if-else':
            self.L += ['#if %s' % c1] + inner + ['#else'] + skipped + ['#endif']
        elif shape == 'ifdef':
            self.L += ['#define %s' % d, '#ifdef %s' % d] + inner + ['#else'] + skipped + ['#endif /* %s */' % d]
        elif shape == 'ifndef':
            self.L += ['#ifndef %s' % d] + inner + ['#else'] + skipped + ['#endif']
        elif shape == 'elif':
            self.L += ['#if 0'] + skipped + ['#elif %s' % c1] + inner + ['#elif %s' % c2] + skipped + ['#else'] + skipped + ['#endif']
        else:
            self.L += ['#if %s' % c1, '# if %s' % c2] + inner + ['# else'] + skipped + ['# endif', '#else', '# ifdef %s' % d] + skipped \
                + ['# else'] + inner + ['# endif', '#endif']
        # whichever group was taken, X is a parameterless macro now
        self.zero.append(x)
        self.terms += [self.zcall(x), self.zcall(x)]
        if z and rng.random() < 0.6:
            # a macro call inside the controlling expression (function-like macros with and without parameters)
            v = self.nm('Y')
            zc = rng.choice(['%s()', '%s( )', '%s ()', '%s (  )']) % x
            self.L += ['#if %s + 1 > 0 && %s >= 0' % (zc, zc), '#define %s 1' % v, '#else', '#define %s 2' % v, '#endif']
            self.terms.append(v)

    def include(self):
        self.L.append('#include "c17cfg.h"')
        self.need_inc = True
        self.terms += ['CFG_SCALE (n)', 'CFG_BASE', 'CFG_SCALE (%s)' % self.arg(), '(long) CFG_C']
        if self.rng.random() < 0.5:
            self.L.append('#include "c17sub.h"')
            self.terms.append('C17SUB_TWICE')

    def strpaste(self):
        rng = self.rng
        s, s2, g, g2 = self.nm('S'), self.nm('S'), self.nm('G'), self.nm('G')
        self.L += ['#define %s(x) #x' % s, '#define %s(x) %s (x)' % (s2, s), '#define %s(a, b) a##b' % g,
                   '#define %s(a, b) %s (a, b)' % (g2, g)]
        self.terms += ['(long) sizeof (%s ())' % s, '(long) sizeof (%s ( ))' % s, '(long) sizeof (%s (a  +   b))' % s,
                       '(long) sizeof (%s ("q\\n" \'c\'))' % s, '%s (n,)' % g, '%s (,n)' % g, '%s (1, 2)' % g, '(0 %s (,))' % g,
                       '%s (%s (1, 0), 0)' % (g2, g2)]
        if self.zero:
            z = rng.choice(self.zero)
            self.terms += ['(long) sizeof (%s (%s))' % (s, self.zcall(z)), '(long) sizeof (%s (%s ()))' % (s2, z),
                           '%s (%s,) ()' % (g, z), '%s (%s, %s) ()' % (g, z[:1], z[1:])]
        v = self.nm('SV')
        self.L.append('#define %s(...) #__VA_ARGS__' % v)
        self.terms += ['(long) sizeof (%s ())' % v, '(long) sizeof (%s (a,  b , c))' % v]


FAMILIES = ['fn0', 'fn1', 'fnn', 'variadic', 'objlike', 'redefine', 'conditional', 'include', 'strpaste']


def _finish(u):
    u.flush()
    body = ['long f@N@ (long n) {', '  long r = n;'] + ['  r += %s (n);' % f for f in u.funcs] + ['  return r;', '}']
    return '\n'.join(u.L + body) + '\n'


def cpp_unit(rng, size=None, families=None):
    """-> (tag, source with @N@ placeholders, needed options)"""
    u = _Cpp(rng)
    u.need_inc = False
    u.fn0()                                 # every unit has parameterless macros (the 0 / 1-empty-argument boundary)
    for _ in range(size or rng.choice([2, 4, 6, 9])):
        getattr(u, rng.choice(families or FAMILIES))()
        if rng.random() < 0.3:
            u.flush()
    return 'cpp', _finish(u), 'I' if u.need_inc else ''


def exhaustive_cpp_unit():
    """one unit with EVERY family, and every call shape of a parameterless macro / of a one-parameter macro with an
    empty argument, at file scope, inside a function, as a macro argument and in an #if expression"""
    import random
    u = _Cpp(random.Random(17))
    u.need_inc = False
    u.L.append('#define ZZ() 42')
    u.L.append('#define EE(x) (x + 1)')
    u.L.append('#define ID(x) x')
    for i, c in enumerate(ZERO_CALLS):
        u.L.append('static long zs@N@_%d = %s;' % (i, c % 'ZZ'))
        u.terms += [c % 'ZZ', c % 'EE', 'ID (%s)' % (c % 'ZZ'), 'ID (ID (%s))' % (c % 'EE'), 'zs@N@_%d' % i]
        if '\n' not in c and '/*' not in c:
            u.L += ['#if %s == 42' % (c % 'ZZ'), 'static long zi@N@_%d = 1;' % i, '#else', 'static long zi@N@_%d = 2;' % i, '#endif']
            u.terms.append('zi@N@_%d' % i)
    u.zero.append('ZZ')
    for fam in FAMILIES + FAMILIES:
        getattr(u, fam)()
    return 'cpp-all', _finish(u), 'I'


if __name__ == '__main__':
    import random, sys
    if sys.argv[1:2] == ['all']:
        print(exhaustive_cpp_unit()[1].replace('@N@', '7'))
    else:
        print(cpp_unit(random.Random(int(sys.argv[1]) if len(sys.argv) > 1 else 1))[1].replace('@N@', '7'))

# C07 part X: calls between c2m-compiled and gcc-compiled code with aggregates passed and returned BY VALUE.
# A unit = a list of aggregate shapes.  For every shape k the gcc-built shared library exports
#     S lib_ret_k (int seed);  u64 lib_take_k (PRE, S s, POST);  S lib_pass_k (S s, int d);
#     u64 lib_cb_k (S (*cb) (PRE, S, POST), int seed);           u64 lib_va_k (int n, ...)   [variadic, S through ...]
# and the c2m-compiled main program calls them, passes callbacks (gcc code calls c2m code) and calls its own
# copies loc_* of the same functions (c2m to c2m).  PRE/POST are scalar arguments that use up integer / SSE
# argument registers, so that the aggregate is classified both with free registers and on the boundary where the
# psABI sends the whole aggregate to memory.  Every function folds the values of all leaves of the aggregate it
# received into a checksum, so a value arriving in the wrong register / at the wrong offset changes the output.
# Shapes: a systematic family aimed at the SysV classification boundaries (each eightbyte classified from ALL
# scalars lying in it: arrays crossing eightbytes, nested aggregates starting mid-eightbyte, unions, long double,
# sizes 16/17, bit-fields) plus seeded random shapes.  Padding is never read; union members other than the one
# written are never read.
SC = {  # name: (C spelling, size, align, kind)  kind: i signed, u unsigned, b bool, f fp, p pointer
    'bool': ('_Bool', 1, 1, 'b'), 'char': ('char', 1, 1, 'i'), 'schar': ('signed char', 1, 1, 'i'),
    'uchar': ('unsigned char', 1, 1, 'u'), 'short': ('short', 2, 2, 'i'), 'ushort': ('unsigned short', 2, 2, 'u'),
    'int': ('int', 4, 4, 'i'), 'uint': ('unsigned', 4, 4, 'u'), 'long': ('long', 8, 8, 'i'),
    'ulong': ('unsigned long', 8, 8, 'u'), 'llong': ('long long', 8, 8, 'i'), 'float': ('float', 4, 4, 'f'),
    'double': ('double', 8, 8, 'f'), 'ldouble': ('long double', 16, 16, 'f'), 'ptr': ('void *', 8, 8, 'p')}
SMALL = ['char', 'uchar', 'schar', 'bool', 'short', 'ushort', 'int', 'uint', 'float']
ANY = list(SC)


# ---------------------------------------------------------------- shapes
# shape  = ('s' | 'u', [member, ...], active)       active: index of the union member that is written / read
# member = ('sc', t) | ('arr', t, n) | ('bf', t, width) | ('agg', shape) | ('aarr', shape, n)
def S(*ms):
    return ('s', list(ms), 0)


def U(active, *ms):
    return ('u', list(ms), active)


def sc(t):
    return ('sc', t)


def arr(t, n):
    return ('arr', t, n)


SYSTEMATIC = [
    # floating arrays over eightbyte boundaries (the class of seeded C07-x2) and their neighbours
    S(arr('double', 2)), S(arr('float', 3)), S(arr('float', 4)), S(sc('int'), arr('float', 3)),
    S(arr('float', 2)), S(sc('long'), arr('double', 1)), S(arr('double', 1), sc('long')), S(arr('float', 2), arr('int', 2)),
    S(arr('int', 2), arr('float', 2)), S(arr('float', 1), arr('int', 3)), S(sc('float'), arr('float', 2), sc('char')),
    S(arr('char', 4), arr('float', 3)), S(arr('short', 2), sc('float'), arr('float', 2)), S(arr('double', 3)),
    S(arr('float', 5)), S(arr('double', 2), sc('char')), S(arr('int', 4)), S(arr('char', 16)), S(arr('char', 17)),
    S(arr('char', 9)), S(arr('short', 5), sc('float')), S(arr('long', 2)), S(sc('double'), arr('float', 2)),
    S(arr('float', 2), sc('double')), S(sc('float'), sc('double')), S(sc('double'), sc('int')), S(sc('char'), sc('double')),
    S(sc('float'), sc('float'), sc('float')), S(sc('float'), sc('int'), sc('float'), sc('int')), S(sc('float')), S(sc('double')),
    # nested aggregates, also starting in the middle of an eightbyte, arrays of aggregates
    S(('agg', S(sc('float'), sc('float'))), sc('float')), S(sc('float'), ('agg', S(sc('float'), sc('float'))), sc('int')),
    S(('aarr', S(sc('float')), 3)), S(('aarr', S(sc('float'), sc('char')), 2)), S(('aarr', S(sc('double')), 2)),
    S(('aarr', S(sc('short'), sc('char')), 3), sc('float')), S(sc('int'), ('agg', S(arr('float', 2), sc('int')))),
    S(('agg', S(('agg', S(arr('double', 1))), sc('float'))), sc('int')), S(sc('char'), ('agg', S(arr('char', 3))), arr('float', 2)),
    S(('agg', S(sc('long'))), ('agg', S(arr('float', 2)))), S(('aarr', S(arr('float', 2)), 2)), S(('aarr', S(sc('int'), sc('float')), 2)),
    # aggregates inside aggregates inside aggregates, the inner ones away from offset 0 and across the eightbyte boundary
    S(sc('long'), ('agg', S(('agg', S(sc('float'), sc('float')))))), S(sc('double'), ('agg', S(sc('int'), ('agg', S(sc('float')))))),
    S(sc('int'), ('agg', S(sc('float'), ('agg', S(arr('float', 2)))))), S(sc('float'), ('agg', S(('aarr', S(sc('float')), 2), sc('int')))),
    S(('aarr', S(('agg', S(sc('float'))), sc('char')), 2)), S(sc('char'), ('agg', S(('agg', S(sc('double')))))),
    S(('agg', S(sc('int'), ('agg', S(sc('int'))))), ('agg', S(('agg', S(arr('float', 2)))))), S(sc('double'), ('agg', U(0, ('agg', S(arr('float', 2))), sc('long')))),
    S(sc('long'), ('aarr', S(('agg', S(sc('float')))), 2)), S(arr('float', 2), ('agg', S(('agg', S(sc('int'), sc('float')))))),
    # unions: an eightbyte is INTEGER as soon as one member puts an integer there
    U(0, sc('double'), sc('long')), U(0, arr('float', 4), sc('int')), U(1, sc('long'), arr('double', 2)), U(0, arr('float', 4), arr('double', 2)),
    U(0, arr('float', 3), ('agg', S(sc('double'), sc('int')))), S(('agg', U(0, sc('float'), sc('int'))), sc('float'), sc('double')),
    S(sc('double'), ('agg', U(1, sc('int'), arr('float', 2)))), U(1, arr('char', 12), ('agg', S(sc('float'), sc('double')))),
    # long double (X87 / X87UP: memory unless alone), pointers, _Bool, 64-bit mixes
    S(sc('ldouble')), S(sc('ldouble'), sc('char')), S(sc('int'), sc('ldouble')), U(0, sc('ldouble'), sc('long')), S(arr('ldouble', 1)),
    S(sc('ptr'), sc('double')), S(sc('double'), sc('ptr')), S(sc('bool'), arr('float', 3)), S(sc('ptr'), sc('ptr'), sc('char')),
    S(sc('long'), sc('long')), S(sc('long'), sc('long'), sc('long')), S(sc('double'), sc('double'), sc('double')),
    # bit-fields are INTEGER wherever they lie
    S(('bf', 'int', 5), ('bf', 'uint', 11), sc('float')), S(sc('float'), ('bf', 'uint', 7), sc('double')),
    S(('bf', 'long', 40), sc('float'), sc('float')), S(arr('float', 2), ('bf', 'int', 3), sc('float')),
]


def size_align(shape_or_member):
    """(size, align) under the LP64 layout; bit-fields are approximated by their declared type (used only to steer the
    random generator towards the 16-byte boundary)"""
    k = shape_or_member[0]
    if k in ('sc', 'bf'):
        return SC[shape_or_member[1]][1], SC[shape_or_member[1]][2]
    if k == 'arr':
        s, a = SC[shape_or_member[1]][1:3]
        return s * shape_or_member[2], a
    if k == 'agg':
        return size_align(shape_or_member[1])
    if k == 'aarr':
        s, a = size_align(shape_or_member[1])
        return s * shape_or_member[2], a
    off, al = 0, 1
    for m in shape_or_member[1]:
        s, a = size_align(m)
        al = max(al, a)
        if k == 's':
            off = (off + a - 1) // a * a + s
        else:
            off = max(off, s)
    return (off + al - 1) // al * al, al


def random_shape(rng, depth=0, budget=None):
    if budget is None:
        budget = rng.choice([8, 12, 16, 16, 16, 16, 20, 24, 32, 40, 72])
    kind = 'u' if rng.random() < 0.15 else 's'
    ms = []
    used = 0
    fpbias = rng.random() < 0.6
    for _ in range(rng.randint(1, 5)):
        r = rng.random()
        pool = (['float', 'float', 'double', 'float', 'int', 'char'] if fpbias else SMALL + ['long', 'double', 'ptr', 'llong', 'ulong'])
        if r < 0.40:
            m = ('sc', rng.choice(pool if rng.random() < 0.93 else ['ldouble']))
        elif r < 0.72:
            t = rng.choice(pool)
            m = ('arr', t, rng.randint(1, max(1, min(5, budget // SC[t][1]))))
        elif r < 0.80 and kind == 's':
            t = rng.choice(['int', 'uint', 'long', 'ushort', 'uchar'])
            m = ('bf', t, rng.randint(1, SC[t][1] * 8))
        elif depth < 2:
            sub = random_shape(rng, depth + 1, max(4, budget // 2))
            m = ('agg', sub) if rng.random() < 0.6 else ('aarr', sub, rng.randint(1, 3))
        else:
            m = ('sc', rng.choice(pool))
        s, a = size_align(m)
        if kind == 's' and used + s > budget and ms:
            break
        ms.append(m)
        used += s
    if kind == 'u' and all(m[0] == 'bf' for m in ms):
        ms.append(('sc', 'int'))
    act = rng.randrange(len(ms))
    if ms[act][0] == 'bf' and kind == 'u':
        act = [i for i, m in enumerate(ms) if m[0] != 'bf'][0]
    return (kind, ms, act)


def type_text(shape, name=''):
    """C text of the aggregate type (anonymous when name is empty)"""
    kw = 'struct' if shape[0] == 's' else 'union'
    out = []
    for i, m in enumerate(shape[1]):
        if m[0] == 'sc':
            out.append('%s m%d;' % (SC[m[1]][0], i))
        elif m[0] == 'arr':
            out.append('%s m%d[%d];' % (SC[m[1]][0], i, m[2]))
        elif m[0] == 'bf':
            out.append('%s m%d : %d;' % (SC[m[1]][0], i, m[2]))
        elif m[0] == 'agg':
            out.append('%s m%d;' % (type_text(m[1]), i))
        else:
            out.append('%s m%d[%d];' % (type_text(m[1]), i, m[2]))
    return '%s %s{ %s }' % (kw, name + ' ' if name else '', ' '.join(out))


def leaves(shape, prefix):
    """[(lvalue text, scalar type, bit-field width or 0)] of the members that are written and read"""
    out = []
    ms = list(enumerate(shape[1]))
    if shape[0] == 'u':
        ms = [ms[shape[2]]]
    for i, m in ms:
        p = '%sm%d' % (prefix, i)
        if m[0] == 'sc':
            out.append((p, m[1], 0))
        elif m[0] == 'bf':
            out.append((p, m[1], m[2]))
        elif m[0] == 'arr':
            out += [('%s[%d]' % (p, j), m[1], 0) for j in range(m[2])]
        elif m[0] == 'agg':
            out += leaves(m[1], p + '.')
        else:
            for j in range(m[2]):
                out += leaves(m[1], '%s[%d].' % (p, j))
    return out


def fill_expr(t, w, i):
    """value of leaf number i as a C expression of `seed` (always in range of the leaf)"""
    kind = SC[t][3]
    v = '(seed * 13 + %d)' % (i * 7 + 3)
    if w:
        return '(%s)((u64)%s & %dULL)' % (SC[t][0], v, ((1 << (w - (1 if kind == 'i' else 0))) - 1) if (w > 1 or kind != 'i') else 0)
    if kind == 'b':
        return '(_Bool)(%s & 1)' % v
    if kind == 'p':
        return '(void *)(unsigned long)(%s * 4096)' % v
    if kind == 'f':
        return '(%s)%s%s + (%s)0.25' % (SC[t][0], '-' if i % 2 else '', v, SC[t][0])
    if SC[t][1] == 1:
        return '(%s)(%s %% 100)' % (SC[t][0], v)
    if kind == 'i':
        return '(%s)%s%s' % (SC[t][0], '-' if i % 2 else '', v)
    return '(%s)%s * 3u' % (SC[t][0], v)


def bits_expr(lv, t):
    kind = SC[t][3]
    if kind == 'f':
        return {'float': 'bits_f', 'double': 'bits_d', 'ldouble': 'bits_l'}[t] + ' (%s)' % lv
    if kind == 'p':
        return '(u64)(unsigned long)%s' % lv
    return '(u64)(long long)%s' % lv


COMMON = r'''#include <stdarg.h>
typedef unsigned long long u64;
static u64 bits_f (float x) { union { float f; unsigned u; } v; v.f = x; return v.u; }
static u64 bits_d (double x) { union { double d; u64 u; } v; v.d = x; return v.u; }
static u64 bits_l (long double x) { const unsigned char *b = (const unsigned char *) &x; u64 h = 0; for (int i = 9; i >= 0; i--) h = h * 257u + b[i]; return h; }
static u64 mixv (u64 h, u64 v) { return (h ^ v) * 1099511628211ULL; }
'''

# scalar arguments around the aggregate: (C type, value expression of index i)
ARGK = {'i': ('int', lambda i: '%d' % (11 * i + 5)), 'l': ('long', lambda i: '%dL' % (100000000007 * (i + 1))),
        'd': ('double', lambda i: '%d.5' % (i + 1)), 'f': ('float', lambda i: '%d.25f' % (i + 2)),
        'L': ('long double', lambda i: '%d.125L' % (i + 3)), 'c': ('char', lambda i: "'%s'" % chr(97 + i))}
PRE_CHOICES = ['', '', 'i', 'd', 'iiiii', 'iiiiii', 'iiii', 'ddddddd', 'dddddddd', 'dddddd', 'iiiiiddddddd', 'idid', 'L', 'lf',
               'iiiiidddddd', 'iiiidddddddd', 'c', 'iiiiiii', 'ddddddddd', 'iiiiiiiddddddddd', 'iiiiiiii', 'iL', 'iiiiiiL']
POST_CHOICES = ['', '', 'i', 'd', 'id', 'f', 'L']


def arg_bits(kinds, names):
    out = []
    for k, n in zip(kinds, names):
        t = ARGK[k][0]
        out.append({'double': 'bits_d (%s)', 'float': 'bits_f (%s)', 'long double': 'bits_l (%s)'}.get(t, '(u64)(long long)%s') % n)
    return out


def decl_text(k, shape):
    """typedef + fill + checksum helpers of shape k (compiled on both sides of the boundary)"""
    L = ['typedef %s S%d;' % (type_text(shape), k)]
    lv = leaves(shape, 'p->')
    L.append('static void fill%d (S%d *p, int seed) {' % (k, k))
    L.append('  unsigned char *b = (unsigned char *) p; for (unsigned i = 0; i < sizeof (S%d); i++) b[i] = 0;' % k)
    for i, (l, t, w) in enumerate(lv):
        L.append('  %s = %s;' % (l, fill_expr(t, w, i)))
    L.append('}')
    L.append('static u64 sum%d (const S%d *p) {' % (k, k))
    L.append('  u64 h = %dULL;' % (1469598103934665603 + k))
    for i, (l, t, w) in enumerate(lv):
        L.append('  h = mixv (h, %s);' % bits_expr(l, t))
    L.append('  return h;\n}')
    return L


def params(pre, post, k, named=True):
    ps = ['%s a%d' % (ARGK[c][0], i) if named else ARGK[c][0] for i, c in enumerate(pre)]
    ps.append('S%d s' % k if named else 'S%d' % k)
    ps += ['%s b%d' % (ARGK[c][0], i) if named else ARGK[c][0] for i, c in enumerate(post)]
    return ', '.join(ps)


def call_args(pre, post, s):
    return ', '.join([ARGK[c][1](i) for i, c in enumerate(pre)] + [s] + [ARGK[c][1](i + 7) for i, c in enumerate(post)])


def scal_mix(pre, post):
    names = ['a%d' % i for i in range(len(pre))] + ['b%d' % i for i in range(len(post))]
    return ''.join('  h = mixv (h, %s);\n' % b for b in arg_bits(pre + post, names))


def callee_text(prefix, k, pre, post):
    """the functions that live on one side of the boundary (prefix lib_ = gcc side, loc_ = c2m side)"""
    L = []
    L.append('S%d %sret_%d (int seed) { S%d s; fill%d (&s, seed); return s; }' % (k, prefix, k, k, k))
    L.append('u64 %stake_%d (%s) {\n  u64 h = sum%d (&s);\n%s  return h;\n}' % (prefix, k, params(pre, post, k), k, scal_mix(pre, post)))
    L.append('S%d %spass_%d (S%d s, int d) { u64 h = sum%d (&s); fill%d (&s, (int) (h %% 1000u) + d); return s; }' % (k, prefix, k, k, k, k))
    L.append('u64 %scb_%d (S%d (*cb) (%s), int seed) {\n  S%d s, r;\n  fill%d (&s, seed);\n  r = cb (%s);\n'
             '  return mixv (sum%d (&r), sum%d (&s));\n}' % (prefix, k, k, params(pre, post, k, named=False), k, k, call_args(pre, post, 's'), k, k))
    L.append('u64 %sva_%d (int n, ...) {\n  va_list ap;\n  u64 h = 7;\n  va_start (ap, n);\n'
             '  for (int i = 0; i < n; i++) {\n    S%d s = va_arg (ap, S%d);\n    h = mixv (h, sum%d (&s));\n'
             '    h = mixv (h, (u64) va_arg (ap, int));\n    h = mixv (h, bits_d (va_arg (ap, double)));\n  }\n'
             '  va_end (ap);\n  return h;\n}' % (prefix, k, k, k, k))
    return L


def extern_text(prefix, k, pre, post):
    return ['extern S%d %sret_%d (int seed);' % (k, prefix, k),
            'extern u64 %stake_%d (%s);' % (prefix, k, params(pre, post, k)),
            'extern S%d %spass_%d (S%d s, int d);' % (k, prefix, k, k),
            'extern u64 %scb_%d (S%d (*cb) (%s), int seed);' % (prefix, k, k, params(pre, post, k, named=False)),
            'extern u64 %sva_%d (int n, ...);' % (prefix, k)]


def stack_slots_before(pre, hidden_ret):
    """number of eightbytes the scalar arguments PRE put on the stack (long double: 16-byte aligned, 2 slots)"""
    ni, nf, slots = (1 if hidden_ret else 0), 0, 0
    for c in pre:
        if c in 'ilc':
            ni += 1
            slots += ni > 6
        elif c in 'df':
            nf += 1
            slots += nf > 8
        else:
            slots += slots % 2 + 2
    return slots


def gen_unit(rng, nshapes, systematic=None, avoid=()):
    """a unit description: list of (shape, pre, post, variadic).  avoid: 'align16-stack' = no 16-byte aligned aggregate
    after an odd number of stack eightbytes (known finding corpus/c07_abi_align16_stack.json)"""
    sysl = list(SYSTEMATIC) if systematic is None else list(systematic)
    rng.shuffle(sysl)
    out = []
    for i in range(nshapes):
        shape = sysl.pop() if sysl and (i % 2 == 0 or rng.random() < 0.3) else random_shape(rng)
        pre, post = rng.choice(PRE_CHOICES), rng.choice(POST_CHOICES)
        if 'align16-stack' in avoid and size_align(shape)[1] == 16:
            while stack_slots_before(pre, True) % 2 or stack_slots_before(pre, False) % 2:
                pre = rng.choice(PRE_CHOICES)
        out.append((shape, pre, post, rng.random() < 0.35 and not has_ldouble_arg(pre + post)))
    return out


def has_ldouble_arg(ks):
    return 'L' in ks


def render(unit, only=None):
    """(library text for gcc, main program text for c2m); only: list of indices to keep (replays keep numbering)"""
    idx = [k for k in range(len(unit)) if only is None or k in only]
    lib = ['/* compiled by gcc into a shared library */', COMMON]
    main = ['#include <stdio.h>', COMMON]
    for k in idx:
        shape, pre, post, va = unit[k]
        d = decl_text(k, shape)
        lib += d
        main += d
        fs = callee_text('lib_', k, pre, post)
        lib += fs if va else fs[:-1]
        ex = extern_text('lib_', k, pre, post)
        main += ex if va else ex[:-1]
        fs = callee_text('loc_', k, pre, post)
        main += fs if va else fs[:-1]
        # the c2m-side callback: gcc code calls it with the aggregate and gets an aggregate back
        main.append('S%d cbf_%d (%s) {\n  u64 h = sum%d (&s);\n%s  fill%d (&s, (int) (h %% 997u));\n  return s;\n}'
                    % (k, k, params(pre, post, k), k, scal_mix(pre, post), k))
    main.append('int main (void) {\n  setvbuf (stdout, 0, _IONBF, 0);    /* a run that dies is charged to the call it died in */')
    for k in idx:
        shape, pre, post, va = unit[k]
        main.append('  for (int seed = 1; seed <= 2; seed++) {')
        main.append('    S%d s, r; S%d (*fp) (S%d, int) = seed == 1 ? lib_pass_%d : loc_pass_%d;' % (k, k, k, k, k))
        main.append('    fill%d (&s, seed);' % k)
        for pfx in ('lib_', 'loc_'):
            main.append('    printf ("%d %stake %%d %%llx\\n", seed, %stake_%d (%s));' % (k, pfx, pfx, k, call_args(pre, post, 's')))
            main.append('    r = %sret_%d (seed + 3); printf ("%d %sret %%d %%llx\\n", seed, sum%d (&r));' % (pfx, k, k, pfx, k))
            main.append('    r = %spass_%d (s, 5); printf ("%d %spass %%d %%llx\\n", seed, sum%d (&r));' % (pfx, k, k, pfx, k))
            main.append('    printf ("%d %scb %%d %%llx\\n", seed, %scb_%d (cbf_%d, seed + 7));' % (k, pfx, pfx, k, k))
            if va:
                main.append('    r = %sret_%d (seed + 1); printf ("%d %sva %%d %%llx\\n", seed, %sva_%d (2, s, 41, 1.5, r, -3, 0.75));'
                            % (pfx, k, k, pfx, pfx, k))
        main.append('    r = fp (%spass_%d (s, seed), 9); printf ("%d chain %%d %%llx\\n", seed, sum%d (&r));' % ('lib_', k, k, k))
        main.append('  }')
    main.append('  return 0;\n}')
    return '\n'.join(lib) + '\n', '\n'.join(main) + '\n'


def describe(item):
    shape, pre, post, va = item
    return '%s; scalar args before `%s` after `%s`%s' % (type_text(shape), pre, post, '; also through ...' if va else '')

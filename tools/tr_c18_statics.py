#!/usr/bin/env python3
# C18 translator: regenerates coq/gen/C18Statics.v from the CURRENT tree ($VERIF_REPO).
# For mir.c (which #includes mir-interp.c, mir-x86_64.c, the default allocators), mir-gen.c (+ mir-gen-x86_64.c)
# and c2mir/c2mir.c (+ x86_64/*) compiled -O0 -g -ffunction-sections -fdata-sections:
#   every OBJECT symbol the compiler places in a writable section (.data*, .bss*, .tdata/.tbss; NOT .rodata* and
#   NOT .data.rel.ro*, which the loader makes read-only) -- file-scope and function-local statics alike -- with
#     writers      functions containing an instruction that stores to the object directly
#     src_writes   functions ("file:function") containing a syntactic assignment / ++ / -- whose target is the object
#                  or an element / field of it (source scan; catches stores through an address computed at -O0)
#     addr_takers  functions that take the object's address (lea) -- reads of arrays at -O0, or an escaping pointer
#     readers      functions that load from it directly
#     data_refs    other data objects whose initialiser points to it
# The Coq side (coq/C18/Contexts.v, Properties_C18.v) decides what is acceptable.
import os, re, sys

sys.path.insert(0, os.path.dirname(os.path.abspath(__file__)))
import vlib
import tr_c17_sites as S

UNIT_SOURCES = {
    'mir': ['mir.c', 'mir-interp.c', 'mir-x86_64.c', 'mir-alloc-default.c', 'mir-code-alloc-default.c'],
    'mir-gen': ['mir-gen.c', 'mir-gen-x86_64.c'],
    'c2mir': ['c2mir/c2mir.c', 'c2mir/x86_64/cx86_64-code.c', 'c2mir/x86_64/cx86_64-ABI-code.c',
              'c2mir/x86_64/cx86_64.h', 'c2mir/x86_64/mirc_x86_64_linux.h', 'c2mir/mirc.h'],
}
COMMON_HEADERS = ['mir.h', 'mir-gen.h', 'mir-varr.h', 'mir-htab.h', 'mir-bitmap.h', 'mir-dlist.h', 'mir-hash.h',
                  'mir-reduce.h', 'mir-alloc.h', 'mir-code-alloc.h', 'c2mir/c2mir.h']


def sections(obj):
    rc, out, err = vlib.sh(['readelf', '-SW', obj], check=True)
    secs = {}
    for line in out.split('\n'):
        m = re.match(r'^\s*\[\s*(\d+)\]\s+(\S+)\s+(\S+)\s+\S+\s+\S+\s+\S+\s+\S+\s+(\S*)', line)
        if m:
            secs[int(m.group(1))] = (m.group(2), m.group(3), m.group(4))
    return secs


def objects(obj):
    """OBJECT / TLS symbols: (name, section name, size, is_tls)"""
    secs = sections(obj)
    rc, out, err = vlib.sh(['readelf', '-sW', obj], check=True)
    res = []
    for line in out.split('\n'):
        p = line.split()
        if len(p) >= 8 and p[3] in ('OBJECT', 'TLS', 'COMMON'):
            ndx = p[6]
            if ndx == 'COM':
                res.append((p[7], '.bss.COMMON', int(p[2], 0), False))
            elif ndx.isdigit():
                res.append((p[7], secs[int(ndx)][0], int(p[2], 0), p[3] == 'TLS'))  # readelf prints sizes >= 100000 in hex
    return res


def writable(sec):
    if sec.startswith('.rodata') or sec.startswith('.data.rel.ro'):
        return False
    return sec.startswith('.data') or sec.startswith('.bss') or sec.startswith('.tdata') or sec.startswith('.tbss')


def sec_object(sec):
    """name of the object a -fdata-sections section holds"""
    for p in ('.data.rel.ro.local.', '.data.rel.ro.', '.data.rel.local.', '.data.rel.', '.data.', '.bss.', '.tdata.',
              '.tbss.', '.rodata.'):
        if sec.startswith(p):
            return sec[len(p):]
    return None


def classify(mn, ops):
    ops = re.sub(r'\s+#.*', '', ops)
    if mn.startswith('lea'):
        return 'addr'
    parts = re.split(r',(?![^(]*\))', ops)
    if mn.startswith(('cmp', 'test', 'ucomis', 'comis', 'bt ')):
        return 'read'
    if len(parts) >= 2 and '(%rip)' in parts[-1]:
        return 'write'
    if len(parts) == 1 and '(%rip)' in parts[0]:
        if mn.startswith(('inc', 'dec', 'neg', 'not', 'set', 'pop', 'fst', 'fist', 'shl', 'shr', 'sar', 'sal', 'rol',
                          'ror', 'xchg', 'lock')):
            return 'write'
        return 'read'
    return 'read'


def accesses(obj):
    """{object: {kind: set(function)}} from relocations in text sections; data->data references"""
    rc, out, err = vlib.sh(['objdump', '-dr', '--no-show-raw-insn', obj], check=True)
    acc = {}
    fn, prev = None, None
    for line in out.split('\n'):
        m = re.match(r'^[0-9a-f]+ <([^>]+)>:', line)
        if m:
            fn = m.group(1)
            continue
        m = re.match(r'^\s+[0-9a-f]+:\s+(R_X86_64_\w+)\s+(\S+?)([-+]0x[0-9a-f]+)?$', line)
        if m:
            sym = m.group(2)
            o = sec_object(sym) if sym.startswith('.') else sym
            if o is None or prev is None:
                continue
            ins = prev.split('\t')
            if len(ins) < 2:
                continue
            body = ins[-1].strip()
            mn = body.split()[0] if body else '?'
            kind = classify(mn, body[len(mn):].strip())
            if m.group(1) in ('R_X86_64_GOTPCREL', 'R_X86_64_GOTPCRELX', 'R_X86_64_REX_GOTPCRELX'):
                kind = 'addr'
            acc.setdefault(o, {}).setdefault(kind, set()).add(fn)
            continue
        if re.match(r'^\s+[0-9a-f]+:\t', line):
            prev = line
    # data -> data references
    for sec, sym in S.relocs(obj):
        if sec.startswith('.text') or sec.startswith('.debug') or sec.startswith('.eh_frame'):
            continue
        src = sec_object(sec)
        o = sec_object(sym) if sym.startswith('.') else sym
        if src and o and not sym.startswith('.text') and not sym.startswith('.rodata.str') and src != o:
            acc.setdefault(o, {}).setdefault('data', set()).add(src)
    return acc


ASSIGN = r'(?:=(?!=)|\+=|-=|\*=|/=|%=|&=|\|=|\^=|<<=|>>=|\+\+|--)'


def function_spans(txt):
    """[(start, end, name)] of top-level function bodies in comment/string-stripped C text"""
    spans = []
    depth = 0
    start = None
    name = None
    for m in re.finditer(r'[{}]', txt):
        if m.group(0) == '{':
            if depth == 0:
                head = txt[max(0, m.start() - 400):m.start()]
                hm = re.search(r'([A-Za-z_]\w*)\s*\([^;{}]*\)\s*$', head)
                name = hm.group(1) if hm else None
                start = m.start()
            depth += 1
        else:
            depth = max(0, depth - 1)
            if depth == 0 and start is not None:
                if name is not None:
                    spans.append((start, m.end(), name))
                start = None
    return spans


_UNIT_FILES = {}


def unit_files(unit):
    """every file of the tree the unit is compiled from (the compiler's own dependency list), relative to the tree;
    falls back to the fixed lists above"""
    if unit not in _UNIT_FILES:
        main = {'mir': 'mir.c', 'mir-gen': 'mir-gen.c', 'c2mir': 'c2mir/c2mir.c'}[unit]
        rc, out, err = vlib.sh(['gcc', '-MM', '-DMIR_VERIF', '-DNDEBUG', '-I' + vlib.REPO, os.path.join(vlib.REPO, main)])
        files = []
        if rc == 0:
            root = os.path.realpath(vlib.REPO) + os.sep
            for tok in out.replace('\\\n', ' ').split():
                p = os.path.realpath(tok)
                if p.startswith(root) and os.path.isfile(p):
                    files.append(p[len(root):])
        _UNIT_FILES[unit] = sorted(set(files) | set(f for f in UNIT_SOURCES[unit] + COMMON_HEADERS
                                                   if os.path.exists(os.path.join(vlib.REPO, f))))
    return _UNIT_FILES[unit]


def src_writes(unit, name):
    """syntactic writes to a static called `name` in the sources of the unit: ['file:function', ...]"""
    base = re.sub(r'\.\d+$', '', name)
    res = []
    pat = re.compile(r'(?<![\w.>])' + re.escape(base) + r'\b\s*(?:\[[^\]]*\]\s*|\.\s*\w+\s*|->\s*\w+\s*)*' + ASSIGN)
    pat2 = re.compile(r'(?:\+\+|--)\s*' + re.escape(base) + r'\b')
    for f in unit_files(unit):
        p = os.path.join(vlib.REPO, f)
        if not os.path.exists(p):
            continue
        txt = S.strip_c(open(p, errors='replace').read())
        spans = None
        for m in list(pat.finditer(txt)) + list(pat2.finditer(txt)):
            # skip the declaration itself: "static T name[] = {...}" / "static T a = x, name = y;"
            k = max(txt.rfind(';', 0, m.start()), txt.rfind('{', 0, m.start()), txt.rfind('}', 0, m.start()))
            seg = txt[k + 1:m.start()]
            if re.search(r'\b(static|extern|typedef)\b', seg):
                continue
            if spans is None:
                spans = function_spans(txt)
            fn = next((n for a, b, n in spans if a <= m.start() < b), None)
            if fn is None:
                continue  # file scope: an initialiser
            if name != base:
                # function-local static: only writes inside functions count, and only if the object is referenced there
                pass
            res.append('%s:%s' % (f, fn))
    return sorted(set(res))


# POSIX.1-2017 2.9.1: functions that need not be thread-safe (process-wide hidden state inside libc)
UNSAFE_LIBC = {'asctime', 'basename', 'catgets', 'crypt', 'ctime', 'dbm_fetch', 'dirname', 'dlerror', 'drand48', 'encrypt',
               'endgrent', 'endpwent', 'endutxent', 'getdate', 'getenv', 'getgrent', 'getgrgid', 'getgrnam', 'gethostent',
               'getlogin', 'getnetent', 'getopt', 'getprotoent', 'getpwent', 'getpwnam', 'getpwuid', 'getservent',
               'getutxent', 'gmtime', 'hcreate', 'hdestroy', 'hsearch', 'inet_ntoa', 'l64a', 'lgamma', 'lgammaf', 'lgammal',
               'localeconv', 'localtime', 'lrand48', 'mrand48', 'nftw', 'nl_langinfo', 'ptsname', 'putenv', 'rand', 'srand',
               'random', 'srandom', 'readdir', 'setenv', 'setgrent', 'setkey', 'setlocale', 'setpwent', 'setutxent',
               'strerror', 'strsignal', 'strtok', 'system', 'ttyname', 'unsetenv', 'wcstombs', 'wctomb', 'tmpnam', 'tempnam',
               'signal', 'sigaction', 'atexit', 'umask', 'chdir'}


def unsafe_libc_refs(objs):
    res = []
    for u in S.UNITS:
        seen = set()
        for sec, sym in S.relocs(objs[u]):
            if sec.startswith('.debug') or sec.startswith('.eh_frame'):
                continue
            if sym in UNSAFE_LIBC and (sec, sym) not in seen:
                seen.add((sec, sym))
                res.append((u, S.place(sec), sym))
    return sorted(res)


def scan():
    objs = S.o0_objects()
    out = []
    stats = dict(total=0, rodata=0, relro=0)
    for u in S.UNITS:
        acc = accesses(objs[u])
        for name, sec, size, tls in sorted(set(objects(objs[u]))):
            stats['total'] += 1
            if not writable(sec):
                stats['rodata' if sec.startswith('.rodata') else 'relro'] += 1
                continue
            a = acc.get(name, {})
            out.append(dict(unit=u, name=name, section=re.sub(r'\.' + re.escape(name) + '$', '', sec), size=size, tls=tls,
                            writers=sorted(a.get('write', ())), addr_takers=sorted(a.get('addr', ())),
                            readers=sorted(a.get('read', ())), data_refs=sorted(a.get('data', ())),
                            src_writes=src_writes(u, name)))
    stats['unsafe_libc'] = unsafe_libc_refs(objs)
    return out, stats


def coq_str(s):
    return '"' + s.replace('"', '""') + '"'


def coq_list(xs):
    return '[' + '; '.join(coq_str(x) for x in xs) + ']'


def generate(path=None):
    objs, stats = scan()
    path = path or os.path.join(vlib.COQDIR, 'gen', 'C18Statics.v')
    os.makedirs(os.path.dirname(path), exist_ok=True)
    L = ['(* GENERATED by tools/tr_c18_statics.py from the current tree on every run -- do not edit. *)',
         'From Coq Require Import List String NArith.', 'From MirV Require Import C18.Static.', 'Import ListNotations.',
         'Local Open Scope string_scope.', '',
         '(* every object in a writable section of the library objects (%d data objects in all; %d in .rodata and %d in'
         ' .data.rel.ro are not listed) *)' % (stats['total'], stats['rodata'], stats['relro']),
         'Definition statics : list static_obj := [']
    items = []
    for o in objs:
        items.append('  {| so_unit := %s; so_name := %s; so_section := %s; so_size := %d%%N; so_tls := %s;\n'
                     '     so_writers := %s; so_src_writes := %s;\n     so_addr_takers := %s; so_readers := %s; so_data_refs := %s |}' % (
                         coq_str(o['unit']), coq_str(o['name']), coq_str(o['section']), o['size'],
                         'true' if o['tls'] else 'false', coq_list(o['writers']), coq_list(o['src_writes']),
                         coq_list(o['addr_takers']), coq_list(o['readers']), coq_list(o['data_refs'])))
    L.append(';\n'.join(items))
    L += ['].', '', '(* (unit, function, callee): references to libc functions that POSIX does not require to be thread-safe *)',
          'Definition unsafe_libc_refs : list (string * string * string) := [',
          ';\n'.join('  (%s, %s, %s)' % tuple(map(coq_str, x)) for x in stats['unsafe_libc']), '].', '']
    txt = '\n'.join(L)
    old = open(path).read() if os.path.exists(path) else None
    if old != txt:
        tmp = path + '.tmp%d' % os.getpid()
        open(tmp, 'w').write(txt)
        os.rename(tmp, path)
    return objs, stats


if __name__ == '__main__':
    objs, stats = generate()
    print(stats, len(objs), 'objects in writable sections')
    for o in objs:
        flag = ('W' if o['writers'] else '-') + ('S' if o['src_writes'] else '-') + ('A' if o['addr_takers'] else '-') + \
               ('D' if o['data_refs'] else '-')
        print('%-8s %-22s %-18s %6d %s %s' % (o['unit'], o['name'], o['section'], o['size'], flag,
                                               (o['writers'] or o['src_writes'] or '')))

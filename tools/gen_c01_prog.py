#!/usr/bin/env python3
# Seeded generator of WELL-DEFINED pre-link MIR programs for C01 / C04.
# One program = a module with prototypes, imports of the harness externals and several functions
# (callees first), entry "main".  Emits the MIR text (for MIR_scan_string) and the same program in
# the token format of ocaml/driver_c01.ml.  Well-definedness is by construction (register classes,
# masked indexes, safe divisors/shift counts, fuel-bounded back edges) and is *confirmed* by the
# reference interpreter (cases on which Sem.run is Stuck or out of fuel are discarded by the check).
import sys, os, struct
sys.path.insert(0, os.path.dirname(os.path.abspath(__file__)))

M64 = (1 << 64) - 1

# harness externals: id, name, result type(s), argument types   (mirrors harness/c01_engines.c)
EXTERNALS = [
    (0, 'ex0', ['i64'], []),
    (1, 'ex1', ['i64'], ['i64']),
    (2, 'ex2', ['i64'], ['i64', 'i64']),
    (3, 'ex3', ['i64'], ['i64', 'i64', 'i64']),
    (4, 'ex8', ['i64'], ['i64'] * 8),
    (5, 'exn', ['i32'], ['i8', 'u8', 'i16', 'u16', 'i32', 'u32']),
    (6, 'exd', ['d'], ['d', 'd']),
    (7, 'exf', ['f'], ['f', 'f']),
    (8, 'exm', ['d'], ['i64', 'd', 'i32', 'f']),
    (9, 'exv', [], ['i64', 'i64']),
    (10, 'exu8', ['u8'], ['i64']),
    (11, 'exi16', ['i16'], ['i64']),
    (12, 'exs', ['i64'], ['i64'] * 6 + ['i8', 'u16', 'i32', 'u32', 'u8', 'i16']),   # narrow stack arguments
]

INT_TYPES = ['i8', 'u8', 'i16', 'u16', 'i32', 'u32', 'i64', 'u64']
NARROW = ['i8', 'u8', 'i16', 'u16', 'i32', 'u32']
TSIZE = {'i8': 1, 'u8': 1, 'i16': 2, 'u16': 2, 'i32': 4, 'u32': 4, 'i64': 8, 'u64': 8, 'p': 8, 'f': 4, 'd': 8}

BOUNDARY = [0, 1, -1, 2, -2, 3, 7, 8, 15, 16, 31, 32, 33, 63, 64, 65, 127, 128, 255, 256, 0x7fff, 0x8000, 0xffff,
            0x10000, 0x7fffffff, 0x80000000, 0xffffffff, 0x100000000, -0x80000000, -0x80000001, 0x7fffffffffffffff,
            -0x8000000000000000, -0x7fffffffffffffff, 0x5555555555555555, -0x5555555555555556, 1000003]


def hexz(v):
    return ('-%x' % -v) if v < 0 else ('%x' % v)


def f32bits(x):
    return struct.unpack('<I', struct.pack('<f', x))[0]


def f64bits(x):
    return struct.unpack('<Q', struct.pack('<d', x))[0]


def bits_f32(b):
    return struct.unpack('<f', struct.pack('<I', b))[0]


def bits_f64(b):
    return struct.unpack('<d', struct.pack('<Q', b))[0]


# ---- operands ------------------------------------------------------------------------------------
class R:  # register
    def __init__(self, name): self.name = name
class Imm:
    def __init__(self, v): self.v = v
class FImm:
    def __init__(self, bits): self.bits = bits
class DImm:
    def __init__(self, bits): self.bits = bits
class Mem:
    def __init__(self, ty, disp=0, base=None, index=None, scale=1, alias=None):
        self.ty, self.disp, self.base, self.index, self.scale = ty, disp, base, index, scale
        self.alias = alias   # MIR alias name (an optimisation promise; no meaning in the reference semantics)
class Lab:
    def __init__(self, n): self.n = n
class Ref:
    def __init__(self, name): self.name = name


class Insn:
    def __init__(self, op, ops): self.op, self.ops = op, ops


class Func:
    def __init__(self, name, res, args):
        self.name, self.res, self.args = name, res, args   # args: list of (type, regname)
        self.locals = []  # (type 'i64'|'f'|'d', name)
        self.body = []

    def ninsns(self):
        return len(self.body)


class Program:
    def __init__(self):
        self.items = []   # ('proto', name, res, args) | ('import', name, id) | ('func', Func)
        self.index = {}
        self.regnum = {}
        self.entry = None
        self.args = []
        self.oracle = []
        self.regions = []  # (base, size, writable, bytes)
        self.features = set()
        self.forward_order = False   # print main first, callees after it (declared by `forward`)

    def add_item(self, it):
        name = it[1] if it[0] != 'func' else it[1].name
        self.index[name] = len(self.items)
        self.items.append(it)

    def regn(self, fname, r):
        k = (fname, r)
        if k not in self.regnum:
            self.regnum[k] = len(self.regnum) + 1
        return self.regnum[k]

    # ---- MIR text
    def ty_text(self, t):
        return t

    def op_text(self, o):
        if isinstance(o, R): return o.name
        if isinstance(o, Imm): return str(o.v)
        if isinstance(o, FImm): return fmt_f32(o.bits)
        if isinstance(o, DImm): return fmt_f64(o.bits)
        if isinstance(o, Lab): return 'L%d' % o.n
        if isinstance(o, Ref): return o.name
        if isinstance(o, Mem):
            if o.ty.startswith(('blk', 'rblk')):
                return '%s(%s)' % (o.ty, o.base)
            s = '%s:' % o.ty
            if o.base is None and o.index is None:
                return s + str(o.disp)
            if o.disp != 0: s += str(o.disp)
            al = (':' + o.alias) if getattr(o, 'alias', None) else ''
            if o.index is None:
                return s + '(%s)' % o.base + al
            b = o.base if o.base is not None else '0'
            # MIR text has no way to omit the base when an index is given; generator always gives a base
            return s + '(%s, %s, %d)' % (b, o.index, o.scale) + al
        raise ValueError(o)

    def text(self):
        out = ['m: module']
        items = self.items
        if self.forward_order:
            funcs = [it for it in items if it[0] == 'func']
            items = [it for it in items if it[0] != 'func']
            out_fw = 'forward ' + ', '.join(f[1].name for f in funcs if f[1].name != 'main')
            items = items + ([('forwarddecl', out_fw)] if len(funcs) > 1 else []) + funcs[::-1]
        for it in items:
            if it[0] == 'forwarddecl':
                out.append(it[1])
                continue
            if it[0] == 'proto':
                _, name, res, args = it
                ops = list(res) + ['%s:a%d' % (t, i) if not t.startswith(('blk', 'rblk')) else '%s(a%d)' % (t, i)
                                   for i, t in enumerate(args)]
                out.append('%s: proto %s' % (name, ', '.join(ops)))
            elif it[0] == 'import':
                out.append('import %s' % it[1])
            else:
                f = it[1]
                ops = list(f.res) + ['%s:%s' % (t, r) if not t.startswith(('blk', 'rblk')) else '%s(%s)' % (t, r)
                                     for t, r in f.args]
                out.append('%s: func %s' % (f.name, ', '.join(ops)))
                if f.locals:
                    out.append('local ' + ', '.join('%s:%s' % (t, n) for t, n in f.locals))
                for i in f.body:
                    if i.op == 'label':
                        out.append('L%d:' % i.ops[0].n)
                    else:
                        out.append('%s %s' % (i.op, ', '.join(self.op_text(o) for o in i.ops)))
                out.append('endfunc')
        out.append('endmodule')
        return '\n'.join(out) + '\n'

    # ---- model tokens
    def ty_tok(self, t):
        if t.startswith('blk') or t.startswith('rblk'):
            hd, sz = t.split(':')
            return '%s:%x' % (hd, int(sz))
        return t

    def op_tok(self, fname, o):
        if isinstance(o, R): return ['r%x' % self.regn(fname, o.name)]
        if isinstance(o, Imm): return ['i' + hexz(o.v)]
        if isinstance(o, FImm): return ['f%x' % o.bits]
        if isinstance(o, DImm): return ['d%x' % o.bits]
        if isinstance(o, Lab): return ['L%x' % o.n]
        if isinstance(o, Ref): return ['@%x' % self.index[o.name]]
        if isinstance(o, Mem):
            return ['m', self.ty_tok(o.ty), hexz(o.disp),
                    '%x' % self.regn(fname, o.base) if o.base is not None else '0',
                    '%x' % self.regn(fname, o.index) if o.index is not None else '0', '%x' % o.scale]
        raise ValueError(o)

    def model_line(self, opnum, fuel):
        t = ['F', '%x' % fuel, 'E', '%x' % self.index[self.entry], 'A', '%x' % len(self.args)]
        t += ['%x' % (a & M64) for a in self.args]
        t += ['O', '%x' % len(self.oracle)] + ['%x' % (o & M64) for o in self.oracle]
        t += ['R', '%x' % len(self.regions)]
        for base, size, w, by in self.regions:
            t += ['%x' % base, '%x' % size, '1' if w else '0', by.hex() if by else '-']
        t += ['P', '%x' % len(self.items)]
        for it in self.items:
            if it[0] == 'proto':
                _, name, res, args = it
                t += ['proto', '%x' % len(res)] + [self.ty_tok(x) for x in res] + ['%x' % len(args)] + [self.ty_tok(x) for x in args]
            elif it[0] == 'import':
                t += ['import', '%x' % it[2]]
            else:
                f = it[1]
                t += ['func', '%x' % len(f.res)] + [self.ty_tok(x) for x in f.res] + ['%x' % len(f.args)]
                for ty, r in f.args:
                    t += ['%x' % self.regn(f.name, r), self.ty_tok(ty)]
                t += ['%x' % len(f.body)]
                for i in f.body:
                    ops = []
                    for o in i.ops:
                        ops += self.op_tok(f.name, o)
                    t += ['%x' % opnum[i.op.upper()], '%x' % len(i.ops)] + ops
        return ' '.join(t)

    def harness_line(self, engines):
        t = [engines, 'A', '%x' % len(self.args)] + ['%x' % (a & M64) for a in self.args]
        t += ['O', '%x' % len(self.oracle)] + ['%x' % (o & M64) for o in self.oracle]
        t += ['R', '%x' % len(self.regions)]
        for base, size, w, by in self.regions:
            t += ['%x' % base, '%x' % size, '1' if w else '0', by.hex() if by else '-']
        return ' '.join(t) + ' T ' + self.text().replace('\n', '\\n')


def fmt_f64(bits):
    x = bits_f64(bits)
    s = repr(x)
    if 'e' not in s and '.' not in s and 'n' not in s:
        s += '.0'
    return s


def fmt_f32(bits):
    x = bits_f32(bits)
    s = '%.9g' % x
    if 'e' not in s and '.' not in s and 'n' not in s:
        s += '.0'
    return s + 'f'


# ---- function generator ----------------------------------------------------------------------------
class PtrInfo:
    def __init__(self, reg, size, writable, init=True, alias=None):
        self.reg, self.size, self.writable, self.init = reg, size, writable, init
        self.alias = alias   # alias name usable for accesses through this pointer (disjoint from all others)


class FG:
    """generates one function body"""

    def __init__(self, prog, rng, name, res, args, ptr_args, callees, opts, level):
        self.p, self.rng, self.opts, self.level = prog, rng, opts, level
        self.f = Func(name, res, args)
        self.callees = callees      # list of dicts(name, proto, res, args(types), ptrs(list of (argpos,size,writable)))
        self.nlab = opts['labbase']
        self.ntmp = 0
        self.X, self.W, self.FR, self.DR = [], [], [], []
        self.O = []                 # opaque registers (see opaque())
        self.FN = {'f': [], 'd': []}  # registers holding NaN / infinity
        self.P = []                 # PtrInfo usable in the whole function
        self.ptr_args = ptr_args    # [(regname, size, writable)]
        self.exit_label = None
        self.selfinfo = None
        # callee parameters that the body itself writes (see param_modes): registers that only call
        # results may write, per class; registers only loads may write; all readable value parameters
        self.CR = {'i': [], 'f': [], 'd': []}
        self.LD = []
        self.LDP = [rn for t, rn in args if t == 'ld']   # long double parameters (never written)
        self.pending_ld = []
        self.RP = []
        self.force_cr = False
        self.ent = None             # name of the re-entry counter parameter: the body starts with a label
        self.entry_label = None

    # -- helpers
    def emit(self, op, *ops):
        self.f.body.append(Insn(op, list(ops)))

    def label(self):
        self.nlab += 1
        return Lab(self.nlab)

    def place(self, l):
        self.f.body.append(Insn('label', [l]))

    def new_local(self, cls, ty='i64'):
        ty = {'f': 'f', 'd': 'd'}.get(ty, ty)
        self.ntmp += 1
        n = '%s%d' % (cls, self.ntmp)
        self.f.locals.append((ty, n))
        return n

    def imm_val(self, small=False):
        r = self.rng
        k = r.random()
        if small or k < 0.35:
            return r.choice([0, 1, 1, 2, 3, 4, 5, 7, 8, 10, 16, 100, -1, -2, -3])
        if k < 0.65:
            return r.choice(BOUNDARY)
        if k < 0.8:
            e = r.randrange(0, 64)
            return r.choice([1 << e, (1 << e) - 1, (1 << e) + 1, -(1 << e)])
        if k < 0.9:
            return r.randrange(-1 << 31, 1 << 31)
        return r.randrange(-1 << 63, 1 << 63)

    def X_(self): return R(self.rng.choice(self.X))
    def W_(self): return R(self.rng.choice(self.W))

    def mem_operand(self, ty, write=False):
        """a memory operand inside one of the known buffers; emits the index computation first"""
        r = self.rng
        cands = [p for p in self.P if (p.writable or not write) and p.size >= TSIZE[ty]]
        if not cands:
            return None
        p = r.choice(cands)
        sz = TSIZE[ty]
        form = r.random()
        if form < 0.3:     # base + disp
            disp = r.randrange(0, p.size - sz + 1)
            if r.random() < 0.5: disp -= disp % sz
            return self.with_alias(Mem(ty, disp, p.reg), p)
        scale = r.choice([1, 2, 4, 8])
        # index in [0, mask], mask = 2^k - 1, disp + mask*scale + sz <= size
        maxidx = (p.size - sz) // scale
        if maxidx < 1:
            return self.with_alias(Mem(ty, r.randrange(0, p.size - sz + 1), p.reg), p)
        k = (maxidx + 1).bit_length() - 1
        mask = (1 << k) - 1
        if mask < 1:
            return self.with_alias(Mem(ty, r.randrange(0, p.size - sz + 1), p.reg), p)
        room = p.size - sz - mask * scale
        disp = r.randrange(0, room + 1) if form < 0.8 else 0
        ix = self.new_local('ix')
        self.emit('and', R(ix), self.X_(), Imm(mask))
        self.p.features.add('mem:index')
        if disp: self.p.features.add('mem:disp')
        if scale > 1: self.p.features.add('mem:scale')
        return self.with_alias(Mem(ty, disp, p.reg, ix, scale), p)

    def with_alias(self, m, p):
        # alias names promise the optimiser that accesses with different names never overlap: one name
        # per harness region / alloca block, used on about half of the accesses (no name = may alias all)
        if p.alias and self.rng.random() < self.opts.get('p_alias', 0.5):
            m.alias = p.alias
            self.p.features.add('mem:alias')
        return m

    def src64(self, allow_mem=True):
        k = self.rng.random()
        if self.RP and k < 0.06: return R(self.rng.choice(self.RP))   # a parameter read in place
        if k < 0.55 or not self.X: return self.X_()
        if k < 0.8: return Imm(self.imm_val())
        if allow_mem:
            m = self.mem_operand(self.rng.choice(INT_TYPES))
            if m is not None: return m
        return self.X_()

    def src32(self, allow_mem=True):
        k = self.rng.random()
        if k < 0.4 and self.W: return self.W_()
        if k < 0.6: return self.X_()
        if k < 0.85: return Imm(self.imm_val())
        if allow_mem:
            m = self.mem_operand(self.rng.choice(INT_TYPES))
            if m is not None: return m
        return self.X_()

    def dst64(self):
        if self.rng.random() < 0.12:
            m = self.mem_operand(self.rng.choice(INT_TYPES), write=True)
            if m is not None: return m
        return self.X_()

    def dst32(self):
        if self.rng.random() < 0.12:
            m = self.mem_operand(self.rng.choice(NARROW), write=True)
            if m is not None: return m
        return self.W_()

    # -- floating point
    FCONST = [0.0, -0.0, 1.0, -1.0, 0.5, 2.0, 3.0, 10.0, 0.1, 1.5, -2.5, 100.0, 1e10, 1e-10, 16777216.0, 16777217.0,
              4294967296.0, 9007199254740993.0, 1e300, 1e-300, 3.4e38, 1e-40, 123456.789]

    def fimm(self, prec):
        x = self.rng.choice(self.FCONST)
        if prec == 'f':
            try:
                return FImm(f32bits(x))
            except OverflowError:
                return FImm(f32bits(1.0))
        return DImm(f64bits(x))

    def FR_(self, prec): return R(self.rng.choice(self.FR if prec == 'f' else self.DR))

    def fsrc(self, prec, allow_mem=True):
        k = self.rng.random()
        if k < 0.6: return self.FR_(prec)
        if k < 0.8: return self.fimm(prec)
        if allow_mem:
            m = self.mem_operand(prec)
            if m is not None:
                self.p.features.add('load:' + prec)
                return m
        return self.FR_(prec)

    def fdst(self, prec):
        if self.rng.random() < 0.1:
            m = self.mem_operand(prec, write=True)
            if m is not None:
                self.p.features.add('store:' + prec)
                return m
        return self.FR_(prec)

    def g_farith(self):
        r = self.rng
        prec = r.choice(['f', 'd'])
        op = r.choice(['add', 'sub', 'mul', 'div', 'add', 'mul', 'neg'])
        if op == 'neg':
            self.emit(prec + 'neg', self.fdst(prec), self.fsrc(prec))
        else:
            a, b = self.fsrc(prec), self.fsrc(prec)
            self.emit(prec + op, self.fdst(prec), a, b)
        self.p.features.add('fp:' + prec + op)

    def special_fp(self, prec, a, b):
        if self.FN[prec] and self.rng.random() < 0.5:
            v = R(self.FN[prec][0] if self.rng.random() < 0.7 else self.FN[prec][1])
            return (v, b) if self.rng.random() < 0.5 else (a, v)
        return a, b

    def g_fcmp(self):
        r = self.rng
        prec = r.choice(['f', 'd'])
        op = prec + r.choice(['eq', 'ne', 'lt', 'le', 'gt', 'ge'])
        a, b = self.fsrc(prec), self.fsrc(prec)
        a, b = self.special_fp(prec, a, b)
        if r.random() < 0.5:
            self.emit(op, self.dst64(), a, b)
        else:
            # comparison result consumed by bt/bf right away (combined into one FP branch at -O2)
            t = self.new_local('fc')
            lt, lj = self.label(), self.label()
            self.emit(op, R(t), a, b)
            self.emit(r.choice(['bt', 'bf', 'bts', 'bfs']), lt, R(t))
            flag = self.X_()
            self.emit('mov', flag, Imm(r.randrange(0, 100)))
            self.emit('jmp', lj)
            self.place(lt)
            self.emit('mov', flag, Imm(r.randrange(100, 200)))
            self.place(lj)
            self.p.features.add('fp:cmp+bt/bf')
        self.p.features.add('fp:cmp')

    def g_fconv(self):
        r = self.rng
        k = r.choice(['i2f', 'i2d', 'ui2f', 'ui2d', 'f2d', 'd2f', 'f2i', 'd2i'])
        if k in ('i2f', 'ui2f'): self.emit(k, self.fdst('f'), self.src64())
        elif k in ('i2d', 'ui2d'): self.emit(k, self.fdst('d'), self.src64())
        elif k == 'f2d': self.emit(k, self.fdst('d'), self.fsrc('f'))
        elif k == 'd2f': self.emit(k, self.fdst('f'), self.fsrc('d'))
        else:
            # FP -> int only of a value known to be small: i2x (x & mask) [+ c] [* c]
            prec = k[0]
            t = self.new_local('cv')
            self.emit('and', R(t), self.X_(), Imm(r.choice([0xff, 0xffff, 0xfffff])))
            if r.random() < 0.3: self.emit('sub', R(t), R(t), Imm(r.choice([1, 100, 70000])))
            ft = self.new_local('cf', prec)
            self.emit('i2' + prec, R(ft), R(t))
            if r.random() < 0.5:
                c = r.choice([0.5, 1.5, -2.25, 3.0, 1000.0, 0.001])
                self.emit(prec + r.choice(['mul', 'add', 'sub', 'div']), R(ft), R(ft),
                          FImm(f32bits(c)) if prec == 'f' else DImm(f64bits(c)))
            self.emit(k, self.dst64(), R(ft))
        self.p.features.add('fp:' + k)

    def g_fmov(self):
        r = self.rng
        prec = r.choice(['f', 'd'])
        k = r.random()
        if k < 0.35:
            m = self.mem_operand(prec)
            if m is not None:
                self.emit(prec + 'mov', self.FR_(prec), m); self.p.features.add('load:' + prec); return
        if k < 0.6:
            m = self.mem_operand(prec, write=True)
            if m is not None:
                self.emit(prec + 'mov', m, self.FR_(prec) if r.random() < 0.8 else self.fimm(prec))
                self.p.features.add('store:' + prec); return
        self.emit(prec + 'mov', self.FR_(prec), self.fsrc(prec, allow_mem=False))

    # -- instruction kinds
    def g_alu64(self):
        op = self.rng.choice(['add', 'sub', 'mul', 'and', 'or', 'xor', 'add', 'sub'])
        a, b = self.src64(), self.src64()
        self.emit(op, self.dst64(), a, b)

    def g_alu32(self):
        op = self.rng.choice(['adds', 'subs', 'muls', 'ands', 'ors', 'xors'])
        a, b = self.src32(), self.src32()
        self.emit(op, self.dst32(), a, b)

    def g_neg(self):
        if self.rng.random() < 0.5: self.emit('neg', self.dst64(), self.src64())
        else: self.emit('negs', self.dst32(), self.src32())

    def g_ext(self):
        op = self.rng.choice(['ext8', 'uext8', 'ext16', 'uext16', 'ext32', 'uext32'])
        self.emit(op, self.dst64(), self.src32())

    def g_ext_chain(self):
        # an extension consumed by another one through a register used nowhere else (the generator's
        # post-RA combine merges such pairs; only some width/sign pairs may be merged)
        r = self.rng
        exts = ['ext8', 'uext8', 'ext16', 'uext16', 'ext32', 'uext32']
        t = self.new_local('ec')
        src = self.X_() if r.random() < 0.7 else self.src32()
        self.emit(r.choice(exts), R(t), src)
        self.emit(r.choice(exts), self.dst64(), R(t))
        self.p.features.add('ext:chain')

    def g_reload(self):
        # the same location read twice with the same width and the other signedness (or the same one):
        # redundant-load elimination must not reuse the first load's extension
        r = self.rng
        w = r.choice(['8', '16', '32'])
        m = self.mem_operand('i' + w)
        if m is None or len(self.X) < 2: return self.g_alu64()
        t1, t2 = r.choice([('i', 'u'), ('u', 'i'), ('i', 'u'), ('u', 'i'), ('i', 'i'), ('u', 'u')])
        m1 = Mem(t1 + w, m.disp, m.base, m.index, m.scale, m.alias)
        m2 = Mem(t2 + w, m.disp, m.base, m.index, m.scale, m.alias if r.random() < 0.8 else None)
        x1, x2 = r.sample(self.X, 2)
        self.emit('mov', R(x1), m1)
        if r.random() < 0.3: self.g_alu64()
        self.emit('mov', R(x2), m2)
        if r.random() < 0.5: self.emit(r.choice(['sub', 'xor', 'add']), self.dst64(), R(x1), R(x2))
        self.p.features.add('load:reload-' + t1 + t2)

    def g_overlap(self):
        """store / access of another width overlapping it (contained, containing, straddling an end) / store
        again or load back, all at constant displacements of one block: what dead-store elimination and
        load forwarding decide from (disp, size) pairs"""
        r = self.rng
        t1, t2 = r.sample(['i8', 'u16', 'i32', 'i64', 'u8', 'i16', 'u32', 'u64'], 2)
        s1, s2 = TSIZE[t1], TSIZE[t2]
        cands = [p for p in self.P if p.writable and p.size >= max(s1, s2)]
        if not cands or len(self.X) < 2: return self.g_alu64()
        tops = [p for p in cands if p.reg.startswith(('ta', 'q'))]
        p = r.choice(tops) if tops and r.random() < 0.7 else r.choice(cands)
        for _ in range(20):
            d1 = r.randrange(0, p.size - s1 + 1)
            d2 = d1 + r.randrange(-s2 + 1, s1)
            if 0 <= d2 <= p.size - s2: break
        else:
            return self.g_alu64()
        m1, m2 = Mem(t1, d1, p.reg), Mem(t2, d2, p.reg)
        self.emit('mov', m1, self.X_())
        k = r.random()
        if k < 0.5:
            self.emit('mov', self.X_(), m2)          # read of a part: keeps the first store alive
            self.emit('mov', Mem(t1, d1, p.reg), self.X_())
        elif k < 0.8:
            self.emit('mov', m2, self.X_())          # partial overwrite, then the first location read back
            self.emit('mov', self.X_(), Mem(t1, d1, p.reg))
        else:
            self.emit('mov', m2, self.X_())
            self.emit('mov', Mem(t1, d1, p.reg), self.X_())
            self.emit('mov', self.X_(), Mem(t2, d2, p.reg))
        self.p.features.add('mem:overlap-mixed-width')

    def g_mem2(self):
        """ONE non-move insn (arithmetic, comparison, compare-and-branch) that reads one address through TWO memory
        operands - the same element type or another one of the same size / another size (i8/u8, i16/u16, i32/u32,
        i32/i64 ...) - after a store whose readings differ (bit 7 / 15 / 31 set): link-time simplification loads
        every memory operand into a temporary of its own unless type AND address agree; optionally the result goes
        to the same address too (in/out), or the second operand sits at a neighbouring displacement"""
        r = self.rng
        pairs = [('i8', 'u8'), ('i16', 'u16'), ('i32', 'u32'), ('i32', 'i64'), ('u32', 'u64'), ('i8', 'i16'), ('u8', 'i32'),
                 ('i16', 'u32'), ('u16', 'i64'), ('i8', 'i8'), ('u16', 'u16'), ('i32', 'i32')]
        ta, tb = r.choice(pairs) if r.random() < 0.85 else (r.choice(INT_TYPES), r.choice(INT_TYPES))
        if r.random() < 0.5: ta, tb = tb, ta
        big = ta if TSIZE[ta] >= TSIZE[tb] else tb
        m = self.mem_operand(big, write=True)
        writable = m is not None
        if m is None: m = self.mem_operand(big)
        if m is None or not self.X: return self.g_alu64()
        def at(ty, dd=0): return Mem(ty, m.disp + dd, m.base, m.index, m.scale, m.alias if r.random() < 0.8 else None)
        if writable and r.random() < 0.75:
            k = r.random()
            v = Imm(r.choice([0x80, 0xff, 0x8000, 0xffff, 0x80000000, 0xffffffff, -1, 0x12348765, 0xf0, 0x7f80, -0x80,
                              0x80008080, 0xfffffffe, 0x180, 0x18000])) if k < 0.5 else \
                Imm(r.getrandbits(64) - (1 << 63)) if k < 0.65 else self.X_()
            self.emit('mov', at('i64' if TSIZE[big] == 8 else r.choice(['i', 'u']) + str(8 * TSIZE[big])), v)
        ma, mb = at(ta), at(tb)
        if r.random() < 0.12 and m.index is None and TSIZE[tb] <= TSIZE[ta] // 2:
            mb = at(tb, TSIZE[tb])                       # neighbour: another address, a temporary of its own
            self.p.features.add('mem2:neighbour-disp')
        same = 'same' if ta == tb else 'sign' if TSIZE[ta] == TSIZE[tb] else 'size'
        k = r.random()
        if k < 0.3:
            # compare-and-branch; both ways set a flag register
            if r.random() < 0.6: op = r.choice(['beq', 'bne', 'blt', 'ble', 'bgt', 'bge', 'ublt', 'uble', 'ubgt', 'ubge'])
            else: op = r.choice(['beqs', 'bnes', 'blts', 'bles', 'bgts', 'bges', 'ublts', 'ubles', 'ubgts', 'ubges'])
            lt, lj = self.label(), self.label()
            self.emit(op, lt, ma, mb)
            res = self.X_()
            self.emit('mov', res, Imm(r.randrange(0, 100)))
            self.emit('jmp', lj)
            self.place(lt)
            self.emit('mov', res, Imm(r.randrange(100, 200)))
            self.place(lj)
            kind = 'branch'
        else:
            wide = r.random() < 0.6
            if k < 0.75:
                op = r.choice(['add', 'sub', 'sub', 'mul', 'and', 'or', 'xor'])
                kind = 'arith'
            else:
                op = r.choice(['eq', 'ne', 'lt', 'le', 'gt', 'ge', 'ult', 'ule', 'ugt', 'uge'])
                kind = 'cmp'
            if not wide: op += 's'
            res = self.X_() if wide else self.W_() if self.W else self.X_()
            dst = res
            if writable and r.random() < 0.15 and (wide or TSIZE[ta] <= 4):
                dst = at(ta if wide or TSIZE[tb] > 4 else r.choice([ta, tb]))             # in/out: the result goes to the address read
                self.p.features.add('mem2:inout')
            self.emit(op, dst, ma, mb)
            if dst is not res:
                res = self.X_()
                self.emit('mov', res, Mem(dst.ty, dst.disp, dst.base, dst.index, dst.scale))
            elif not wide:
                x = self.X_()
                self.emit(r.choice(['ext32', 'uext32']), x, res)   # upper half of a 32-bit result is not defined
                res = x
        if r.random() < self.opts.get('p_mem2_observe', 0.5):
            self.emit('call', Ref('p_exv'), Ref('exv'), res, res)
        self.p.features.add('mem2:%s:%s' % (kind, same))

    def g_mask_ext(self):
        """small peephole chains: and/or/xor/shift with a constant feeding a sign / zero extension.  Masks sit on
        the boundaries of the extension width w - 2^(w-1)-1, 2^(w-1), 2^w-1, 2^w and neighbours - where 'the
        extension is a no-op after this mask' changes its answer; the input has bit w-1 set half of the time at least"""
        r = self.rng
        if not self.X: return
        w = r.choice([8, 16, 32])
        ext = ('ext' if r.random() < 0.65 else 'uext') + str(w)
        a = self.X_()
        if self.O and r.random() < 0.4: a = R(r.choice(self.O))
        if r.random() < 0.35:
            a2 = R(self.new_local('me'))
            self.emit('or', a2, a, Imm(r.choice([1 << (w - 1), (1 << w) - 1, 3 << (w - 1), -(1 << (w - 1))])))
            a = a2
        t = R(self.new_local('me'))
        k = r.random()
        if k < 0.7:
            op = r.choice(['and', 'and', 'and', 'ands', 'or', 'xor']) if w < 32 else r.choice(['and', 'and', 'and', 'or', 'xor'])
            c = r.choice([(1 << (w - 1)) - 1, 1 << (w - 1), (1 << w) - 1, 1 << w, (1 << (w - 1)) + 1, (1 << w) - 2,
                          (1 << (w + 1)) - 1, (1 << (w - 1)) - 2, 3 << (w - 2), -1, -(1 << (w - 1)), -(1 << w),
                          r.getrandbits(w + 1), r.getrandbits(w - 1), (1 << w) | r.getrandbits(w)])
            if op == 'ands' and not -(1 << 31) <= c < (1 << 32): c &= 0xffffffff
            cop = Imm(c)
            if r.random() < 0.35:
                cop = R(self.new_local('me'))
                self.emit('mov', cop, Imm(c))
            if r.random() < 0.25: self.emit(op, t, cop, a)
            else: self.emit(op, t, a, cop)
            feat = '%s+%s:%s' % (op, ext, 'below' if 0 <= c < (1 << (w - 1)) else 'sign-bit' if 0 <= c < (1 << w) else 'wider')
        else:
            op = r.choice(['lsh', 'ursh', 'rsh', 'lshs', 'urshs', 'rshs'])
            lim = 32 if op in ('lshs', 'urshs', 'rshs') else 64
            cnt = r.choice([0, 1, w - 1, w, lim - w, lim - w - 1, lim - 1, r.randrange(0, lim)])
            cnt = max(0, min(lim - 1, cnt))
            self.emit(op, t, a, Imm(cnt))
            feat = '%s+%s' % (op, ext)
        res = self.X_()
        self.emit(ext, res, t)
        if r.random() < 0.3 and not op.endswith('s'):
            self.emit(r.choice(['add', 'xor', 'sub']), self.X_(), t, res)    # the masked value has another use
        if r.random() < self.opts.get('p_mask_ext_observe', 0.4):
            self.emit('call', Ref('p_exv'), Ref('exv'), res, res)
        self.p.features.add('peep:' + feat)

    def g_cmp(self):
        r = self.rng
        if r.random() < 0.5:
            op = r.choice(['eq', 'ne', 'lt', 'le', 'gt', 'ge', 'ult', 'ule', 'ugt', 'uge'])
            a, b = self.src64(), self.src64()
            self.emit(op, self.dst64(), a, b)
        else:
            op = r.choice(['eqs', 'nes', 'lts', 'les', 'gts', 'ges', 'ults', 'ules', 'ugts', 'uges'])
            a, b = self.src32(), self.src32()
            self.emit(op, self.dst32(), a, b)

    def g_shift(self):
        r = self.rng
        wide = r.random() < 0.5
        op = r.choice(['lsh', 'rsh', 'ursh']) + ('' if wide else 's')
        lim = 64 if wide else 32
        if r.random() < 0.5:
            cnt = Imm(r.choice([0, 1, lim - 1, r.randrange(0, lim)]))
        else:
            c = self.new_local('sc')
            self.emit('and', R(c), self.X_(), Imm(lim - 1))
            cnt = R(c)
        if wide: self.emit(op, self.dst64(), self.src64(), cnt)
        else: self.emit(op, self.dst32(), self.src32(), cnt)

    def g_div(self):
        r = self.rng
        wide = r.random() < 0.5
        op = r.choice(['div', 'mod', 'udiv', 'umod']) + ('' if wide else 's')
        signed = not op.startswith('u')
        k = r.random()
        if k < 0.45:
            # constant divisor (power of two, boundary, negative); exclude 0, and -1 for signed
            while True:
                v = r.choice([1, 2, 4, 8, 16, 1 << 31, 1 << 32, 1 << 62, 1 << 63, 3, 5, 7, 10, -2, -4, -8, -3,
                              1 << r.randrange(0, 64), self.imm_val()])
                lo = v & (M64 if wide else 0xffffffff)
                if lo == 0: continue
                if signed and lo == (M64 if wide else 0xffffffff): continue
                break
            dv = Imm(v)
        else:
            d = self.new_local('dv')
            self.emit('and', R(d), self.X_(), Imm(r.choice([0xff, 0xffff, 0x7fffffff])))
            self.emit('or', R(d), R(d), Imm(1))
            if r.random() < 0.3 and signed:
                self.emit('sub', R(d), Imm(0), R(d))   # negative divisor <= -1; -1 needs a safe dividend
                dd = self.new_local('dn')
                self.emit('and', R(dd), self.X_(), Imm(0x7fffffff))
                if wide: self.emit(op, self.dst64(), R(dd), R(d))
                else: self.emit(op, self.dst32(), R(dd), R(d))
                return
            dv = R(d)
        if wide: self.emit(op, self.dst64(), self.src64(), dv)
        else: self.emit(op, self.dst32(), self.src32(), dv)

    IMM_OPS = ['add', 'sub', 'mul', 'div', 'udiv', 'mod', 'umod', 'and', 'or', 'xor', 'lsh', 'rsh', 'ursh',
               'eq', 'ne', 'lt', 'le', 'gt', 'ge', 'ult', 'ule', 'ugt', 'uge']

    def special_imm(self, bits):
        """an immediate on one of the boundaries algebraic rewrites case-split on: 0, +-1, +-2, powers of two and
        their neighbours, minimum / maximum of the width (and of the other width)"""
        r = self.rng
        k = r.random()
        if k < 0.2: return r.choice([0, 1, -1, 2, -2])
        if k < 0.55: return 1 << r.randrange(1, bits)                       # incl. the sign bit of the width
        if k < 0.7:
            e = r.randrange(1, bits)
            return r.choice([(1 << e) - 1, (1 << e) + 1, -(1 << e), -(1 << e) + 1, -(1 << e) - 1])
        if k < 0.85:
            return r.choice([(1 << (bits - 1)) - 1, -(1 << (bits - 1)), (1 << bits) - 1, 0x100000000, 0x100000001,
                             0x7fffffff, -0x80000000, 0xffffffff, 0x7fffffffffffffff, -0x8000000000000000])
        return r.choice([3, 5, 6, 7, 9, 10, 12, 100, 1000, -3, -5, -7, -8, -10])

    def g_imm_arith(self):
        """every binary integer opcode (64- and 32-bit form) with an IMMEDIATE special value as second or first
        source, executed on an input aimed at the other side of the case split: negative values that are not
        multiples of a power of two, boundary constants, unknown registers.  A burst of such insns works on one
        input; results are often shown to the outside world right away (link-time and generator-time algebraic
        rewrites act on exactly these insns)."""
        r = self.rng
        t = self.new_local('ia')
        T = R(t)
        k = r.random()
        if k < 0.45:
            # negative (in 64 and, for k < 32, in 32 bits), low bits unknown: mostly NOT a multiple of a power of two
            self.emit('or', T, self.X_(), Imm(-(1 << r.choice([r.randrange(0, 32), r.randrange(0, 64)]))))
        elif k < 0.55:
            self.emit('or', T, self.X_(), Imm(r.choice([1, 3, 5, 7])))          # odd, any sign
        elif k < 0.7:
            self.emit('mov', T, Imm(r.choice(BOUNDARY + [-3, -5, -7, -9, -15, -17, -1000001])))
        elif k < 0.8 and self.O:
            self.emit('mov', T, R(r.choice(self.O)))
        else:
            self.emit('mov', T, self.X_())
        for _ in range(r.choice([1, 2, 3, 4, 6])):
            self.imm_insn(T)

    def imm_insn(self, T):
        r = self.rng
        wide = r.random() < 0.55
        bits = 64 if wide else 32
        base = r.choice(self.IMM_OPS + ['mul', 'div', 'udiv', 'mod', 'umod', 'div', 'mod'])
        op = base + ('' if wide else 's')
        divlike = base in ('div', 'udiv', 'mod', 'umod')
        shift = base in ('lsh', 'rsh', 'ursh')
        rev = r.random() < 0.2                     # immediate as FIRST source
        S = T
        if rev and divlike:
            # run-time divisor: never 0 and never -1
            S = R(self.new_local('id'))
            self.emit('and', S, T, Imm(r.choice([0xff, 0xffff, 0x7ffffffe])))
            self.emit('or', S, S, Imm(2))
            if base in ('div', 'mod') and r.random() < 0.4: self.emit('sub', S, Imm(0), S)
        elif rev and shift:
            S = R(self.new_local('id'))
            self.emit('and', S, T, Imm(bits - 1))
        while True:
            if shift and not rev:
                v = r.choice([0, 1, 2, bits // 2, bits - 2, bits - 1, r.randrange(0, bits)])
            else:
                v = self.special_imm(bits)
            lo = v & ((1 << bits) - 1)
            if divlike and not rev:
                if lo == 0: continue
                if base in ('div', 'mod') and lo == (1 << bits) - 1: continue
            if divlike and rev and base in ('div', 'mod') and lo == 1 << (bits - 1):
                continue                          # MIN / -1 must not happen (divisor is never -1 anyway; keep clear)
            break
        a, b = (Imm(v), S) if rev else (S, Imm(v))
        dst = self.X_() if wide else self.W_()
        self.emit(op, dst, a, b)
        if r.random() < self.opts.get('p_imm_log', 0.4):
            if wide:
                self.emit('call', Ref('p_exv'), Ref('exv'), dst, S)
            else:
                e = self.new_local('ie')
                self.emit(r.choice(['ext32', 'uext32']), R(e), dst)
                self.emit('call', Ref('p_exv'), Ref('exv'), R(e), S)
        self.p.features.add('imm-arith:' + op + ('-rev' if rev else ''))
        if not rev and not shift and lo != 0 and lo & (lo - 1) == 0 and lo != 1:
            self.p.features.add('imm-arith:pow2:' + op)

    def g_pressure(self):
        """register pressure with multi-slot values: 13..22 integer (or 15..22 double) values live at the same
        time - more than there are hard registers, so several of them are spilled to stack slots - consumed one
        by one in a random order (staggered live ranges: slots become free one after the other), while long
        double values (two stack slots each, always in memory) are created, combined and consumed at random
        points in between.  Every value ends up in an accumulator that is logged / kept."""
        r = self.rng
        dbl = bool(self.DR) and self.opts.get('fp', True) and r.random() < 0.3
        n = r.randrange(15, 23) if dbl else r.randrange(13, 23)
        acc = R(self.new_local('pa'))
        self.emit('mov', acc, self.X_())
        pv = []
        for i in range(n):
            v = R(self.new_local('pv', 'd' if dbl else 'i64'))
            if dbl:
                t = R(self.new_local('pt'))
                self.emit('and', t, self.X_(), Imm(r.choice([0xff, 0xffff, 0xffffff])))
                self.emit('add', t, t, Imm(i))
                self.emit('i2d', v, t)
            else:
                self.emit(r.choice(['add', 'xor', 'sub']), v, self.X_() if not self.O or r.random() < 0.7
                          else R(r.choice(self.O)), Imm(r.randrange(1, 1000) * (i + 1)))
            pv.append(v)
        # the order in which the values die; some are read more than once (hotter: assigned first)
        order = list(pv)
        r.shuffle(order)
        nld = r.choice([1, 1, 2, 2, 3])
        ld_def_at = sorted(r.randrange(0, n) for _ in range(nld))
        lds = []            # (reg, position after which it is consumed)
        hot = r.sample(pv, r.randrange(0, 5))

        def consume(v):
            if dbl:
                t = R(self.new_local('pt'))
                self.emit('d2i', t, v)
                self.emit(r.choice(['add', 'xor']), acc, acc, t)
            else:
                self.emit(r.choice(['add', 'xor', 'sub']), acc, acc, v)

        def def_ld(pos):
            l = R(self.new_local('pl', 'ld'))
            k = r.random()
            live = order[pos:]
            if dbl and live and k < 0.5:
                self.emit('d2ld', l, r.choice(live))
            elif not dbl and live and k < 0.4:
                self.emit('i2ld', l, r.choice(live))              # any int64: exact in 64 bits of significand
            else:
                t = R(self.new_local('pt'))
                self.emit('and', t, self.X_(), Imm(0x3fffffff))
                self.emit('i2ld', l, t)
                small.add(l.name)
            lds.append([l, r.randrange(pos, n + 1)])

        def use_ld(l):
            t = R(self.new_local('pt'))
            if r.random() < 0.25:
                l2 = R(self.new_local('pl', 'ld'))
                self.emit('ldmov', l2, l); l = l2
            if r.random() < 0.2 and l.name in small:
                self.emit('ldneg', l, l)
            if dbl and r.random() < 0.4:
                d = R(self.new_local('pd', 'd'))
                self.emit('ld2d', d, l)
                self.emit('d2i', t, d)
            else:
                self.emit('ld2i', t, l)
            self.emit(r.choice(['add', 'xor']), acc, acc, t)

        small = set()
        for pos in range(n + 1):
            for k in ld_def_at:
                if k == pos: def_ld(pos)
            # long double arithmetic on two live small values: a third one (exact or rounded alike by Sem and x87)
            sm = [l for l, _ in lds if l.name in small]
            if len(sm) >= 2 and r.random() < 0.2:
                a, b = r.sample(sm, 2)
                c = R(self.new_local('pl', 'ld'))
                self.emit(r.choice(['ldadd', 'ldsub', 'ldmul']), c, a, b)
                lds.append([c, r.randrange(pos, n + 1)])
            for ent in list(lds):
                if ent[1] == pos:
                    use_ld(ent[0]); lds.remove(ent)
            if pos < n:
                v = order[pos]
                if v in hot and pos + 1 < n and r.random() < 0.7:
                    self.emit('xor' if not dbl else 'mov', R(self.new_local('pt')) if dbl else acc,
                              *( [R(self.rng.choice(self.X))] if dbl else [acc, v]))
                consume(v)
        for ent in lds:
            use_ld(ent[0])
        if r.random() < 0.5:
            self.emit('call', Ref('p_exv'), Ref('exv'), acc, acc)
        self.emit('mov', self.X_(), acc)
        self.p.features.add('pressure:%s+ld' % ('double' if dbl else 'int'))

    def g_load(self):
        ty = self.rng.choice(INT_TYPES)
        m = self.mem_operand(ty)
        if m is None: return self.g_alu64()
        self.emit('mov', self.X_(), m)
        self.p.features.add('load:' + ty)

    def g_store(self):
        r = self.rng
        ty = r.choice(INT_TYPES)
        m = self.mem_operand(ty, write=True)
        if m is None: return self.g_alu64()
        k = r.random()
        if k < 0.2:
            m2 = self.mem_operand(ty)
            if m2 is not None:
                self.emit('mov', m, m2)   # memory to memory move
                self.p.features.add('mov:mem-mem')
                return
        if ty in ('i64', 'u64'):
            src = self.X_() if k < 0.8 else Imm(self.imm_val())
        else:
            src = self.src32(allow_mem=False)
        self.emit('mov', m, src)
        self.p.features.add('store:' + ty)

    def g_mov(self):
        r = self.rng
        k = r.random()
        if k < 0.4: self.emit('mov', self.X_(), Imm(self.imm_val()))
        elif k < 0.7: self.emit('mov', self.X_(), self.X_())
        elif self.W: self.emit('mov', self.W_(), self.src32(allow_mem=False))
        else: self.emit('mov', self.X_(), self.X_())

    def g_ovf(self):
        """an overflow insn and the branch that reads its flags.  The result goes to a register or to MEMORY
        (plain / displacement / index*scale address: link-time simplification computes the address around
        the insn, and nothing between the insn and the branch may touch the flags); operands are ordinary
        values or sit on the overflow boundaries of the width; the flag the branch saw and the stored
        result are made observable"""
        r = self.rng
        wide = r.random() < 0.5
        base = r.choice(['addo', 'subo', 'mulo', 'umulo'])
        op = base + ('' if wide else 's')
        if base == 'mulo': br = r.choice(['bo', 'bno'])
        elif base == 'umulo': br = r.choice(['ubo', 'ubno'])
        else: br = r.choice(['bo', 'bno', 'ubo', 'ubno'])
        a = self.src64(allow_mem=False) if wide else self.src32(allow_mem=False)
        b = self.src64(allow_mem=False) if wide else self.src32(allow_mem=False)
        if r.random() < 0.25: b = Imm(r.choice([0, 1, 1, -1, 2]))
        if r.random() < self.opts.get('p_ovf_boundary', 0.4):
            # operands on the boundary: the result lies within +-2 of the signed / unsigned wrap-around
            bits = 64 if wide else 32
            edge = r.choice([(1 << (bits - 1)) - 1, -(1 << (bits - 1)), -1, 0, (1 << bits) - 1 if not wide else -1,
                             1 << (bits // 2), (1 << (bits // 2)) - 1, -(1 << (bits // 2))])
            ta = self.new_local('ov')
            self.emit('mov', R(ta), Imm(edge + r.choice([-2, -1, 0, 0, 1, 2]) if base != 'mulo' and base != 'umulo'
                                        else edge))
            a = R(ta)
            if base in ('mulo', 'umulo'):
                tb = self.new_local('ov')
                self.emit('mov', R(tb), Imm(r.choice([(1 << (bits // 2)), (1 << (bits // 2)) - 1, (1 << (bits // 2)) + 1,
                                                      -(1 << (bits // 2)), 2, -1, 1, 0, (1 << (bits // 2 - 1))])))
                b = R(tb)
            else:
                b = Imm(r.choice([0, 1, -1, 2, -2, 1, -1])) if r.random() < 0.7 else b
            if r.random() < 0.5 and base != 'subo' and base != 'subos': a, b = b, a
            self.p.features.add('ovf:boundary-operands')
        dst = self.X_() if wide else self.W_()
        mem = None
        if r.random() < self.opts.get('p_ovf_mem', 0.45):
            # a 32-bit result has undefined upper bits: narrow cells only
            mem = self.mem_operand(r.choice(['i64', 'u64', 'i64'] + (['i32', 'u16'] if r.random() < 0.3 else [])
                                            if wide else ['i32', 'u32', 'i32', 'i16', 'u8']), write=True)
            if mem is not None and mem.index is not None and not self.opts.get('ovf_mem_index', True):
                # base + index: see design/C01.md, defect C01-23 (-O2 folds the address back into the store, RA
                # computes it with LSH/ADD between the insn and the branch when base and index are spilled)
                mem = Mem(mem.ty, mem.disp, mem.base)
            if mem is not None:
                dst = mem
                self.p.features.add('ovf:mem-result' + (':index' if mem.index is not None else ':disp' if mem.disp else ':plain'))
        self.emit(op, dst, a, b)
        for _ in range(r.choice([0, 0, 0, 1, 2])):
            self.emit('mov', self.X_(), self.X_())       # reg-reg moves keep the flag
        lt, lj = self.label(), self.label()
        self.emit(br, lt)
        flag = self.X_()
        self.emit('mov', flag, Imm(r.randrange(0, 100)))
        self.emit('jmp', lj)
        self.place(lt)
        self.emit('mov', flag, Imm(r.randrange(100, 200)))
        self.place(lj)
        if r.random() < self.opts.get('p_ovf_observe', 0.5):
            # which way the branch went and what was stored, shown to the outside world at once
            v = flag
            if mem is not None:
                v = R(self.new_local('ov'))
                self.emit('mov', v, Mem(mem.ty, mem.disp, mem.base, mem.index, mem.scale))
            self.emit('call', Ref('p_exv'), Ref('exv'), flag, v)
        self.p.features.add('ovf:' + op + '+' + br)

    def g_join_const(self):
        """a join (phi) merging a small CONSTANT on one edge with a computed value on the other (triangle,
        diamond, small loop).  Value numbering keeps constants and value numbers (insn indexes: small
        non-negative integers) in one field, so the constant is taken from the range of the insn indexes
        of this function - around the current position or anywhere below it - as well as from 0..63"""
        r = self.rng
        n = len(self.f.body)
        k = r.random()
        K = r.randrange(0, 64) if k < 0.35 else max(0, n + r.randrange(-12, 40)) if k < 0.8 else r.randrange(0, n + 40)
        x = self.X_()
        comp = lambda: self.emit(r.choice(['mul', 'add', 'sub', 'xor', 'and', 'or']), x, self.X_(),
                                 self.X_() if r.random() < 0.7 else Imm(self.imm_val()))
        shape = r.choice(['triangle', 'triangle-inv', 'diamond', 'diamond-inv', 'loop'])
        l1, l2 = self.label(), self.label()
        if shape == 'triangle':
            self.emit('mov', x, Imm(K)); self.cond_branch(l1); comp(); self.place(l1)
        elif shape == 'triangle-inv':
            comp(); self.cond_branch(l1); self.emit('mov', x, Imm(K)); self.place(l1)
        elif shape in ('diamond', 'diamond-inv'):
            self.cond_branch(l1)
            if shape == 'diamond': self.emit('mov', x, Imm(K))
            else: comp()
            self.emit('jmp', l2); self.place(l1)
            if shape == 'diamond': comp()
            else: self.emit('mov', x, Imm(K))
            self.place(l2)
        else:
            i = R(self.new_local('jc'))
            self.emit('and', i, self.X_(), Imm(r.choice([1, 3])))
            self.emit('mov', x, Imm(K))
            self.place(l1)
            self.emit('ble', l2, i, Imm(0))
            self.emit(r.choice(['add', 'xor', 'mul', 'sub']), x, x if r.random() < 0.5 else self.X_(), self.X_())
            self.emit('sub', i, i, Imm(1))
            self.emit('jmp', l1)
            self.place(l2)
        if r.random() < 0.4:
            self.emit('call', Ref('p_exv'), Ref('exv'), x, x)
        self.p.features.add('join-const:' + shape)

    def g_counted_loop(self):
        """a small inner loop whose counter is (re)initialised right here and whose closing branch tests
        the counter value from BEFORE the decrement (c2mir's `while (w-- > 0)`): a single-block loop in
        which the branch reads the phi value after the back-edge copy was inserted"""
        r = self.rng
        c, t = self.new_local('lc'), self.new_local('lt')
        wide = r.random() < 0.5
        sub = 'sub' if wide else 'subs'
        if self.O and r.random() < 0.6:
            self.emit('and', R(c), R(r.choice(self.O)), Imm(3))
            if r.random() < 0.5: self.emit('add', R(c), R(c), Imm(1))
        else:
            self.emit('mov', R(c), Imm(r.choice([1, 2, 3, 4])))
        lh = self.label()
        shape = r.choice(['post', 'post', 'pre', 'rotated'])
        if shape == 'rotated':
            # guard + do-while, the form c2mir emits
            lx = self.label()
            self.emit('mov', R(t), R(c)); self.emit(sub, R(c), R(c), Imm(1))
            self.emit('ubles' if not wide else 'uble', lx, R(t), Imm(0))
            self.place(lh)
            for _ in range(r.randrange(1, 4)):
                r.choice([self.g_alu64, self.g_alu32, self.g_load, self.g_store, self.g_mov])()
            self.emit('mov', R(t), R(c)); self.emit(sub, R(c), R(c), Imm(1))
            self.emit('ubgts' if not wide else 'ubgt', lh, R(t), Imm(0))
            self.place(lx)
        else:
            self.place(lh)
            for _ in range(r.randrange(1, 4)):
                r.choice([self.g_alu64, self.g_alu32, self.g_load, self.g_store, self.g_mov])()
            if shape == 'post':
                self.emit('mov', R(t), R(c)); self.emit(sub, R(c), R(c), Imm(1))
                self.emit(r.choice(['bgts', 'ubgts', 'bnes']) if not wide else r.choice(['bgt', 'ubgt', 'bne']),
                          lh, R(t), Imm(r.choice([0, 1])))
            else:
                self.emit(sub, R(c), R(c), Imm(1))
                self.emit('bgts' if not wide else 'bgt', lh, R(c), Imm(0))
        self.p.features.add('loop:counted-' + shape)

    def g_local_alloca(self):
        r = self.rng
        use_b = r.random() < 0.6
        if use_b:
            t = self.new_local('bs')
            self.emit('bstart', R(t))
        pr = self.new_local('q')
        if r.random() < 0.5:
            n = r.choice([8, 16, 24, 32, 64])
            self.emit('alloca', R(pr), Imm(n))
            self.p.features.add('alloca:const-inner')
        else:
            s = self.new_local('as')
            self.emit('and', R(s), self.X_(), Imm(0x38))
            self.emit('add', R(s), R(s), Imm(8))
            self.emit('alloca', R(pr), R(s))
            n = 8
            self.p.features.add('alloca:var')
        for off in range(0, n, 8):
            self.emit('mov', Mem('i64', off, pr), self.X_() if r.random() < 0.7 else Imm(self.imm_val()))
        saved = self.P
        self.P = self.P + [PtrInfo(pr, n, True)]
        for _ in range(r.randrange(1, 5)):
            r.choice([self.g_load, self.g_store, self.g_alu64, self.g_alu32])()
        self.P = saved
        # read something back into an X reg so the block matters
        self.emit('mov', self.X_(), Mem('i64', r.randrange(0, n // 8) * 8, pr))
        if use_b:
            self.emit('bend', R(t))
            self.p.features.add('bstart/bend')

    def top_alloca(self, pr, n, int_args):
        """one alloca of the entry sequence with a size operand of every shape: an immediate, a register set by a
        `mov imm` standing right before / further up / set twice, a register initialised by `mov imm` and then
        ADJUSTED by a run-time or constant amount (size = constant + variable part: what decides "constant size"
        must see the redefinition), a wholly computed size.  Returns the number of bytes the block is known to
        have at least: all of them are written and read later, so the bytes behind the constant part are in use."""
        r = self.rng
        k = r.random()
        pw = self.opts.get('p_alloca_shapes', 0.45)
        if k >= pw:
            self.emit('alloca', R(pr), Imm(n))
            return n
        k /= pw
        sz = self.new_local('sz')
        SZ = R(sz)

        def runtime(lo_choices):
            """an amount known only at run time, >= the returned minimum, a multiple of 8"""
            t = self.new_local('sv')
            m = r.choice(lo_choices)
            self.emit('and', R(t), R(r.choice(int_args)), Imm(r.choice([0x8, 0x18, 0x38])))
            if m: self.emit('add', R(t), R(t), Imm(m))
            return R(t), m
        if k < 0.2:
            self.emit('mov', SZ, Imm(n)); self.emit('alloca', R(pr), SZ)
            self.p.features.add('alloca:size-mov-imm')
            return n
        if k < 0.3:
            # the move is not adjacent; the insn in between does not touch the size register
            self.emit('mov', SZ, Imm(n))
            t = self.new_local('sv')
            if int_args: self.emit('add', R(t), R(r.choice(int_args)), Imm(1))
            else: self.emit('mov', R(t), Imm(7))
            self.emit('alloca', R(pr), SZ)
            self.p.features.add('alloca:size-mov-imm-apart')
            return n
        if k < 0.4:
            self.emit('mov', SZ, Imm(r.choice([1, 8, 16, 200])))
            self.emit('mov', SZ, Imm(n)); self.emit('alloca', R(pr), SZ)
            self.p.features.add('alloca:size-mov-twice')
            return n
        if k < 0.55 or not int_args:
            # constant adjusted by a constant
            c = r.choice([8, 16, 24, 32])
            self.emit('mov', SZ, Imm(c))
            op = r.choice(['add', 'add', 'mul', 'lsh', 'or'])
            if op == 'add':
                d = r.choice([8, 16, 40]); tot = c + d
            elif op == 'mul':
                d = r.choice([2, 3, 4]); tot = c * d
            elif op == 'lsh':
                d = r.choice([1, 2]); tot = c << d
            else:
                d = r.choice([64, 128]); tot = c | d
            self.emit(op, SZ, SZ, Imm(d))
            self.emit('alloca', R(pr), SZ)
            self.p.features.add('alloca:size-mov-imm-adjusted-const')
            return tot
        if k < 0.85:
            # constant + run-time part (the z in `char buf[16 + z]`)
            c = r.choice([8, 16, 16, 24, 32])
            self.emit('mov', SZ, Imm(c))
            v, m = runtime([8, 8, 16, 24, 0])
            if r.random() < 0.3:
                self.emit('mov', self.new_local_reg('sv'), Imm(r.choice([0, 5])))   # something unrelated in between
            self.emit(r.choice(['add', 'add', 'or']) if c % 64 == 0 else 'add', SZ, SZ, v)
            self.emit('alloca', R(pr), SZ)
            self.p.features.add('alloca:size-mov-imm-adjusted-runtime')
            return c + m
        v, m = runtime([8, 16, 32])
        self.emit('alloca', R(pr), v)
        self.p.features.add('alloca:size-computed')
        return m

    def new_local_reg(self, cls):
        return R(self.new_local(cls))

    def arg_for(self, ty):
        r = self.rng
        if ty in ('i64', 'u64'):
            return self.src64(allow_mem=r.random() < 0.3)
        if ty in NARROW:
            return self.src32(allow_mem=r.random() < 0.3)
        if ty in ('f', 'd'):
            return self.fsrc(ty, allow_mem=r.random() < 0.3)
        if ty == 'ld':
            return self.ld_value()
        raise ValueError(ty)

    def ld_value(self):
        """a long double register for an argument / result: one of this function's own long double
        parameters passed on, or a fresh value made from any int64 (exact: 64 bits of significand) or from an
        integer-valued double"""
        r = self.rng
        if self.LDP and r.random() < 0.3:
            self.p.features.add('ld:param-passed-on')
            return R(r.choice(self.LDP))
        l = R(self.new_local('la', 'ld'))
        if r.random() < 0.7 or not self.DR or not self.opts.get('fp', True):
            self.emit('i2ld', l, self.X_())
        else:
            t, d = R(self.new_local('lt')), R(self.new_local('ldd', 'd'))
            self.emit('and', t, self.X_(), Imm(r.choice([0xff, 0xffffff, 0xffffffffffff])))
            self.emit('i2d', d, t)
            self.emit('d2ld', l, d)
        return l

    def use_ld(self, l, observe=0.5):
        """what a long double register holds becomes an integer of the body (and is shown outside)"""
        r = self.rng
        if r.random() < 0.2:
            l2 = R(self.new_local('la', 'ld'))
            self.emit('ldmov', l2, l); l = l2
        t = R(self.new_local('lt'))
        if r.random() < 0.3 and self.DR and self.opts.get('fp', True):
            d = R(self.new_local('ldd', 'd'))
            self.emit('ld2d', d, l)
            self.emit('dmov', R(r.choice(self.DR)), d)
            self.emit('ld2i', t, l)
        else:
            self.emit('ld2i', t, l)
        if r.random() < observe:
            self.emit('call', Ref('p_exv'), Ref('exv'), t, t)
        if self.X: self.emit(r.choice(['xor', 'add']), self.X_(), self.X_(), t)

    def flush_ld(self):
        for l in self.pending_ld: self.use_ld(l)
        self.pending_ld = []

    def g_ld_param(self):
        if not self.LDP: return self.g_alu64()
        self.use_ld(R(self.rng.choice(self.LDP)), observe=0.3)
        self.p.features.add('ld:param-read')

    def res_dsts(self, tys):
        # results are extended to 64 bits at the boundary; destinations pairwise distinct (the order
        # in which several results are written is not specified)
        ints = self.rng.sample(self.X, len(tys))
        fs = self.rng.sample(self.FR, min(len(tys), len(self.FR)))
        ds = self.rng.sample(self.DR, min(len(tys), len(self.DR)))
        out = []
        nf = nd = 0
        for i, t in enumerate(tys):
            if t == 'f':
                out.append(R(fs[nf])); nf += 1
            elif t == 'd':
                out.append(R(ds[nd])); nd += 1
            elif t == 'ld':
                l = R(self.new_local('la', 'ld'))
                out.append(l); self.pending_ld.append(l)
            else:
                out.append(R(ints[i]))
        # parameters of this function that only call results write (any result position, several at once)
        cls = lambda t: t if t in ('f', 'd') else 'i'
        pos = [i for i, t in enumerate(tys) if t != 'ld' and self.CR[cls(t)]]
        if pos:
            forced = self.rng.choice(pos) if self.force_cr else None
            used = set()
            for i in pos:
                if i == forced or self.rng.random() < 0.3:
                    c = [x for x in self.CR[cls(tys[i])] if x not in used]
                    if c:
                        n = self.rng.choice(c); used.add(n); out[i] = R(n)
                        self.p.features.add('param:written-by-call-result' + ('' if i == 0 else '-pos%d' % i))
        self.force_cr = False
        return out

    def g_param_write(self):
        """a parameter of this function assigned from a call result (external / MIR callee, call or inline,
        any result position) or from memory - and by nothing else"""
        r = self.rng
        cr = [k for k in self.CR if self.CR[k]]
        if not cr and not self.LD: return self.g_alu64()
        if cr and (not self.LD or r.random() < 0.7):
            self.force_cr = True
            if self.callees and r.random() < 0.6: self.g_call_mir()
            else: self.g_call_ext()
            self.force_cr = False
        else:
            m = self.mem_operand(r.choice(INT_TYPES))
            if m is None: return self.g_alu64()
            self.emit('mov', R(r.choice(self.LD)), m)
            self.p.features.add('param:written-by-load')

    def g_call_ext(self):
        r = self.rng
        cands = EXTERNALS if self.opts.get('fp', True) else [e for e in EXTERNALS if all(t in INT_TYPES for t in e[2] + e[3])]
        if self.force_cr:
            want = [e for e in cands if any(self.CR[t if t in ('f', 'd') else 'i'] for t in e[2])]
            cands = want or cands
        eid, name, res, args = r.choice(cands)
        ops = [Ref('p_' + name), Ref(name)] + self.res_dsts(res)
        ops += [self.arg_for(t) for t in args]
        self.emit('call', *ops)
        self.p.features.add('extcall:' + name)

    def g_call_mir(self):
        r = self.rng
        if not self.callees: return self.g_call_ext()
        cs = self.callees
        if self.force_cr:
            cs = [c for c in cs if any(t != 'ld' and self.CR[t if t in ('f', 'd') else 'i'] for t in c['res'])]
            if not cs: return self.g_call_ext()
        # a function nobody calls is never run (and never inlined): prefer callees without a call site so far
        called = self.p.__dict__.setdefault('called', set())
        fresh = [c for c in cs if c['name'] not in called]
        c = r.choice(fresh) if fresh and r.random() < 0.6 else r.choice(cs)
        ops = [Ref(c['proto']), Ref(c['name'])]
        ops += self.res_dsts(c['res'])
        for i, t in enumerate(c['args']):
            pi = c['ptrs'].get(i)
            if pi is not None:
                need_size, need_w = pi
                if t.startswith(('blk', 'rblk')):
                    # the whole block must be initialised memory: use a harness buffer or a top alloca
                    cands = [p for p in self.P if p.size >= need_size and (p.writable or t.startswith('blk'))
                             and p.init]
                    if not cands:
                        return self.g_call_ext()
                    ops.append(Mem(t, 0, r.choice(cands).reg))
                    self.p.features.add('call:' + t.split(':')[0])
                    continue
                cands = [p for p in self.P if p.size >= need_size and (p.writable or not need_w)]
                if not cands:
                    return self.g_call_ext()
                ops.append(R(r.choice(cands).reg))
            elif t == 'depth':
                ops.append(Imm(r.choice([0, 1, 2, 3])))
            elif t == 'ent':
                ops.append(self.ent_arg())
            else:
                ops.append(self.arg_for(t))
        code = 'inline' if r.random() < self.opts.get('p_inline', 0.4) else 'call'
        self.emit(code, *ops)
        self.flush_ld()
        called.add(c['name'])
        if 'ld' in c['args']: self.p.features.add(code + ':ld-arg')
        if r.random() < self.opts.get('p_observe_call', 0.25):
            # the caller shows the outside world what its registers hold after the call: the registers it
            # passed as arguments (the callee works on copies) and the ones that received results
            regs = [o_.name for o_ in ops[2:] if isinstance(o_, R) and (o_.name in self.X or o_.name in self.RP)]
            if regs:
                self.emit('call', Ref('p_exv'), Ref('exv'), R(r.choice(regs)), R(r.choice(regs)))
                self.p.features.add('call:args-results-logged-after')
        self.p.features.add(code + ':mir')
        tops = [q for q in self.P if q.reg.startswith('ta') and q.size >= 8]
        if tops and r.random() < self.opts.get('p_alloca_after_call', 0.2):
            # the caller's own top-level block must survive the (possibly inlined) call
            q = r.choice(tops)
            # any word, the LAST one half of the time (the part of a block behind a constant prefix)
            off = (q.size // 8 - 1) * 8 if r.random() < 0.5 else r.randrange(0, q.size // 8) * 8
            self.emit('xor', self.X_(), self.X_(), Mem('i64', off, q.reg))
        if len(c['res']) > 1: self.p.features.add('call:multi-result')

    def ent_arg(self):
        """how often the callee jumps back to the label it starts with: a small constant or unknown value"""
        r = self.rng
        if r.random() < 0.6 or not self.X:
            return Imm(r.choice([0, 1, 1, 2, 2, 3]))
        t = self.new_local('en')
        self.emit('and', R(t), self.X_(), Imm(r.choice([1, 3])))
        if r.random() < 0.5: self.emit('add', R(t), R(t), Imm(1))
        return R(t)

    def g_self_call(self):
        """bounded self recursion through the depth argument"""
        s = self.selfinfo
        if s is None: return self.g_call_mir()
        r = self.rng
        lskip = self.label()
        self.emit('ble', lskip, R(s['depth_reg']), Imm(0))
        d = self.new_local('dp')
        self.emit('sub', R(d), R(s['depth_reg']), Imm(1))
        ops = [Ref(s['proto']), Ref(self.f.name)] + self.res_dsts(self.f.res)
        for i, (t, rn) in enumerate(self.f.args):
            if rn == s['depth_reg']: ops.append(R(d))
            elif rn == 'ent': ops.append(Imm(r.choice([0, 0, 1])))
            elif i in s['ptrs']:
                ops.append(Mem(t, 0, rn) if t.startswith(('blk', 'rblk')) else R(rn))
            else: ops.append(self.arg_for(t))
        self.emit('call', *ops)
        self.flush_ld()
        self.place(lskip)
        self.p.features.add('call:recursive')

    def straight(self, n):
        r = self.rng
        kinds = [(self.g_alu64, 14), (self.g_alu32, 12), (self.g_neg, 2), (self.g_ext, 6), (self.g_cmp, 7),
                 (self.g_ext_chain, 3), (self.g_reload, 3), (self.g_overlap, 5),
                 (self.g_mem2, self.opts.get('w_mem2', 4)), (self.g_mask_ext, self.opts.get('w_mask_ext', 4)),
                 (self.g_shift, 7), (self.g_div, 7), (self.g_imm_arith, self.opts.get('w_imm_arith', 8)), (self.g_load, 8), (self.g_store, 9), (self.g_mov, 5),
                 (self.g_ovf, self.opts.get('w_ovf', 4)), (self.g_join_const, self.opts.get('w_join_const', 3)), (self.g_pressure, self.opts.get('w_pressure', 3)), (self.g_local_alloca, 2), (self.g_counted_loop, 3), (self.g_call_ext, 3),
                 (self.g_call_mir, self.opts.get('w_call', 4)), (self.g_self_call, 1)]
        if self.LD or any(self.CR.values()):
            kinds.append((self.g_param_write, self.opts.get('w_param_write', 8)))
        if self.LDP:
            kinds.append((self.g_ld_param, 6))
        if self.opts.get('fp', True) and self.FR:
            kinds += [(self.g_farith, 8), (self.g_fcmp, 6), (self.g_fconv, 4), (self.g_fmov, 4), (self.g_fbranch, 4)]
        tot = sum(w for _, w in kinds)
        for _ in range(n):
            x = r.randrange(tot)
            for fn, w in kinds:
                if x < w:
                    fn()
                    break
                x -= w

    def opaque(self):
        """a register whose value GVN cannot know (assigned only from arguments / memory): comparing
        against it keeps a branch from being folded at compile time.  Folded branches leave
        unreachable loops behind, on which the -O2 pipeline of the pinned tree crashes or hangs
        (known finding C01 unreachable-loop family), so by default every branch gets one."""
        if self.O and self.rng.random() >= self.opts.get('p_constbr', 0.0):
            return R(self.rng.choice(self.O))
        return None

    def g_fbranch(self):
        r = self.rng
        prec = r.choice(['f', 'd'])
        op = prec + 'b' + r.choice(['eq', 'ne', 'lt', 'le', 'gt', 'ge'])
        lt, lj = self.label(), self.label()
        a, b = self.fsrc(prec, allow_mem=False), self.fsrc(prec, allow_mem=False)
        if self.O and r.random() < 0.7:
            # keep the comparison away from compile-time folding: one operand derived from an opaque reg
            t = self.new_local('fo', prec)
            self.emit('i2' + prec, R(t), R(r.choice(self.O)))
            a = R(t)
        a, b = self.special_fp(prec, a, b)
        if not self.FN[prec] and self.X and r.random() < self.opts.get('p_branch_nan', 0.35):
            # no NaN register in this function (lean bodies, no integer parameter): make one here from an
            # unknown zero, so that ordered / unordered outcomes of every FP branch shape occur everywhere
            z, nn = self.new_local('fz', prec), self.new_local('fnan', prec)
            self.emit('i2' + prec, R(z), self.X_())
            self.emit(prec + 'sub', R(z), R(z), R(z))
            self.emit(prec + 'div', R(nn), R(z), R(z))
            if r.random() < 0.5: a = R(nn)
            else: b = R(nn)
            self.p.features.add('fp:nan-inf-operands')
        self.emit(op, lt, a, b)
        flag = self.X_()
        if r.random() < 0.5:
            # `bcond L; jmp L2; L:` - the if/else shape that simplify rewrites to the reversed branch
            lelse = self.label()
            self.emit('jmp', lelse)
            self.place(lt)
            self.emit('mov', flag, Imm(r.randrange(100, 200)))
            self.emit('jmp', lj)
            self.place(lelse)
            self.emit('mov', flag, Imm(r.randrange(0, 100)))
            self.place(lj)
            self.p.features.add('fp:branch+jmp')
        else:
            self.emit('mov', flag, Imm(r.randrange(0, 100)))
            self.emit('jmp', lj)
            self.place(lt)
            self.emit('mov', flag, Imm(r.randrange(100, 200)))
            self.place(lj)
        self.p.features.add('fp:branch')

    def cond_branch(self, target):
        r = self.rng
        k = r.random()
        o = self.opaque()
        if k < 0.35:
            op = r.choice(['beq', 'bne', 'blt', 'ble', 'bgt', 'bge', 'ublt', 'uble', 'ubgt', 'ubge'])
            a, b = self.src64(allow_mem=r.random() < 0.2), self.src64(allow_mem=False)
            if o is not None:
                if r.random() < 0.5: a = o
                else: b = o
            self.emit(op, target, a, b)
        elif k < 0.65:
            op = r.choice(['beqs', 'bnes', 'blts', 'bles', 'bgts', 'bges', 'ublts', 'ubles', 'ubgts', 'ubges'])
            a, b = self.src32(allow_mem=False), self.src32(allow_mem=False)
            if o is not None:
                if r.random() < 0.5: a = o
                else: b = o
            self.emit(op, target, a, b)
        elif o is None and r.random() < 0.5:
            # truth test of an immediate: decided at link time; the short forms look at the low 32 bits only
            self.emit(r.choice(['bt', 'bf', 'bts', 'bfs', 'bts', 'bfs']), target,
                      Imm(r.choice([0, 1, 2, -1, 1 << 31, 1 << 32, (1 << 32) | 1, 0xffffffff00000000, 1 << 63,
                                    -(1 << 32), 0x200000000, 0x7fffffff00000000])))
            self.p.features.add('br:imm-truth')
        elif k < 0.8:
            self.emit(r.choice(['bt', 'bf']), target, o if o is not None else
                      (self.src64(allow_mem=False) if r.random() < 0.9 else Imm(r.choice([0, 1]))))
        else:
            self.emit(r.choice(['bts', 'bfs']), target, o if o is not None else self.src32(allow_mem=False))

    def ret_insn(self):
        r = self.rng
        ops = []
        fpar = {c: [rn for rn, (cl, m) in self.pmode.items() if cl == c] for c in ('f', 'd')}
        for t in self.f.res:
            if t in INT_TYPES and self.RP and r.random() < 0.2:
                # a parameter returned as it is (any result position)
                ops.append(R(r.choice(self.RP)))
                self.p.features.add('ret:param' + ('' if len(ops) == 1 else '-pos%d' % (len(ops) - 1)))
            elif t in ('f', 'd') and fpar[t] and r.random() < 0.2:
                ops.append(R(r.choice(fpar[t])))
            elif t in ('i64', 'u64'):
                ops.append(self.X_() if r.random() < 0.85 else Imm(self.imm_val()))
            elif t in ('f', 'd'):
                ops.append(self.fsrc(t, allow_mem=False))
            elif t == 'ld':
                ops.append(self.ld_value())
            else:
                ops.append(self.src32(allow_mem=False))
        self.emit('ret', *ops)

    def param_modes(self, int_args):
        """how the body treats each value parameter: 'ro' never written (read through copies and in place),
        'any' an ordinary register of the body (written by every kind of insn, values of any width),
        'callres' written only as a result of call insns, 'load' written only by loads"""
        r = self.rng
        pw = self.opts.get('p_param_write', 0.3)
        self.pmode = {}
        for t, rn in self.f.args:
            if rn in int_args:
                m = r.choice(['any', 'any', 'callres', 'callres', 'callres', 'load']) if r.random() < pw else 'ro'
                self.pmode[rn] = ('i', m)
            elif t in ('f', 'd'):
                self.pmode[rn] = (t, r.choice(['any', 'callres']) if r.random() < pw else 'ro')
        narrow = [rn for t, rn in self.f.args if rn in int_args and t in NARROW]
        if narrow and any(rn == 'ent' for t, rn in self.f.args) and r.random() < 0.7:
            # a body that is re-entered at its first label: a narrow parameter leaves its type's range
            self.pmode[r.choice(narrow)] = ('i', 'any')

    def apply_param_modes(self):
        for rn, (c, m) in self.pmode.items():
            if c == 'i': self.RP.append(rn)
            if m == 'any':
                {'i': self.X, 'f': self.FR, 'd': self.DR}[c].append(rn)
                self.p.features.add('param:written-any')
            elif m == 'callres':
                self.CR[c].append(rn)
            elif m == 'load':
                self.LD.append(rn)

    def param_step(self):
        """one insn changing a parameter from parameters and constants only (no local is initialised yet)"""
        r = self.rng
        anyp = [rn for rn, (c, m) in self.pmode.items() if m == 'any']
        if not anyp: return
        narrow = [rn for t, rn in self.f.args if rn in anyp and t in NARROW]
        a = r.choice(narrow) if narrow and r.random() < 0.6 else r.choice(anyp)
        c = self.pmode[a][0]
        if c == 'i':
            ints = [rn for rn, (cc, m) in self.pmode.items() if cc == 'i']
            others = [x for x in ints if x != a]
            b = R(r.choice(others)) if others and r.random() < 0.3 else \
                Imm(r.choice([1, 3, 100, 255, 256, 1000, 0x7fff, 0x10000, -1, -100, 0x7fffffff, 0x100000000,
                              1 << r.randrange(0, 64), self.imm_val() | 1]))
            self.emit(r.choice(['add', 'add', 'sub', 'xor', 'mul', 'or']), R(a), R(a), b)
        else:
            self.emit(c + r.choice(['add', 'mul', 'sub']), R(a), R(a), self.fimm(c))
        self.p.features.add('entry-label:param-changed-in-loop')

    def entry_prologue(self):
        """the body BEGINS with a label that is a jump target: either the head of a small loop over the
        parameters standing before everything else, or the target of jumps back from the body (reentry)"""
        r = self.rng
        self.ent = 'ent'
        self.entry_label = self.label()
        self.place(self.entry_label)
        self.p.features.add('entry-label')
        if r.random() < 0.4:
            for _ in range(r.randrange(0, 4)):
                self.param_step()
            self.emit('sub', R('ent'), R('ent'), Imm(1))
            self.emit(r.choice(['bge', 'bge', 'bgt']), self.entry_label, R('ent'), Imm(r.choice([0, 0, 0, 1])))
            self.p.features.add('entry-label:head-loop')

    def reentry(self):
        """jump back to the label the body starts with (bounded by the counter parameter)"""
        r = self.rng
        lskip = self.label()
        self.emit('ble', lskip, R('ent'), Imm(0))
        self.emit('sub', R('ent'), R('ent'), Imm(1))
        for _ in range(r.choice([0, 1, 1, 2])):
            self.param_step()
        self.emit('jmp', self.entry_label)
        self.place(lskip)
        self.p.features.add('entry-label:jump-back')

    def generate(self, nblocks, blen):
        r = self.rng
        f = self.f
        # registers
        nx, nw = r.randrange(3, 9), r.randrange(2, 6)
        # lean functions: a short prologue (few registers, no special FP values, at most one small top
        # alloca), so that caller and callee stay below the default inlining thresholds after simplification
        lean = r.random() < self.opts.get('p_lean', 0.0)
        if lean:
            nx, nw = r.randrange(3, 5), 2
            self.p.features.add('func:lean')
        argregs = [rn for t, rn in f.args]
        for i in range(nx):
            n = 'x%d' % i; f.locals.append(('i64', n)); self.X.append(n)
        for i in range(nw):
            n = 'w%d' % i; f.locals.append(('i64', n)); self.W.append(n)
        f.locals.append(('i64', 'fuel'))
        if self.opts.get('fp', True):
            for i in range(r.randrange(2, 5) if not lean else 2):
                n = 'fr%d' % i; f.locals.append(('f', n)); self.FR.append(n)
            for i in range(r.randrange(2, 5) if not lean else 2):
                n = 'dr%d' % i; f.locals.append(('d', n)); self.DR.append(n)
        for k, (rn, size, w) in enumerate(self.ptr_args):
            self.P.append(PtrInfo(rn, size, w, alias=('rg%d' % k) if self.f.name == 'main' else None))
        int_args = [rn for t, rn in f.args if t in INT_TYPES and rn not in [p[0] for p in self.ptr_args]
                    and not (self.selfinfo and rn == self.selfinfo['depth_reg']) and rn != 'ent']
        self.param_modes(int_args)
        if any(rn == 'ent' for t, rn in f.args):
            self.entry_prologue()
        # entry: top-level allocas (adjacent: consolidated by simplify), then initialise every register
        ntop = (r.choice([0, 0, 1, 2, 3]) if r.random() >= self.opts.get('p_top_alloca', 0.0) else r.choice([1, 1, 2, 3])) \
            if self.opts.get('alloca', True) else 0
        if lean: ntop = min(ntop, r.choice([0, 1]))
        tops = []
        for i in range(ntop):
            n = r.choice([1, 2, 3, 4, 8, 12, 16, 24, 40, 64, 100]) if not lean else r.choice([2, 8, 8, 16])
            pr = 'ta%d' % i
            f.locals.append(('i64', pr))
            n = self.top_alloca(pr, n, int_args)
            tops.append((pr, n))
            self.p.features.add('alloca:top')
        if ntop >= 2: self.p.features.add('alloca:adjacent')
        for i, xn in enumerate(self.X):
            if int_args and r.random() < 0.6:
                self.emit('mov', R(xn), R(r.choice(int_args)))
            else:
                self.emit('mov', R(xn), Imm(self.imm_val()))
        for wn in self.W:
            if r.random() < 0.5 and int_args:
                self.emit('adds', R(wn), R(r.choice(int_args)), Imm(self.imm_val()))
            else:
                self.emit('mov', R(wn), Imm(self.imm_val()))
        fargs = [rn for t, rn in f.args if t == 'f']
        dargs = [rn for t, rn in f.args if t == 'd']
        ld_first = [rn for rn in self.LDP if r.random() < 0.8]
        for n in self.FR:
            if fargs and r.random() < 0.5: self.emit('fmov', R(n), R(r.choice(fargs)))
            elif int_args and r.random() < 0.3: self.emit('i2f', R(n), R(r.choice(int_args)))
            else: self.emit('fmov', R(n), self.fimm('f'))
        for n in self.DR:
            if dargs and r.random() < 0.5: self.emit('dmov', R(n), R(r.choice(dargs)))
            elif int_args and r.random() < 0.3: self.emit('i2d', R(n), R(r.choice(int_args)))
            else: self.emit('dmov', R(n), self.fimm('d'))
        # special FP values that cannot be written as constants: NaN and infinities, computed from an
        # unknown zero; they are only compared / branched on (a produced NaN may not be stored)
        self.FN = {'f': [], 'd': []}
        if self.FR and int_args and not lean and r.random() < self.opts.get('p_nan', 0.8):
            for prec in ('f', 'd'):
                z = self.new_local('fz', prec)
                self.emit('i2' + prec, R(z), R(r.choice(int_args)))
                self.emit(prec + 'sub', R(z), R(z), R(z))
                nn, inf = self.new_local('fnan', prec), self.new_local('finf', prec)
                self.emit(prec + 'div', R(nn), R(z), R(z))
                self.emit(prec + 'div', R(inf), FImm(f32bits(r.choice([1.0, -1.0]))) if prec == 'f' else
                          DImm(f64bits(r.choice([1.0, -1.0]))), R(z))
                self.FN[prec] = [nn, inf]
                self.p.features.add('fp:nan-inf-operands')
        for i in range(r.randrange(1, 4) if not lean else 1):
            on = 'o%d' % i
            f.locals.append(('i64', on))
            cands = [p_ for p_ in self.P if p_.size >= 8]
            if int_args and (r.random() < 0.6 or not cands):
                self.emit('mov', R(on), R(r.choice(int_args)))
            elif cands:
                p_ = r.choice(cands)
                self.emit('mov', R(on), Mem(r.choice(['i64', 'u32', 'i16', 'u8']), r.randrange(0, p_.size - 7), p_.reg))
            else:
                # no argument and no buffer to read: ask the outside world
                self.emit('call', Ref('p_ex0'), Ref('ex0'), R(on))
            self.O.append(on)
        self.apply_param_modes()
        for rn in ld_first:
            self.use_ld(R(rn), observe=0.6)
        if self.O and r.random() >= self.opts.get('p_constbr', 0.0):
            # a loop bound the optimiser cannot know (a known one lets GVN fold the exit test)
            self.emit('and', R('fuel'), R(r.choice(self.O)), Imm(3))
            self.emit('add', R('fuel'), R('fuel'), Imm(self.opts['fuel']))
        else:
            self.emit('mov', R('fuel'), Imm(self.opts['fuel']))
        for pr, n in tops:
            # initialise the whole block bytewise / wordwise
            off = 0
            while off < n:
                if n - off >= 8:
                    self.emit('mov', Mem('i64', off, pr), self.X_()); off += 8
                else:
                    self.emit('mov', Mem('u8', off, pr), self.X_()); off += 1
            self.P.append(PtrInfo(pr, n, True, alias='al' + pr))
        # calls the caller of gen_program wants to see executed exactly once, before the blocks
        for op, ops in getattr(self, 'pre_calls', []):
            ploc = self.__dict__.setdefault('pre_locals', {})
            self.emit(op, *[R(self.rng.choice(self.X)) if o_ == 'X' else R(self.X[0]) if o_ == 'X0' else
                            R(ploc.get(o_[1]) or ploc.setdefault(o_[1], self.new_local('pc'))) if isinstance(o_, tuple) else o_
                            for o_ in ops])
        # blocks
        labs = [self.label() for _ in range(nblocks)]
        lret = self.label()
        self.exit_label = lret
        # label-address registers for jmpi
        la = None
        if nblocks >= 3 and r.random() < self.opts.get('p_jmpi', 0.0):
            la = self.new_local('la')
            self.p.features.add('laddr/jmpi')
        # Loop structure.  Default: reducible CFGs - loops are laminar block intervals [h, t] entered only
        # through their header h (back edges go to h, forward edges never jump into the middle of a
        # loop).  With opts['irreducible'] any block may be the target of any branch (multi-entry loops).
        irreducible = r.random() < self.opts.get('p_irreducible', 0.0)
        loops = []
        if not irreducible:
            for _ in range(r.randrange(0, nblocks // 2 + 2)):
                h = r.randrange(nblocks); t = r.randrange(h, nblocks)
                if all(t < h2 or t2 < h or (h2 <= h and t <= t2) or (h <= h2 and t2 <= t) for h2, t2 in loops):
                    loops.append((h, t))
        else:
            self.p.features.add('cfg:irreducible-allowed')

        def fwd_targets(b):
            return [c for c in range(b + 1, nblocks) if all(h <= b for h, t in loops if h < c <= t)]

        def pick_target(b, allow_back=True):
            if irreducible:
                return labs[r.randrange(nblocks)]
            backs = [h for h, t in loops if h <= b <= t]
            if allow_back and backs and r.random() < 0.5:
                self.p.features.add('cfg:back-edge')
                return labs[r.choice(backs)]
            fw = fwd_targets(b)
            return labs[r.choice(fw)] if fw else lret

        # position of the function's final `ret`: normally last; sometimes in the middle so that insns
        # follow the (single) ret (inlining copies them in place when the callee has a non-top alloca)
        rpos = r.randrange(1, nblocks) if nblocks >= 2 and r.random() < self.opts.get('p_ret_middle', 0.15) else nblocks
        p_cold = self.opts.get('p_cold', 0.0)
        p_laddr_any = self.opts.get('p_laddr_any', 0.0)
        cold = []
        for bi in range(nblocks):
            if bi == rpos:
                self.emit('jmp', labs[bi])
                self.place(lret)
                self.ret_insn()
                self.p.features.add('ret:not-last')
            self.place(labs[bi])
            # fuel check: every block may be the target of a back edge
            self.emit('sub', R('fuel'), R('fuel'), Imm(1))
            self.emit('ble', lret, R('fuel'), Imm(0))
            self.straight(r.randrange(1, blen + 1))
            if p_laddr_any and r.random() < p_laddr_any:
                # address of an arbitrary block taken and never used: for the generator every such label
                # is a possible jmpi target and its block is kept even when nothing jumps to it
                if 'lu' not in [n for _, n in f.locals]: f.locals.append(('i64', 'lu'))
                self.emit('laddr', R('lu'), r.choice(labs + [lret]))
                self.p.features.add('laddr:unused')
            if (self.LD or any(self.CR.values())) and r.random() < 0.5:
                self.g_param_write()
                if r.random() < 0.5: self.straight(1)
            if self.entry_label is not None and r.random() < 0.35:
                self.reentry()
            if p_cold and r.random() < p_cold:
                # detour through a stub placed after the function's last insn ("cold" code after the ret):
                # clone_bbs copies the block at lr into the stub; with the unconditional jump the original
                # block becomes unreachable
                lc, lr = self.label(), self.label()
                if r.random() < 0.5: self.emit('jmp', lc)
                else: self.cond_branch(lc)
                self.place(lr)
                self.straight(r.randrange(1, blen + 1))
                cold.append((lc, lr))
                self.p.features.add('cfg:cold-detour')
            last = bi == nblocks - 1
            k = r.random()
            if k < 0.3:
                tgt = pick_target(bi)
                self.cond_branch(tgt)
                if tgt.n <= labs[bi].n: self.p.features.add('cfg:back-edge')
            elif k < 0.4:
                self.emit('jmp', pick_target(bi))
            elif k < 0.5 and nblocks >= 2:
                # switch over a masked value; by default its targets are forward ones (a switch closing a
                # loop is a known -O2 problem area of the pinned tree, see design/C01.md)
                ncase = r.choice([2, 4, 8])
                sw = self.new_local('sw')
                self.emit('and', R(sw), self.opaque() or self.X_(), Imm(ncase - 1))
                self.emit('switch', R(sw), *[pick_target(bi, allow_back=irreducible) for _ in range(ncase)])
                self.p.features.add('switch')
            elif k < 0.58 and la is not None:
                l1, l2 = pick_target(bi), pick_target(bi)
                lgo = self.label()
                self.emit('laddr', R(la), l1)
                self.cond_branch(lgo)
                self.emit('laddr', R(la), l2)
                self.place(lgo)
                self.emit('jmpi', R(la))
            elif k < 0.66 and not last:
                self.cond_branch(lret)    # early exit
            elif k < 0.66 + self.opts.get('p_midret', 0.08) and not last and f.res is not None:
                # an extra return in the middle (return merging), guarded so later blocks stay reachable
                lskip = self.label()
                self.cond_branch(lskip)
                self.ret_insn()
                self.place(lskip)
                self.p.features.add('ret:multiple')
            # else: fall through
        if rpos == nblocks:
            self.place(lret)
            self.ret_insn()
        else:
            self.emit('jmp', lret)
        for lc, lr in cold:
            self.place(lc)
            self.straight(r.randrange(1, 4))
            self.emit('jmp', lr)
        return f


# ---- families of tiny functions with one join ---------------------------------------------------------
TINY_SHAPES = ['triangle', 'triangle-inv', 'diamond', 'diamond-inv', 'loop', 'three-way', 'two-phis']


def tiny_join_family(p, rng, labbase):
    """n copies of ONE tiny function `i64 f(i64 a, i64 b[, i64 c])` that differ only in the constant K a
    join merges with a computed value; K runs through a window of consecutive small integers that
    contains the positions (insn indexes) of the insns of the join, so that every coincidence "constant =
    internal number of the other value" occurs in one of the copies.  The functions are kept out of
    link-time inlining (a label address is taken, or more than 50 insns AFTER the join), so their insn
    numbers stay small.  Returns (callee descriptions, calls for main, next label base)."""
    r = rng
    shape = r.choice(TINY_SHAPES)
    npre = r.choice([0, 0, 0, 1, 2, 3, 5, 8])
    keep = r.choice(['laddr', 'laddr', 'long'])
    nargs = r.choice([2, 2, 3])
    opk = r.choice(['mul', 'mul', 'add', 'sub', 'xor', 'mov', 'neg', 'and', 'lsh', 'ext8'])
    fold_pre = r.random() < 0.5
    nk = r.choice([8, 12, 16])
    est = npre + (1 if keep == 'laddr' else 0) + nargs + 2
    k0 = max(0, est - r.choice([2, 4, 6, 8]))
    c1, c2 = r.choice([1, 3, 7, 100, -1]), r.choice([1, 2, 5, 255])
    callees, calls = [], []
    fam = len([it for it in p.items if it[0] == 'func' and it[1].name.startswith('tj')])
    for K in range(k0, k0 + nk):
        name = 'tj%d_%d' % (fam, K)
        args = [('i64', 'a'), ('i64', 'b')] + ([('i64', 'c')] if nargs == 3 else [])
        f = Func(name, ['i64'], args)
        f.locals = [('i64', 'r'), ('i64', 'q'), ('i64', 'i'), ('i64', 'lu')] + [('i64', 't%d' % i) for i in range(64)]
        nl = [labbase]

        def lab():
            nl[0] += 1
            return Lab(nl[0])
        e = lambda op, *ops: f.body.append(Insn(op, list(ops)))
        pl = lambda l: f.body.append(Insn('label', [l]))
        l1, l2, l3 = lab(), lab(), lab()
        if keep == 'laddr': e('laddr', R('lu'), l1)
        prev = 'b'
        for i in range(npre):
            e(['add', 'xor', 'sub', 'mul'][i % 4], R('t%d' % i), R(prev), Imm(c1 + i)); prev = 't%d' % i
        other = R('c') if nargs == 3 else R(prev)

        def comp(dst='r'):
            if opk in ('mov', 'neg', 'ext8'): e(opk, R(dst), R('b'))
            elif opk in ('and', 'lsh'): e(opk, R(dst), R('b'), Imm(c2 if opk == 'and' else c2 % 64))
            elif opk == 'mul': e('mul', R(dst), R('b'), R('b'))
            else: e(opk, R(dst), R('b'), other)
        if shape == 'triangle':
            e('mov', R('r'), Imm(K)); e('bt', l1, R('a')); comp(); pl(l1)
        elif shape == 'triangle-inv':
            comp(); e('bt', l1, R('a')); e('mov', R('r'), Imm(K)); pl(l1)
        elif shape == 'diamond':
            e('bf', l1, R('a')); e('mov', R('r'), Imm(K)); e('jmp', l2); pl(l1); comp(); pl(l2)
        elif shape == 'diamond-inv':
            e('bt', l1, R('a')); comp(); e('jmp', l2); pl(l1); e('mov', R('r'), Imm(K)); pl(l2)
        elif shape == 'loop':
            e('and', R('i'), R('a'), Imm(3)); e('mov', R('r'), Imm(K)); pl(l1); e('ble', l2, R('i'), Imm(0))
            if opk in ('add', 'sub', 'xor', 'mul'): e(opk, R('r'), R('r'), R('b'))
            else: comp()
            e('sub', R('i'), R('i'), Imm(1)); e('jmp', l1); pl(l2)
        elif shape == 'three-way':
            e('bgt', l1, R('a'), Imm(1)); e('bt', l2, R('a')); comp(); e('jmp', l3)
            pl(l1); e('mov', R('r'), Imm(K)); e('jmp', l3); pl(l2); e('mov', R('r'), Imm(K)); pl(l3)
        else:   # two joins at one label: the constant and another one against two computed values
            e('mov', R('r'), Imm(K)); e('mov', R('q'), Imm(K + 1)); e('bt', l1, R('a')); comp('r'); e('add', R('q'), R('b'), R('a'))
            pl(l1); e('xor', R('r'), R('r'), R('q'))
        if fold_pre and npre: e('xor', R('r'), R('r'), R(prev))
        if keep == 'long':
            for i in range(52):
                e(['add', 'xor', 'sub', 'or'][i % 4], R('r'), R('r'), Imm(c1 + 3 * i) if i % 3 else R('b'))
        e('ret', R('r'))
        used = set(o_.name for ins in f.body for o_ in ins.ops if isinstance(o_, R))
        f.locals = [(t, n) for t, n in f.locals if n in used]
        labbase = nl[0]
        p.add_item(('proto', 'p_' + name, ['i64'], [t for t, _ in args]))
        p.add_item(('func', f))
        callees.append(dict(name=name, proto='p_' + name, res=['i64'], args=[t for t, _ in args], ptrs={}))
        for av in ([0, 1] if shape != 'loop' else [0, 1, 2]) + ([2] if shape == 'three-way' else []):
            calls.append(('call', [Ref('p_' + name), Ref(name), 'X0', Imm(av), 'X' if r.random() < 0.8 else Imm(r.choice([3, 7, -5, 1000]))]
                          + (['X'] if nargs == 3 else [])))
            calls.append(('call', [Ref('p_exv'), Ref('exv'), 'X0', 'X']))
    p.features.add('tiny-join:' + shape)
    p.features.add('tiny-join:keep-' + keep)
    return callees, calls, labbase


def dyn_alloca_family(p, rng, labbase):
    """a small callee with a DYNAMIC alloca (variable size, or constant size behind a label / a branch: the inliner
    brackets its body with BSTART/BEND instead of merging the block into the caller's frame), code after its
    ret (or the ret last: the neighbour), called / inlined in a counted LOOP of main with blocks so large that
    iterations x size is several times the 8 MB stack: every return from the inlined body must release the
    block (the reference semantics frees at return).  Returns (callee descriptions, insns for main, label base)."""
    r = rng
    fam = len([it for it in p.items if it[0] == 'func' and it[1].name.startswith('da')])
    name = 'da%d' % fam
    size = r.choice([1 << 17, 1 << 18, 1 << 19, 1 << 20, (1 << 19) + 4096, (1 << 18) - 8, 3 << 17])
    niter = (24 << 20) // size + r.randrange(1, 40)
    shape = r.choice(['var', 'var', 'after-label', 'after-branch', 'top+var'])
    tail = r.choice(['after-ret', 'after-ret', 'after-ret', 'two-rets', 'ret-last'])
    args = [('i64', 'n'), ('i64', 'x')]
    f = Func(name, ['i64'], args)
    f.locals = [('i64', 'q'), ('i64', 't'), ('i64', 'q0'), ('i64', 'u')]
    nl = [labbase]

    def lab():
        nl[0] += 1
        return Lab(nl[0])
    e = lambda op, *ops: f.body.append(Insn(op, list(ops)))
    pl = lambda l: f.body.append(Insn('label', [l]))
    l0, lout, lback = lab(), lab(), lab()
    c = r.choice([1, 3, 7, 100, -1])
    if shape == 'top+var':
        e('alloca', R('q0'), Imm(r.choice([8, 16, 32])))
        e('mov', Mem('i64', 0, 'q0'), R('x'))
    if shape == 'after-label':
        e('mov', R('u'), Imm(0)); pl(l0); e('alloca', R('q'), Imm(size))
    elif shape == 'after-branch':
        e('mov', R('u'), Imm(0)); e('blt', l0, R('n'), Imm(0)); e('mov', R('u'), Imm(1)); pl(l0); e('alloca', R('q'), Imm(size))
    else:
        e('alloca', R('q'), R('n'))
    e('mov', Mem('i64', 0, 'q'), R('x'))
    if r.random() < 0.5: e('mov', Mem('i64', r.randrange(1, size // 8) * 8, 'q'), Imm(c))
    if tail == 'ret-last':
        e('bgt', lout, R('x'), Imm(niter // 2)); e('jmp', lback)
        pl(lout); e('mov', Mem('i64', 0, 'q'), Imm(c))
        pl(lback); e('mov', R('t'), Mem('i64', 0, 'q')); e('add', R('t'), R('t'), Imm(c))
        if shape == 'top+var': e('xor', R('t'), R('t'), Mem('i64', 0, 'q0'))
        e('ret', R('t'))
    else:
        e('bgt', lout, R('x'), Imm(niter // 2))
        pl(lback); e('mov', R('t'), Mem('i64', 0, 'q')); e('add', R('t'), R('t'), Imm(c))
        if shape == 'top+var': e('xor', R('t'), R('t'), Mem('i64', 0, 'q0'))
        e('ret', R('t'))
        pl(lout); e('mov', Mem('i64', 0, 'q'), Imm(c + 1))
        if tail == 'two-rets':
            e('mov', R('t'), Imm(c + 2)); e('ret', R('t'))
        else:
            e('jmp', lback)
    used = set(o_.name for ins in f.body for o_ in ins.ops if isinstance(o_, R)) | \
        set(o_.base for ins in f.body for o_ in ins.ops if isinstance(o_, Mem) and o_.base)
    f.locals = [(t, n) for t, n in f.locals if n in used]
    p.add_item(('proto', 'p_' + name, ['i64'], ['i64', 'i64']))
    p.add_item(('func', f))
    # the loop lives in a small caller of its own (a caller as big as main is beyond the inliner's growth limits)
    lname = 'dl%d' % fam
    g = Func(lname, ['i64'], [('i64', 'k')])
    g.locals = [('i64', 'cnt'), ('i64', 'acc'), ('i64', 'res'), ('i64', 'sz')]
    lh = lab()
    ge = lambda op, *ops: g.body.append(Insn(op, list(ops)))
    ge('mov', R('cnt'), R('k')); ge('mov', R('acc'), Imm(0)); ge('mov', R('sz'), Imm(size))
    g.body.append(Insn('label', [lh]))
    ge(r.choice(['call', 'inline', 'inline']), Ref('p_' + name), Ref(name), R('res'), R('sz') if r.random() < 0.7 else Imm(size), R('cnt'))
    ge('add', R('acc'), R('acc'), R('res')); ge('sub', R('cnt'), R('cnt'), Imm(1)); ge('bgt', lh, R('cnt'), Imm(0))
    ge('ret', R('acc'))
    p.add_item(('proto', 'p_' + lname, ['i64'], ['i64']))
    p.add_item(('func', g))
    acc = ('L', 'acc%d' % fam)
    calls = [('call', [Ref('p_' + lname), Ref(lname), acc, Imm(niter)]), ('call', [Ref('p_exv'), Ref('exv'), acc, acc])]
    p.features.add('dyn-alloca-loop:' + shape)
    p.features.add('dyn-alloca-loop:' + tail)
    return [dict(name=name, proto='p_' + name, res=['i64'], args=['i64', 'i64'], ptrs={})], calls, nl[0]


# ---- whole programs ---------------------------------------------------------------------------------
REGION_BASE = 0x500000000


def gen_program(rng, opts=None):
    o = dict(nfuncs=rng.choice([1, 2, 2, 3, 4]), fuel=rng.choice([6, 12, 25]), alloca=True, labbase=0,
             # per-function probabilities of the CFG streams that used to be off (see design/C01.md)
             p_irreducible=0.15, p_jmpi=0.2, p_cold=0.15, p_laddr_any=0.05, p_constbr=0.15)
    if opts: o.update(opts)
    p = Program()
    # regions: two writable, one read-only
    sizes = [rng.choice([64, 128, 256]), rng.choice([16, 32, 64]), rng.choice([32, 64, 128])]
    for k, sz in enumerate(sizes):
        by = bytes(rng.randrange(256) for _ in range(sz))
        if rng.random() < 0.3:
            by = bytes(rng.choice([0, 0xff, 0x80, 0x7f, 1]) for _ in range(sz))
        p.regions.append((REGION_BASE + k * 0x100000, sz, k != 2, by))
    # items: protos + imports of externals
    for eid, name, res, args in EXTERNALS:
        p.add_item(('proto', 'p_' + name, res, args))
        p.add_item(('import', name, eid))
    callees = []
    labbase = 0
    nf = o['nfuncs']
    for fi in range(nf):
        is_main = fi == nf - 1
        name = 'main' if is_main else 'f%d' % fi
        # signature
        if is_main:
            res = ['i64']
            nint = rng.randrange(1, 4)
            args = [('i64', 'b0'), ('i64', 'b1'), ('i64', 'b2')] + [('i64', 'a%d' % i) for i in range(nint)]
            ptrs = {0: (sizes[0], True), 1: (sizes[1], True), 2: (sizes[2], False)}
            selfinfo = None
            if rng.random() < o.get('p_entry_label', 0.12):
                args.append(('i64', 'ent'))
        else:
            fp = o.get('fp', True)
            nres = rng.choice([0, 1, 1, 1, 2, 2, 3])
            res, ni, nfp = [], 0, 0
            for _ in range(nres):      # x86-64: at most two integer and two FP results
                t = rng.choice(NARROW) if rng.random() < o.get('p_narrow_res', 0.0) else \
                    rng.choice(INT_TYPES + ['i64', 'i64'] + (['f', 'd', 'd'] if fp else []))
                if t in ('f', 'd'):
                    if nfp == 2: continue
                    nfp += 1
                else:
                    if ni == 2: continue
                    ni += 1
                res.append(t)
            args = []
            ptrs = {}
            np_ = rng.choice([0, 1, 1, 2])
            for i in range(np_):
                k = rng.randrange(3)
                kind = rng.random()
                if kind < o.get('p_blk', 0.25):
                    n = rng.choice([8, 16, 24, 32])
                    n = min(n, sizes[k] // 8 * 8)
                    if rng.random() < 0.7:
                        ptrs[len(args)] = (n, True)
                        args.append(('blk:%d' % n, 'b%d' % i))
                    else:
                        ptrs[len(args)] = (n, True)       # rblk: the callee works on the caller's memory
                        args.append(('rblk:%d' % n, 'b%d' % i))
                else:
                    ptrs[len(args)] = (sizes[k], k != 2)
                    args.append((rng.choice(['i64', 'p']), 'b%d' % i))
            if fp and rng.random() < o.get('p_wide_sig', 0.25):
                # parameters of every type in every position: 0..12 integer, 0..10 FP and 0..3 long double ones in
                # a random order (6 integer and 8 FP ones travel in registers, the rest - and every long double,
                # 16 bytes, 16-byte aligned - on the stack behind an odd or even number of 8-byte words)
                seq = [rng.choice(INT_TYPES + ['i64', 'i32']) for _ in range(max(0, rng.randrange(0, 13) - len(args)))] + \
                      [rng.choice(['f', 'd', 'd']) for _ in range(rng.choice([0, 0, 1, 2, 3, 5, 8, 9, 10]))] + \
                      ['ld'] * rng.choice([0, 1, 1, 1, 2, 3])
                rng.shuffle(seq)
                if rng.random() < 0.5:
                    # a long double right behind the register arguments: k stack words before it
                    lds = [t for t in seq if t == 'ld']; rest = [t for t in seq if t != 'ld']
                    rest.sort(key=lambda t: t in ('f', 'd')) if rng.random() < 0.5 else None
                    seq = rest
                    for _ in lds: seq.insert(rng.randrange(min(len(seq), 6), len(seq) + 1), 'ld')
                for i, t in enumerate(seq):
                    args.append((t, 'a%d' % i))
                if 'ld' in seq: p.features.add('sig:ld-param')
                p.features.add('sig:wide')
                if len(res) < 3 and rng.random() < 0.3:
                    res.append('ld'); p.features.add('sig:ld-result')
            else:
                nia = rng.randrange(0, 5) if rng.random() >= o.get('p_many_args', 0.15) else rng.randrange(6, 10)
                for i in range(nia):
                    args.append((rng.choice(INT_TYPES + ['i64', 'i32'] + (['f', 'd'] if fp and nia < 6 else [])), 'a%d' % i))
            selfinfo = None
            if rng.random() < 0.35:
                args.append(('i64', 'depth'))
                selfinfo = dict(depth_reg='depth', proto='p_' + name, ptrs=set(ptrs.keys()))
            if rng.random() < o.get('p_entry_label', 0.12):
                args.append(('i64', 'ent'))
        p.add_item(('proto', 'p_' + name, res, [t for t, _ in args]))
        ptr_args = [(args[i][1], sz, w) for i, (sz, w) in ptrs.items()]
        depth = nf - 1 - fi
        fopts = dict(o)
        fopts['fuel'] = max(3, o['fuel'] // (1 + depth))
        fopts['labbase'] = labbase
        tiny_calls = []
        if is_main and rng.random() < o.get('p_tiny_join', 0.2):
            tc, tiny_calls, labbase = tiny_join_family(p, rng, labbase)
            fopts['labbase'] = labbase
        if is_main and rng.random() < o.get('p_dyn_alloca_loop', 0.0):
            _, dcalls, labbase = dyn_alloca_family(p, rng, labbase)
            tiny_calls = list(tiny_calls) + dcalls
            fopts['labbase'] = labbase
        g = FG(p, rng, name, res, args, ptr_args, list(callees), fopts, depth)
        g.selfinfo = selfinfo
        g.pre_calls = tiny_calls
        big = rng.random() < 0.25
        nblocks = rng.choice([1, 2, 3, 4, 6]) if not big else rng.choice([6, 9, 12])
        blen = rng.choice([2, 4, 6]) if not big else rng.choice([6, 10])
        if rng.random() < o.get('p_small', 0.0):
            # small call-dense functions: mostly executed, mostly below the inlining thresholds
            nblocks, blen = rng.choice([1, 1, 2, 3]), rng.choice([2, 3, 4])
        f = g.generate(nblocks, blen)
        labbase = g.nlab
        p.add_item(('func', f))
        argtys = ['depth' if (selfinfo and rn == 'depth') else 'ent' if rn == 'ent' else t for t, rn in args]
        callees.append(dict(name=name, proto='p_' + name, res=res, args=argtys, ptrs=ptrs))
        n = f.ninsns()
        p.features.add('callee-size:' + ('<=50' if n <= 50 else '<=200' if n <= 200 else '>200'))
    p.entry = 'main'
    p.forward_order = rng.random() < o.get('p_forward', 0.3)
    if p.forward_order: p.features.add('order:main-first')
    main = p.items[p.index['main']][1]
    has_ent = main.args[-1][1] == 'ent'
    nint = len(main.args) - 3 - (1 if has_ent else 0)
    p.args = [REGION_BASE, REGION_BASE + 0x100000, REGION_BASE + 0x200000] + \
             [rng.choice(BOUNDARY) if rng.random() < 0.5 else rng.randrange(-1 << 63, 1 << 63) for _ in range(nint)]
    if has_ent: p.args.append(rng.choice([0, 1, 1, 2, 3]))
    p.oracle = [rng.choice(BOUNDARY) if rng.random() < 0.4 else rng.randrange(-1 << 63, 1 << 63) for _ in range(160)]
    return p


def fix_self_depth(p, rng):
    """calls to a recursive callee from other functions pass a small constant depth"""
    for it in p.items:
        if it[0] != 'func': continue
    return p


if __name__ == '__main__':
    import random, tr_opcodes
    seed = int(sys.argv[1]) if len(sys.argv) > 1 else 1
    rng = random.Random(seed)
    p = gen_program(rng)
    names = tr_opcodes.opcodes()
    opnum = {n: i for i, n in enumerate(names)}
    if '--model' in sys.argv:
        print(p.model_line(opnum, 200000))
    elif '--harness' in sys.argv:
        print(p.harness_line('i,g0,g1,g2,g3'))
    else:
        sys.stdout.write(p.text())


# ---- parsing the textual subset this generator prints (for hand-written corpus cases) ----------------
def parse_text(text, args=None, oracle=None, regions=None):
    """MIR text (one module; protos, imports, funcs; operands as printed by Program.text) -> Program.
    Default inputs: the three standard regions, main's pointer args, two integer args."""
    import re
    p = Program()
    cur = None
    extid = {e[1]: e[0] for e in EXTERNALS}

    def parse_op(s, names):
        s = s.strip()
        alias = None
        ma = re.match(r'^(.*\)):(\w+)$', s)
        if ma:
            s, alias = ma.group(1), ma.group(2)
        m = re.match(r'^(\w+):\s*(-?\d+)?\s*(?:\(\s*(\w+)\s*(?:,\s*(\w+)\s*(?:,\s*(\d+)\s*)?)?\))?$', s)
        if m and (m.group(1) in TSIZE or m.group(1).startswith(('blk', 'rblk'))):
            ty = m.group(1)
            if ty.startswith(('blk', 'rblk')):
                return Mem('%s:%s' % (ty, m.group(2)), 0, m.group(3))
            return Mem(ty, int(m.group(2) or 0), m.group(3), m.group(4), int(m.group(5) or 1), alias)
        if re.match(r'^-?(0x[0-9a-fA-F]+|\d+)$', s):
            return Imm(int(s, 0))
        if re.match(r'^-?\d+\.\d*(e[-+]?\d+)?f$', s) or re.match(r'^-?\d+e[-+]?\d+f$', s):
            return FImm(f32bits(float(s[:-1])))
        if re.match(r'^-?\d+\.\d*(e[-+]?\d+)?$', s) or re.match(r'^-?\d+e[-+]?\d+$', s):
            return DImm(f64bits(float(s)))
        if re.match(r'^L\d+$', s) and s not in names:
            return Lab(int(s[1:]))
        if s in names:
            return R(s)
        return Ref(s)

    for raw in text.split('\n'):
        for line in raw.split(';'):
            line = line.split('#')[0].strip()
            if not line or line.startswith(('m:', 'endmodule')):
                continue
            m = re.match(r'^(\w+):\s*(proto|func)\s*(.*)$', line)
            if m:
                name, kind, rest = m.groups()
                res, args_ = [], []
                for part in [x.strip() for x in rest.split(',') if x.strip()]:
                    mb = re.match(r'^(r?blk\d*):(\d+)\((\w+)\)$', part)
                    if mb:
                        args_.append(('%s:%s' % (mb.group(1), mb.group(2)), mb.group(3)))
                    elif ':' in part:
                        t, n = part.split(':')
                        args_.append((t.strip(), n.strip()))
                    else:
                        res.append(part)
                if kind == 'proto':
                    p.add_item(('proto', name, res, [t for t, _ in args_]))
                else:
                    cur = Func(name, res, args_)
                    p.add_item(('func', cur))
                continue
            if line.startswith('import'):
                for n in line[6:].split(','):
                    n = n.strip()
                    p.add_item(('import', n, extid[n]))
                continue
            if line.startswith('forward '):
                p.forward_order = True   # only the order produced by Program.text is supported
                continue
            if line == 'endfunc':
                cur = None
                continue
            if line.startswith('local'):
                for part in line[5:].split(','):
                    t, n = part.strip().split(':')
                    cur.locals.append((t, n))
                continue
            m = re.match(r'^(L\d+):\s*(.*)$', line)
            if m:
                cur.body.append(Insn('label', [Lab(int(m.group(1)[1:]))]))
                line = m.group(2).strip()
                if not line:
                    continue
            names = set(n for _, n in cur.locals) | set(n for _, n in cur.args)
            sp = line.split(None, 1)
            op = sp[0]
            ops = []
            if len(sp) > 1:
                # split on commas that are not inside parentheses
                depth, curtok = 0, ''
                for ch in sp[1]:
                    if ch == '(': depth += 1
                    if ch == ')': depth -= 1
                    if ch == ',' and depth == 0:
                        ops.append(curtok); curtok = ''
                    else:
                        curtok += ch
                if curtok.strip(): ops.append(curtok)
            cur.body.append(Insn(op, [parse_op(o, names) for o in ops]))
    p.entry = 'main'
    if p.forward_order:
        # Program.text prints the functions in reverse item order after a `forward` line: store them
        # reversed so that the text comes out in the order it was written
        funcs = [it for it in p.items if it[0] == 'func'][::-1]
        p.items = [it for it in p.items if it[0] != 'func'] + funcs
        p.index = {(it[1] if it[0] != 'func' else it[1].name): i for i, it in enumerate(p.items)}
    main = p.items[p.index['main']][1]
    if regions is None:
        regions = [(REGION_BASE, 64, True, bytes(range(1, 65))), (REGION_BASE + 0x100000, 32, True, bytes([0x22] * 32)),
                   (REGION_BASE + 0x200000, 32, False, bytes([0x80 + i for i in range(32)]))]
    p.regions = regions
    if args is None:
        args = [REGION_BASE, REGION_BASE + 0x100000, REGION_BASE + 0x200000, 0x123456789abcdef, -5][:len(main.args)]
    p.args = args
    p.oracle = oracle if oracle is not None else [7, -3, 0x100000001, 5, 6, 7, 8, 9]
    return p

# Shared by the C02/C20 translators: a tokenizer + parser for the small C subset met in the macro
# bodies of mir-interp.c, the GVN folder of mir-gen.c and the templates printed by mir2c.c, a tiny
# symbolic executor (locals, pointers to locals, helper-function inlining) and the emitter of
# MirV.Mir.CExpr terms.  Anything outside the subset raises Unsupported -> the caller emits an
# SUnknown row, which has no semantics, so the theorem over the table fails (never skipped).
import re

INT_TYPES = {'int8_t': 'CI8', 'uint8_t': 'CU8', 'int16_t': 'CI16', 'uint16_t': 'CU16', 'int32_t': 'CI32',
             'uint32_t': 'CU32', 'int64_t': 'CI64', 'uint64_t': 'CU64', 'int': 'CI32', 'unsigned': 'CU32',
             'unsigned int': 'CU32', 'long': 'CI64', 'unsigned long': 'CU64', 'long long': 'CI64',
             'unsigned long long': 'CU64', 'long int': 'CI64', 'char': 'CI8', 'signed char': 'CI8',
             'unsigned char': 'CU8', 'short': 'CI16', 'unsigned short': 'CU16',
             'float': 'CF', 'double': 'CD', 'long double': 'CLD'}
TYPE_WORDS = {'int8_t', 'uint8_t', 'int16_t', 'uint16_t', 'int32_t', 'uint32_t', 'int64_t', 'uint64_t', 'int',
              'unsigned', 'long', 'char', 'short', 'signed', 'float', 'double', 'void', 'const'}


class Unsupported(Exception):
    pass


TOKEN_RE = re.compile(r'''
    (?P<ws>\s+)
  | (?P<num>0[xX][0-9a-fA-F]+[uUlL]*|\d+\.\d*(?:[eE][-+]?\d+)?[fFlL]?|\d+[uUlL]*)
  | (?P<id>[A-Za-z_$][A-Za-z0-9_$]*)
  | (?P<str>"(?:[^"\\]|\\.)*")
  | (?P<op>->|<<=|>>=|<<|>>|<=|>=|==|!=|&&|\|\||\+=|-=|\*=|/=|%=|&=|\|=|\^=|\+\+|--|[-+*/%&|^~!<>=?:;,.(){}\[\]])
''', re.X)


def tokenize(s):
    out = []
    i = 0
    while i < len(s):
        m = TOKEN_RE.match(s, i)
        if not m:
            raise Unsupported('cannot tokenize at: %r' % s[i:i + 30])
        i = m.end()
        k = m.lastgroup
        if k == 'ws':
            continue
        if k == 'str' and out and out[-1][0] == 'str':     # adjacent string literals concatenate
            out[-1] = ('str', out[-1][1][:-1] + m.group(k)[1:])
            continue
        out.append((k, m.group(k)))
    return out


def num_value(tok):
    """(value, ctype) of an integer literal following C11 6.4.4.1 (int=32, long=64)"""
    m = re.match(r'^(0[xX][0-9a-fA-F]+|\d+)([uUlL]*)$', tok)
    if not m:
        raise Unsupported('non-integer literal ' + tok)
    txt, suf = m.group(1), m.group(2).lower()
    hexa = txt.lower().startswith('0x')
    octal = not hexa and len(txt) > 1 and txt[0] == '0'
    v = int(txt, 16) if hexa else int(txt, 8) if octal else int(txt)
    u = 'u' in suf
    l = 'l' in suf
    cands = []
    if not l and not u:
        cands = ['CI32', 'CU32', 'CI64', 'CU64'] if (hexa or octal) else ['CI32', 'CI64']
    elif u and not l:
        cands = ['CU32', 'CU64']
    elif l and not u:
        cands = ['CI64', 'CU64'] if (hexa or octal) else ['CI64']
    else:
        cands = ['CU64']
    rng = {'CI32': 2 ** 31 - 1, 'CU32': 2 ** 32 - 1, 'CI64': 2 ** 63 - 1, 'CU64': 2 ** 64 - 1}
    for c in cands:
        if v <= rng[c]:
            return v, c
    raise Unsupported('integer literal too large: ' + tok)


BINPREC = [('||',), ('&&',), ('|',), ('^',), ('&',), ('==', '!='), ('<', '<=', '>', '>='), ('<<', '>>'), ('+', '-'),
           ('*', '/', '%')]
ASSIGN_OPS = ('=', '+=', '-=', '*=', '/=', '%=', '&=', '|=', '^=', '<<=', '>>=')


class Parser:
    def __init__(self, toks, typedefs=()):
        self.t = toks
        self.i = 0
        self.typedefs = set(typedefs)

    def peek(self, k=0):
        return self.t[self.i + k] if self.i + k < len(self.t) else ('eof', '')

    def next(self):
        x = self.peek()
        self.i += 1
        return x

    def accept(self, v):
        if self.peek()[1] == v and self.peek()[0] in ('op', 'id'):
            self.i += 1
            return True
        return False

    def expect(self, v):
        if not self.accept(v):
            raise Unsupported('expected %r, got %r' % (v, self.peek()))

    def at_end(self):
        return self.i >= len(self.t)

    # ---- types
    def is_type_start(self, k=0):
        kind, v = self.peek(k)
        return kind == 'id' and (v in TYPE_WORDS or v in self.typedefs or v in ('struct', 'union'))

    def parse_type(self):
        """returns (basename, nptr)"""
        words = []
        while self.is_type_start():
            w = self.next()[1]
            if w in ('struct', 'union'):
                w = w + ' ' + self.next()[1]
            if w != 'const':
                words.append(w)
        n = 0
        while self.peek()[1] == '*' and self.peek()[0] == 'op':
            self.next()
            n += 1
            while self.peek()[1] == 'const':
                self.next()
        base = ' '.join(words)
        base = {'signed': 'int', 'long unsigned int': 'unsigned long', 'unsigned long int': 'unsigned long'}.get(base, base)
        return base, n

    # ---- expressions
    def parse_expr(self):
        e = self.parse_assign()
        while self.peek() == ('op', ','):
            self.next()
            e = ('comma', e, self.parse_assign())
        return e

    def parse_assign(self):
        lhs = self.parse_cond()
        if self.peek()[0] == 'op' and self.peek()[1] in ASSIGN_OPS:
            op = self.next()[1]
            rhs = self.parse_assign()
            if op != '=':
                rhs = ('bin', op[:-1], lhs, rhs)
            return ('assign', lhs, rhs)
        return lhs

    def parse_cond(self):
        c = self.parse_bin(0)
        if self.peek() == ('op', '?'):
            self.next()
            a = self.parse_expr()
            self.expect(':')
            b = self.parse_cond()
            return ('cond', c, a, b)
        return c

    def parse_bin(self, lvl):
        if lvl == len(BINPREC):
            return self.parse_unary()
        e = self.parse_bin(lvl + 1)
        while self.peek()[0] == 'op' and self.peek()[1] in BINPREC[lvl]:
            op = self.next()[1]
            r = self.parse_bin(lvl + 1)
            e = ('bin', op, e, r)
        return e

    def parse_unary(self):
        kind, v = self.peek()
        if kind == 'op' and v == '(' and self.is_type_start(1):
            self.next()
            base, n = self.parse_type()
            self.expect(')')
            e = self.parse_unary()
            return ('cast', (base, n), e)
        if kind == 'op' and v in ('-', '~', '!', '+'):
            self.next()
            return ('un', v, self.parse_unary())
        if kind == 'op' and v == '*':
            self.next()
            return ('deref', self.parse_unary())
        if kind == 'op' and v == '&':
            self.next()
            return ('addr', self.parse_unary())
        if kind == 'op' and v == '&&':   # label address
            self.next()
            return ('labaddr', self.next()[1])
        return self.parse_postfix()

    def parse_postfix(self):
        kind, v = self.next()
        if kind == 'num':
            e = ('num', v)
        elif kind == 'id':
            e = ('id', v)
        elif kind == 'str':
            e = ('str', v)
        elif kind == 'op' and v == '(':
            e = self.parse_expr()
            self.expect(')')
        else:
            raise Unsupported('unexpected token %r' % v)
        while True:
            k, v = self.peek()
            if k != 'op':
                break
            if v == '(':
                self.next()
                args = []
                if self.peek() != ('op', ')'):
                    args.append(self.parse_assign())
                    while self.accept(','):
                        args.append(self.parse_assign())
                self.expect(')')
                e = ('call', e, args)
            elif v == '[':
                self.next()
                ix = self.parse_expr()
                self.expect(']')
                e = ('index', e, ix)
            elif v == '.':
                self.next()
                e = ('member', e, self.next()[1])
            elif v == '->':
                self.next()
                e = ('arrow', e, self.next()[1])
            elif v in ('++', '--'):
                self.next()
                e = ('post', v, e)
            else:
                break
        return e

    # ---- statements
    def parse_stmt(self):
        k, v = self.peek()
        if (k, v) == ('op', '{'):
            self.next()
            body = []
            while self.peek() != ('op', '}'):
                if self.at_end():
                    raise Unsupported('unterminated block')
                body.append(self.parse_stmt())
            self.next()
            return ('block', body)
        if (k, v) == ('op', ';'):
            self.next()
            return ('block', [])
        if k == 'id' and v == 'do':
            self.next()
            body = self.parse_stmt()
            self.expect('while')
            self.expect('(')
            c = self.parse_expr()
            self.expect(')')
            self.expect(';')
            if c != ('num', '0'):
                raise Unsupported('loop')
            return body
        if k == 'id' and v == 'if':
            self.next()
            self.expect('(')
            c = self.parse_expr()
            self.expect(')')
            a = self.parse_stmt()
            b = None
            if self.peek() == ('id', 'else'):
                self.next()
                b = self.parse_stmt()
            return ('if', c, a, b)
        if k == 'id' and v == 'return':
            self.next()
            e = None
            if self.peek() != ('op', ';'):
                e = self.parse_expr()
            self.expect(';')
            return ('return', e)
        if k == 'id' and v == 'goto':
            self.next()
            toks = []
            while self.peek() != ('op', ';'):
                toks.append(self.next()[1])
            self.next()
            return ('goto', ' '.join(toks))
        if k == 'id' and v == 'break':
            self.next()
            self.expect(';')
            return ('break',)
        if k == 'id' and v == 'continue':
            self.next()
            self.expect(';')
            return ('continue',)
        if k == 'id' and v == 'while':
            self.next()
            self.expect('(')
            c = self.parse_expr()
            self.expect(')')
            return ('for', None, c, None, self.parse_stmt())
        if k == 'id' and v == 'for':
            self.next()
            self.expect('(')
            init = None
            if self.peek() == ('op', ';'):
                self.next()
            else:
                init = self.parse_stmt()          # a declaration or an expression statement, consumes the ';'
            c = None if self.peek() == ('op', ';') else self.parse_expr()
            self.expect(';')
            step = None if self.peek() == ('op', ')') else self.parse_expr()
            self.expect(')')
            return ('for', init, c, step, self.parse_stmt())
        if k == 'id' and v == 'switch':
            self.next()
            self.expect('(')
            c = self.parse_expr()
            self.expect(')')
            body = self.parse_stmt()
            if body[0] != 'block':
                raise Unsupported('switch without a block')
            return ('switch', c, body[1])
        if k == 'id' and v == 'case':
            self.next()
            e = self.parse_cond()
            self.expect(':')
            return ('case', e)
        if k == 'id' and v == 'default' and self.peek(1) == ('op', ':'):
            self.next()
            self.next()
            return ('default',)
        if k == 'id' and self.peek(1) == ('op', ':') and not self.is_type_start():
            self.next()
            self.next()
            return ('label', v)
        if self.is_type_start():
            base, n0 = self.parse_type()
            decls = []
            first = True
            while True:
                n = n0 if first else 0
                first = False
                while self.accept('*'):
                    n += 1
                name = self.next()
                if name[0] != 'id':
                    raise Unsupported('declarator')
                init = None
                if self.accept('='):
                    init = self.parse_assign()
                decls.append((name[1], (base, n), init))
                if not self.accept(','):
                    break
            self.expect(';')
            return ('decl', decls)
        e = self.parse_expr()
        self.expect(';')
        return ('expr', e)


def parse_stmts(text, typedefs=()):
    p = Parser(tokenize(text), typedefs)
    out = []
    while not p.at_end():
        out.append(p.parse_stmt())
    return out


def parse_expr_text(text, typedefs=()):
    p = Parser(tokenize(text), typedefs)
    e = p.parse_expr()
    if not p.at_end():
        raise Unsupported('trailing tokens in expression: %r' % (p.peek(),))
    return e


# ---------------------------------------------------------------- Coq emission of CExpr terms
BINOPS = {'+': 'Oadd', '-': 'Osub', '*': 'Omul', '/': 'Odiv', '%': 'Omod', '&': 'Oand', '|': 'Oor', '^': 'Oxor',
          '<<': 'Oshl', '>>': 'Oshr', '==': 'Oeq', '!=': 'One', '<': 'Olt', '<=': 'Ole', '>': 'Ogt', '>=': 'Oge'}
UNOPS = {'-': 'Uneg', '~': 'Ubnot', '!': 'Ulnot'}


def zlit(v):
    return '(%d)' % v if v < 0 else '%d' % v


def coq_expr(e):
    """e: symbolic cexpr tuple -> Coq text"""
    k = e[0]
    if k == 'EVar':
        return '(EVar %d %s)' % (e[1], e[2])
    if k == 'EConst':
        return '(EConst %s %s)' % (zlit(e[1]), e[2])
    if k == 'ECast':
        return '(ECast %s %s)' % (e[1], coq_expr(e[2]))
    if k == 'EUn':
        return '(EUn %s %s)' % (e[1], coq_expr(e[2]))
    if k == 'EBin':
        return '(EBin %s %s %s)' % (e[1], coq_expr(e[2]), coq_expr(e[3]))
    if k == 'ECond':
        return '(ECond %s %s %s)' % (coq_expr(e[1]), coq_expr(e[2]), coq_expr(e[3]))
    raise Unsupported('not a cexpr: %r' % (e,))


def coq_opt(e):
    return 'None' if e is None else '(Some %s)' % coq_expr(e)


def coq_string(s):
    s = re.sub(r'\s+', ' ', s.strip())[:160]
    return '"' + s.replace('"', '""') + '"'


def coq_stmt(s):
    k = s[0]
    if k == 'SAssign':
        return '(SAssign %s %s)' % (s[1], coq_expr(s[2]))
    if k == 'SBranch':
        return '(SBranch %s)' % coq_expr(s[1])
    if k == 'SOvf':
        return '(SOvf %s %s %s %s)' % (s[1], coq_expr(s[2]), coq_opt(s[3]), coq_opt(s[4]))
    if k == 'SLoad':
        return '(SLoad %s %s)' % (s[1], s[2])
    if k == 'SStore':
        return '(SStore %s %s)' % (s[1], coq_expr(s[2]))
    if k == 'SNone':
        return 'SNone'
    return '(SUnknown %s)' % coq_string(s[1])


def ctype_of(base, nptr=0):
    if nptr:
        raise Unsupported('pointer type where a value type is needed: %s%s' % (base, '*' * nptr))
    if base not in INT_TYPES:
        raise Unsupported('unknown C type ' + base)
    return INT_TYPES[base]


def conv(t, e):
    """implicit conversion of e to t; omitted only when e syntactically already has type t"""
    if e[0] == 'ECast' and e[1] == t:
        return e
    if e[0] in ('EVar', 'EConst') and e[2] == t:
        return e
    return ('ECast', t, e)


# ---------------------------------------------------------------- extraction of C function bodies
def find_function(src, name):
    """text of the body (between the outer braces) and parameter text of function `name` in
    preprocessed C source"""
    for m in re.finditer(r'\b%s\s*\(' % re.escape(name), src):
        # find matching paren
        i = m.end()
        depth = 1
        while depth and i < len(src):
            depth += {'(': 1, ')': -1}.get(src[i], 0)
            i += 1
        params = src[m.end():i - 1]
        j = i
        while j < len(src) and src[j] in ' \t\r\n':
            j += 1
        if j < len(src) and src[j] == '{':
            k = j + 1
            depth = 1
            while depth and k < len(src):
                depth += {'{': 1, '}': -1}.get(src[k], 0)
                k += 1
            return params, src[j + 1:k - 1]
    return None


def split_params(params):
    out = []
    for p in params.split(','):
        p = p.strip()
        if not p or p == 'void':
            continue
        m = re.match(r'^(.*?)([A-Za-z_][A-Za-z0-9_]*)$', p)
        ty = m.group(1).strip()
        n = ty.count('*')
        ty = ty.replace('*', '').replace('const', '').strip()
        out.append((m.group(2), (re.sub(r'\s+', ' ', ty), n)))
    return out

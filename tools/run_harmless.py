#!/usr/bin/env python3
# coordinator: take independently written HARMLESS changes (/tmp/mut/hout-Cxx/h<k>: patch.diff + meta.json),
# confirm in a scratch worktree of /repo HEAD that they apply, build and pass the repo suite, store them under
# /verif/seeded/harmless/<Cxx>-h<k>/ and run ./check <Cxx> against them: any VIOLATION here is a false alarm
# (or a tie break reported as no-failing-input-found).
import sys, os, json, subprocess, shutil, glob
H = os.path.dirname(os.path.dirname(os.path.abspath(__file__)))


def sh(cmd, cwd=None, timeout=3600, env=None):
    p = subprocess.run(cmd, shell=True, cwd=cwd, capture_output=True, text=True, timeout=timeout, env=env)
    return p.returncode, p.stdout + p.stderr


def one(src, tests=True):
    meta = json.load(open(os.path.join(src, 'meta.json')))
    prop = meta['property']
    name = '%s-%s' % (prop, os.path.basename(src))
    dst = os.path.join(H, 'seeded', 'harmless', name)
    wt = '/var/tmp/hs-%s' % name
    sh('git -C /repo worktree remove --force %s' % wt)
    sh('git -C /repo worktree add -q --detach %s' % wt)
    res = dict(name=name)
    try:
        patch = os.path.join(dst if os.path.exists(os.path.join(dst, 'patch.diff')) else src, 'patch.diff')
        rc, out = sh('git apply %s || git apply --3way %s' % (patch, patch), cwd=wt)
        res['applies'] = rc == 0
        if rc:
            res['err'] = out[-300:]
            return res
        sh('git diff HEAD > /var/tmp/hs-%s.diff' % name, cwd=wt)
        if tests and not os.path.exists(os.path.join(dst, 'meta.json')):
            rc, out = sh('cmake -G Ninja -B _build -DCMAKE_BUILD_TYPE=RelWithDebInfo -DCMAKE_C_FLAGS=-Wno-error . >/dev/null && '
                         'cmake --build _build -- -k 0 -j8 > build.log 2>&1; grep ^FAILED: build.log | grep -v l2m; '
                         'ctest --test-dir _build -j8 --timeout 900 2>&1 | tail -4', cwd=wt)
            res['tests_pass'] = '100% tests passed' in out and 'FAILED:' not in out
            sh('rm -rf _build', cwd=wt)
            if not res['tests_pass']:
                res['err'] = out[-300:]
                return res
            os.makedirs(dst, exist_ok=True)
            shutil.copy('/var/tmp/hs-%s.diff' % name, os.path.join(dst, 'patch.diff'))
            meta['confirmed_by_coordinator'] = 'applies to /repo HEAD %s, builds, repo suite 45/45' % subprocess.run(
                'git -C /repo rev-parse --short HEAD', shell=True, capture_output=True, text=True).stdout.strip()
            json.dump(meta, open(os.path.join(dst, 'meta.json'), 'w'), indent=1)
        if not os.path.exists(os.path.join(H, 'checks', prop.lower() + '.meta.json')):
            res['check'] = 'not registered'
            return res
        env = dict(os.environ, VERIF_REPO=wt, VERIF_SEED='1')
        rc, out = sh('%s/check %s --tier quick' % (H, prop), cwd=H, env=env)
        viol = [l for l in out.split('\n') if l.startswith('VIOLATION')]
        res.update(check_rc=rc, alarm=bool(viol) or rc != 0, violations=viol[:3], tail=out[-500:] if (viol or rc) else '')
        return res
    finally:
        sh('git -C /repo worktree remove --force %s' % wt)
        try:
            os.remove('/var/tmp/hs-%s.diff' % name)
        except OSError:
            pass


if __name__ == '__main__':
    srcs = sys.argv[1:] or sorted(glob.glob('/tmp/mut/hout-C*/h[0-9]'))
    for s in srcs:
        if os.path.exists(os.path.join(s, 'meta.json')) and os.path.exists(os.path.join(s, 'patch.diff')):
            try:
                print(json.dumps(one(s)), flush=True)
            except Exception as e:
                print(json.dumps(dict(name=s, error=str(e))), flush=True)

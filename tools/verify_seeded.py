#!/usr/bin/env python3
# coordinator: confirm an independently written breaking change (from /tmp/mut/out-Cxx/m<k>) in a scratch
# worktree of /repo HEAD: demo passes on the clean tree, patch applies and builds, the repo suite passes,
# demo fails with the patch.  Confirmed ones are stored as /verif/seeded/<Cxx>-m<k>/.
import sys, os, json, subprocess, shutil, glob, time
H = os.path.dirname(os.path.dirname(os.path.abspath(__file__)))


def sh(cmd, cwd=None, timeout=3600):
    p = subprocess.run(cmd, shell=True, cwd=cwd, capture_output=True, text=True, timeout=timeout)
    return p.returncode, (p.stdout + p.stderr)


def verify(src):
    meta = json.load(open(os.path.join(src, 'meta.json')))
    prop = meta['property']
    name = '%s-%s' % (prop, os.path.basename(src))
    dst = os.path.join(H, 'seeded', name)
    if os.path.exists(os.path.join(dst, 'meta.json')):
        return name, 'already stored'
    wt = '/var/tmp/vs-%s' % name
    sh('git -C /repo worktree remove --force %s' % wt)
    rc, out = sh('git -C /repo worktree add -q --detach %s' % wt)
    if rc:
        return name, 'worktree failed: ' + out[-200:]
    res = {}
    try:
        demo = os.path.join(src, 'demo.sh')
        rc, out = sh('sh %s %s' % (demo, wt), cwd=src, timeout=1800)
        res['demo_clean_rc'] = rc
        rc, out = sh('git apply %s' % os.path.join(src, 'patch.diff'), cwd=wt)
        if rc:
            rc, out = sh('git apply --3way %s' % os.path.join(src, 'patch.diff'), cwd=wt)
        res['applies'] = rc == 0
        if rc:
            return name, 'patch does not apply: ' + out[-300:]
        sh('git diff HEAD > /var/tmp/vs-%s.diff' % name, cwd=wt)
        rc, out = sh('cmake -G Ninja -B _build -DCMAKE_BUILD_TYPE=RelWithDebInfo -DCMAKE_C_FLAGS=-Wno-error . >/dev/null && '
                     'cmake --build _build -- -k 0 -j8 > build.log 2>&1; grep ^FAILED: build.log | grep -v l2m', cwd=wt, timeout=3600)
        res['build_failures_other_than_l2m'] = '\n'.join(l for l in out.split('\n') if l.startswith('FAILED:'))
        rc, out = sh('ctest --test-dir _build -j8 --timeout 900 2>&1 | tail -4', cwd=wt, timeout=3600)
        res['ctest'] = out.strip().split('\n')[0] if out.strip() else ''
        res['tests_pass'] = '100% tests passed' in out
        rc, out = sh('sh %s %s' % (demo, wt), cwd=src, timeout=1800)
        res['demo_mutated_rc'] = rc
        res['demo_mutated_tail'] = out[-400:]
        ok = res['demo_clean_rc'] == 0 and res['tests_pass'] and res['demo_mutated_rc'] != 0 and not res['build_failures_other_than_l2m']
        res['confirmed'] = ok
        if ok:
            os.makedirs(dst, exist_ok=True)
            for f in os.listdir(src):
                p = os.path.join(src, f)
                if os.path.isfile(p) and os.path.getsize(p) < 2_000_000 and not f.endswith('.log'):
                    shutil.copy(p, dst)
            shutil.copy('/var/tmp/vs-%s.diff' % name, os.path.join(dst, 'patch.diff'))  # rebased on current /repo HEAD
            meta['confirmed_by_coordinator'] = res
            meta['repo_head_when_confirmed'] = subprocess.run('git -C /repo rev-parse --short HEAD', shell=True, capture_output=True, text=True).stdout.strip()
            meta['what_was_run'] = ('scratch worktree of /repo HEAD: demo.sh on clean tree (exit 0); git apply patch.diff; cmake+ninja build; '
                                    'ctest 45/45; demo.sh on mutated tree (exit != 0)')
            json.dump(meta, open(os.path.join(dst, 'meta.json'), 'w'), indent=1)
        return name, res
    finally:
        sh('git -C /repo worktree remove --force %s' % wt)
        try:
            os.remove('/var/tmp/vs-%s.diff' % name)
        except OSError:
            pass


if __name__ == '__main__':
    srcs = sys.argv[1:] or sorted(glob.glob('/tmp/mut/out-C*/m[0-9]'))
    for s in srcs:
        if not os.path.exists(os.path.join(s, 'meta.json')) or not os.path.exists(os.path.join(s, 'patch.diff')):
            continue
        try:
            name, r = verify(s)
        except Exception as e:
            name, r = s, 'error %s' % e
        print(name, json.dumps(r) if isinstance(r, dict) else r, flush=True)

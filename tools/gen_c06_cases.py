# C06: MIR callee generator (function `f` entered from a native caller), trampoline input image
# builder and result comparison.  Uses the prototype generator of gen_c05_cases.
import gen_c05_cases as G

SENT = [0x1111111111111b0b, 0x2222222222222b9b, 0x3333333333333c12, 0x4444444444444c13, 0x5555555555555c14,
        0x6666666666666c15]
SENT_NAMES = ['rbx', 'rbp', 'r12', 'r13', 'r14', 'r15']
XO = 1536          # extra observations in outs
PO = 3072          # pressure constants in vals
RO = 2560          # result values in vals
VA_BUF = 1984      # va_list placed in outs when not alloca'ed
VAO = 1920         # copy of the va_list right after va_start
NPRESS = 22
NLEAF = 26        # live integers of a leafalloca body (press has NLEAF entries there)
LAN = PO + 8 * 28   # variable alloca size of a leafalloca body in vals
CO = 4096          # argument values of the nested call of an xcall body in vals
FO = 5120          # fp pressure values of an xcall body in vals
XR = XO + 256      # results of the nested call of an xcall body in outs
VC1, VC0 = 2688, 2696   # a word that is 1 / a word that is 0 in vals (branch conditions the optimiser cannot see)
SCR = 4096         # scratch in outs (not printed): destination of skipped va_block_arg copies


def func_header(proto):
    parts = list(proto['res'])
    for i, t in enumerate(proto['args'][:proto['nfixed']]):
        if G.is_blk(t):
            k, s = t.split(':')
            parts.append('%s:%s(a%d)' % (k, s, i))
        else:
            parts.append('%s:a%d' % (t, i))
    if proto['vararg']:
        parts.append('...')
    return 'f: func ' + ', '.join(parts)


def copy_block(L, dst_reg, dst_off, src_reg, size):
    k = 0
    while k + 8 <= size:
        L.append('mov i64:%d(%s), i64:%d(%s)' % (dst_off + k, dst_reg, k, src_reg))
        k += 8
    while k < size:
        L.append('mov u8:%d(%s), u8:%d(%s)' % (dst_off + k, dst_reg, k, src_reg))
        k += 1


def c06_mir(proto, body):
    """body: dict(kind in plain|pressure|alloca|fppress|call, va_alloca bool, alloca_n int)"""
    offs, _ = G.layout(proto)
    L = ['m: module', 'hp: proto i64, i64:a, i64:b',
         'pp: proto i64, i64:a, i64:b, i64:c, i64:d, i64:e, i64:f, i64:g, d:i',
         'import outs, vals, helper, probe', 'export f']
    if body['kind'] == 'inl':
        L += ['gp: proto i64, i64:x', 'forward ig, ih']
    if body['kind'] == 'xcall':
        L.append(G.proto_text(body['cproto'], 'cp'))
    L.append(func_header(proto))
    loc = ['i64:o', 'i64:v', 'i64:t', 'i64:dst', 'i64:va', 'i64:s', 'i64:h', 'i64:ap', 'i64:am', 'i64:an', 'i64:ap2', 'd:dz']
    B = ['mov o, outs', 'mov v, vals']
    kind = body['kind']
    nf = proto['nfixed']
    # register pressure: values loaded before the parameters are stored and kept live to the end
    if kind in ('pressure', 'call'):
        for k in range(NPRESS):
            loc.append('i64:p%d' % k)
            B.append('mov p%d, i64:%d(v)' % (k, PO + 8 * k))
    if kind == 'leafpress':
        for k in range(body['nlive']):
            loc.append('i64:p%d' % k)
            B.append('mov p%d, i64:%d(v)' % (k, PO + 8 * k))
    if kind == 'fppress':
        for k in range(NPRESS):
            loc.append('d:q%d' % k)
            B.append('dmov q%d, d:%d(v)' % (k, PO + 8 * k))
    if kind == 'leafalloca':
        # a LEAF function (no call, nothing lowered to a builtin call) that executes alloca while nlive integers and
        # nlived doubles are live: spill slots + saved callee-saved registers take both parities over nlive x level
        mode = body.get('lamode', 'const')
        loc += ['i64:ap5', 'i64:ap6']
        if mode in ('var', 'both', 'late'):
            B.append('mov an, i64:%d(v)' % LAN)
        if mode != 'late':
            B.append('alloca ap, an' if mode in ('var', 'both') else 'alloca ap, %d' % body.get('lasize', 48))
        for k in range(body['nlive']):
            loc.append('i64:p%d' % k)
            B.append('mov p%d, i64:%d(v)' % (k, PO + 8 * k))
        for k in range(body.get('nlived', 0)):
            loc.append('d:q%d' % k)
            B.append('dmov q%d, d:%d(v)' % (k, FO + 8 * k))
        if mode == 'late':     # the first alloca while everything is live already
            B.append('alloca ap, an')
        B.append('mov i64:0(ap), 81985529216486895')
        B.append('and am, ap, 15')
        B.append('mov i64:%d(o), am' % (XO + 8))
        if mode in ('both', 'late'):   # a second block, constant size, allocated while everything is live
            B.append('alloca ap5, %d' % body.get('lasize', 48))
        else:
            B.append('mov ap5, ap')
        B.append('mov i64:8(ap5), 1311768467463790320')
        B.append('and am, ap5, 15')
        B.append('mov i64:%d(o), am' % (XO + 16))
    if kind == 'xcall':
        for k in range(body['ni']):
            loc.append('i64:p%d' % k)
            B.append('mov p%d, i64:%d(v)' % (k, PO + 8 * k))
        for k in range(body['nd']):
            loc.append('d:q%d' % k)
            B.append('dmov q%d, d:%d(v)' % (k, FO + 8 * k))
        if body.get('xalloca'):
            B.append('alloca ap, 48')
            B.append('mov i64:40(ap), 81985529216486895')
    if kind == 'alloca':
        B.append('mov an, i64:%d(v)' % PO)
        if body.get('bstart'):
            # a block with automatic deallocation (what inlining of alloca-using callees produces)
            loc.append('i64:bs')
            loc.append('i64:ap3')
            B.append('bstart bs')
            B.append('alloca ap3, an')
            B.append('mov i64:0(ap3), 7')
            B.append('and am, ap3, 15')
            B.append('mov i64:%d(o), am' % (XO + 40))
            B.append('bend bs')
        B.append('alloca ap, an')
        B.append('and am, ap, 15')
        B.append('mov i64:%d(o), am' % (XO + 8))
        B.append('mov i64:0(ap), 81985529216486895')
        B.append('alloca ap2, 40')
        B.append('and am, ap2, 15')
        B.append('mov i64:%d(o), am' % (XO + 16))
        B.append('mov i64:32(ap2), 1311768467463790320')
        # a constant size that reaches the alloca through a register (folded in by later passes)
        loc.append('i64:cs')
        loc.append('i64:ap4')
        B.append('mov cs, %d' % body.get('alloca_k', 24))
        B.append('alloca ap4, cs')
        B.append('and am, ap4, 15')
        B.append('mov i64:%d(o), am' % (XO + 48))
        B.append('mov u8:0(ap4), 90')
        # adjacent constant allocas (merged into one by simplification): every block's address is reported
        for k, sz in enumerate(body.get('msizes', [])):
            loc.append('i64:m%d' % k)
        for k, sz in enumerate(body.get('msizes', [])):
            B.append('alloca m%d, %d' % (k, sz))
        for k, sz in enumerate(body.get('msizes', [])):
            B.append('mov i64:%d(o), m%d' % (XO + 56 + 8 * k, k))
            B.append('mov u8:0(m%d), %d' % (k, 17 + k))
            B.append('mov u8:%d(m%d), %d' % (sz - 1, k, 33 + k))
    # store every named parameter
    for i, (t, off) in enumerate(zip(proto['args'][:nf], offs)):
        if t.startswith('rblk'):
            B.append('mov i64:%d(o), a%d' % (off, i))
            B.append('mov i64:0(a%d), %d' % (i, 0x7700 + i))  # the return block must be writable
        elif G.is_blk(t):
            copy_block(B, 'o', off, 'a%d' % i, G.ty_size(t))
        elif t in ('f', 'd', 'ld'):
            B.append('%s %s:%d(o), a%d' % ({'f': 'fmov', 'd': 'dmov', 'ld': 'ldmov'}[t], t, off, i))
        else:
            B.append('mov i64:%d(o), a%d' % (off, i))
    # variadic tail
    if proto['vararg']:
        if body.get('va_alloca', True):
            B.append('alloca va, 32')
        else:
            B.append('add va, o, %d' % VA_BUF)
        B.append('va_start va')
        for k in (0, 8, 16):
            B.append('mov i64:%d(o), i64:%d(va)' % (VAO + k, k))
        if body.get('vaplan'):
            loc += ['i64:tz', 'i64:cnd', 'i64:lc']
            if body.get('deadfx'):
                # other insns with side effects whose outputs are dead
                loc += ['i64:dda', 'i64:ddh']
                B.append('alloca dda, 24')
                B.append('call hp, helper, ddh, 3, 4')
        i = nf
        for pk, (mode, k) in enumerate(norm_plan(proto, body)):
            t, off = proto['args'][i], offs[i]

            def rd(dst_reg, store, t=t):
                """one va_arg / va_block_arg of type t; store=None: the value is not looked at"""
                if G.is_blk(t):
                    kk, sz = t.split(':')
                    case = int(kk[3:]) if len(kk) > 3 else 0
                    B.append('add dst, o, %d' % (store if store is not None else SCR))
                    B.append('va_block_arg dst, va, %s, %d' % (sz, case))
                    return
                mt = t if t in ('d', 'ld') else 'i64'
                mv = {'d': 'dmov', 'ld': 'ldmov'}.get(t, 'mov')
                B.append('va_arg %s, va, %s:0' % (dst_reg, mt))
                if store is not None:
                    B.append('%s %s:%d(o), %s:(%s)' % (mv, mt, store, mt, dst_reg))
            if mode == 'use':
                rd('t', off)
            elif mode == 'skip':       # result register never read
                rd('tz', None)
            elif mode == 'over':       # result overwritten by the next va_arg before being read
                rd('t', None)
            elif mode == 'branch':     # the value is used on one path only
                B.append('mov cnd, i64:%d(v)' % (VC1 if k else VC0))
                if G.is_blk(t):
                    B.append('bf vs%d, cnd' % pk)
                    rd('t', off)
                    B.append('jmp ve%d' % pk)
                    B.append('vs%d:' % pk)
                    rd('t', None)
                    B.append('ve%d:' % pk)
                else:
                    mt = t if t in ('d', 'ld') else 'i64'
                    B.append('va_arg t, va, %s:0' % mt)
                    B.append('bf ve%d, cnd' % pk)
                    B.append('%s %s:%d(o), %s:(t)' % ({'d': 'dmov', 'ld': 'ldmov'}.get(t, 'mov'), mt, off, mt))
                    B.append('ve%d:' % pk)
            elif mode == 'either':     # one path reads and uses, the other reads and drops
                B.append('mov cnd, i64:%d(v)' % (VC1 if k else VC0))
                B.append('bf vs%d, cnd' % pk)
                rd('t', off)
                B.append('jmp ve%d' % pk)
                B.append('vs%d:' % pk)
                rd('tz', None)
                B.append('ve%d:' % pk)
            elif mode in ('loopskip', 'looplast'):
                # k arguments of one type consumed by a loop: none / only the last one is looked at
                B.append('mov lc, %d' % k)
                B.append('vl%d:' % pk)
                if G.is_blk(t):
                    rd('t', offs[i + k - 1] if mode == 'looplast' else None)
                else:
                    rd('t' if mode == 'looplast' else 'tz', None)
                B.append('sub lc, lc, 1')
                B.append('bgt vl%d, lc, 0' % pk)
                if mode == 'looplast' and not G.is_blk(t):
                    mt = t if t in ('d', 'ld') else 'i64'
                    B.append('%s %s:%d(o), %s:(t)' % ({'d': 'dmov', 'ld': 'ldmov'}.get(t, 'mov'), mt, offs[i + k - 1], mt))
            i += 1 if mode not in ('loopskip', 'looplast') else k
        B.append('va_end va')
    if kind in ('pressure', 'call'):
        B.append('call hp, helper, h, p0, p1')
        if kind == 'call':
            B.append('dmov dz, d:%d(v)' % PO)
            B.append('call pp, probe, s, p2, p3, p4, p5, p6, p7, p8, dz')
        B.append('mov s, h')
        for k in range(NPRESS):
            B.append('add s, s, p%d' % k)
            B.append('lsh s, s, 1')
        B.append('mov i64:%d(o), s' % XO)
    if kind == 'xcall':
        # a call of every argument-placement kind made by the function itself, with ni integers and nd doubles
        # live across it (and across the argument set-up): register / stack scalars, blocks copied to the stack
        cp = body['cproto']
        coffs, _ = G.layout(cp)
        if body.get('hcall'):
            B.append('call hp, helper, h, 5, 7')
        ops = []
        for i, (t, off) in enumerate(zip(cp['args'], coffs)):
            rt = G.reg_type(t)
            loc.append('%s:c%d' % (rt, i))
            if G.is_blk(t):
                B.append('add c%d, v, %d' % (i, CO + off))
                kk, sz = t.split(':')
                ops.append('%s:%s(c%d)' % (kk, sz, i))
            else:
                mv = {'f': 'fmov', 'd': 'dmov', 'ld': 'ldmov'}.get(t, 'mov')
                mt = t if t in ('f', 'd', 'ld') else 'i64'
                B.append('%s c%d, %s:%d(v)' % (mv, i, mt, CO + off))
                ops.append('c%d' % i)
        crs = []
        for i, t in enumerate(cp['res']):
            loc.append('%s:cr%d' % (G.reg_type(t), i))
            crs.append('cr%d' % i)
        B.append('call ' + ', '.join(['cp', 'probe'] + crs + ops))
        for i, t in enumerate(cp['res']):
            mv = {'f': 'fmov', 'd': 'dmov', 'ld': 'ldmov'}.get(t, 'mov')
            mt = t if t in ('f', 'd', 'ld') else 'i64'
            B.append('%s %s:%d(o), cr%d' % (mv, mt, XR + 16 * i, i))
        B.append('mov s, %d' % (3 if not body.get('hcall') else 0))
        if body.get('hcall'):
            B.append('add s, s, h')
        for k in range(body['ni']):
            B.append('add s, s, p%d' % k)
            B.append('lsh s, s, 1')
        B.append('mov i64:%d(o), s' % XO)
        B.append('dmov dz, d:%d(v)' % (FO + 8 * 30))
        for k in range(body['nd']):
            B.append('dadd dz, dz, q%d' % k)
        B.append('dmov d:%d(o), dz' % (XO + 8))
        if body.get('xalloca'):
            B.append('mov i64:%d(o), i64:40(ap)' % (XO + 16))
            B.append('and am, ap, 15')
            B.append('mov i64:%d(o), am' % (XO + 24))
    if kind == 'leafpress':
        # two rounds so that every value is live across the whole first round
        B.append('mov s, 0')
        for rnd in range(2):
            for k in range(body['nlive']):
                B.append('add s, s, p%d' % k)
                B.append('lsh s, s, 1')
        B.append('mov i64:%d(o), s' % XO)
    if kind == 'leafalloca':
        B.append('mov s, i64:0(ap)')
        for rnd in range(2):
            for k in range(body['nlive']):
                B.append('add s, s, p%d' % k)
                B.append('lsh s, s, 1')
        B.append('add s, s, i64:8(ap5)')
        B.append('mov i64:%d(o), s' % XO)
        B.append('dmov dz, d:%d(v)' % (FO + 8 * 30))
        for k in range(body.get('nlived', 0)):
            B.append('dadd dz, dz, q%d' % k)
        B.append('dmov d:%d(o), dz' % (XO + 24))
        if body.get('lamode') == 'var':   # one more block at the end: the stack pointer after the first alloca is aligned too
            B.append('alloca ap6, an')
            B.append('mov u8:0(ap6), 1')
            B.append('and am, ap6, 15')
            B.append('mov i64:%d(o), am' % (XO + 32))
    if kind == 'fppress':
        B.append('call hp, helper, h, 5, 7')
        B.append('dmov dz, q0')
        for k in range(1, NPRESS):
            B.append('dadd dz, dz, q%d' % k)
        B.append('dmov d:%d(o), dz' % XO)
        B.append('mov i64:%d(o), h' % (XO + 24))
    if kind == 'inl':
        # callee allocas merged into the caller's top alloca by inlining (f before ig before ih: nested)
        loc.append('i64:ia')
        B.append('alloca ia, 16')
        B.append('mov i64:0(ia), 5')
        B.append('inline gp, ig, s, 7')
        B.append('mov i64:%d(o), s' % (XO + 112))
        B.append('mov i64:%d(o), i64:0(ia)' % (XO + 120))
    if kind == 'alloca':
        B.append('call hp, helper, h, 5, 7')
        B.append('dmov dz, d:%d(v)' % (PO + 8))
        B.append('call pp, probe, s, an, an, an, an, an, an, an, dz')
        for k, sz in enumerate(body.get('msizes', [])):
            loc.append('i64:mc%d' % k)
            B.append('mov mc%d, u8:0(m%d)' % (k, k))
            B.append('lsh mc%d, mc%d, 8' % (k, k))
            B.append('mov t, u8:%d(m%d)' % (sz - 1, k))
            B.append('or mc%d, mc%d, t' % (k, k))
            B.append('mov i64:%d(o), mc%d' % (XO + 128 + 8 * k, k))
        B.append('mov i64:%d(o), i64:0(ap)' % (XO + 24))
        B.append('mov i64:%d(o), i64:32(ap2)' % (XO + 32))
        B.append('mov i64:%d(o), h' % XO)
    # results
    rops = []
    for i, t in enumerate(proto['res']):
        rt = G.reg_type(t)
        loc.append('%s:r%d' % (rt, i))
        mv = {'f': 'fmov', 'd': 'dmov', 'ld': 'ldmov'}.get(t, 'mov')
        mt = t if t in ('f', 'd', 'ld') else 'i64'
        B.append('%s r%d, %s:%d(v)' % (mv, i, mt, RO + 16 * i))
        rops.append('r%d' % i)
    L.append('local ' + ', '.join(loc))
    L += B
    L.append('ret ' + ', '.join(rops) if rops else 'ret')
    L.append('endfunc')
    if kind == 'inl':
        L += ['ig: func i64, i64:x', 'local i64:b, i64:r', 'alloca b, 1', 'mov u8:0(b), 1', 'inline gp, ih, r, x',
              'mov x, u8:0(b)', 'sub x, x, 1', 'or r, r, x', 'ret r', 'endfunc',
              'ih: func i64, i64:x', 'local i64:c, i64:r', 'alloca c, 8', 'mov i64:0(c), x', 'and r, c, 7', 'ret r', 'endfunc']
    L.append('endmodule')
    return '\n'.join(L) + '\n'


# ---------------------------------------------------------------- how a variadic body consumes its tail
# plan = list of [mode, k]: use | skip | over | branch (k = condition) | either (k = condition) | loopskip (k args) |
# looplast (k args).  Without a plan every argument is read and stored.

def va_class(t):
    return t if (G.is_blk(t) or t in ('d', 'ld')) else 'int'


def norm_plan(proto, body):
    """the plan cut / padded so that it covers the variadic arguments exactly (shrinking removes arguments)"""
    nf, n = proto['nfixed'], len(proto['args'])
    out, i = [], nf
    for mode, k in (body.get('vaplan') or []):
        if i >= n:
            break
        if mode in ('loopskip', 'looplast'):
            k = max(1, min(k, n - i))
            c = va_class(proto['args'][i])
            j = 1
            while j < k and va_class(proto['args'][i + j]) == c:
                j += 1
            k = j
            out.append((mode, k))
            i += k
        else:
            out.append((mode, k))
            i += 1
    while i < n:
        out.append(('use', 1))
        i += 1
    return out


def va_observed(proto, body):
    """indices of the arguments whose values the body stores into outs"""
    nf = proto['nfixed']
    obs = set(range(nf))
    i = nf
    for mode, k in norm_plan(proto, body):
        if mode == 'use' or (mode in ('branch', 'either') and k):
            obs.add(i)
        if mode == 'looplast':
            obs.add(i + k - 1)
        i += k if mode in ('loopskip', 'looplast') else 1
    return obs


def plan_remove(proto, body, idx):
    """the plan after argument idx is removed from the prototype"""
    if not body.get('vaplan') or idx < proto['nfixed']:
        return body
    out, i = [], proto['nfixed']
    for mode, k in norm_plan(proto, body):
        w = k if mode in ('loopskip', 'looplast') else 1
        if i <= idx < i + w:
            if w > 1:
                out.append([mode, k - 1])
        else:
            out.append([mode, k])
        i += w
    return dict(body, vaplan=out)


VA_STRATEGIES = ['random', 'random', 'skipfirst', 'alternate', 'lastonly', 'loops', 'paths']


def va_plan(rng, proto, strategy=None):
    """a consumption plan for the variadic tail: arguments of every class skipped (result unused / overwritten / used on
    one path only), singly, in loops and in branches, with later arguments still read"""
    nf, n = proto['nfixed'], len(proto['args'])
    st = strategy or rng.choice(VA_STRATEGIES)
    plan, i = [], nf
    while i < n:
        run = 1
        while i + run < n and va_class(proto['args'][i + run]) == va_class(proto['args'][i]):
            run += 1
        last = i == n - 1
        if st == 'skipfirst':
            m = ['skip', 0] if i == nf else ['use', 1]
        elif st == 'alternate':
            m = [['skip', 'over'][(i - nf) // 2 % 2], 0] if (i - nf) % 2 == 0 and not last else ['use', 1]
        elif st == 'lastonly':
            m = ['use', 1] if last else [rng.choice(['skip', 'over']), 0]
        elif st == 'loops' and run >= 2 and rng.random() < 0.7:
            m = [rng.choice(['loopskip', 'looplast']), rng.randint(2, run)]
        elif st == 'paths':
            m = [rng.choice(['branch', 'either', 'either', 'use']), rng.randint(0, 1)]
        else:
            r = rng.random()
            if run >= 2 and r < 0.15:
                m = [rng.choice(['loopskip', 'looplast']), rng.randint(2, run)]
            elif r < 0.5:
                m = ['use', 1]
            else:
                m = [rng.choice(['skip', 'skip', 'over', 'branch', 'either']), rng.randint(0, 1)]
        plan.append(m)
        i += m[1] if m[0] in ('loopskip', 'looplast') else 1
    return plan


def va_plan_kind(proto, body):
    """summary for the measured distribution"""
    if not proto['vararg'] or not body.get('vaplan'):
        return 'every variadic argument read and used' if proto['vararg'] else None
    pl = norm_plan(proto, body)
    obs = va_observed(proto, body)
    n = len(proto['args'])
    skipped = [i for i in range(proto['nfixed'], n) if i not in obs]
    if not skipped:
        return 'planned, nothing skipped'
    later = any(j in obs for j in range(min(skipped) + 1, n))
    coarse = {'skip': 'unused', 'over': 'overwritten', 'branch': 'one-path', 'either': 'one-path', 'loopskip': 'loop', 'looplast': 'loop'}
    return 'skips (%s), %s' % ('+'.join(sorted(set(coarse[m] for m, _ in pl if m != 'use'))), 'a later argument is read' if later else 'nothing read afterwards')


def gen_body(rng):
    kind = rng.choice(['plain', 'plain', 'pressure', 'pressure', 'alloca', 'alloca', 'fppress', 'call', 'leafpress', 'leafpress', 'inl',
                       'leafalloca'])
    return dict(kind=kind, lamode=rng.choice(['const', 'var', 'both', 'late']), nlived=rng.choice([0, 0, 5, 18]), lan=rng.choice([1, 16, 17, 40, 100]), nlive=rng.randint(6, 14), alloca_k=rng.choice([8, 24, 40, 100, 1, 17, 333, 32]),
                msizes=[rng.choice([1, 2, 3, 4, 5, 8, 12, 16, 17, 24]) for _ in range(rng.choice([0, 2, 3, 5, 6]))], bstart=rng.random() < 0.5, va_alloca=rng.random() < 0.5, alloca_n=rng.choice([1, 8, 15, 16, 17, 100, 333]),
                press=[rng.getrandbits(64) for _ in range(NPRESS)],
                fpress=[float(rng.randint(-1000, 1000)) for _ in range(NPRESS)],
                mxcsr=rng.choice([0x1f80, 0x1f80, 0x3f80, 0x5f80, 0x7f80, 0x9fc0]),
                fcw=rng.choice([0x037f, 0x037f, 0x027f, 0x0f7f, 0x0b7f]))


def leafalloca_bodies(rng, quick):
    """[(body, engines)]: nlive = 1..24 x every generator level (spill slots + saved registers of both parities), constant /
    variable / both / late allocas, with and without live doubles"""
    out = []
    levels = ['gen0', 'gen1', 'gen2', 'gen3']
    def mk(nl, nd, mode):
        b = gen_body(rng)
        b.update(kind='leafalloca', nlive=nl, nlived=nd, lamode=mode, lasize=rng.choice([8, 16, 24, 40, 48, 100, 1, 33]),
                 lan=rng.choice([1, 8, 15, 16, 17, 40, 41, 100, 333]), press=[rng.getrandbits(64) for _ in range(NLEAF)],
                 fpress=[float(rng.randint(-1000, 1000)) for _ in range(NPRESS)])
        return b
    for nl in range(1, 25):
        modes = ['const', 'var', 'both', 'late']
        if quick:
            rng.shuffle(modes)
            out.append((mk(nl, 0, modes[0]), levels))
            out.append((mk(nl, rng.choice([0, 0, 3, 9, 17, 20]), modes[1]), [rng.choice(levels), rng.choice(['lazy', 'lazybb', 'interp'])]))
        else:
            for mode in modes:
                for nd in (0, 3, 17, 20):
                    out.append((mk(nl, nd, mode), levels + ['lazy', 'lazybb', 'interp']))
    return out


XCALL_RES = [[], ['i64'], ['d'], ['i64', 'd'], ['ld'], ['u8', 'f'], ['i32', 'i64']]


def xcall_protos(rng, nrandom):
    """prototypes of the call the MIR function makes itself: every argument-placement kind"""
    i6, d8 = ['i64'] * 6, ['d'] * 8
    fam = []
    # B: blocks copied to the outgoing stack area, NO scalar on the stack (moves for <= 16 bytes, arg_memcpy above)
    for a in (['blk:24', 'i64', 'i64', 'i64'], ['blk:8'], ['blk:16', 'd'], ['blk:17'], ['blk:200', 'i64'], ['blk:1', 'blk:40'],
              i6 + ['blk1:16'], ['i64'] * 5 + ['blk1:16'], d8 + ['blk2:8'], ['d'] * 7 + ['blk2:16'], i6 + d8 + ['blk3:16'],
              i6 + ['blk4:12', 'd'], ['blk:0', 'blk:9'], ['p', 'blk:64', 'f', 'u8']):
        fam.append(('stack-blocks-only', a, None))
    # S: scalars on the stack
    for a in (['i64'] * 7, ['i64'] * 8, ['d'] * 9, ['ld'], ['i64', 'ld', 'd'], ['f'] * 9 + ['i32'] * 7):
        fam.append(('stack-scalars', a, None))
    # R: registers only
    for a in (i6 + d8, ['blk1:16', 'blk2:16', 'i64'], [], ['rblk:24', 'i64'], ['blk3:16', 'blk4:16'], ['blk:0']):
        fam.append(('registers-only', a, None))
    # both
    for a in (['i64'] * 7 + ['blk:24'], ['blk:24'] + ['d'] * 9, ['ld', 'blk1:16', 'blk:40'], ['i64', 'd'] * 20):
        fam.append(('stack-scalars-and-blocks', a, None))
    for a, nf in ((['p', 'd', 'i64', 'blk:24'], 1), (['p', 'blk1:16', 'ld'], 1), (['p', 'i64', 'i64', 'i64', 'i64', 'i64', 'blk1:16'], 2),
                  (['p', 'blk:40'], 1)):
        fam.append(('variadic', a, nf))
    out = []
    for k, (f, a, nf) in enumerate(fam):
        out.append(dict(args=list(a), nfixed=len(a) if nf is None else nf, vararg=nf is not None, res=list(XCALL_RES[k % len(XCALL_RES)]),
                        style='xcall', family=f))
    for _ in range(nrandom):
        p = G.gen_proto(rng, maxargs=14)
        if len(p['res']) > 6:
            p['res'] = p['res'][:6]
        p['family'] = 'generated'
        out.append(p)
    return out


# signatures of the MIR function itself that leave the frame-pointer decision to the body (register-only scalars) ...
XCALL_OUTER_FREE = [[], ['i64'], ['p', 'p'], ['i64', 'd'], ['i32', 'u8', 'd', 'f'], ['i64'] * 6, ['i64'] * 6 + ['d'] * 8]
# ... and ones that force a frame pointer by themselves (stack / block parameters, variadic)
XCALL_OUTER_FORCED = [(['i64'] * 7, None), (['blk:24', 'i64'], None), (['p', 'i64', 'd'], 1), (['d'] * 9, None), (['blk1:16', 'd'], None),
                      (['i64', 'ld'], None)]


def xcall_cases(rng, nrandom, engines):
    """(outer proto, body, engine list): MIR functions that CALL with every argument-placement kind under register
    pressure, with and without frame-pointer-forcing features (alloca, stack/block parameters, variadic)"""
    out = []
    for cp in xcall_protos(rng, nrandom):
        cvals, crets = G.gen_values(rng, cp)
        cvals = G.fix_values(cp, cvals, rng)
        for rep in range(2):
            if rep == 0 or rng.random() < 0.4:
                a, nf = rng.choice(XCALL_OUTER_FREE), None
            else:
                a, nf = rng.choice(XCALL_OUTER_FORCED)
            proto = dict(args=list(a), nfixed=len(a) if nf is None else nf, vararg=nf is not None,
                         res=rng.choice([['i64'], [], ['d'], ['i64', 'd']]), style='xcall-outer')
            b = gen_body(rng)
            b.update(kind='xcall', cproto=cp, cvals=[v.hex() for v in cvals],
                     crets={k: (v.hex() if isinstance(v, (bytes, bytearray)) else v) for k, v in crets.items()},
                     ni=rng.choice([0, 3, 6, 7, 10, 14, 22]), nd=rng.choice([0, 0, 4, 9, 15, 20]),
                     xalloca=(rep == 1 and rng.random() < 0.5), hcall=rng.random() < 0.3)
            if rep == 0 and b['ni'] + b['nd'] < 6:
                b['ni'] = rng.choice([7, 10, 14, 22])
            out.append((proto, b, engines(rep)))
    return out


def res_values(rng, proto):
    out = []
    for t in proto['res']:
        if t == 'ld':
            out.append(G.ld_pattern(rng))
        elif t == 'f':
            out.append(bytes(rng.getrandbits(8) for _ in range(4)))
        else:
            out.append(bytes(rng.getrandbits(8) for _ in range(8)))
    return out


def vals_buffer(proto, body, resvals):
    import struct
    buf = bytearray(PO + 8 * NPRESS + 64)
    if body['kind'] == 'leafalloca':
        buf = bytearray(FO + 8 * 32)
        for k, x in enumerate(body['press']):
            buf[PO + 8 * k:PO + 8 * k + 8] = x.to_bytes(8, 'little')
        for k, x in enumerate(body['fpress']):
            buf[FO + 8 * k:FO + 8 * k + 8] = struct.pack('<d', x)
        buf[FO + 8 * 30:FO + 8 * 31] = struct.pack('<d', 1.0)
        buf[LAN:LAN + 8] = body.get('lan', 40).to_bytes(8, 'little')
    if body['kind'] == 'xcall':
        buf = bytearray(FO + 8 * 32)
        for k, x in enumerate(body['press']):
            buf[PO + 8 * k:PO + 8 * k + 8] = x.to_bytes(8, 'little')
        for k, x in enumerate(body['fpress']):
            buf[FO + 8 * k:FO + 8 * k + 8] = struct.pack('<d', x)
        buf[FO + 8 * 30:FO + 8 * 31] = struct.pack('<d', 1.0)
        cb = G.vals_bytes(body['cproto'], [bytes.fromhex(x) for x in body['cvals']])
        buf[CO:CO + len(cb)] = cb
    for i, b in enumerate(resvals):
        buf[RO + 16 * i:RO + 16 * i + len(b)] = b
    buf[VC1:VC1 + 8] = (1).to_bytes(8, 'little')
    buf[VC0:VC0 + 8] = bytes(8)
    if body['kind'] in ('pressure', 'call', 'leafpress'):
        for k, x in enumerate(body['press']):
            buf[PO + 8 * k:PO + 8 * k + 8] = x.to_bytes(8, 'little')
    elif body['kind'] == 'fppress':
        for k, x in enumerate(body['fpress']):
            buf[PO + 8 * k:PO + 8 * k + 8] = struct.pack('<d', x)
    elif body['kind'] == 'alloca':
        buf[PO:PO + 8] = body['alloca_n'].to_bytes(8, 'little')
        buf[PO + 8:PO + 16] = struct.pack('<d', 2.5)
    return bytes(buf)


def rblk_area(proto):
    """offset in vals of the memory the rblk pointers point to"""
    return 3400


def tramp_image(proto, m, vals, body, rng_words, vals_addr):
    """c06_in from the model's image (m = parsed model row: img list of (loc, hexword, obs))"""
    img = bytearray(256 + G.NSTK)
    # garbage everywhere first (unassigned registers hold junk in real callers)
    for k in range(6):
        img[8 * k:8 * k + 8] = rng_words[k].to_bytes(8, 'little')
    for k in range(8):
        img[64 + 16 * k:64 + 16 * k + 16] = rng_words[6 + k].to_bytes(8, 'little') + rng_words[14 + k].to_bytes(8, 'little')
    stack = int(m['stack'])
    for k in range(0, stack, 8):
        img[256 + k:256 + k + 8] = rng_words[(22 + k // 8) % len(rng_words)].to_bytes(8, 'little')
    # bytes the caller defines per eightbyte: for narrow integers only the bytes of the type itself
    # (the psABI leaves the rest of the register/slot unspecified; MIR narrows in the callee)
    width = []
    for t in proto['args']:
        if t in G.ITYS:
            width.append({'i8': 1, 'u8': 1, 'i16': 2, 'u16': 2, 'i32': 4, 'u32': 4}.get(t, 8))
        else:
            width += [None] * G.nwords(t)
    for (loc, v, ob), wd in zip(m['img'], width):
        w = bytes.fromhex(v)[::-1]
        k, n = loc[0], int(loc[1:])
        if k == 'G':
            pos = 8 * n
        elif k == 'X':
            pos = 64 + 16 * n
        else:
            pos = 256 + n
        nb = wd if wd is not None else ob
        img[pos:pos + nb] = w[:nb]
    img[48:56] = (int(m['nsse']) if proto['vararg'] else rng_words[5] & 0xffffffffffffff00 | 0x55).to_bytes(8, 'little')
    img[56:64] = stack.to_bytes(8, 'little')
    for k in range(6):
        img[192 + 8 * k:200 + 8 * k] = SENT[k].to_bytes(8, 'little')
    img[240:244] = body['mxcsr'].to_bytes(4, 'little')
    img[244:246] = body['fcw'].to_bytes(2, 'little')
    img[248:252] = sum(1 for t in proto['res'] if t == 'ld').to_bytes(4, 'little')
    return bytes(img)


def expected_param_bytes(t, b, vals_addr, off):
    """what the MIR function must observe for a parameter of type t given the caller's value bytes b"""
    if t.startswith('rblk'):
        return None  # pointer: compared against the address handed in
    if G.is_blk(t) or t in ('f', 'd', 'ld'):
        return b
    v = int.from_bytes(b, 'little')
    bits = {'i8': 8, 'u8': 8, 'i16': 16, 'u16': 16, 'i32': 32, 'u32': 32}.get(t, 64)
    v &= (1 << bits) - 1
    if t[0] == 'i' and bits < 64 and v >> (bits - 1):
        v |= ((1 << 64) - 1) ^ ((1 << bits) - 1)
    return v.to_bytes(8, 'little')


SRET_MSG = 'sret: psABI returns the address of a memory-class return block in rax'


def sret_required(proto):
    """first parameter is the return block and rax is not taken by an integer result"""
    return proto['nfixed'] >= 1 and proto['args'] and proto['args'][0].startswith('rblk') \
        and not any(t in G.ITYS for t in proto['res'])


def leaf_sum(body):
    M = (1 << 64) - 1
    s = 0
    for rnd in range(2):
        for k in range(body['nlive']):
            s = ((s + body['press'][k]) << 1) & M
    return s


def press_sum(body):
    M = (1 << 64) - 1
    p = body['press']
    s = (p[0] * 3 + p[1]) & M
    for k in range(NPRESS):
        s = (s + p[k]) & M
        s = (s << 1) & M
    return s


def compare_c06(proto, body, m, impl, vals, resvals, rblk_ptrs, engine='gen'):
    bad = []
    if impl['status'] != 'ok':
        return ['%s %s' % (impl['status'], impl.get('detail', ''))]
    out = impl['out']
    outs = impl['outs']
    offs, _ = G.layout(proto)
    observed = va_observed(proto, body)
    for i, (t, b, off) in enumerate(zip(proto['args'], vals, offs)):
        if i not in observed:
            # consumed by a va_arg / va_block_arg whose value the body does not look at: the slot must be untouched
            n = len(b) if G.is_blk(t) else (10 if t == 'ld' else 8)
            if outs[off:off + n] != b'\xa5' * n:
                bad.append('param %d (%s variadic, skipped by the body): its slot in outs was written (%s)' % (i, t, outs[off:off + n].hex()))
            continue
        if t.startswith('rblk'):
            got = int.from_bytes(outs[off:off + 8], 'little')
            if got != rblk_ptrs[i]:
                bad.append('param %d (%s): function sees pointer %x, caller passed %x' % (i, t, got, rblk_ptrs[i]))
            continue
        want = expected_param_bytes(t, b, 0, off)
        got = outs[off:off + len(want)]
        if got != want:
            bad.append('param %d (%s%s): function sees %s, caller passed %s' % (
                i, t, ' variadic' if i >= proto['nfixed'] else '', got.hex(), want.hex()))
    # results
    regs = dict(RAX=out[0:8], RDX=out[8:16], XMM0=out[16:32], XMM1=out[32:48], ST0=out[48:58], ST1=out[64:74])
    for i, (t, rl) in enumerate(zip(proto['res'], m['res'])):
        n = {'i8': 1, 'u8': 1, 'i16': 2, 'u16': 2, 'i32': 4, 'u32': 4, 'f': 4, 'ld': 10}.get(t, 8)
        if rl not in regs:
            continue
        if regs[rl][:n] != resvals[i][:n]:
            bad.append('result %d (%s in %s): caller receives %s, function returned %s' % (
                i, t, rl, regs[rl][:n].hex(), resvals[i][:n].hex()))
    if sret_required(proto):
        got = int.from_bytes(out[0:8], 'little')
        if got != rblk_ptrs[0]:
            bad.append(SRET_MSG + ': rax=%x on return, return-block address %x' % (got, rblk_ptrs[0]))
    for k, name in enumerate(SENT_NAMES):
        got = int.from_bytes(out[80 + 8 * k:88 + 8 * k], 'little')
        if got != SENT[k]:
            bad.append('callee-saved %s clobbered: %x' % (name, got))
    rsp_after = int.from_bytes(out[128:136], 'little')
    rsp_before = int.from_bytes(out[136:144], 'little')
    if rsp_after != rsp_before:
        bad.append('rsp not restored: %+d' % (rsp_after - rsp_before))
    mx = int.from_bytes(out[144:148], 'little')
    if (mx & 0xffc0) != (body['mxcsr'] & 0xffc0):
        bad.append('MXCSR control bits changed: %04x -> %04x' % (body['mxcsr'], mx))
    cw = int.from_bytes(out[148:150], 'little')
    if cw != body['fcw']:
        bad.append('x87 control word changed: %04x -> %04x' % (body['fcw'], cw))
    if int.from_bytes(out[152:160], 'little') & 0x400:
        bad.append('DF set on return')
    ftw = int.from_bytes(out[168:170], 'little')
    if ftw != 0xffff:
        bad.append('x87 stack not empty after the results were popped (tag word %04x)' % ftw)
    if proto['vararg'] and m.get('vastart'):
        gp, fp, ovm = [int(x) for x in m['vastart'].split(',')]
        g_gp = int.from_bytes(outs[VAO:VAO + 4], 'little')
        g_fp = int.from_bytes(outs[VAO + 4:VAO + 8], 'little')
        g_ov = int.from_bytes(outs[VAO + 8:VAO + 16], 'little')
        g_rs = int.from_bytes(outs[VAO + 16:VAO + 24], 'little')
        if (g_gp, g_fp, g_ov - rsp_before) != (gp, fp, ovm):
            bad.append('tie: va_list after va_start: gp_offset=%d fp_offset=%d overflow_arg_area=args+%d, model %d,%d,args+%d' % (
                g_gp, g_fp, g_ov - rsp_before, gp, fp, ovm))
        if g_rs != rsp_before - 192:  # generated prologue and interpreter shim both put it at entry_rsp-184
            bad.append('tie: va_list reg_save_area = entry_rsp%+d, frame model entry_rsp-184' % (g_rs - (rsp_before - 8)))
    kind = body['kind']
    if kind in ('pressure', 'call'):
        got = int.from_bytes(outs[XO:XO + 8], 'little')
        if got != press_sum(body):
            bad.append('register-pressure checksum wrong: %x, expected %x' % (got, press_sum(body)))
    if kind == 'xcall':
        import struct
        M = (1 << 64) - 1
        sgot = int.from_bytes(outs[XO:XO + 8], 'little')
        want = 22 if body.get('hcall') else 3
        for k in range(body['ni']):
            want = ((want + body['press'][k]) << 1) & M
        if sgot != want:
            bad.append('%d integer values live across the call of %s: checksum %x, expected %x' % (body['ni'], G.proto_sig(body['cproto']), sgot, want))
        dgot = struct.unpack('<d', outs[XO + 8:XO + 16])[0]
        dwant = 1.0 + sum(body['fpress'][:body['nd']])
        if dgot != dwant:
            bad.append('%d double values live across the call of %s: sum %r, expected %r' % (body['nd'], G.proto_sig(body['cproto']), dgot, dwant))
        if body.get('xalloca'):
            if int.from_bytes(outs[XO + 16:XO + 24], 'little') != 81985529216486895 or int.from_bytes(outs[XO + 24:XO + 32], 'little') != 0:
                bad.append('alloca memory lost its contents / alignment across the call of %s' % G.proto_sig(body['cproto']))
        mx = impl.get('xmodel')
        if mx is not None and impl.get('pimg'):
            cp = body['cproto']
            crets = {k: (bytes.fromhex(x) if isinstance(x, str) else x) for k, x in body['crets'].items()}
            img = impl['pimg'] + (impl.get('pstk') or b'')
            if not impl.get('pstk'):
                mx = dict(mx, img=[x for x in mx['img'] if x[0][0] != 'S'])
            bad += ['call made by the function (%s): %s' % (G.proto_sig(cp), b)
                    for b in G.compare_c05(cp, mx, dict(status='ok', img=img + bytes(256 + G.NSTK - len(img)), outs=outs[XR:XR + 128]), crets)]
    if kind == 'leafalloca':
        import struct
        M = (1 << 64) - 1
        a1 = int.from_bytes(outs[XO + 8:XO + 16], 'little')
        a2 = int.from_bytes(outs[XO + 16:XO + 24], 'little')
        a3 = int.from_bytes(outs[XO + 32:XO + 40], 'little') if body.get('lamode') == 'var' else 0
        if a1 or a2 or a3:
            bad.append('alloca memory of a leaf function with %d+%d live values (%s size) not 16-byte aligned (addr mod 16 = %d, %d, %d)'
                       % (body['nlive'], body.get('nlived', 0), body.get('lamode', 'const'), a1, a2, a3))
        want = 81985529216486895
        for rnd in range(2):
            for k in range(body['nlive']):
                want = ((want + body['press'][k]) << 1) & M
        want = (want + 1311768467463790320) & M
        got = int.from_bytes(outs[XO:XO + 8], 'little')
        if got != want:
            bad.append('leaf function with alloca: checksum of %d live integers and the alloca contents wrong: %x, expected %x' % (body['nlive'], got, want))
        dgot = struct.unpack('<d', outs[XO + 24:XO + 32])[0]
        dwant = 1.0 + sum(body['fpress'][:body.get('nlived', 0)])
        if dgot != dwant:
            bad.append('leaf function with alloca: sum of %d live doubles wrong: %r, expected %r' % (body.get('nlived', 0), dgot, dwant))
    if kind == 'leafpress':
        got = int.from_bytes(outs[XO:XO + 8], 'little')
        if got != leaf_sum(body):
            bad.append('leaf register-pressure checksum wrong: %x, expected %x' % (got, leaf_sum(body)))
    if kind == 'fppress':
        import struct
        got = struct.unpack('<d', outs[XO:XO + 8])[0]
        if got != sum(body['fpress']):
            bad.append('fp-pressure sum wrong: %r, expected %r' % (got, sum(body['fpress'])))
    if kind == 'alloca':
        a1 = int.from_bytes(outs[XO + 8:XO + 16], 'little')
        a2 = int.from_bytes(outs[XO + 16:XO + 24], 'little')
        a3 = int.from_bytes(outs[XO + 40:XO + 48], 'little') if body.get('bstart') else 0
        if a1 != 0 or a2 != 0 or a3 != 0:
            bad.append('alloca memory not 16-byte aligned (addr mod 16 = %d, %d, %d)' % (a1, a2, a3))
        if int.from_bytes(outs[XO + 24:XO + 32], 'little') != 81985529216486895 \
                or int.from_bytes(outs[XO + 32:XO + 40], 'little') != 1311768467463790320:
            bad.append('alloca memory lost its contents across a call')
        if int.from_bytes(outs[XO:XO + 8], 'little') != 22:
            bad.append('helper result wrong after alloca')
        a4 = int.from_bytes(outs[XO + 48:XO + 56], 'little')
        if a4 != 0:
            bad.append('alloca of the constant size %d held in a register: memory not 16-byte aligned (addr mod 16 = %d)' % (body.get('alloca_k', 24), a4))
        ms = body.get('msizes', [])
        addrs = [int.from_bytes(outs[XO + 56 + 8 * k:XO + 64 + 8 * k], 'little') for k in range(len(ms))]
        for k, (a, sz) in enumerate(zip(addrs, ms)):
            na = sz if sz <= 2 else 4 if sz <= 4 else 8 if sz <= 8 else 16
            if a % na:
                bad.append('adjacent constant allocas %s: block %d (%d bytes) at address = %d mod %d' % (ms, k, sz, a % na, na))
            for j in range(k):
                if a < addrs[j] + ms[j] and addrs[j] < a + sz:
                    bad.append('adjacent constant allocas %s: blocks %d and %d overlap' % (ms, j, k))
            got = int.from_bytes(outs[XO + 128 + 8 * k:XO + 136 + 8 * k], 'little')
            want = ((17 + k) << 8 | (33 + k)) if sz > 1 else ((33 + k) << 8 | (33 + k))
            if got != want:
                bad.append('adjacent constant allocas %s: block %d lost its contents across a call (%x, expected %x)' % (ms, k, got, want))
    if kind == 'inl':
        if int.from_bytes(outs[XO + 112:XO + 120], 'little') != 0:
            bad.append('alloca of an inlined callee (8 bytes, after a 16-byte and a 1-byte block): address mod 8 = %d' % int.from_bytes(outs[XO + 112:XO + 120], 'little'))
        if int.from_bytes(outs[XO + 120:XO + 128], 'little') != 5:
            bad.append('caller alloca lost its contents across the inlined callees')
    if kind in ('call', 'alloca') and impl.get('pimg'):
        f = G.img_fields(impl['pimg'] + bytes(1024))
        if f['count'] != 1 or f['rsp'] % 16 != 8:
            bad.append('nested call from the MIR function: probe entered %d times, rsp mod 16 = %d' % (f['count'], f['rsp'] % 16))
    return bad


# ---------------------------------------------------------------- frame observation from the generator's listing
import re

CALLEE_SAVED = (3, 12, 13, 14, 15)
ARG_REGS = (7, 6, 2, 1, 8, 9, 16, 17, 18, 19, 20, 21, 22, 23)
_MEM = re.compile(r'\b(i8|u8|i16|u16|i32|u32|i64|u64|f|d|ld|p):(-?\d+)?\((hr\d+)(?:,\s*hr\d+(?:,\s*\d+)?)?\)')


def parse_dump(text, vararg):
    """the function's instruction list after prologue/epilogue insertion -> frame observation"""
    insns = []
    for l in text.split('\n'):
        m = re.match(r'\s*(?:\d+\s+)?([a-z][a-z0-9]*)(?:\s+(.*))?$', l)
        if not m:
            continue
        ops = (m.group(2) or '').split('#')[0].strip()
        insns.append((m.group(1), [o.strip() for o in ops.split(',')] if ops else [], ops))
    obs = dict(keep_fp=False, sub=None, saves=[], restores=[], regsave=[], slots=[], used=set(), n=len(insns),
               epilog_ok=True)
    i = 0
    if len(insns) >= 2 and insns[0][0] == 'mov' and insns[0][1] == ['i64:-8(hr4)', 'hr5'] \
            and insns[1][0] == 'add' and insns[1][1] == ['hr5', 'hr4', '-8']:
        obs['keep_fp'] = True
        i = 2
    if i < len(insns) and insns[i][0] == 'sub' and insns[i][1][:2] == ['hr4', 'hr4'] and re.fullmatch(r'\d+', insns[i][1][2]):
        obs['sub'] = int(insns[i][1][2])
        i += 1
    base = 'hr5' if obs['keep_fp'] else 'hr4'
    if obs['sub'] is not None:
        if vararg:
            for k in range(14):
                if i >= len(insns) or len(insns[i][1]) != 2:
                    break
                m = re.fullmatch(r'(?:i64|d):(-?\d+)?\(hr4\)', insns[i][1][0])
                if not m or insns[i][1][1] != 'hr%d' % ARG_REGS[k]:
                    break
                obs['regsave'].append((ARG_REGS[k], int(m.group(1) or 0)))
                i += 1
        seen = set()
        while i < len(insns) and insns[i][0] == 'mov' and len(insns[i][1]) == 2:
            m = re.fullmatch(r'i64:(-?\d+)?\((hr4|hr5)\)', insns[i][1][0])
            r = re.fullmatch(r'hr(\d+)', insns[i][1][1])
            if not (m and r and int(r.group(1)) in CALLEE_SAVED and m.group(2) == base and int(r.group(1)) not in seen):
                break
            seen.add(int(r.group(1)))
            obs['saves'].append((int(r.group(1)), int(m.group(1) or 0)))
            i += 1
    body_start = i
    j = len(insns) - 1
    while j >= 0 and insns[j][0] != 'ret':
        j -= 1
    e = j - 1
    if obs['sub'] is not None and j >= 0:
        if obs['keep_fp']:
            if e >= 1 and insns[e][0] == 'mov' and insns[e][1] == ['hr5', 'i64:-8(hr4)'] and insns[e - 1][0] == 'add' \
                    and insns[e - 1][1] == ['hr4', 'hr5', '8']:
                e -= 2
            else:
                obs['epilog_ok'] = False
        else:
            if e >= 0 and insns[e][0] == 'add' and insns[e][1] == ['hr4', 'hr4', str(obs['sub'])]:
                e -= 1
            else:
                obs['epilog_ok'] = False
        rest = []
        while e >= body_start and len(rest) < len(obs['saves']) and insns[e][0] == 'mov' and len(insns[e][1]) == 2:
            m = re.fullmatch(r'i64:(-?\d+)?\((hr4|hr5)\)', insns[e][1][1])
            r = re.fullmatch(r'hr(\d+)', insns[e][1][0])
            if not (m and r and int(r.group(1)) in CALLEE_SAVED and m.group(2) == base):
                break
            rest.append((int(r.group(1)), int(m.group(1) or 0)))
            e -= 1
        obs['restores'] = rest[::-1]
    body_end = e + 1 if j >= 0 else len(insns)
    obs['sp_moves'] = []
    for k in range(body_start, max(body_start, body_end)):
        op, ops, raw = insns[k]
        if op in ('sub', 'add') and len(ops) == 3 and ops[0] == 'hr4' and ops[1] == 'hr4':
            obs['sp_moves'].append('%s %s' % (op, ops[2]))
        for r in re.findall(r'\bhr(\d+)\b', raw):
            if int(r) <= 15:
                obs['used'].add(int(r))
        for ty, disp, b in _MEM.findall(raw):
            d = int(disp) if disp else 0
            size = 16 if ty == 'ld' else 8
            if obs['keep_fp'] and b == 'hr5' and d < 0:
                obs['slots'].append((d, size))
            elif not obs['keep_fp'] and b == 'hr4':
                obs['slots'].append((d, size))
    if j >= 0:
        for r in re.findall(r'\bhr(\d+)\b', insns[j][2]):
            if int(r) <= 15:
                obs['used'].add(int(r))
    return obs


def frame_query(cid, obs, vararg):
    return 'frame %s keepfp=%d vararg=%d nslots=%d sub=%d used=%s' % (
        cid, 1 if obs['keep_fp'] else 0, 1 if vararg else 0, min_slots(obs, vararg),
        obs['sub'] if obs['sub'] is not None else -1,
        ','.join(str(r) for r in sorted(set(obs['used']) | set(r for r, _ in obs['saves']))) or '-')


def compare_frame(obs, row, vararg):
    """observed prologue/epilogue of the generated function vs. the Frame model"""
    bad = []
    if obs['sub'] is None:
        # no prologue at all: legal only when nothing needs saving and there is no frame
        if row['saves'] or obs['slots'] or vararg:
            bad.append('tie: function has no prologue but uses callee-saved registers %s / stack slots' % [r for r, _ in row['saves']])
        return bad
    if not obs['keep_fp'] and obs.get('sp_moves') and obs['slots']:
        # Frame.v / frame_slots_sound place the slots at fixed offsets from the rsp the prologue leaves
        bad.append('tie: the function addresses its frame through rsp (no frame pointer) but moves rsp in its body (%s)'
                   % ', '.join(obs['sp_moves'][:4]))
    if not row['found']:
        bad.append('tie: frame size %d is not a size the frame model produces for >= %d stack slots' % (obs['sub'], min_slots(obs, vararg)))
        return bad
    if obs['sub'] % 16 != 8:
        bad.append('tie: sub rsp, %d leaves rsp misaligned' % obs['sub'])
    if obs['saves'] != row['saves']:
        bad.append('tie: prologue saves %s, frame model (callee-saved registers used in the body, at the model\'s offsets) %s' % (obs['saves'], row['saves']))
    if obs['restores'] != obs['saves']:
        bad.append('tie: epilogue restores %s but prologue saved %s' % (obs['restores'], obs['saves']))
    if vararg and obs['regsave'] != row['regsave']:
        bad.append('tie: register save area stores %s, model %s' % (obs['regsave'], row['regsave']))
    if not obs['epilog_ok']:
        bad.append('tie: epilogue does not restore rsp/rbp as the frame model prescribes')
    return bad


def min_slots(obs, vararg):
    n0 = 0
    for d, size in obs['slots']:
        if obs['keep_fp']:
            n0 = max(n0, (-d - (176 if vararg else 0) + 7) // 8)
        else:
            n0 = max(n0, (d + size + 7) // 8)
    return n0


def parse_frame_row(line):
    w = line.split()
    d = dict(id=w[0])
    for x in w[1:]:
        k, v = x.split('=')
        if k in ('saves', 'restores', 'regsave'):
            d[k] = [] if v == '-' else [tuple(int(y) for y in p.split(':')) for p in v.split(',')]
        else:
            d[k] = int(v)
    return d

#!/usr/bin/env python3
# Developer tool (not part of any registered command): apply hand-made semantic mutations of the code
# anchored by C03 / C16 to a scratch worktree and report whether `./check` notices.
#   tools/gen_c03_mutants.py C03|C16 [name ...] [--tier quick]
# The worktree is /var/tmp/wt-c03 (create: git -C /repo worktree add -q --detach /var/tmp/wt-c03).
import os, sys, subprocess, re

WT = os.environ.get('C03_MUT_WT', '/var/tmp/wt-c03')
VERIF = os.path.dirname(os.path.dirname(os.path.abspath(__file__)))

# name -> (file, old, new)
MUT = {
    'C03': {
        'far_rel32': ('mir-x86_64.c', 'int short_p = INT32_MIN <= disp && disp <= INT32_MAX;',
                      'int short_p = INT32_MIN <= disp && disp <= (int64_t) INT32_MAX + 1;'),
        'far_low': ('mir-x86_64.c', 'int short_p = INT32_MIN <= disp && disp <= INT32_MAX;',
                    'int short_p = (int64_t) INT32_MIN - 1 <= disp && disp <= INT32_MAX;'),
        'holder': ('mir-x86_64.c', 'memcpy (pattern + 5, &to, 8);', 'memcpy (pattern + 5, &to, 4);'),
        'disp_base': ('mir-x86_64.c', "int64_t disp = (char *) to - ((char *) thunk + 5);",
                      "int64_t disp = (char *) to - ((char *) thunk + 4);"),
        'lazy_regen': ('mir-gen.c', '''  if (func_item->u.func->machine_code != NULL) {
    gen_assert (func_item->u.func->call_addr != NULL);''', '''  if (0 && func_item->u.func->machine_code != NULL) {
    gen_assert (func_item->u.func->call_addr != NULL);'''),
        'lazy_stale': ('mir-gen.c', '''  addr = _MIR_get_wrapper (ctx, func_item, generate_func_and_redirect_to_func_code);
  _MIR_redirect_thunk (ctx, func_item->addr, addr);''', '''  addr = _MIR_get_wrapper (ctx, func_item, generate_func_and_redirect_to_func_code);
  if (func_item->u.func->machine_code == NULL) _MIR_redirect_thunk (ctx, func_item->addr, addr);'''),
        'lazy_noredirect': ('mir-gen.c', '''    _MIR_redirect_thunk (ctx, func_item->addr, func_item->u.func->call_addr);
  }
  if (optimize_level != 0) destroy_loop_tree''', '''    if (0) _MIR_redirect_thunk (ctx, func_item->addr, func_item->u.func->call_addr);
  }
  if (optimize_level != 0) destroy_loop_tree'''),
        'new_thunk_on_load': ('mir.c', 'if (item->addr == NULL) {\n        item->addr = _MIR_get_thunk (ctx);',
                              'if (1) {\n        item->addr = _MIR_get_thunk (ctx);'),
        'wrapper_rdi': ('mir-x86_64.c', '''    0x5f,                               /*pop    %rdi			   */
    0x5e,                               /*pop    %rsi			   */
    0x41, 0xff, 0xe2,                   /*jmpq   *%r10			   */''', '''    0x5e,                               /*pop    %rsi			   */
    0x5f,                               /*pop    %rdi			   */
    0x41, 0xff, 0xe2,                   /*jmpq   *%r10			   */'''),
        'wrapper_xmm': ('mir-x86_64.c', '''    0xf3, 0x0f, 0x6f, 0x4c, 0x24, 0x10, /*movdqu 0x10(%rsp),%xmm1	   */
    0xf3, 0x0f, 0x6f, 0x54, 0x24, 0x20, /*movdqu 0x20(%rsp),%xmm2	   */
    0xf3, 0x0f, 0x6f, 0x5c, 0x24, 0x30, /*movdqu 0x30(%rsp),%xmm3	   */
    0xf3, 0x0f, 0x6f, 0x64, 0x24, 0x40, /*movdqu 0x40(%rsp),%xmm4	   */
    0xf3, 0x0f, 0x6f, 0x6c, 0x24, 0x50, /*movdqu 0x50(%rsp),%xmm5	   */
    0xf3, 0x0f, 0x6f, 0x74, 0x24, 0x60, /*movdqu 0x60(%rsp),%xmm6	   */
    0xf3, 0x0f, 0x6f, 0x7c, 0x24, 0x70, /*movdqu 0x70(%rsp),%xmm7	   */
    0x48, 0x89, 0xdc,                   /*mov    %rbx,%rsp */''', '''    0xf3, 0x0f, 0x6f, 0x4c, 0x24, 0x10, /*movdqu 0x10(%rsp),%xmm1	   */
    0xf3, 0x0f, 0x6f, 0x54, 0x24, 0x20, /*movdqu 0x20(%rsp),%xmm2	   */
    0xf3, 0x0f, 0x6f, 0x5c, 0x24, 0x30, /*movdqu 0x30(%rsp),%xmm3	   */
    0xf3, 0x0f, 0x6f, 0x64, 0x24, 0x40, /*movdqu 0x40(%rsp),%xmm4	   */
    0xf3, 0x0f, 0x6f, 0x6c, 0x24, 0x50, /*movdqu 0x50(%rsp),%xmm5	   */
    0xf3, 0x0f, 0x6f, 0x74, 0x24, 0x60, /*movdqu 0x60(%rsp),%xmm6	   */
    0xf3, 0x0f, 0x6f, 0x74, 0x24, 0x70, /*movdqu 0x70(%rsp),%xmm6 (mutant: xmm7 lost) */
    0x48, 0x89, 0xdc,                   /*mov    %rbx,%rsp */'''),
        'shim_fp_offset': ('mir-x86_64.c', '/*  d: */ 0xc7, 0x42, 0x04, 0x30, 0,    0, 0,          /* movl   48, 4(%rdx)     */',
                           '/*  d: */ 0xc7, 0x42, 0x04, 0x40, 0,    0, 0,          /* movl   64, 4(%rdx)     */'),
        'interp_laddr': ('mir-interp.c', '''    void **r = get_aop (bp, ops);
    *r = code + get_i (ops + 1);''', '''    void **r = get_aop (bp, ops);
    *r = code + get_i (ops + 1) + 1;'''),
        'bb_first_version': ('mir-gen.c', '(void) get_bb_version (gen_ctx, &((struct bb_stub *) func_item->data)[0], 0, NULL, TRUE, &addr);',
                             '(void) get_bb_version (gen_ctx, &((struct bb_stub *) func_item->data)[1], 0, NULL, TRUE, &addr);'),
        'direct_call_wrong': ('mir-gen-x86_64.c', None, None),
        # ---- round 2 (auditor) ----
        # rel32 call without the range test: wrong only when code regions are > 2 GiB apart (far code allocator)
        'direct_call_far': ('mir-gen-x86_64.c', '    if (!int32_p (off)) continue;', '    if (0 && !int32_p (off)) continue;'),
        'bb_thunk_disp': ('mir-x86_64.c', 'disp = (int32_t) ((char *) handler - ((char *) res + sizeof (pattern)));',
                          'disp = (int32_t) ((char *) handler - ((char *) res + sizeof (pattern) - 1));'),
        # the second label of a chain of labels gets no bb stub
        'bb_label_chain': ('mir-gen.c', '''             last_lab_insn = insn, insn = DLIST_NEXT (MIR_insn_t, insn))
          insn->data = &bb_stubs[n_bbs];''', '''             last_lab_insn = insn, insn = DLIST_NEXT (MIR_insn_t, insn))
          if (n_bbs % 4 != 3) insn->data = &bb_stubs[n_bbs];'''),
        # function address value depends on the engine: the interpreter-side shim address instead of the thunk
        'h_disp_expr': ('mir-x86_64.c', "int64_t disp = (char *) to - ((char *) thunk + 5);",
                        "int64_t disp = (int64_t) ((uintptr_t) to - (uintptr_t) thunk) - 5; /* harmless */"),
        'h_get_ref': ('mir-gen.c', '  return (uint64_t) ref_op->u.ref->addr;\n}',
                      '  { MIR_item_t it = ref_op->u.ref; void *a = it->addr; return (uint64_t) a; } /* harmless */\n}'),
        # ---- round 3: argument locations at calls through public addresses ----
        # _MIR_get_ff_call: an SSE class block needs one register more than it has eightbytes
        'ff_sse_blk_lt': ('mir-x86_64.c', 'type == MIR_T_BLK + 2 && n_xregs + qwords <= max_xregs', 'type == MIR_T_BLK + 2 && n_xregs + qwords < max_xregs'),
        # target_machinize: a 16-byte SSE class block is taken from registers when only xmm7 is left
        'gen_callee_sse_blk': ('mir-gen-x86_64.c', '''            && (blk_size <= 8 || get_fp_arg_reg (fp_arg_num + 1) != MIR_NON_VAR))) {''',
                               '''            && (blk_size <= 8 || get_fp_arg_reg (fp_arg_num) != MIR_NON_VAR))) {'''),
        # machinize_call: a long double on the stack is 8-byte aligned only
        'gen_call_ld_align': ('mir-gen-x86_64.c', '        arg_stack_size = (arg_stack_size + 15) / 16 * 16;', '        arg_stack_size = (arg_stack_size + 7) / 8 * 8;'),
        # va_block_arg_builtin: mixed-class block taken from registers when all six integer registers are used
        'shim_mixed_gp': ('mir-x86_64.c', 'if (va->fp_offset > 160 || va->gp_offset > 40) break;', 'if (va->fp_offset > 160 || va->gp_offset > 48) break;'),
        # va_block_arg_builtin: a stack block advances the overflow area by the unrounded size
        'shim_overflow_unrounded': ('mir-x86_64.c', '  va->overflow_arg_area += size / 8;', '  va->overflow_arg_area += s / 8;'),
        # seeded C03-x1
        'shim_sse_blk_size': ('mir-x86_64.c', 'if (va->fp_offset + size * 2 > 176) break;', 'if (va->fp_offset + size > 176) break;'),
        # the same test written with register counts
        'h_shim_sse_regs': ('mir-x86_64.c', 'if (va->fp_offset + size * 2 > 176) break;',
                            'if ((va->fp_offset - 48) / 16 + size / 8 > 8) break; /* harmless */'),
    },
    'C16': {
        'restore_keeps_vars': ('mir.c', 'while (VARR_LENGTH (MIR_var_t, func->vars) > func->original_vars_num) {',
                               'while (0 && VARR_LENGTH (MIR_var_t, func->vars) > func->original_vars_num) {'),
        'regen_second': ('mir-gen.c', '''  if (func_item->u.func->machine_code != NULL) {
    gen_assert (func_item->u.func->call_addr != NULL);''', '''  if (0 && func_item->u.func->machine_code != NULL) {
    gen_assert (func_item->u.func->call_addr != NULL);'''),
        'no_restore': ('mir-gen.c', '  _MIR_restore_func_insns (ctx, func_item);\n  func_item->data = saved_data;',
                       '  if (optimize_level < 3) _MIR_restore_func_insns (ctx, func_item);\n  func_item->data = saved_data;'),
        'restore_lref': ('mir.c', '''    lref->label = lref->orig_label;
    lref->label2 = lref->orig_label2;''', '''    lref->label = lref->orig_label;'''),
        'dup_shares_labels': ('mir.c', '''    for (n = start_label_nop; n < bound_label_nop; n++)
      insn->ops[n].u.label = insn->ops[n].u.label->data;
  }
  while (VARR_LENGTH (MIR_insn_t, labels) != 0) { /* reset data */''', '''    for (n = start_label_nop; n < bound_label_nop && insn->code != MIR_BT; n++)
      insn->ops[n].u.label = insn->ops[n].u.label->data;
  }
  while (VARR_LENGTH (MIR_insn_t, labels) != 0) { /* reset data */'''),
        'gen_edits_original': ('mir-gen.c', '''  curr_func_item = func_item;
  _MIR_duplicate_func_insns (ctx, func_item);''', '''  curr_func_item = func_item;
  { MIR_insn_t fi = DLIST_HEAD (MIR_insn_t, func_item->u.func->insns);
    if (fi != NULL && fi->code == MIR_MOV && fi->ops[1].mode == MIR_OP_INT) fi->ops[1].u.i ^= 1; }
  _MIR_duplicate_func_insns (ctx, func_item);'''),
        'swap_lists_late': ('mir.c', '''  func->insns = func->original_insns;
  DLIST_INIT (MIR_insn_t, func->original_insns);
  for (MIR_lref_data_t lref = func->first_lref;''', '''  if (func->first_lref == NULL) func->insns = func->original_insns;
  DLIST_INIT (MIR_insn_t, func->original_insns);
  for (MIR_lref_data_t lref = func->first_lref;'''),
        'addr_changes': ('mir-gen.c', '''    _MIR_redirect_thunk (ctx, func_item->addr, func_item->u.func->call_addr);
    DEBUG (2, {
      fprintf (debug_file, "+++++++++++++The code for %s has been already generated\\n",''', '''    func_item->addr = _MIR_get_thunk (ctx);
    _MIR_redirect_thunk (ctx, func_item->addr, func_item->u.func->call_addr);
    DEBUG (2, {
      fprintf (debug_file, "+++++++++++++The code for %s has been already generated\\n",'''),
        # ---- round 2 (auditor) ----
        'reg_num_no_globals': ('mir.c', '  if (func->global_vars != NULL) reg += (MIR_reg_t) VARR_LENGTH (MIR_var_t, func->global_vars);',
                               '  if (0 && func->global_vars != NULL) reg += (MIR_reg_t) VARR_LENGTH (MIR_var_t, func->global_vars);'),
        'restore_reg2rdn_kept': ('mir.c', '    res_p &= HTAB_DO (size_t, func_regs->reg2rdn_tab, rdn, HTAB_DELETE, tab_rdn);\n    mir_assert (res_p);\n  }\n  while ((insn = DLIST_HEAD',
                                 '    mir_assert (res_p);\n  }\n  while ((insn = DLIST_HEAD'),
        'ovn_globals': ('mir.c', '  func->original_vars_num = VARR_LENGTH (MIR_var_t, func->vars);',
                        '  func->original_vars_num = VARR_LENGTH (MIR_var_t, func->vars) + (func->global_vars != NULL);'),
        'revert_C16_2': ('mir-interp.c', '    insn->data = NULL; /* it was used only for interpretation preparation */',
                         '    ; /* it was used only for interpretation preparation */'),
        'revert_C16_3': ('mir-gen.c', '  func_item->data = saved_data;', '  ;'),
        'h_restore_lookup_first': ('mir.c', '''    MIR_var_t var = VARR_POP (MIR_var_t, func->vars);
    func_regs_t func_regs = func->internal;

    rd = find_rd_by_name (ctx, var.name, func);''', '''    MIR_var_t var = VARR_LAST (MIR_var_t, func->vars);
    func_regs_t func_regs = func->internal;

    rd = find_rd_by_name (ctx, var.name, func);
    VARR_POP (MIR_var_t, func->vars); /* harmless */'''),
        'h_dup_varr_size': ('mir.c', '''  VARR_CREATE (MIR_insn_t, labels, ctx->alloc, 0);
  VARR_CREATE (MIR_insn_t, branch_insns, ctx->alloc, 0);
  for (insn = DLIST_HEAD (MIR_insn_t, func->original_insns); insn != NULL;''', '''  VARR_CREATE (MIR_insn_t, labels, ctx->alloc, 16);
  VARR_CREATE (MIR_insn_t, branch_insns, ctx->alloc, 16);
  for (insn = DLIST_HEAD (MIR_insn_t, func->original_insns); insn != NULL;'''),
    },
}


def sh(cmd, **kw):
    return subprocess.run(cmd, stdout=subprocess.PIPE, stderr=subprocess.STDOUT, text=True, **kw)


def main():
    args = [a for a in sys.argv[1:] if not a.startswith('--')]
    tier = 'quick'
    for a in sys.argv[1:]:
        if a.startswith('--tier='):
            tier = a.split('=', 1)[1]
    prop = args[0]
    names = args[1:] or list(MUT[prop])
    if not os.path.isdir(WT):
        sys.exit('create the worktree first: git -C /repo worktree add -q --detach ' + WT)
    for name in names:
        f, old, new = MUT[prop][name]
        if old is None:
            continue
        sh(['git', '-C', WT, 'checkout', '-q', '--', '.'])
        p = os.path.join(WT, f)
        s = open(p).read()
        if s.count(old) != 1:
            print('%-22s pattern occurs %d times -- SKIPPED' % (name, s.count(old)))
            continue
        open(p, 'w').write(s.replace(old, new))
        r = sh([os.path.join(VERIF, 'check'), prop, '--tier', tier], env=dict(os.environ, VERIF_REPO=WT), cwd=VERIF)
        viol = [l for l in r.stdout.split('\n') if l.startswith('VIOLATION') or l.startswith('#') or l.startswith('BUILD-ERROR')]
        print('%-22s rc=%d  %s' % (name, r.returncode, ('CAUGHT ' + viol[0][:230]) if r.returncode == 1 else ('MISSED' if r.returncode == 0 else 'ERROR ' + r.stdout[-300:])))
        sys.stdout.flush()
    sh(['git', '-C', WT, 'checkout', '-q', '--', '.'])


if __name__ == '__main__':
    main()

#!/bin/bash
# coordinator only. usage: apply_fixes_batch.sh <listfile>   (lines: <patch path>|<commit message>)
# applies + commits each patch, then builds and runs the repo suite once; on failure resets to the start.
set -u
LIST="$1"
cd /repo
START=$(git rev-parse HEAD)
while IFS='|' read -r P MSG; do
  [ -z "$P" ] && continue
  if git apply --check "$P" 2>/dev/null; then git apply "$P"; else
    if ! git apply --3way "$P"; then echo "CANNOT APPLY $P"; git reset -q --hard $START; exit 1; fi
  fi
  git commit -qam "$MSG"
  echo "committed $(git rev-parse --short HEAD) $MSG"
done < "$LIST"
cmake --build _build -- -k 0 > /var/tmp/fixbuild.log 2>&1
grep -c "FAILED:" /var/tmp/fixbuild.log
grep "FAILED:" /var/tmp/fixbuild.log | grep -v l2m
if ctest --test-dir _build -j8 --timeout 900 > /var/tmp/fixtest.log 2>&1; then
  tail -3 /var/tmp/fixtest.log
else
  tail -20 /var/tmp/fixtest.log
  echo "TESTS FAILED: resetting to $START"; git reset -q --hard $START
  exit 1
fi

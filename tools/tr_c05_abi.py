#!/usr/bin/env python3
# tr_c05_abi: regenerate coq/gen/C05Abi.v from the CURRENT tree (sources after `gcc -E -P`, so #ifdef
# _WIN32 branches and the pattern macros are resolved by the real preprocessor).  What is translated
# (everything else of C05/C06 is hand-transcribed and tied by the correspondence run):
#   mir-gen.c (+ mir-gen-x86_64.c)
#     get_ext_code                      -> gen_ext_code      : ity -> extc
#     get_int_arg_reg / get_fp_arg_reg  -> gen_int_arg_regs, gen_fp_arg_regs : list Z (hard reg numbers)
#     target_call_used_hard_reg_p       -> gen_call_used     : Z -> bool   (C boolean expression -> Coq)
#     reg_save_area_size                -> gen_reg_save_area_size
#     patterns[]                        -> gen_patterns      : list (list Z opcode-name, list (list tok))
#     out_insn: rounding of a constant alloca size      -> gen_alloca_imm_add, gen_alloca_imm_mask
#     target_machinize: case MIR_ALLOCA sets keep_fp_p  -> gen_alloca_keeps_fp : bool
#     target_make_prolog_epilog: the frameless-leaf early return condition -> gen_frameless_cond (list of names)
#   mir.c       make_one_ret / simplify_func ext switches -> mir_ret_ext, mir_arg_ext : ity -> extc
#   mir-interp.c call(): argument / result conversion switches -> interp_call_arg, interp_call_res : ity -> cty
#               interp(): entry decoding switch                -> interp_entry : ity -> cty * cty
#   mir-x86_64.c _MIR_get_ff_call: iregs[], max_iregs, max_xregs -> ff_iregs, ff_max_iregs, ff_max_xregs
#               byte patterns of the stubs (non-_WIN32)          -> stub_<name> : list Z
# Anything the translator cannot parse becomes XUNKNOWN / Cunknown / an empty list, so that the theorems over
# the generated definitions fail instead of silently keeping an old model.
import sys, os, re
sys.path.insert(0, os.path.dirname(os.path.abspath(__file__)))
import vlib

ITYS = ['I8', 'U8', 'I16', 'U16', 'I32', 'U32', 'I64', 'U64', 'P']
COQ_ITY = {'I8': 'I8', 'U8': 'U8', 'I16': 'I16', 'U16': 'U16', 'I32': 'I32', 'U32': 'U32', 'I64': 'I64', 'U64': 'U64', 'P': 'Pt'}
EXTS = {'EXT8': 'XEXT8', 'UEXT8': 'XUEXT8', 'EXT16': 'XEXT16', 'UEXT16': 'XUEXT16', 'EXT32': 'XEXT32', 'UEXT32': 'XUEXT32',
        'INVALID_INSN': 'XNONE'}
CTYS = {'int8_t': 'Ci8', 'uint8_t': 'Cu8', 'int16_t': 'Ci16', 'uint16_t': 'Cu16', 'int32_t': 'Ci32', 'uint32_t': 'Cu32',
        'int64_t': 'Ci64', 'uint64_t': 'Cu64', None: 'Cnone'}


def preprocess(repo, f, extra=()):
    rc, out, err = vlib.sh(['gcc', '-E', '-P', '-DMIR_VERIF', '-DNDEBUG', '-U_WIN32', '-I' + repo] + list(extra)
                           + [os.path.join(repo, f)], check=True)
    return out


def func_body(src, name):
    """text of the body of the C function `name` defined at column 0 ('' when absent)"""
    m = re.search(r'^[A-Za-z_][^\n;{}]*\b%s \([^;{]*\)\s*\{' % re.escape(name), src, re.M)
    if not m:
        return ''
    i = m.end()
    depth = 1
    while i < len(src) and depth:
        depth += {'{': 1, '}': -1}.get(src[i], 0)
        i += 1
    return src[m.end():i - 1]


def enclosing_headers(body, pos):
    """headers (text between the previous ; { } and the opening brace) of the blocks open at body[pos]"""
    stack, last, par = [], 0, 0
    for i, ch in enumerate(body[:pos]):
        if ch in '()':
            par += 1 if ch == '(' else -1
        elif ch == ';' and par > 0:
            continue
        if ch == '{':
            stack.append((re.sub(r'\s+', ' ', body[last:i]).strip(), i))
            last = i + 1
        elif ch == '}':
            if stack:
                stack.pop()
            last = i + 1
        elif ch == ';':
            last = i + 1
    return stack


def call_fp_rules(body):
    """(end rule, block-branch rule, scalar-stack-branch rule) of machinize_call, or None when a frame-pointer
    forcing statement sits in a context this translator does not know"""
    if not body:
        return None
    end = blk = sc = False
    occ = [m.start() for m in re.finditer(r'prohibit_omitting_fp \(gen_ctx\)|keep_fp_p = 1\b|gen_ctx->target_ctx->keep_fp_p = 1\b', body)]
    if not occ:
        return None
    for pos in occ:
        chain = enclosing_headers(body, pos)
        stmt_start = max(body.rfind(';', 0, pos), body.rfind('}', 0, pos), body.rfind('{', 0, pos)) + 1
        guard = re.sub(r'\s+', ' ', body[stmt_start:pos]).strip()
        if not chain:
            if guard == 'if (arg_stack_size != 0)':
                end = True
            else:
                return None
            continue
        if guard not in ('', 'else'):
            return None
        heads = [h for h, _ in chain]
        if any(re.match(r'(else )?if \(MIR_blk_type_p \(type\)\)$', h) for h in heads):
            blk = True
        elif heads[-1] == 'else' and len(heads) >= 2 and heads[-2].startswith('for ('):
            # the last alternative of the per-argument chain: `else { put arguments on the stack }`
            blkpos = chain[-1][1]
            j, depth = blkpos + 1, 1
            while j < len(body) and depth:
                depth += {'{': 1, '}': -1}.get(body[j], 0)
                j += 1
            if 'arg_stack_size' in body[blkpos:j] and 'mem_type' in body[blkpos:j]:
                sc = True
            else:
                return None
        else:
            return None
    return end, blk, sc


DCE_CODES = ('CALL', 'ALLOCA', 'BSTART', 'VA_START', 'VA_ARG')


def ssa_never_dead(body):
    """which side-effecting insns with an output operand ssa_dead_insn_p (SSA dead-code elimination) refuses to delete:
    the codes of the top-level `||` chain of its first `if (...) return FALSE;`; None when the shape is unknown"""
    if not body:
        return None
    m = re.search(r'if \(((?:[^;{}])*?)\)\s*return (?:FALSE|0);', body, re.S)
    if not m or 'insn->code' not in m.group(1):
        return None
    cond = re.sub(r'\s+', ' ', m.group(1))
    # split on top-level ||
    terms, depth, cur = [], 0, ''
    i = 0
    while i < len(cond):
        ch = cond[i]
        depth += {'(': 1, ')': -1}.get(ch, 0)
        if depth == 0 and cond.startswith('||', i):
            terms.append(cur.strip())
            cur = ''
            i += 2
            continue
        cur += ch
        i += 1
    terms.append(cur.strip())
    kept = set()
    for t in terms:
        if t == 'MIR_call_code_p (insn->code)':
            kept.add('CALL')
            continue
        mm = re.fullmatch(r'insn->code == MIR_(\w+)', t)
        if mm:
            kept.add(mm.group(1))
        elif '&&' in t and 'HARD_REG' in t:
            continue   # insns setting the frame / stack pointer
        else:
            return None
    return kept


def post_ra_never_dead(src):
    """the same for the dead-code elimination after register allocation: `dead_p && !MIR_call_code_p (...) && insn->code != ...`"""
    m = re.search(r'if \(dead_p && ((?:[^;{}])*?)\) \{', re.sub(r'\s+', ' ', src))
    if not m:
        return None
    kept = set()
    if '!MIR_call_code_p (insn->code)' in m.group(1):
        kept.add('CALL')
    kept |= set(re.findall(r'insn->code != MIR_(\w+)', m.group(1)))
    return kept


def switch_after(body, marker_re):
    """the text of the first `switch (...) { ... }` whose head matches marker_re"""
    m = re.search(r'switch \(%s\) \{' % marker_re, body)
    if not m:
        return ''
    i = m.end()
    depth = 1
    while i < len(body) and depth:
        depth += {'{': 1, '}': -1}.get(body[i], 0)
        i += 1
    return body[m.end():i - 1]


def ity_fun(name, table, default, ctor_ty):
    """Coq function ity -> <ctor_ty> from a dict MIR type suffix -> constructor text"""
    L = ['Definition %s (t : ity) : %s :=' % (name, ctor_ty), '  match t with']
    for t in ITYS:
        L.append('  | %s => %s' % (COQ_ITY[t], table.get(t, default)))
    L.append('  end.')
    return '\n'.join(L)


def ext_switch(sw, assign_re):
    tab = {}
    for m in re.finditer(r'case MIR_T_(\w+):\s*' + assign_re, sw):
        tab[m.group(1)] = EXTS.get(m.group(2), 'XUNKNOWN')
    d = re.search(r'default:\s*' + assign_re, sw)
    return tab, (EXTS.get(d.group(1), 'XUNKNOWN') if d else 'XUNKNOWN')


# ---------------------------------------------------------------- C boolean expression -> Coq
def c_bool_to_coq(expr, consts, var):
    toks = re.findall(r'\|\||&&|==|!=|<=|>=|[!()<>]|[A-Za-z_]\w*|\d+', expr)
    pos = [0]

    def peek():
        return toks[pos[0]] if pos[0] < len(toks) else None

    def eat(t=None):
        x = peek()
        if t is not None and x != t:
            raise ValueError('expected %s got %s' % (t, x))
        pos[0] += 1
        return x

    def atom():
        x = eat()
        if x == '(':
            e = p_or()
            eat(')')
            return e
        if x == '!':
            return ('not', atom())
        if re.fullmatch(r'\d+', x):
            return ('num', int(x))
        if x == var:
            return ('var',)
        if x in consts:
            return ('num', consts[x])
        raise ValueError('unknown identifier ' + x)

    def p_cmp():
        a = atom()
        if peek() in ('==', '!=', '<=', '>=', '<', '>'):
            op = eat()
            b = atom()
            return ('cmp', op, a, b)
        return a

    def p_and():
        a = p_cmp()
        while peek() == '&&':
            eat()
            a = ('and', a, p_cmp())
        return a

    def p_or():
        a = p_and()
        while peek() == '||':
            eat()
            a = ('or', a, p_and())
        return a

    e = p_or()
    if pos[0] != len(toks):
        raise ValueError('trailing tokens')

    def num(a):
        return 'r' if a[0] == 'var' else str(a[1])

    def out(e):
        k = e[0]
        if k == 'not':
            return 'negb (%s)' % out(e[1])
        if k in ('and', 'or'):
            return '(%s) %s (%s)' % (out(e[1]), '&&' if k == 'and' else '||', out(e[2]))
        if k == 'cmp':
            op = {'==': '=?', '<=': '<=?', '<': '<?'}.get(e[1])
            a, b = num(e[2]), num(e[3])
            if e[1] == '>=':
                op, a, b = '<=?', b, a
            elif e[1] == '>':
                op, a, b = '<?', b, a
            elif e[1] == '!=':
                return 'negb (%s =? %s)' % (a, b)
            return '%s %s %s' % (a, op, b)
        raise ValueError('bare value in boolean position')
    return out(e)


# ---------------------------------------------------------------- patterns
def pattern_rows(src):
    i = src.find('static struct pattern patterns[] = {')
    if i < 0:
        return []
    j = src.index('};', i)
    body = src[i:j]
    out = []
    for m in re.finditer(r'\{\s*MIR_(\w+)\s*,\s*((?:"[^"]*"\s*)+),\s*((?:"[^"]*"\s*)+)(?:,\s*\d+\s*)?\}', body):
        cat = lambda x: ''.join(re.findall(r'"([^"]*)"', x))
        out.append((m.group(1), cat(m.group(2)), cat(m.group(3))))
    return out


def name_bytes(s):
    return '[' + '; '.join(str(b) for b in s.encode()) + ']'


def tmpl(r):
    insns = []
    for ins in r.split(';'):
        toks = []
        for t in ins.split():
            if re.fullmatch(r'[0-9A-F]{2}', t):
                toks.append('KB %d' % int(t, 16))
            elif re.fullmatch(r'/[0-7]', t):
                toks.append('KS %d' % int(t[1]))
            elif re.fullmatch(r'[hH][0-9A-Fa-f]{1,2}', t):
                toks.append('%s %d' % ('Kh' if t[0] == 'h' else 'KH', int(t[1:], 16)))
            elif re.fullmatch(r'V[0-9A-Fa-f]+', t):
                toks.append('KV %d' % int(t[1:], 16))
            elif re.fullmatch(r'ad[0-9A-Fa-f]+', t):
                toks.append('Kad %d' % int(t[2:], 16))
            elif re.fullmatch(r'[rRS][0-2]', t):
                toks.append('K%s %d' % ({'r': 'r', 'R': 'R', 'S': 'R'}[t[0]], int(t[1])))
            elif re.fullmatch(r'I[0-2]', t):
                toks.append('KI %d' % int(t[1]))
            elif t in ('X', 'Y', 'Z'):
                toks.append('KRex')
            else:
                toks.append('KO')
        if toks:
            insns.append('[' + '; '.join(toks) + ']')
    return '[' + '; '.join(insns) + ']'


# ---------------------------------------------------------------- stubs (mir-x86_64.c)
def byte_arrays(src):
    """static const uint8_t <name>[] = { ... }; at any nesting, after preprocessing (comments gone)"""
    out = {}
    for m in re.finditer(r'static (?:const uint8_t|uint8_t const) (\w+)\[\]\s*=\s*\{([^}]*)\}', src):
        vals = re.findall(r'0[xX][0-9a-fA-F]+|\d+', m.group(2))
        out.setdefault(m.group(1), []).append([int(v, 0) for v in vals])
    return out


NOTES = []


def tables_by_execution():
    """run harness/c05_tables.c (includes the checked tree's mir-gen.c) and parse its lines"""
    exe = vlib.build_harness('c05_tables', ['c05_tables.c'], units=('mir',), extra_flags=['-w'])
    rc, out, err = vlib.sh([exe], timeout=120)
    if rc != 0:
        raise vlib.BuildError('c05_tables failed rc=%d: %s' % (rc, err[-500:]))
    t = dict(ext={}, intreg={}, fpreg={}, callused={}, regsave=None, pats=[])
    for l in out.split('\n'):
        if l.startswith('pat '):
            f = l[4:].split('\t')
            if len(f) == 3:
                t['pats'].append((f[0].upper(), f[1], f[2]))
            continue
        w = l.split()
        if not w:
            continue
        if w[0] == 'ext':
            t['ext'][w[1]] = EXTS.get(w[2], 'XUNKNOWN')
        elif w[0] in ('intreg', 'fpreg', 'callused'):
            t[w[0]][int(w[1])] = int(w[2])
        elif w[0] == 'regsave':
            t['regsave'] = int(w[1])
    return t


def reg_list(tab):
    """registers for indices 0,1,... up to the first index without a register; [] when a later index has one"""
    regs = []
    k = 0
    while tab.get(k, -1) >= 0:
        regs.append(tab[k])
        k += 1
    if any(v >= 0 for i, v in tab.items() if i >= k):
        return []
    return regs


def fallback(what):
    NOTES.append('translator tr_c05_abi: did not recognise %s in the checked tree; the reviewed hand model is used for it '
                 '(tied by the correspondence run only)' % what)


def translate(repo):
    del NOTES[:]
    L = ['(* GENERATED on every run by tools/tr_c05_abi.py from the checked tree: finite tables by executing the',
         '   generator\'s own functions (harness/c05_tables.c), switches / constants / byte arrays by gcc -E -P -U_WIN32 +',
         '   pattern matching (a part that is not recognised falls back to the reviewed model of C05/Conv.v and is',
         '   reported as a note).  Do not edit. *)',
         'From Coq Require Import ZArith List Bool.',
         'From MirV Require Import C05.SysV C05.Conv.',
         'Import ListNotations.', 'Local Open Scope Z_scope.', '']
    T = tables_by_execution()
    L.append(ity_fun('gen_ext_code', T['ext'], 'XUNKNOWN', 'extc'))
    L.append('Definition gen_int_arg_regs : list Z := [%s].' % '; '.join(map(str, reg_list(T['intreg']))))
    L.append('Definition gen_fp_arg_regs : list Z := [%s].' % '; '.join(map(str, reg_list(T['fpreg']))))
    used = sorted(r for r, v in T['callused'].items() if v)
    L.append('(* target_call_used_hard_reg_p tabulated over hard registers 0..%d *)' % max(T['callused'] or {0: 0}))
    L.append('Definition gen_call_used (r : Z) : bool := existsb (Z.eqb r) [%s].' % '; '.join(map(str, used)))
    L.append('Definition gen_reg_save_area_size : Z := %s.' % (T['regsave'] if T['regsave'] is not None else '-1'))
    gen = preprocess(repo, 'mir-gen.c')
    # alloca
    ob = func_body(gen, 'out_insn')
    m = re.search(r'if \(insn->code == MIR_ALLOCA[^;]*?\)\s*insn->ops\[1\]\.u\.u = \(insn->ops\[1\]\.u\.u \+ (\d+)\) & (-?\d+);', ob, re.S)
    if not m:
        fallback('the rounding of a constant alloca size in out_insn')
    L.append('Definition gen_alloca_imm_add : Z := %s.' % (m.group(1) if m else '15'))
    L.append('Definition gen_alloca_imm_mask : Z := %s.' % ('(%s)' % m.group(2) if m else '(-16)'))
    tm = func_body(gen, 'target_machinize')
    m = re.search(r'case MIR_ALLOCA:\s*([^;]*);', tm)
    if m and re.search(r'keep_fp_p\s*=', m.group(1)):
        keeps = m.group(1).rstrip().endswith('= 1')
    else:
        fallback('the MIR_ALLOCA case of target_machinize')
        keeps = True
    L.append('Definition gen_alloca_keeps_fp : bool := %s.' % ('true' if keeps else 'false'))
    # which outgoing-argument paths of machinize_call force a frame pointer (slots are addressed through rsp otherwise,
    # and machinize_call moves rsp around the call when there is a stack-argument area)
    rules = call_fp_rules(func_body(gen, 'machinize_call'))
    if rules is None:
        fallback('where machinize_call forces a frame pointer for calls with a stack-argument area')
        rules = (True, False, False)
    L.append('(* machinize_call forces a frame pointer: at its end when the stack-argument area is non-empty / in the branch '
             'that copies a block argument to the stack / in the branch that stores a scalar stack argument *)')
    L.append('Definition gen_call_fp_end_rule : bool := %s.' % ('true' if rules[0] else 'false'))
    L.append('Definition gen_call_fp_blk_rule : bool := %s.' % ('true' if rules[1] else 'false'))
    L.append('Definition gen_call_fp_scalar_rule : bool := %s.' % ('true' if rules[2] else 'false'))
    # dead-code elimination: side-effecting insns with an output operand that are never deleted
    for tag, kept, what in (('ssa', ssa_never_dead(func_body(gen, 'ssa_dead_insn_p')), 'the never-dead insn list of ssa_dead_insn_p'),
                            ('postra', post_ra_never_dead(func_body(gen, 'dead_code_elimination')), 'the never-dead insn list of dead_code_elimination')):
        if kept is None:
            fallback(what)
            kept = set(DCE_CODES)
        L.append('(* %s: %s *)' % (what, ' '.join(sorted(kept))))
        for c in DCE_CODES:
            L.append('Definition gen_%s_keeps_%s : bool := %s.' % (tag, c.lower(), 'true' if c in kept else 'false'))
    pe = func_body(gen, 'target_make_prolog_epilog')
    want = ['leaf_p', '!alloca_p', '!block_arg_func_p', 'saved_hard_regs_size == 0', '!vararg_p', 'stack_slots_num == 0']
    ok = None
    for m in re.finditer(r'if \(([^;{]*?)\)\s*return;', pe, re.S):
        names = [x.strip().replace('gen_ctx->target_ctx->', '').replace('func->', '') for x in re.sub(r'\s+', ' ', m.group(1)).split('&&')]
        if 'leaf_p' in names:
            ok = sorted(names) == sorted(want)
            L.append('(* frameless-leaf early return of target_make_prolog_epilog: %s *)' % ' && '.join(names).replace('*', ''))
    if ok is None:
        fallback('the frameless-leaf early return of target_make_prolog_epilog')
        ok = True
    L.append('Definition gen_frameless_cond_ok : bool := %s.' % ('true' if ok else 'false'))
    # patterns
    rows = T['pats']
    L.append('Definition gen_patterns : list (list Z * list (list ktok)) :=')
    L.append('  [ ' + '\n  ; '.join('(%s, %s)' % (name_bytes(c), tmpl(r)) for c, p, r in rows) + ' ].' if rows else '  [].')
    for code in ('ALLOCA', 'BSTART', 'BEND'):
        sel = [(p, r) for c, p, r in rows if c == code]
        L.append('Definition gen_%s_rows : list (list Z * list (list ktok)) :=' % code.lower())
        L.append('  [%s].' % '; '.join('(%s, %s)' % (name_bytes(p), tmpl(r)) for p, r in sel))
    # mir.c ext switches
    mir = preprocess(repo, 'mir.c')
    for name, fn, head in (('mir_ret_ext', 'make_one_ret', r'res_types\[i\]'), ('mir_arg_ext', 'simplify_func', r'var\.type')):
        tab, dflt = ext_switch(switch_after(func_body(mir, fn), head), r'ext_code = MIR_(\w+);')
        if len(tab) < 6:
            fallback('the extension switch of %s' % fn)
            L.append('Definition %s := reviewed_ext.' % name)
        else:
            L.append(ity_fun(name, tab, dflt, 'extc'))
    # mir-interp.c
    itp = preprocess(repo, 'mir-interp.c')
    cb = func_body(itp, 'call')
    LHS = r'[^;=]*?(?:\.|->)(\w)'
    RHS = r'\(?[^;]*?(?:\.|->)(\w)\)?'
    tab = {}
    sw = ''
    m = re.search(r'for \(i = 0; i < nargs; i\+\+\) \{(.*?)\(\(void \(\*\)', cb, re.S)   # the argument loop, up to the ff call
    if m:
        sw = m.group(1)
    for m in re.finditer(r'case MIR_T_(\w+):\s*' + LHS + r'\s*=\s*(?:\((\w+)\)\s*)?' + RHS + r';\s*break;', sw):
        t, dstf, cast, srcf = m.groups()
        if t in ITYS:
            tab[t] = CTYS.get(cast, 'Cunknown') if (dstf in 'iu' and srcf in 'ia') else 'Cunknown'
    if len(tab) < len(ITYS):
        fallback('the argument conversion switch of call() in mir-interp.c')
        L.append('Definition interp_call_arg := reviewed_call_cast.')
    else:
        L.append(ity_fun('interp_call_arg', tab, 'Cunknown', 'cty'))
    tab = {}
    m = re.search(r'\(\(void \(\*\) \(void \*, void \*\)\)(.*)$', cb, re.S)   # after the ff call: the result loop
    sw = m.group(1) if m else ''
    for m in re.finditer(r'case MIR_T_(\w+):\s*' + LHS + r'\s*=\s*(?:\((\w+)\)\s*)?' + RHS + r';\s*break;', sw):
        t, dstf, cast, srcf = m.groups()
        if t in ITYS:
            if t == 'P':
                tab[t] = 'Cu64' if (dstf == 'a' and srcf == 'a' and cast is None) else 'Cunknown'
            else:
                tab[t] = CTYS.get(cast, 'Cunknown') if (dstf in 'iu' and srcf in 'iu') else 'Cunknown'
    if len(tab) < len(ITYS):
        fallback('the result conversion switch of call() in mir-interp.c')
        L.append('Definition interp_call_res := reviewed_call_cast.')
    else:
        L.append(ity_fun('interp_call_res', tab, 'Cunknown', 'cty'))
    ib = func_body(itp, 'interp')
    tab = {}
    for m in re.finditer(r'case MIR_T_(\w+):\s*' + LHS + r'\s*=\s*(?:\((\w+)\)\s*)?(?:__builtin_)?va_arg \(va, (\w+|void \*)\);\s*break;', ib):
        t, dstf, cast, vat = m.groups()
        if t in ITYS:
            v = 'Cu64' if vat == 'void *' else CTYS.get(vat, 'Cunknown')
            tab[t] = '(%s, %s)' % (CTYS.get(cast, 'Cunknown'), v) if dstf in 'ia' else '(Cunknown, Cunknown)'
    if re.search(r'case MIR_T_P:\s*case MIR_T_RBLK:\s*[^;=]*?(?:\.|->)a\s*=\s*(?:__builtin_)?va_arg \(va, void \*\);\s*break;', ib):
        tab['P'] = '(Cnone, Cu64)'
    if len(tab) < len(ITYS):
        fallback('the parameter decoding switch of interp() in mir-interp.c')
        L.append('Definition interp_entry := reviewed_entry.')
    else:
        L.append(ity_fun('interp_entry', tab, '(Cunknown, Cunknown)', '(cty * cty)'))
    # mir-x86_64.c
    x86 = preprocess(repo, 'mir-x86_64.c')
    fb = func_body(x86, '_MIR_get_ff_call')
    m = re.search(r'static const uint8_t iregs\[\] = \{([^}]*)\}', fb)
    m2 = re.search(r'max_iregs = (\d+), max_xregs = (\d+);', fb)
    if not (m and m2):
        fallback('iregs[] / max_iregs / max_xregs of _MIR_get_ff_call')
    L.append('Definition ff_iregs : list Z := [%s].' % ('; '.join(x.strip() for x in m.group(1).split(',') if x.strip()) if m and m2 else '7; 6; 2; 1; 8; 9'))
    L.append('Definition ff_max_iregs : Z := %s.' % (m2.group(1) if m and m2 else '6'))
    L.append('Definition ff_max_xregs : Z := %s.' % (m2.group(2) if m and m2 else '8'))
    # is the stack copy loop emitted only for blocks of at least one eightbyte?
    m = re.search(r'(if \((?:qwords != 0|qwords > 0|qwords)\)\s*)?gen_blk_mov \(code, sp_offset,', fb)
    if m is None:
        fallback('the gen_blk_mov call for stack-passed blocks in _MIR_get_ff_call')
    L.append('Definition gen_blk_mov_guarded : bool := %s.' % ('false' if (m is not None and m.group(1) is None) else 'true'))
    arrs = byte_arrays(x86)
    stubs = []
    for n in sorted(arrs):
        if n == 'iregs':
            continue
        for k, a in enumerate(arrs[n]):
            nm = 'stub_%s%s' % (n, '' if len(arrs[n]) == 1 else '_%d' % k)
            stubs.append(nm)
            L.append('Definition %s : list Z := [%s].' % (nm, '; '.join(map(str, a))))
    if len(stubs) < 20:
        NOTES.append('translator tr_c05_abi: only %d byte arrays found in mir-x86_64.c (the stub scan of control_state_never_written '
                     'covers what was found)' % len(stubs))
    L.append('Definition gen_stubs : list (list Z) := [%s].' % '; '.join(stubs))
    L.append('')
    return '\n'.join(L)


def generate():
    """rewrite coq/gen/C05Abi.v (only when its text changes); returns the path"""
    txt = translate(vlib.REPO)
    d = os.path.join(vlib.COQDIR, 'gen')
    os.makedirs(d, exist_ok=True)
    p = os.path.join(d, 'C05Abi.v')
    old = open(p).read() if os.path.exists(p) else None
    if old != txt:
        tmp = p + '.tmp%d' % os.getpid()
        with open(tmp, 'w') as f:
            f.write(txt)
        os.rename(tmp, p)
    return p, list(NOTES)


if __name__ == '__main__':
    if '--stdout' in sys.argv:
        sys.stdout.write(translate(vlib.REPO))
    else:
        print(generate())

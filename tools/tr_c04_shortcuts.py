#!/usr/bin/env python3
# Translator tie for C04: regenerates coq/gen/C04Shortcuts.v from the link-time shortcut condition of
# simplify_func in mir.c ("x op 1 => mov" / "x op 0 => mov").  The two opcode lists are taken from the
# source text of the current tree on every run; coq/Properties_C04.v proves that every listed opcode
# really is the identity on its first source for that constant (for all operand values) and sets no
# overflow flag, so adding an opcode for which this is false (e.g. MULO, as in the pinned snapshot)
# breaks a proof obligation.
import sys, os, re
sys.path.insert(0, os.path.dirname(os.path.abspath(__file__)))
import vlib


def balanced(s, i):
    """s[i] == '(' : index just after the matching ')'"""
    d = 0
    for j in range(i, len(s)):
        if s[j] == '(': d += 1
        elif s[j] == ')':
            d -= 1
            if d == 0: return j + 1
    return len(s)


SHORTCUT = re.compile(r'\(\s*\(((?:\s*code\s*==\s*MIR_\w+\s*\|\|)*\s*code\s*==\s*MIR_\w+\s*)\)\s*&&\s*insn->ops\[2\]\.mode\s*==\s*'
                      r'MIR_OP_INT\s*&&\s*insn->ops\[2\]\.u\.i\s*==\s*(\d+)\s*\)')
# (code == A || ...) && insn->ops[2].mode == MIR_OP_INT && insn->ops[2].u.i > 1 && (i & (i - 1)) == 0
POW2 = re.compile(r'^\(\s*\(((?:\s*code\s*==\s*MIR_\w+\s*\|\|)*\s*code\s*==\s*MIR_\w+\s*)\)\s*&&\s*insn->ops\[2\]\.mode\s*==\s*'
                  r'MIR_OP_INT\s*&&\s*insn->ops\[2\]\.u\.i\s*>\s*1\s*&&\s*\(\s*insn->ops\[2\]\.u\.i\s*&\s*\(\s*insn->ops\[2\]\.u\.i\s*-\s*1\s*\)\s*\)'
                  r'\s*==\s*0\s*\)$')
# codes a rewrite site of simplify_func may create / assign without being an algebraic rewrite:
# ext_code (parameter extension), code (mem-mem move split), MIR_ADD[S] (alloca consolidation), MIR_MOV
# (the shortcut), MIR_JMP (bt/bf on 0/1), rev_code (branch reversal)
KNOWN_NEW = {'ext_code', 'code', 'MIR_PTR32 ? MIR_ADDS : MIR_ADD', 'MIR_MOV', 'MIR_JMP'}
KNOWN_ASSIGN = {'rev_code'}


def extract(repo=None):
    """-> (found {0: [...], 1: [...]} or None, strength [(from, to)], message).
    Every place of simplify_func that looks at an immediate second source of an insn, assigns insn->code or creates
    an insn must be one of the recognised shapes; anything else makes the construct 'not recognised' (the
    generated lists then contain INVALID_INSN and the theorems fail, see checks/c04.py)."""
    repo = repo or vlib.REPO
    src = open(os.path.join(repo, 'mir.c')).read()
    src = re.sub(r'/\*.*?\*/', ' ', src, flags=re.S)
    src = re.sub(r'//[^\n]*', ' ', src)
    m = re.search(r'static int simplify_func\s*\([^)]*\)\s*\{.*?\n\}\n', src, re.S)
    if not m:
        return None, [], 'simplify_func not found'
    body = m.group(0)
    found = {}
    for g in SHORTCUT.finditer(body):
        ops = re.findall(r'MIR_(\w+)', g.group(1))
        found.setdefault(int(g.group(2)), []).extend(ops)
    if set(found) != {0, 1}:
        return None, [], 'shortcut condition not recognised (constants found: %s)' % sorted(found)
    # the replacement must be a plain MIR_MOV of ops[1] into ops[0]
    if not re.search(r'MIR_new_insn\s*\(\s*ctx\s*,\s*MIR_MOV\s*,\s*insn->ops\[0\]\s*,\s*insn->ops\[1\]\s*\)', body):
        return None, [], 'replacement insn is not mov ops[0], ops[1]'
    # --- every condition that reads the immediate of the second source
    strength, problems = [], []
    shortcut_spans = [g.span() for g in SHORTCUT.finditer(body)]
    pow2_bodies = []
    for g in re.finditer(r'\bif\s*\(', body):
        i = g.end() - 1
        j = balanced(body, i)
        cond = body[i:j]
        if 'insn->ops[2]' not in cond:
            continue
        rest = cond
        for a, b in shortcut_spans:          # remove the recognised shortcut sub-conditions
            if i <= a and b <= j:
                rest = rest.replace(body[a:b], ' ')
        if 'insn->ops[2]' not in rest:
            continue
        pm = POW2.match(re.sub(r'\s+', ' ', cond).strip())
        if not pm:
            problems.append('condition on the second source not recognised: %s' % re.sub(r'\s+', ' ', cond)[:160])
            continue
        froms = re.findall(r'MIR_(\w+)', pm.group(1))
        # the arm: { ... insn->code = code == A ? X : code == B ? Y : Z; insn->ops[2].u.i = sh; ... }
        k = body.index('{', j)
        d, e = 0, k
        for e in range(k, len(body)):
            if body[e] == '{': d += 1
            elif body[e] == '}':
                d -= 1
                if d == 0: break
        arm = body[k:e + 1]
        pow2_bodies.append((k, e + 1))
        am = re.search(r'insn->code\s*=\s*([^;]+);', arm)
        ok_arm = am is not None and re.search(r'for\s*\(\s*int64_t\s+v\s*=\s*insn->ops\[2\]\.u\.i\s*;\s*v\s*>\s*1\s*;\s*v\s*>>=\s*1\s*\)\s*sh\+\+\s*;', arm) \
            and re.search(r'insn->ops\[2\]\.u\.i\s*=\s*sh\s*;', arm) and len(re.findall(r'insn->ops\[', arm)) == 2
        if not ok_arm:
            problems.append('power-of-two arm not recognised: %s' % re.sub(r'\s+', ' ', arm)[:200])
            continue
        expr = am.group(1)
        mapping = {}
        default = None
        parts = [x.strip() for x in expr.split(':')]
        for x in parts[:-1]:
            mm = re.match(r'^code\s*==\s*MIR_(\w+)\s*\?\s*MIR_(\w+)$', x)
            if not mm:
                problems.append('power-of-two arm: opcode map not recognised: %s' % expr); break
            mapping[mm.group(1)] = mm.group(2)
        else:
            mm = re.match(r'^MIR_(\w+)$', parts[-1])
            if not mm:
                problems.append('power-of-two arm: opcode map not recognised: %s' % expr)
            else:
                default = mm.group(1)
                for f in froms:
                    strength.append((f, mapping.get(f, default)))
    # --- every assignment to insn->code and every created insn must be a known one
    for g in re.finditer(r'insn->code\s*=\s*([^;=][^;]*);', body):
        if any(a <= g.start() < b for a, b in pow2_bodies):
            continue
        if g.group(1).strip() not in KNOWN_ASSIGN:
            problems.append('assignment insn->code = %s not recognised' % g.group(1).strip()[:80])
    for g in re.finditer(r'MIR_new_insn\s*\(\s*ctx\s*,\s*([^,]+),', body):
        if re.sub(r'\s+', ' ', g.group(1)).strip() not in KNOWN_NEW:
            problems.append('created insn with code %s not recognised' % g.group(1).strip()[:80])
    if problems:
        return None, strength, 'rewrite site of simplify_func not recognised: ' + '; '.join(problems[:3])
    return found, strength, 'ok: x op 1 -> mov for %s; x op 0 -> mov for %s; x op 2^n -> shift for %s' % (found[1], found[0], strength)


def regenerate():
    found, strength, msg = extract()
    d = os.path.join(vlib.COQDIR, 'gen')
    os.makedirs(d, exist_ok=True)
    path = os.path.join(d, 'C04Shortcuts.v')
    st = '; '.join('(%s, %s)' % p for p in strength)
    if found is None:
        txt = ('(* GENERATED by tools/tr_c04_shortcuts.py: the construct was NOT recognised (%s) *)\n'
               'From MirV Require Import Mir.Opcode.\nRequire Import List. Import ListNotations.\n'
               'Definition shortcut_one : list opcode := [INVALID_INSN].\nDefinition shortcut_zero : list opcode := [INVALID_INSN].\n'
               'Definition strength_pow2 : list (opcode * opcode) := [%s].\n' % (msg.replace('*)', '* )'), st))
    else:
        txt = ('(* GENERATED by tools/tr_c04_shortcuts.py from simplify_func in mir.c on every run. *)\n'
               'From MirV Require Import Mir.Opcode.\nRequire Import List. Import ListNotations.\n'
               '(* insn x, y, 1  is replaced by  mov x, y  for: *)\n'
               'Definition shortcut_one : list opcode := [%s].\n'
               '(* insn x, y, 0  is replaced by  mov x, y  for: *)\n'
               'Definition shortcut_zero : list opcode := [%s].\n'
               '(* insn x, y, 2^n (immediate, n >= 1)  is replaced by  insn\' x, y, n  for the pairs (insn, insn\'): *)\n'
               'Definition strength_pow2 : list (opcode * opcode) := [%s].\n'
               % ('; '.join(found[1]), '; '.join(found[0]), st))
    old = open(path).read() if os.path.exists(path) else None
    if old != txt:
        with open(path + '.tmp%d' % os.getpid(), 'w') as f:
            f.write(txt)
        os.rename(path + '.tmp%d' % os.getpid(), path)
    return found is not None, msg


if __name__ == '__main__':
    print(regenerate())

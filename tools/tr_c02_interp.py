#!/usr/bin/env python3
# tr_c02_interp: regenerate coq/gen/InterpTable.v from the interpreter of the CURRENT tree.
# Source construct: the per-instruction cases of `eval` in mir-interp.c (SCASE/CASE rows with the
# IOP*/FOP*/EXT/ICMP/LD/ST/... macro bodies) and the get_*op(s) helpers, after `gcc -E -P` of mir.c
# (so formatting/comment edits are harmless and the macros are expanded by the real preprocessor).
# Each case is *symbolically executed* (locals, pointers to operand slots, helper inlining) to a
# MirV.Mir.CExpr statement:  opcode |-> SAssign/SBranch/SOvf/SLoad/SStore.  Anything not understood
# becomes SUnknown "text" (no semantics => the theorems over the table fail, never skipped).
import sys, os, re
sys.path.insert(0, os.path.dirname(os.path.abspath(__file__)))
import vlib
from tr_c02_clib import *
import tr_c02_smt as SMT

MEMBER_TYPES_EXPECT = {'i': 'int64_t', 'u': 'uint64_t', 'f': 'float', 'd': 'double', 'ld': 'long double', 'a': 'void *'}


def preprocess(repo):
    rc, out, err = vlib.sh(['gcc', '-E', '-P', '-DMIR_VERIF', '-DNDEBUG', '-I' + repo, os.path.join(repo, 'mir.c')],
                           check=True)
    return out


def val_members(src):
    """member name -> C type of MIR_val_t (from the preprocessed mir.h text)"""
    m = re.search(r'typedef\s+union\s*\{([^}]*)\}\s*MIR_val_t\s*;', src)
    if not m:
        raise Unsupported('MIR_val_t not found')
    mem = {}
    for d in m.group(1).split(';'):
        d = d.strip()
        if not d:
            continue
        mm = re.match(r'^(.*?)(\w+)$', d)
        mem[mm.group(2)] = re.sub(r'\s+', ' ', mm.group(1).strip())
    return mem


class Exec:
    """symbolic executor of one instruction case"""

    def __init__(self, src, members):
        self.src = src
        self.members = members
        self.funcs = {}
        self.effects = []
        self.cond = None
        self.state = {}          # interpreter state variables (other than the two classic flag names) written by this case
        self.statevars = None    # name -> (operand index >= 10, ctype), the integer locals of eval() itself
        self.typedefs = {'MIR_val_t', 'code_t', 'MIR_context_t', 'MIR_insn_t', 'MIR_item_t', 'func_desc_t', 'MIR_op_t',
                         'size_t', 'MIR_type_t', 'va_list', 'MIR_reg_t', 'MIR_insn_code_t', 'MIR_func_t', 'MIR_proto_t'}

    def member_ctype(self, m):
        t = self.members.get(m)
        if t is None:
            raise Unsupported('unknown MIR_val_t member ' + m)
        return ctype_of(t)

    def state_var(self, name):
        """integer variables declared at the top of eval(): they live across instructions (overflow state)"""
        if self.statevars is None:
            self.statevars = {}
            r = find_function(self.src, 'eval')
            head = r[1] if r else ''
            m = re.search(r'\b(?:L_\w+\s*:(?!:)|switch\s*\()', head)
            head = head[:m.start()] if m else head[:4000]
            k = 10
            for chunk in head.split(';'):
                try:
                    st = parse_stmts(chunk.strip() + ';', self.typedefs)
                except Unsupported:
                    continue
                for d in st:
                    if d[0] != 'decl':
                        continue
                    for name_, (base, nptr), init in d[1]:
                        if nptr == 0 and base in INT_TYPES and INT_TYPES[base] in SMT.TY and name_ not in ('signed_overflow_p', 'unsigned_overflow_p'):
                            self.statevars[name_] = (k, INT_TYPES[base])
                            k += 1
        return self.statevars.get(name)

    def func(self, name):
        if name not in self.funcs:
            r = find_function(self.src, name)
            if r is None:
                raise Unsupported('unknown function ' + name)
            params, body = r
            self.funcs[name] = (split_params(params), parse_stmts(body, self.typedefs))
        return self.funcs[name]

    # ---- expressions
    def rv(self, v):
        if v[0] == 'rv':
            return v[1]
        raise Unsupported('expected a value, got %r' % (v,))

    def eval(self, e, fr):
        k = e[0]
        if k == 'num':
            v, t = num_value(e[1])
            return ('rv', ('EConst', v, t))
        if k == 'id':
            n = e[1]
            if n in fr:
                v = fr[n]['val']
                if v is None:
                    raise Unsupported('use of uninitialised local ' + n)
                return v
            if n == 'signed_overflow_p':       # convention (CExpr.flag_s / flag_u): pseudo operands 8 and 9
                return ('rv', ('EVar', 8, 'CI32'))
            if n == 'unsigned_overflow_p':
                return ('rv', ('EVar', 9, 'CI32'))
            if n in ('bp', 'code', 'pc', 'ops'):
                return ('opsptr', 0) if n == 'ops' else (n,)
            sv = self.state_var(n)
            if sv is not None:
                return ('rv', self.state[n]) if n in self.state else ('rv', ('EVar', sv[0], sv[1]))
            raise Unsupported('unknown identifier ' + n)
        if k == 'cast':
            (base, nptr), inner = e[1], e[2]
            v = self.eval(inner, fr)
            if nptr == 1:
                self.rv(v)      # an address value
                return ('memptr', ctype_of(base))
            if nptr:
                raise Unsupported('pointer cast')
            return ('rv', ('ECast', ctype_of(base), self.rv(v)))
        if k == 'un':
            v = self.rv(self.eval(e[2], fr))
            if e[1] == '+':
                return ('rv', v)
            return ('rv', ('EUn', UNOPS[e[1]], v))
        if k == 'bin':
            a = self.eval(e[2], fr)
            if a[0] == 'opsptr' and e[1] == '+' and e[3][0] == 'num':
                return ('opsptr', a[1] + int(e[3][1]))
            if a[0] == 'code' and e[1] == '+':
                b = self.eval(e[3], fr)
                if b != ('slotindex', 0):
                    raise Unsupported('branch target is not operand 0')
                return ('target',)
            if a[0] == 'pc':
                return ('pcarith',)
            b = self.eval(e[3], fr)
            if e[1] in ('&&', '||'):
                # exact C meaning (short circuit, int result) in the ?: of CExpr; only the SMT equivalence with a
                # canonical row can accept such a row, the Coq recognisers know no such shape
                one, zero = ('EConst', 1, 'CI32'), ('EConst', 0, 'CI32')
                bb = ('ECond', self.rv(b), one, zero)
                return ('rv', ('ECond', self.rv(a), bb, zero) if e[1] == '&&' else ('ECond', self.rv(a), one, bb))
            if e[1] not in BINOPS:
                raise Unsupported('operator ' + e[1])
            return ('rv', ('EBin', BINOPS[e[1]], self.rv(a), self.rv(b)))
        if k == 'cond':
            return ('rv', ('ECond', self.rv(self.eval(e[1], fr)), self.rv(self.eval(e[2], fr)),
                           self.rv(self.eval(e[3], fr))))
        if k == 'deref':
            p = self.eval(e[1], fr)
            if p[0] == 'slotptr':
                return ('rv', ('EVar', p[1], self.member_ctype(p[2])))
            if p[0] == 'localptr':
                v = p[1][p[2]]['val']
                if v is None:
                    raise Unsupported('read through pointer to uninitialised local')
                return v
            if p[0] == 'memptr':
                return ('memval', p[1])
            raise Unsupported('deref of %r' % (p,))
        if k == 'addr':
            t = e[1]
            if t[0] == 'id' and t[1] in fr:
                return ('localptr', fr, t[1])
            if t[0] == 'member':
                s = self.slot_of(t, fr)
                return ('slotptr', s[0], s[1])
            raise Unsupported('address-of')
        if k == 'member':
            s = self.slot_of(e, fr)
            return ('rv', ('EVar', s[0], self.member_ctype(s[1])))
        if k == 'call':
            if e[1][0] != 'id':
                raise Unsupported('indirect call')
            f = e[1][1]
            args = [self.eval(a, fr) for a in e[2]]
            if f == 'get_i':
                if args[0][0] != 'opsptr':
                    raise Unsupported('get_i of non-operand')
                return ('slotindex', args[0][1])
            params, body = self.func(f)
            if len(params) != len(args):
                raise Unsupported('arity of ' + f)
            nfr = {}
            for (pn, pt), a in zip(params, args):
                if pt[1] == 0 and a[0] == 'rv':
                    a = ('rv', conv(ctype_of(pt[0]), a[1]))
                nfr[pn] = {'type': pt, 'val': a}
            r = self.block(body, nfr)
            return r if r is not None else ('void',)
        if k == 'assign':
            return self.assign(e[1], e[2], fr)
        if k == 'comma':
            self.eval(e[1], fr)
            return self.eval(e[2], fr)
        raise Unsupported('expression kind ' + k)

    def slot_of(self, e, fr):
        # bp[get_i (c)].m
        if e[0] == 'member' and e[1][0] == 'index' and e[1][1] == ('id', 'bp'):
            ix = self.eval(e[1][2], fr)
            if ix[0] == 'slotindex':
                return (ix[1], e[2])
        raise Unsupported('not an operand slot: %r' % (e,))

    def effect(self, eff):
        if self.cond is not None and eff[0] != 'branch':
            raise Unsupported('conditional effect other than a branch')
        self.effects.append(eff)

    def assign(self, lhs, rhs, fr):
        v = self.eval(rhs, fr)
        if lhs[0] == 'id':
            n = lhs[1]
            if n in fr:
                base, nptr = fr[n]['type']
                if nptr == 0 and v[0] == 'rv':
                    v = ('rv', conv(ctype_of(base), v[1]))
                fr[n]['val'] = v
                return v
            if n == 'pc':
                if v[0] == 'target':
                    self.effect(('branch', self.cond))
                elif v[0] != 'pcarith':
                    raise Unsupported('assignment to pc')
                return v
            if n == 'ops':
                return v
            if n in ('signed_overflow_p', 'unsigned_overflow_p'):
                self.effect(('flag', n[0], self.rv(v)))
                return v
            sv = self.state_var(n)
            if sv is not None:
                if self.cond is not None:
                    raise Unsupported('conditional assignment to ' + n)
                v = ('rv', conv(sv[1], self.rv(v)))
                self.state[n] = v[1]
                return v
            raise Unsupported('assignment to ' + n)
        if lhs[0] == 'deref':
            p = self.eval(lhs[1], fr)
            if p[0] == 'slotptr':
                if v[0] == 'memval':
                    self.effect(('load', p[1], self.member_ctype(p[2]), v[1]))
                else:
                    self.effect(('set', p[1], self.member_ctype(p[2]), self.rv(v)))
                return v
            if p[0] == 'localptr':
                loc = p[1][p[2]]
                base, nptr = loc['type']
                if nptr == 0 and v[0] == 'rv':
                    v = ('rv', conv(ctype_of(base), v[1]))
                loc['val'] = v
                return v
            if p[0] == 'memptr':
                self.effect(('store', p[1], self.rv(v)))
                return v
        if lhs[0] == 'member':
            s = self.slot_of(lhs, fr)
            self.effect(('set', s[0], self.member_ctype(s[1]), self.rv(v)))
            return v
        raise Unsupported('assignment target %r' % (lhs,))

    # ---- statements
    def block(self, stmts, fr):
        for s in stmts:
            r = self.stmt(s, fr)
            if r is not None:
                return r
        return None

    def stmt(self, s, fr):
        k = s[0]
        if k == 'block':
            return self.block(s[1], fr)
        if k == 'decl':
            for name, ty, init in s[1]:
                fr[name] = {'type': ty, 'val': None}
                if init is not None:
                    v = self.eval(init, fr)
                    if ty[1] == 0 and v[0] == 'rv':
                        v = ('rv', conv(ctype_of(ty[0]), v[1]))
                    fr[name]['val'] = v
            return None
        if k == 'expr':
            self.eval(s[1], fr)
            return None
        if k == 'return':
            return self.eval(s[1], fr) if s[1] is not None else ('void',)
        if k == 'goto':
            if s[1].replace(' ', '') == '*pc->a':
                return ('end',)
            raise Unsupported('goto ' + s[1])
        if k == 'break':
            return ('end',)
        if k == 'if':
            if s[3] is not None or self.cond is not None:
                raise Unsupported('if/else')
            c = self.rv(self.eval(s[1], fr))
            self.cond = c
            try:
                n0 = len(self.effects)
                self.stmt(s[2], fr)
                if len(self.effects) != n0 + 1:
                    raise Unsupported('conditional statement is not a single branch')
            finally:
                self.cond = None
            return None
        raise Unsupported('statement kind ' + k)


def classify(effects):
    sets = [e for e in effects if e[0] == 'set']
    flags = [e for e in effects if e[0] == 'flag']
    brs = [e for e in effects if e[0] == 'branch']
    loads = [e for e in effects if e[0] == 'load']
    stores = [e for e in effects if e[0] == 'store']
    n = len(effects)
    if len(sets) == 1 and n == 1 and sets[0][1] == 0:
        return ('SAssign', sets[0][2], sets[0][3])
    if len(sets) == 1 and flags and n == 1 + len(flags) and sets[0][1] == 0:
        sf = [f[2] for f in flags if f[1] == 's']
        uf = [f[2] for f in flags if f[1] == 'u']
        if len(sf) > 1 or len(uf) > 1:
            raise Unsupported('flag assigned twice')
        return ('SOvf', sets[0][2], sets[0][3], sf[0] if sf else None, uf[0] if uf else None)
    if len(brs) == 1 and n == 1:
        c = brs[0][1]
        return ('SBranch', c if c is not None else ('EConst', 1, 'CI32'))
    if len(loads) == 1 and n == 1 and loads[0][1] == 0:
        return ('SLoad', loads[0][2], loads[0][3])
    if len(stores) == 1 and n == 1:
        return ('SStore', stores[0][1], stores[0][2])
    raise Unsupported('effects %r' % (effects,))


OVF_OPS = ['ADDO', 'ADDOS', 'SUBO', 'SUBOS', 'MULO', 'MULOS', 'UMULO', 'UMULOS']
OVF_BRANCHES = {'BO': ('s', False), 'BNO': ('s', True), 'UBO': ('u', False), 'UBNO': ('u', True)}


def mentions_state(e):
    if not isinstance(e, tuple):
        return False
    if e and e[0] == 'EVar' and e[1] >= 10:
        return True
    return any(mentions_state(x) for x in e)


def canonicalise(rows, gen, statevars, canon):
    """rows the Coq recognisers would not know but that are, for ALL operand values (SMT, QF_BV), the canonical row:
    the canonical row is emitted instead.  gen: overflow opcode -> (result type, result expr, {state variable: new value})
    for cases that keep the overflow state in other variables than the two classic flags; such an instruction and the
    four overflow branches are tied TOGETHER: branch condition after the instruction's state update == canonical flag.
    -> (rows, notes, hints)"""
    out = dict(rows)
    notes, hints = [], []
    if gen or any(mentions_state(out.get(b)) for b in OVF_BRANCHES):
        ok = all(x in canon for x in OVF_OPS + list(OVF_BRANCHES)) and all(x in gen for x in OVF_OPS)
        why = 'overflow state kept in a form the translator does not understand'
        try:
            for x in OVF_OPS:
                if not ok:
                    break
                t, e, upd = gen[x]
                c = canon[x]
                if c[0] != 'SOvf' or t != c[1]:
                    ok = False
                    break
                enc = SMT.Enc()
                goals = [SMT.same_value(enc, t, e, c[2])]
                m = {statevars[n][0]: ex for n, ex in upd.items()}
                for b, (which, neg) in OVF_BRANCHES.items():
                    cf = c[3] if which == 's' else c[4]
                    if cf is None:
                        continue          # the instruction does not define this flag (MIR.md): nothing to show
                    bst = out.get(b)
                    if not bst or bst[0] != 'SBranch':
                        ok = False
                        break
                    goals.append(SMT.same_truth(enc, SMT.subst(bst[1], m), cf, negate=neg))
                for g in goals:
                    if not ok:
                        break
                    r, model = SMT.query(enc, g)
                    if r == 'sat':
                        hints.append(dict(op=x, args=[model.get(1, 0), model.get(2, 0)]))
                        why = 'overflow state update / branch differs from the canonical flag for some operands'
                    if r != 'unsat':
                        ok = False
        except SMT.NoSmt as ex:
            ok = False
            why = str(ex)
        if ok:
            for x in OVF_OPS + list(OVF_BRANCHES):
                out[x] = canon[x]
            notes.append('overflow instructions + BO/BNO/UBO/UBNO (state in %s)' % ', '.join(sorted(set(n for x in gen.values() for n in x[2]))))
        else:
            for x in gen:
                out[x] = ('SUnknown', why)
    for op, st in list(out.items()):
        c = canon.get(op)
        if c is None or st == c or st[0] not in ('SAssign', 'SBranch', 'SOvf') or mentions_state(st):
            continue
        r, info = SMT.equivalent(st, c)
        if r == 'equiv':
            out[op] = c
            notes.append(op)
        elif r == 'different' and info:
            hints.append(dict(op=op, args=[info.get(1, 0), info.get(2, 0)]))
    return [(op, out[op]) for op, _ in rows], notes, hints


def cases(src):
    """[(label name, text)] of the instruction cases of eval()"""
    r = find_function(src, 'eval')
    if r is None:
        raise Unsupported('eval not found')
    body = r[1]
    ms = list(re.finditer(r'(?:\bL_(\w+)\s*:(?!:))|(?:\bcase\s+(\w+)\s*:)', body))
    out = []
    for i, m in enumerate(ms):
        name = m.group(1) or m.group(2)
        end = ms[i + 1].start() if i + 1 < len(ms) else len(body)
        out.append((name, body[m.end():end]))
    return out


def translate(repo, canon=None):
    src = preprocess(repo)
    members = val_members(src)
    for k, t in MEMBER_TYPES_EXPECT.items():
        if members.get(k) != t:
            raise Unsupported('MIR_val_t member %s has type %r (expected %r)' % (k, members.get(k), t))
    ops = vlib_opcodes(repo)
    lim = ops.index('LADDR')
    required = set(o for o in ops[:lim] if not o.startswith('ADDR'))
    rows, aux = [], []
    seen = set()
    gen, statevars = {}, {}
    for name, text in cases(src):
        is_op = name.startswith('MIR_') and name[4:] in ops
        is_aux = re.match(r'^IC_(LD|ST)(I8|U8|I16|U16|I32|U32|I64|F|D|LD)$', name) is not None
        if not (is_op and name[4:] in required) and not is_aux:
            continue
        ex = Exec(src, members)
        try:
            # a case ends at its END_INSN; a trailing unterminated fragment means fall-through
            stmts = parse_stmts(text, ex.typedefs)
            r = ex.block(stmts, {})
            if r != ('end',):
                raise Unsupported('case does not end with END_INSN (falls through)')
            if ex.state:
                # the case updates interpreter state variables (an overflow state in another form than the two flags)
                sets = [e for e in ex.effects if e[0] == 'set']
                if len(sets) != 1 or len(ex.effects) != 1 or sets[0][1] != 0 or not is_op:
                    raise Unsupported('state update together with effects %r' % (ex.effects,))
                gen[name[4:]] = (sets[0][2], sets[0][3], dict(ex.state))
                statevars.update(ex.statevars)
                st = ('SUnknown', 'overflow state in %s' % ', '.join(sorted(ex.state)))
            else:
                st = classify(ex.effects)
                if mentions_state(st):
                    statevars.update(ex.statevars)
        except Unsupported as e:
            st = ('SUnknown', '%s: %s' % (e, text[:80]))
        except (KeyError, IndexError, ValueError, TypeError) as e:
            st = ('SUnknown', 'translator error %r: %s' % (e, text[:80]))
        if is_op:
            rows.append((name[4:], st))
            seen.add(name[4:])
        else:
            aux.append((name, st))
    notes, hints = [], []
    if canon is not None:
        rows, notes, hints = canonicalise(rows, gen, statevars, canon)
    return rows, aux, notes, hints


def vlib_opcodes(repo):
    import tr_opcodes
    return tr_opcodes.opcodes(repo)


def emit(rows, aux):
    s = '(* GENERATED on every run by tools/tr_c02_interp.py from mir-interp.c of the checked tree. *)\n'
    s += 'From Coq Require Import ZArith List String.\nFrom MirV Require Import Mir.Opcode Mir.CExpr.\n'
    s += 'Import ListNotations.\nLocal Open Scope Z_scope.\nLocal Open Scope string_scope.\n\n'
    s += 'Definition interp_table : list (opcode * cstmt) :=\n  [ '
    s += '\n  ; '.join('(%s, %s)' % (o, coq_stmt(st)) for o, st in rows) + ' ].\n\n'
    s += 'Definition interp_aux_table : list (string * cstmt) :=\n  [ '
    s += '\n  ; '.join('("%s", %s)' % (o, coq_stmt(st)) for o, st in aux) + ' ].\n'
    return s


CANON = 'c02_canon_interp.json'


def snapshot():
    """(maintainer) record the rows of the current tree, which the Coq recognisers accept, as the canonical rows"""
    import json
    rows, aux, _, _ = translate(vlib.REPO)
    p = os.path.join(vlib.VERIF, 'corpus', CANON)
    json.dump({o: st for o, st in rows if st[0] != 'SUnknown'}, open(p, 'w'), indent=0)
    print('wrote', p)


def main():
    repo = vlib.REPO
    if '--snapshot' in sys.argv:
        return snapshot()
    rows, aux, notes, hints = translate(repo, SMT.load_canon(CANON))
    SMT.write_hints('interp', hints)
    SMT.write_notes('interp', notes)
    out = os.path.join(vlib.COQDIR, 'gen', 'InterpTable.v')
    os.makedirs(os.path.dirname(out), exist_ok=True)
    txt = emit(rows, aux)
    old = open(out).read() if os.path.exists(out) else None
    if old != txt:
        open(out + '.tmp%d' % os.getpid(), 'w').write(txt)
        os.rename(out + '.tmp%d' % os.getpid(), out)
    unk = [o for o, st in rows + aux if st[0] == 'SUnknown']
    print('InterpTable: %d opcode rows, %d aux rows, %d unknown%s%s' % (len(rows), len(aux), len(unk),
                                                                        (': ' + ' '.join(unk[:8])) if unk else '',
                                                                        ('; tied by SMT equivalence with the canonical row: ' + '; '.join(notes)) if notes else ''))


if __name__ == '__main__':
    main()

# C08: generator of C aggregate declarations (Python AST), their text form for the OCaml model
# driver, and the C translation units that probe layout and by-value passing.
#
# AST (tuples):
#   type   := ('b', kind) | ('p',) | ('e', kind) | ('a', n, type) | ('x', type)   flexible array member
#           | ('s', [member...]) | ('u', [member...])
#   member := ('n', type)            named member
#           | ('f', width, itype)     named bit-field   (itype: ('b',k) integer/bool or ('e',k))
#           | ('g', width, itype)     unnamed bit-field (width may be 0)
#           | ('o', aggregate)        anonymous struct/union member (C11)
#
# Text form (one declaration per line, whitespace separated tokens), parsed by ocaml/driver_c08.ml:
#   type   := b<kind> | p | e<kind> | a<n> type | x type | s{ member ; ... } | u{ member ; ... }
#   member := n type | f<w> type | g<w> type | o type

INT_KINDS = ['char', 'schar', 'uchar', 'short', 'ushort', 'int', 'uint', 'long', 'ulong', 'llong', 'ullong']
FP_KINDS = ['float', 'double', 'ldouble']
KINDS = ['bool'] + INT_KINDS + FP_KINDS
CNAME = dict(bool='_Bool', char='char', schar='signed char', uchar='unsigned char', short='short',
             ushort='unsigned short', int='int', uint='unsigned', long='long', ulong='unsigned long',
             llong='long long', ullong='unsigned long long', float='float', double='double', ldouble='long double')
KSIZE = dict(bool=1, char=1, schar=1, uchar=1, short=2, ushort=2, int=4, uint=4, long=8, ulong=8, llong=8, ullong=8,
             float=4, double=8, ldouble=16)
# enum shapes: name -> (C body, least enumerator, greatest enumerator); ocaml/driver_c08.ml reads the text form
# e<lo>:<hi>.  gcc: unsigned int / unsigned long when no enumerator is negative, else int / long.
ENUM_KINDS = ['int', 'uint', 'long', 'ulong', 'pos', 'one', 'neg8', 'imin', 'umax', 'imax', 'lneg', 'lpos']
ENUM_DEF = dict(int=('{ %s_a = -1, %s_b = 7 }', -1, 7), uint=('{ %s_a = 0, %s_b = 0x80000000u }', 0, 0x80000000),
                long=('{ %s_a = -1, %s_b = 0x100000000L }', -1, 0x100000000),
                ulong=('{ %s_a = 0, %s_b = 0x8000000000000000UL }', 0, 0x8000000000000000),
                pos=('{ %s_a, %s_b, %s_c, %s_d }', 0, 3), one=('{ %s_a }', 0, 0),
                neg8=('{ %s_a = -128, %s_b = 127 }', -128, 127), imin=('{ %s_a = -2147483647 - 1, %s_b = 0 }', -2147483648, 0),
                umax=('{ %s_a = 0xffffffffu }', 0, 0xffffffff), imax=('{ %s_a = 0x7fffffff }', 0, 0x7fffffff),
                lneg=('{ %s_a = -2147483649L, %s_b = 1 }', -2147483649, 1), lpos=('{ %s_a = 1, %s_b = 0x7fffffffffffffffL }', 0, 0x7fffffffffffffff))
ENUM_SIZE = {k: (4 if (-2**31 <= v[1] and v[2] < 2**31) or (0 <= v[1] and v[2] < 2**32) else 8) for k, v in ENUM_DEF.items()}


# ------------------------------------------------------------------ text form

def ty_text(t):
    k = t[0]
    if k == 'b':
        return 'b' + t[1]
    if k == 'p':
        return 'p'
    if k == 'e':
        return 'e' + t[1]     # a kind name of ENUM_DEF (the driver's text form is e<lo>:<hi>, see model_text)
    if k == 'a':
        return 'a%d %s' % (t[1], ty_text(t[2]))
    if k == 'x':
        return 'x ' + ty_text(t[1])
    return k + '{ ' + ' ; '.join(mem_text(m) for m in t[1]) + ' }'


def mem_text(m):
    if m[0] == 'n':
        return 'n ' + ty_text(m[1])
    if m[0] in 'fg':
        return '%s%d %s' % (m[0], m[1], ty_text(m[2]))
    return 'o ' + ty_text(m[1])


def parse_text(s):
    toks = s.replace('{', '{ ').replace('}', ' } ').replace(';', ' ; ').split()
    pos = [0]

    def peek():
        return toks[pos[0]] if pos[0] < len(toks) else None

    def nxt():
        pos[0] += 1
        return toks[pos[0] - 1]

    def ty():
        t = nxt()
        if t in ('s{', 'u{'):
            ms = []
            while peek() != '}':
                if peek() == ';':
                    nxt()
                    continue
                ms.append(mem())
            nxt()
            return (t[0], ms)
        if t == 'p':
            return ('p',)
        if t == 'x':
            return ('x', ty())
        if t[0] == 'b':
            return ('b', t[1:])
        if t[0] == 'e':
            return ('e', t[1:])
        if t[0] == 'a':
            return ('a', int(t[1:]), ty())
        raise ValueError('bad type token ' + t)

    def mem():
        t = nxt()
        if t == 'n':
            return ('n', ty())
        if t == 'o':
            return ('o', ty())
        if t[0] in 'fg':
            return (t[0], int(t[1:]), ty())
        raise ValueError('bad member token ' + t)
    r = ty()
    return r


# ------------------------------------------------------------------ predicates

def is_agg(t):
    return t[0] in 'su'


def members(t):
    return t[1]


def walk_types(t):
    yield t
    if t[0] == 'a':
        yield from walk_types(t[2])
    elif t[0] == 'x':
        yield from walk_types(t[1])
    elif is_agg(t):
        for m in t[1]:
            yield ('m',) + tuple(m)
            if m[0] in 'no':
                yield from walk_types(m[1])


def features(t):
    """feature tags of a declaration (for distribution statistics and guards)"""
    fs = set()
    for x in walk_types(t):
        if x[0] == 'm':
            if x[1] == 'f':
                fs.add('bitfield')
            if x[1] == 'g':
                fs.add('unnamed-bf' if x[2] else 'zero-width')
            if x[1] == 'o':
                fs.add('anon')
        elif x[0] == 'x':
            fs.add('flex')
        elif x[0] == 'u':
            fs.add('union')
        elif x[0] == 'a':
            fs.add('array')
        elif x[0] == 'e':
            fs.add('enum')
        elif x[0] == 'b' and x[1] in FP_KINDS:
            fs.add(x[1])
        elif x[0] == 'p':
            fs.add('ptr')
    n = sum(1 for x in walk_types(t) if x[0] in 'su')
    if n > 1:
        fs.add('nested')
    return fs


def shape_features(t):
    """shapes the audit asked about, for the measured distribution of classified/passed aggregates"""
    fs = set()
    for x in walk_types(t):
        if x[0] == 'a':
            if is_agg(x[2]):
                fs.add('array-of-aggregates')
            if x[2][0] == 'a':
                fs.add('array-multi-dim')
            if x[1] == 1:
                fs.add('array-of-1')
            if x[2] in (('b', 'float'), ('b', 'double')):
                fs.add('array-of-fp')
        elif x[0] == 'u':
            ks = set()
            for m in x[1]:
                if m[0] == 'n':
                    ks.add('fp' if m[1] in (('b', 'float'), ('b', 'double')) else 'arr' if m[1][0] == 'a' else 'agg' if is_agg(m[1]) else 'int')
                elif m[0] == 'o':
                    ks.add('anon-' + m[1][0])
                else:
                    ks.add('bf')
            if 'fp' in ks and ks & {'int', 'bf'}:
                fs.add('union-fp-and-int')
            if 'arr' in ks:
                fs.add('union-with-array')
            if 'anon-u' in ks:
                fs.add('union-nested-anon-union')
            if 'bf' in ks:
                fs.add('union-with-bitfield')
    if is_agg(t):
        if len(t[1]) == 1:
            fs.add('single-member')
        if all(m[0] in 'fg' for m in t[1]):
            fs.add('bit-fields-only')
    return fs


# ------------------------------------------------------------------ generator

class Gen:
    def __init__(self, rng, flex=True, zero_first=True, unnamed=True, max_depth=3):
        self.r = rng
        self.flex, self.zero_first, self.unnamed, self.max_depth = flex, zero_first, unnamed, max_depth

    def scalar(self):
        r = self.r
        k = r.random()
        if k < 0.08:
            return ('p',)
        if k < 0.14:
            return ('e', r.choice(ENUM_KINDS))
        if k < 0.30:
            return ('b', r.choice(FP_KINDS))
        if k < 0.34:
            return ('b', 'bool')
        return ('b', r.choice(INT_KINDS))

    def bf_type(self):
        r = self.r
        k = r.random()
        if k < 0.06:
            return ('b', 'bool')
        if k < 0.12:
            return ('e', r.choice(ENUM_KINDS))
        return ('b', r.choice(INT_KINDS))

    def bf_width(self, t, allow0):
        r = self.r
        if t == ('b', 'bool'):
            return 0 if allow0 and r.random() < 0.3 else 1
        bits = 8 * (ENUM_SIZE[t[1]] if t[0] == 'e' else KSIZE[t[1]])
        k = r.random()
        if allow0 and k < 0.25:
            return 0
        if k < 0.45:
            return r.choice([1, bits - 1, bits])
        if k < 0.6:
            return r.choice([w for w in (7, 8, 9, 15, 16, 17, 31, 32, 33, 63) if w <= bits])
        return r.randint(1, bits)

    def member_type(self, depth):
        r = self.r
        k = r.random()
        if depth < self.max_depth and k < 0.12:
            return self.agg(depth + 1)
        if k < 0.30:
            n = r.choice([1, 2, 3, 3, 4, 5, 7, 8, 9, 16, 17])
            el = self.agg(depth + 1) if depth < self.max_depth and r.random() < 0.2 else (
                ('a', r.choice([1, 2, 3]), self.scalar()) if r.random() < 0.15 else self.scalar())
            return ('a', n, el)
        return self.scalar()

    def agg(self, depth, top=False):
        r = self.r
        kind = 'u' if r.random() < 0.25 else 's'
        n = r.choice([1, 1, 2, 2, 3, 3, 4][:7 - depth]) if not top else r.choice([1, 2, 2, 3, 3, 4, 4, 5, 6, 7, 9])
        bfy = r.random() < 0.5   # bit-field rich aggregate
        ms = []
        for i in range(n):
            k = r.random()
            if bfy and k < 0.55 or not bfy and k < 0.08:
                t = self.bf_type()
                if r.random() < 0.22 and self.unnamed:
                    w = self.bf_width(t, True)
                    ms.append(('g', w, t))
                else:
                    ms.append(('f', self.bf_width(t, False), t))
            elif k < 0.62 and depth < self.max_depth:
                ms.append(('o', self.agg(depth + 1)))
            else:
                ms.append(('n', self.member_type(depth)))
        if not any(m[0] in 'nf' for m in ms):   # C11: at least one named member
            ms.insert(r.randint(0, len(ms)), ('n', self.scalar()))
        if not self.zero_first:
            while ms and ms[0][0] == 'g' and ms[0][1] == 0:
                ms.append(ms.pop(0))
            if not any(m[0] in 'nf' for m in ms[:1]) and ms[0][0] == 'g' and ms[0][1] == 0:
                ms.insert(0, ('n', self.scalar()))
        if top and kind == 's' and self.flex and r.random() < 0.06 and any(m[0] in 'nf' for m in ms):
            ms.append(('n', ('x', self.scalar())))
        return (kind, ms)

    def decl(self):
        return self.agg(0, top=True)


def add_zero_size_members(rng, t):
    """GNU C extensions c2mir accepts with a warning: zero-length arrays and empty structs as members
    (outside C11 and outside wf_ty: compared between c2m and gcc only, see gnuext_part in checks/c08.py)"""
    if is_agg(t):
        ms = []
        for m in t[1]:
            if m[0] in 'no':
                m = (m[0], add_zero_size_members(rng, m[1]))
            ms.append(m)
            if rng.random() < 0.15:
                k = rng.random()
                el = ('b', rng.choice(KINDS))
                ms.append(('n', ('a', 0, el)) if k < 0.6 else ('n', ('s', [])) if k < 0.8 else ('n', ('a', 0, ('s', [('n', ('b', 'short'))]))))
        if rng.random() < 0.1:
            ms.insert(0, ('n', ('a', 0, ('b', rng.choice(['char', 'int', 'long'])))))
        return (t[0], ms)
    if t[0] == 'a':
        return ('a', t[1], add_zero_size_members(rng, t[2]))
    return t


def est_size(t):
    """rough size in bytes (padding ignored): only used to bias the generator"""
    k = t[0]
    if k == 'b':
        return KSIZE[t[1]]
    if k == 'p':
        return 8
    if k == 'e':
        return ENUM_SIZE[t[1]]
    if k == 'a':
        return t[1] * est_size(t[2])
    if k == 'x':
        return 0
    sizes = [(est_size(m[1]) if m[0] in 'no' else (m[1] + 7) // 8) for m in t[1]]
    return max(sizes + [0]) if k == 'u' else sum(sizes)


def small_decl(rng, passing=True):
    """mostly aggregates of at most 16 bytes (they travel in registers), about a third larger ones"""
    while True:
        t = straddle_candidate(rng) if rng.random() < 0.04 else small_decl0(rng)
        if est_size(t) <= 16 or rng.random() < 0.22:
            return t


def straddle_candidate(rng):
    """an unnamed bit-field inside an under-aligned member aggregate at an odd offset, so that it can reach
    over the eightbyte boundary (coq/C08/SpanClassify.v), followed by floating-point data"""
    r = rng
    head = r.choice([('n', ('b', 'int')), ('n', ('b', 'float')), ('n', ('a', r.choice([3, 5, 6, 7]), ('b', 'char'))),
                     ('n', ('b', 'short')), ('f', r.choice([3, 17, 31]), ('b', 'int'))])
    inner = []
    if r.random() < 0.6:
        inner.append(('n', ('b', r.choice(['char', 'uchar', 'bool']))))
    bt = ('b', r.choice(['long', 'ulong', 'llong', 'int', 'short']))
    bits = 8 * KSIZE[bt[1]]
    inner.append(('g', r.choice([bits, bits - 7, bits // 2 + 1, 9, r.randint(1, bits)]), bt))
    if r.random() < 0.3:
        inner.append(('n', ('b', 'char')))
    ms = [head, (r.choice('no'), ('s', inner))]
    if r.random() < 0.8:
        ms.append(('n', ('b', r.choice(['float', 'float', 'double', 'char']))))
    return ('s', ms)


def small_decl0(rng, passing=True):
    """aggregates aimed at the classification boundaries: <= 16 bytes mostly, sometimes 17..40"""
    r = rng
    g = Gen(rng, flex=False, max_depth=2)

    def sc():
        k = r.random()
        if k < 0.3:
            return ('b', r.choice(['float', 'double']))
        if k < 0.36:
            return ('b', 'ldouble')
        if k < 0.42:
            return ('p',)
        if k < 0.46:
            return ('e', r.choice(ENUM_KINDS))
        return ('b', r.choice(['bool'] + INT_KINDS))

    def agg(depth):
        kind = 'u' if r.random() < 0.2 else 's'
        ms = []
        for i in range(r.choice([1, 1, 2, 2, 2, 3, 3, 4, 5])):
            k = r.random()
            if k < 0.12:
                t = g.bf_type()
                if r.random() < 0.25:
                    ms.append(('g', g.bf_width(t, True), t))
                else:
                    ms.append(('f', g.bf_width(t, False), t))
            elif k < 0.22 and depth < 2:
                ms.append(('o', agg(depth + 1)))
            elif k < 0.34 and depth < 2:
                ms.append(('n', agg(depth + 1)))
            elif k < 0.48:
                el = agg(depth + 1) if depth < 2 and r.random() < 0.25 else sc()
                ms.append(('n', ('a', r.choice([1, 2, 2, 3, 4]), el)))
            else:
                ms.append(('n', sc()))
        if not any(m[0] in 'nf' for m in ms):
            ms.insert(0, ('n', sc()))
        return (kind, ms)
    return agg(0)


# ---- aggregates of an exact size (round 3): the by-value RETURN path moves an aggregate that travels in registers
# in pieces whose access type depends on sizeof (update_last_qword_type: I8/I16/I32/F for a tail of <= 4 bytes, whole
# eightbytes otherwise), so every size 1..16 - not only the powers of two - and every class of the eightbytes is a
# case of its own, with every byte significant (no padding unless asked for).
SIZED_KINDS = {1: [('b', 'char'), ('b', 'uchar'), ('b', 'schar'), ('b', 'char'), ('b', 'uchar'), ('b', 'bool')],
               2: [('b', 'short'), ('b', 'ushort')],
               4: [('b', 'int'), ('b', 'uint'), ('e', 'int'), ('e', 'pos')],
               8: [('b', 'long'), ('b', 'ulong'), ('b', 'llong'), ('p',), ('e', 'long')]}
SIZED_FP = {4: ('b', 'float'), 8: ('b', 'double')}
RET_SIZES = list(range(1, 18)) + [20, 24, 32, 33]


def sized_decl(rng, n, pad=None):
    """a struct/union whose sizeof is exactly n.  Members are laid without internal padding (each scalar of size s at a
    multiple of s, s dividing the chosen alignment a, a dividing n); with pad = p (0 < p < a) the last p bytes are tail
    padding instead.  Then possibly: a prefix folded into a (named or anonymous) member struct, a union with a byte
    array of at most the same size, an array of one."""
    r = rng
    aligns = [a for a in (1, 2, 4, 8) if n % a == 0]
    a = r.choice(aligns + aligns[-1:])
    if pad is None:
        pad = r.randint(1, a - 1) if a > 1 and r.random() < 0.2 else 0
    pad = min(pad, a - 1)
    data = n - pad
    p_fp = r.choice([0.0, 0.0, 0.5, 1.0])
    ms, ends = [], []
    off = 0
    if pad:
        # the member that gives the struct its alignment (so that the tail is padded up to n)
        t = SIZED_FP[a] if a in SIZED_FP and r.random() < p_fp else r.choice(SIZED_KINDS[a])
        ms.append(('n', t))
        off = a
        ends.append((off, a))
    amax = a if pad else 1
    while off < data:
        ss = [s for s in (1, 2, 4, 8) if s <= a and off % s == 0 and s <= data - off]
        s = r.choice(ss + ss[-1:])
        t = SIZED_FP[s] if s in SIZED_FP and r.random() < p_fp else r.choice(SIZED_KINDS[s])
        cnt = r.randint(1, (data - off) // s) if r.random() < 0.45 else 1
        if cnt > 1 or r.random() < 0.1:
            t = ('a', cnt, t)
        ms.append(('n', t))
        off += cnt * s
        amax = max(amax, s)
        ends.append((off, amax))
    # fold a prefix into a member struct when that leaves every offset where it is (its end is a multiple of its alignment)
    if len(ms) >= 2 and r.random() < 0.35:
        k = r.randint(1, len(ms) - 1)
        if ends[k - 1][0] % ends[k - 1][1] == 0:
            ms = [(r.choice('no'), ('s', ms[:k]))] + ms[k:]
    t = ('s', ms)
    k = r.random()
    if k < 0.12:
        t = ('u', [('n', t), ('n', ('a', r.randint(1, n), ('b', r.choice(['char', 'uchar']))))])
    elif k < 0.2:
        t = ('u', [('n', ('a', n, ('b', 'uchar'))), ('n', t)])
    elif k < 0.28:
        t = ('s', [('n', ('a', 1, t))])
    return t


def ret_size_decls(rng, per_size=3):
    """per size n in RET_SIZES: (n, the plain byte array) and per_size times (n, a random aggregate of exactly that size)"""
    out = []
    for n in RET_SIZES:
        out.append((n, ('s', [('n', ('a', n, ('b', rng.choice(['char', 'uchar', 'schar']))))])))
        for _ in range(per_size):
            out.append((n, sized_decl(rng, n)))
    return out


# ------------------------------------------------------------------ C emission

class Emit:
    """emit the C definition of declaration number i; collects leaf probes"""

    def __init__(self, idx, t):
        self.idx = idx
        self.defs = []      # tagged definitions, in order
        self.nf = 0
        self.nt = 0
        self.ne = 0
        self.top = self.define(t)   # 'struct S<i>_0'
        self.t = t

    def fresh(self):
        self.nf += 1
        return 'f%d' % (self.nf - 1)

    def define(self, t):
        """define a tagged struct/union for t; returns its C type name"""
        tag = 'S%d_%d' % (self.idx, self.nt)
        self.nt += 1
        kw = 'struct' if t[0] == 's' else 'union'
        body = self.body(t, 1)
        self.defs.append('%s %s %s;' % (kw, tag, body))
        return '%s %s' % (kw, tag)

    def enum(self, k):
        tag = 'E%d_%d' % (self.idx, self.ne)
        self.ne += 1
        body = ENUM_DEF[k][0]
        self.defs.append('enum %s %s;' % (tag, body % ((tag,) * body.count('%s'))))
        return 'enum ' + tag

    def base(self, t):
        """(C type specifier, declarator suffix) for non-aggregate-defining use"""
        if t[0] == 'b':
            return CNAME[t[1]], ''
        if t[0] == 'p':
            return 'void *', ''
        if t[0] == 'e':
            return self.enum(t[1]), ''
        if t[0] == 'a':
            b, suf = self.base(t[2])
            return b, '[%d]' % t[1] + suf
        if t[0] == 'x':
            b, suf = self.base(t[1])
            return b, '[]' + suf
        return self.define(t), ''

    def body(self, t, ind):
        # members get names in DFS order; annotate the AST with names through a parallel structure
        lines = []
        names = []
        for m in t[1]:
            if m[0] == 'n':
                nm = self.fresh()
                b, suf = self.base(m[1])
                lines.append('%s %s%s;' % (b, nm, suf))
                names.append(nm)
            elif m[0] == 'f':
                nm = self.fresh()
                b, _ = self.base(m[2])
                lines.append('%s %s : %d;' % (b, nm, m[1]))
                names.append(nm)
            elif m[0] == 'g':
                b, _ = self.base(m[2])
                lines.append('%s : %d;' % (b, m[1]))
                names.append(None)
            else:
                sub = m[1]
                kw = 'struct' if sub[0] == 's' else 'union'
                # anonymous: inline, untagged
                inner = self.body(sub, ind + 1)
                lines.append('%s %s;' % (kw, inner))
                names.append(None)
        self.names_of = getattr(self, 'names_of', {})
        self.names_of[id(t)] = names
        return '{ ' + ' '.join(lines) + ' }'

    def leaves(self):
        """list of (kind, path) in the DFS order shared with the model:
        kind 'm' (non-bit-field named member: offset and size), 'b' (bit-field, value to store)"""
        out = []

        def of_type(t, path):
            if is_agg(t):
                of_agg(t, path)
            elif t[0] == 'a':
                of_type(t[2], path + '[0]')
            elif t[0] == 'x':
                pass

        def of_agg(t, path):
            names = self.names_of[id(t)]
            for m, nm in zip(t[1], names):
                if m[0] == 'n':
                    p = (path + '.' if path else '') + nm
                    out.append(('m', p, m[1]))
                    of_type(m[1], p)
                elif m[0] == 'f':
                    p = (path + '.' if path else '') + nm
                    out.append(('b', p, m[2]))
                elif m[0] == 'o':
                    of_agg(m[1], path)
        of_agg(self.t, '')
        return out


def scalar_paths(e):
    """all scalar lvalues of declaration e (an Emit): list of (path, type, is_bitfield); every array element"""
    out = []

    def of_type(t, path):
        if is_agg(t):
            of_agg(t, path)
        elif t[0] == 'a':
            for k in range(t[1]):
                of_type(t[2], path + '[%d]' % k)
        elif t[0] == 'x':
            pass
        else:
            out.append((path, t, False))

    def of_agg(t, path):
        names = e.names_of[id(t)]
        for m, nm in zip(t[1], names):
            if m[0] == 'n':
                of_type(m[1], (path + '.' if path else '') + nm)
            elif m[0] == 'f':
                out.append(((path + '.' if path else '') + nm, m[2], True))
            elif m[0] == 'o':
                of_agg(m[1], path)
    of_agg(e.t, '')
    return out


def mask_code(e, var):
    """C statements setting every non-padding bit of object `var` (of e's type)"""
    out = ['memset (&%s, 0, sizeof %s);' % (var, var)]
    for path, t, bf in scalar_paths(e):
        if bf:
            out.append('%s.%s = %s;' % (var, path, '1' if t == ('b', 'bool') else '-1'))
        elif t == ('b', 'ldouble'):
            out.append('memset (&%s.%s, 0xff, 10);' % (var, path))
        else:
            out.append('memset (&%s.%s, 0xff, sizeof %s.%s);' % (var, path, var, path))
    return out


def bf_leaves(t):
    """(declared type, width) of every named bit-field in the DFS order of Emit.leaves (array elements once)"""
    out = []

    def of_type(t):
        if is_agg(t):
            for m in t[1]:
                if m[0] == 'n':
                    of_type(m[1])
                elif m[0] == 'f':
                    out.append((m[2], m[1]))
                elif m[0] == 'o':
                    of_type(m[1])
        elif t[0] == 'a':
            of_type(t[2])
    of_type(t)
    return out


PRELUDE = r'''
#include <stdio.h>
#include <string.h>
#include <stddef.h>
static void c08_bits (const unsigned char *p, size_t n) {
  long lo = -1, hi = -1, cnt = 0;
  for (size_t i = 0; i < n * 8; i++)
    if ((p[i / 8] >> (i % 8)) & 1) { if (lo < 0) lo = (long) i; hi = (long) i; cnt++; }
  printf (" b%ld:%ld%s", lo, cnt, cnt != 0 && hi - lo + 1 != cnt ? "!" : "");
}
'''


def layout_tu(decls):
    """decls: list of (index, type).  One TU printing one line 'L <i> <size> <align> leaf...' per decl."""
    out = [PRELUDE]
    calls = []
    for i, t in decls:
        e = Emit(i, t)
        out += e.defs
        tn = e.top
        body = ['%s gobj%d;   /* its bss size is read from c2m -S */' % (tn, i),
                'static union { %s v; unsigned char raw[sizeof (%s)]; } w%d;' % (tn, tn, i),
                '#define v%d w%d.v' % (i, i),
                'static void probe%d (void) {' % i,
                '  unsigned char *b = (unsigned char *) &v%d;' % i,
                '  printf ("L %d %%zu %%zu", sizeof (%s), _Alignof (%s));' % (i, tn, tn)]
        for kind, path, mt in e.leaves():
            if kind == 'm':
                if mt[0] == 'x':
                    body.append('  printf (" m%%zu:%%zu", (size_t) ((unsigned char *) &v%d.%s - b), sizeof (v%d.%s[0]));'
                                % (i, path, i, path))
                else:
                    body.append('  printf (" m%%zu:%%zu", (size_t) ((unsigned char *) &v%d.%s - b), sizeof (v%d.%s));'
                                % (i, path, i, path))
                if '.' not in path and '[' not in path:
                    body.append('  if (offsetof (%s, %s) != (size_t) ((unsigned char *) &v%d.%s - b)) printf ("/OFFSETOF=%%zu", offsetof (%s, %s));'
                                % (tn, path, i, path, tn, path))
            else:
                val = '1' if mt == ('b', 'bool') else '-1'
                body.append('  memset (b, 0, sizeof (v%d)); v%d.%s = %s; c08_bits (b, sizeof (v%d));'
                            % (i, i, path, val, i))
        body.append('  printf ("\\n");')
        # sign of the value read back from every bit-field holding all-ones: s(igned) or u(nsigned)
        bfs = [(path, mt) for kind, path, mt in e.leaves() if kind == 'b']
        if bfs:
            body.append('  printf ("V %d ");' % i)
            for path, mt in bfs:
                val = '1' if mt == ('b', 'bool') else '-1'
                body.append('  v%d.%s = %s; printf ("%%c", v%d.%s < 0 ? \'s\' : \'u\');' % (i, path, val, i, path))
            body.append('  printf ("\\n");')
        body.append('}')
        out += body
        calls.append('  probe%d ();' % i)
    out.append('int main (void) {')
    out += calls
    out.append('  return 0;')
    out.append('}')
    return '\n'.join(out) + '\n'


# ------------------------------------------------------------------ shrinking

def shrink_candidates(t):
    """strictly simpler variants of an aggregate declaration (one edit each)"""
    if not is_agg(t):
        return
    k, ms = t
    for i, m in enumerate(ms):
        rest = ms[:i] + ms[i + 1:]
        if any(x[0] == 'f' or x[0] == 'n' and x[1][0] != 'x' for x in rest):
            yield (k, rest)
    if k == 'u':
        yield ('s', ms)
    for i, m in enumerate(ms):
        def put(nm):
            return (k, ms[:i] + [nm] + ms[i + 1:])
        if m[0] == 'o':
            if m[1][0] == k or len(m[1][1]) == 1:
                yield (k, ms[:i] + list(m[1][1]) + ms[i + 1:])
            yield put(('n', m[1]))
            for s in shrink_candidates(m[1]):
                yield put(('o', s))
        elif m[0] == 'n':
            mt = m[1]
            if mt[0] == 'a':
                yield put(('n', mt[2]))
                if mt[1] > 1:
                    yield put(('n', ('a', mt[1] // 2, mt[2])))
                if is_agg(mt[2]):
                    for s in shrink_candidates(mt[2]):
                        yield put(('n', ('a', mt[1], s)))
            elif mt[0] == 'x':
                yield put(('n', ('x', ('b', 'char'))))
            elif is_agg(mt):
                if len(mt[1]) == 1 and mt[1][0][0] == 'n':
                    yield put(mt[1][0])
                for s in shrink_candidates(mt):
                    yield put(('n', s))
            elif mt[0] in 'ep':
                yield put(('n', ('b', 'long' if mt[0] == 'p' or ENUM_SIZE[mt[1]] == 8 else 'int')))
            elif mt[0] == 'b' and mt[1] not in ('char', 'int', 'long', 'short', 'float', 'double', 'ldouble'):
                yield put(('n', ('b', {1: 'char', 2: 'short', 4: 'int', 8: 'long'}[KSIZE[mt[1]]])))
        elif m[0] in 'fg':
            w, bt = m[1], m[2]
            if bt[0] == 'e' or bt[1] not in ('char', 'int', 'long', 'short'):
                nb = ('b', {1: 'char', 2: 'short', 4: 'int', 8: 'long'}[ENUM_SIZE[bt[1]] if bt[0] == 'e' else KSIZE[bt[1]]])
                if not (bt == ('b', 'bool')):
                    yield put((m[0], w, nb))
            if w > 1:
                yield put((m[0], w // 2, bt))
                yield put((m[0], w - 1, bt))


def size_of(t):
    return sum(1 for _ in walk_types(t))


def shrink(t, fails, max_steps=300):
    steps = 0
    progress = True
    while progress and steps < max_steps:
        progress = False
        for c in shrink_candidates(t):
            steps += 1
            if steps > max_steps:
                break
            if fails(c):
                t = c
                progress = True
                break
    return t


# ------------------------------------------------------------------ classification probes

def passable(t):
    """aggregates that can be passed/returned by value in our probes: no flexible array member"""
    return not any(x[0] == 'x' for x in walk_types(t))


def spy_tu(decls):
    """gcc side: for each (i, type) print 'A i <classes>' (argument) and 'R i <classes>' (return value),
    as observed in the registers by harness/c08_spy.S"""
    out = ['#include "c08_spy.h"', 'static unsigned char c08_cur[1 << 16];']
    calls = []
    for i, t in decls:
        e = Emit(i, t)
        out += e.defs
        tn = e.top
        out += ['static %s retfn%d (void) { %s v; memcpy (&v, c08_cur, sizeof v); return v; }' % (tn, i, tn),
                'static void spy%d (void) {' % i,
                '  %s v, m; static unsigned char hidden[sizeof (%s) + 32];' % (tn, tn),
                '  ' + ' '.join(mask_code(e, 'm')),
                '  c08_fill (&v, sizeof v); c08_clobber (); ((void (*) (%s, long, double)) c08_spy) (v, C08_ML, C08_MD);' % tn,
                '  c08_report_arg (%d, &v, &m, sizeof v);' % i,
                '  memcpy (c08_cur, &v, sizeof v); memset (hidden, 0, sizeof hidden);',
                '  c08_call_ret ((void *) retfn%d, hidden); c08_report_ret (%d, &v, &m, sizeof v, hidden);' % (i, i),
                '}']
        calls.append('  spy%d ();' % i)
    out.append('int main (void) {')
    out += calls
    out += ['  return 0;', '}']
    return '\n'.join(out) + '\n'


# leading scalar arguments used to exhaust registers before the aggregate: (n longs, n doubles)
PRE_ARGS = [(0, 0), (5, 0), (6, 0), (0, 7), (0, 8), (4, 6), (5, 7), (4, 0), (3, 7), (7, 0), (8, 8), (6, 9)]


# mixed signatures: (result returned through the hidden pointer?, scalar parameters before the aggregate):
# l long, i int, c char, p pointer, f float, d double, x long double.  Indices 9 and 11 leave an odd number of
# stack words before the aggregate, as PRE_ARGS[9] and PRE_ARGS[11] do (see odd_stack_prefix in checks/c08.py).
MIX_SIGS = [(1, ''), (1, 'lllll'), (1, 'llll'), (0, 'cfpix'), (1, 'dddddddd'), (0, 'xlx'), (1, 'lllldddddd'),
            (0, 'fffffffc'), (1, 'lllllx'), (0, 'iiiiiip'), (1, 'pppppdddddddd'), (1, 'llllll')]
MIX_CTYPE = dict(l='long', i='int', c='char', p='void *', f='float', d='double', x='long double')
BIG = 'struct c08_big { unsigned long h; long pad[3]; };'


def mix_stack_words(j):
    """8-byte stack words in front of the aggregate of mixed signature j"""
    big, kinds = MIX_SIGS[j % len(MIX_SIGS)]
    ni, nf, words = big, 0, 0
    for k in kinds:
        if k in 'licp':
            if ni < 6:
                ni += 1
            else:
                words += 1
        elif k in 'fd':
            if nf < 8:
                nf += 1
            else:
                words += 1
        else:
            words = (words + 1) // 2 * 2 + 2
    return words


def mix_params(j, tn):
    big, kinds = MIX_SIGS[j % len(MIX_SIGS)]
    ps = ['%s q%d' % (MIX_CTYPE[k], n) for n, k in enumerate(kinds)] + ['%s a' % tn, 'struct c08_tl tl', 'struct c08_td td']
    return big, kinds, ps


def sig_tu(decls):
    """c2m side: function definitions whose MIR signatures (c2m -S) show the classification"""
    out = ['struct c08_tl { long x; };', 'struct c08_td { double x; };', BIG]
    for i, t in decls:
        e = Emit(i, t)
        out += e.defs
        tn = e.top
        out.append('%s sobj%d;' % (tn, i))
        out.append('%s ret%d (void) { return sobj%d; }' % (tn, i, i))
        # a c2m caller receiving the aggregate: the moves after the call show how the returned pieces are stored
        out.append('extern %s ext%d (void); %s sdst%d; void cal%d (void) { sdst%d = ext%d (); }' % (tn, i, tn, i, i, i, i))
        for j, (nl, nd) in enumerate(PRE_ARGS):
            # the aggregate, then two one-register structs: they must still get a register the aggregate left
            ps = ['long l%d' % k for k in range(nl)] + ['double d%d' % k for k in range(nd)] + [
                '%s a' % tn, 'struct c08_tl tl', 'struct c08_td td']
            out.append('void arg%d_%d (%s) { }' % (i, j, ', '.join(ps)))
        big, kinds, ps = mix_params(i, tn)
        if big:
            out.append('struct c08_big mix%d (%s) { struct c08_big r = {0}; return r; }' % (i, ', '.join(ps)))
        else:
            out.append('void mix%d (%s) { }' % (i, ', '.join(ps)))
    return '\n'.join(out) + '\n'


def mir_functions(mir_text):
    """{name: (header operands text, [instruction lines])} of a c2m -S module"""
    import re
    fs, cur = {}, None
    for l in mir_text.split('\n'):
        m = re.match(r'^(\w+):\s+func[ \t]*(.*)$', l)
        if m:
            cur = (m.group(2), [])
            fs[m.group(1)] = cur
        elif cur is not None:
            w = l.strip()
            if w == 'endfunc':
                cur = None
            elif w and not w.startswith('#') and not w.startswith('local'):
                cur[1].append(w)
    return fs


_MEM = r'(u?i8|u?i16|u?i32|u?i64|f|d|ld):(-?\d+)?\(([^)]*)\)'


def _acc(pieces):
    if not pieces or any(p is None for p in pieces):
        return None
    d0 = pieces[0][1]
    return ','.join('%s@%d' % (t.replace('u', ''), d - d0) for t, d in pieces)


def ret_accesses(fn):
    """callee side (target_add_ret_ops): the memory operand each returned register was loaded from, as
    '<mir type>@<offset>,...' (offsets relative to the first piece), 'M' for a result through the hidden pointer"""
    import re
    hdr, insns = fn
    if 'rblk:' in hdr:
        return 'M'
    rets = [x for x in insns if re.match(r'ret\b', x)]
    if not rets:
        return None
    ops = [o.strip() for o in rets[-1][3:].split(',') if o.strip()]
    upto = insns[:len(insns) - insns[::-1].index(rets[-1]) - 1]
    pieces = []
    for o in ops:
        found = None
        for x in reversed(upto):
            m = re.match(r'(?:mov|fmov|dmov|ldmov)\s+%s\s*,\s*%s\s*$' % (re.escape(o), _MEM), x)
            if m:
                found = (m.group(1), int(m.group(2) or 0))
                break
        pieces.append(found)
    return _acc(pieces)


def call_accesses(fn, callee):
    """caller side (target_gen_post_call_res_code): the memory operand each result register of the call of
    `callee` is stored to; same form as ret_accesses"""
    import re
    hdr, insns = fn
    for k, x in enumerate(insns):
        m = re.match(r'call\s+\w+\s*,\s*%s\b(.*)$' % re.escape(callee), x)
        if not m:
            continue
        if 'rblk:' in m.group(1):
            return 'M'
        ops = [o.strip() for o in m.group(1).split(',') if o.strip()]
        pieces = []
        for o in ops:
            found = None
            for y in insns[k + 1:]:
                mm = re.match(r'(?:mov|fmov|dmov|ldmov)\s+%s\s*,\s*%s\s*$' % (_MEM, re.escape(o)), y)
                if mm:
                    found = (mm.group(1), int(mm.group(2) or 0))
                    break
            pieces.append(found)
        return _acc(pieces)
    return None


def pageend_tu(decls):
    """c2m-only TU: every aggregate sits in the last sizeof bytes before an inaccessible page and is returned by value
    from there (callee side: loads) and assigned there from a call (caller side: stores).  Lines 'E <i> start',
    'E <i> ok|BAD'; an access beyond the object ends the process between the two."""
    out = ['#include <stdio.h>', '#include <string.h>',
           'extern void *mmap (void *, unsigned long, int, int, int, long);',
           'extern int mprotect (void *, unsigned long, int);']
    body = []
    for i, t in decls:
        e = Emit(i, t)
        out += e.defs
        tn = e.top
        out += ['%s pe_get%d (%s *p) { return *p; }' % (tn, i, tn),
                '%s pe_src%d; void pe_put%d (%s *q) { *q = pe_get%d (&pe_src%d); }' % (tn, i, i, tn, i, i)]
        body += ['  { %s *p = (%s *) (pg + 4096 - sizeof (%s)), v; unsigned char *b = (unsigned char *) p, *w = (unsigned char *) &v; int ok = 1;'
                 % (tn, tn, tn),
                 '    printf ("E %d start\\n"); fflush (stdout);' % i,
                 '    for (unsigned long k = 0; k < sizeof (%s); k++) b[k] = (unsigned char) (1 + (k * 11 + %d) %% 250);' % (tn, i),
                 '    v = pe_get%d (p); ok = ok && memcmp (&v, p, sizeof v) == 0;' % i,
                 '    for (unsigned long k = 0; k < sizeof (%s); k++) ((unsigned char *) &pe_src%d)[k] = (unsigned char) (3 + (k * 7 + %d) %% 250);' % (tn, i, i),
                 '    pe_put%d (p); ok = ok && memcmp (p, &pe_src%d, sizeof v) == 0;' % (i, i),
                 '    printf ("E %d %%s\\n", ok ? "ok" : "BAD"); fflush (stdout); }' % i]
    out += ['int main (void) {', '  unsigned char *pg = mmap (0, 8192, 3, 0x22, -1, 0);', '  mprotect (pg + 4096, 4096, 0);']
    out += body
    out += ['  return 0;', '}']
    return '\n'.join(out) + '\n'


def parse_sigs(mir_text):
    """{'ret<i>': 'IS'|'M'|'X'|..., 'arg<i>_<j>': ...} from c2m -S output"""
    import re
    res = {}
    for m in re.finditer(r'^(ret\d+|arg\d+_\d+):\s+func\s*(.*)$', mir_text, re.M):
        name, sig = m.group(1), m.group(2).strip()
        parts = [p.strip() for p in sig.split(',')] if sig else []
        if name.startswith('ret'):
            if any(p.startswith('rblk:') for p in parts):
                res[name] = 'M'
            else:
                s = ''
                for p in parts:
                    if ':' in p:
                        break
                    s += {'i8': 'I', 'u8': 'I', 'i16': 'I', 'u16': 'I', 'i32': 'I', 'u32': 'I', 'i64': 'I', 'u64': 'I',
                          'f': 'S', 'd': 'S', 'ld': 'X'}.get(p, '?')
                res[name] = s
        else:
            last = parts[-1]
            mm = re.match(r'blk(\d):(\d+)\(', last)
            if not mm:
                res[name] = '?' + last
                continue
            k, size = int(mm.group(1)), int(mm.group(2))
            nq = (size + 7) // 8
            res[name] = {0: 'M', 1: 'I' * nq, 2: 'S' * nq, 3: 'IS', 4: 'SI'}[k]
    return res


# ------------------------------------------------------------------ by-value passing across the c2m / gcc boundary

PASS_PRELUDE = r'''
#include <string.h>
#include <stdarg.h>
struct c08_tl { long x; };
struct c08_td { double x; };
struct c08_big { unsigned long h; long pad[3]; };
static void c08_pat (void *p, unsigned long n, unsigned k) {
  unsigned char *b = p;
  for (unsigned long i = 0; i < n; i++) b[i] = (unsigned char) (1 + (k * 37 + i * 11) % 250);
}
/* a long double store may clobber its 6 padding bytes, which can overlap other union members:
   put the pattern back */
static void c08_repat (void *obj, void *sub, unsigned long n, unsigned k) {
  unsigned char *b = obj;
  for (unsigned long i = (unsigned char *) sub - b; n > 0; i++, n--) b[i] = (unsigned char) (1 + (k * 37 + i * 11) % 250);
}
/* all n bytes at p still hold the canary value */
static int c08_canary_ok (const void *p, unsigned long n) {
  const unsigned char *b = p;
  for (unsigned long i = 0; i < n; i++) if (b[i] != 0xa5) return 0;
  return 1;
}
/* checksum of the non-padding bits (mask m) of an object */
static unsigned long c08_sum (const void *p, const void *m, unsigned long n) {
  const unsigned char *b = p, *mm = m;
  unsigned long h = 17;
  for (unsigned long i = 0; i < n; i++) h = h * 31 + (b[i] & mm[i]);
  return h;
}
'''


def agg_support(i, t):
    """(C lines, type name) for aggregate number i: its type definitions, mask<i> (), fill<i> (p, k), sum<i> (p)"""
    out = []
    e = Emit(i, t)
    out += e.defs
    tn = e.top
    fix = []
    for idx, (path, lt, bf) in enumerate(scalar_paths(e)):
        if bf:
            continue
        if lt == ('b', 'bool'):
            fix.append('p->%s = (k + %d) & 1;' % (path, idx))
        elif lt[0] == 'b' and lt[1] in FP_KINDS:
            fix.append('p->%s = (%s) (k %% 1000 + %d) + 0.25;' % (path, CNAME[lt[1]], idx))
            if lt[1] == 'ldouble':
                fix.append('c08_repat (p, (unsigned char *) &p->%s + 10, 6, k);' % path)
    out += ['static %s c08_mask%d; static int c08_mask%d_ok;' % (tn, i, i),
            'static void *mask%d (void) { if (!c08_mask%d_ok) { c08_mask%d_ok = 1; %s } return &c08_mask%d; }'
            % (i, i, i, ' '.join(mask_code(e, 'c08_mask%d' % i)), i),
            'static void fill%d (%s *p, unsigned k) { c08_pat (p, sizeof *p, k); %s }' % (i, tn, ' '.join(fix)),
            'static unsigned long sum%d (const %s *p) { return c08_sum (p, mask%d (), sizeof *p); }' % (i, tn, i)]
    return out, tn


def pass_common(decls):
    """definitions shared by both sides: types, mask_<i>(), fill_<i>(p,k), sum_<i>(p)"""
    out = [PASS_PRELUDE]
    info = []
    for i, t in decls:
        lines, tn = agg_support(i, t)
        out += lines
        j = i % len(PRE_ARGS)
        nl, nd = PRE_ARGS[j]
        params = ['long l%d' % k for k in range(nl)] + ['double d%d' % k for k in range(nd)] + [
            '%s a' % tn, 'struct c08_tl tl', 'struct c08_td td', 'long post']
        args = ['%dL' % (100 + k) for k in range(nl)] + ['%d.5' % (200 + k) for k in range(nd)]
        extra = ' + '.join(['l%d' % k for k in range(nl)] + ['(unsigned long) (d%d * 2)' % k for k in range(nd)] + ['0'])
        big, kinds, mps = mix_params(i, tn)
        margs, mterms = [], []
        for n, k in enumerate(kinds):
            if k in 'lic':
                margs.append('%d' % (n + 3 if k == 'c' else 100 + n))
                mterms.append('(unsigned long) q%d * %d' % (n, n + 2))
            elif k == 'p':
                margs.append('(void *) %dL' % (300 + n))
                mterms.append('(unsigned long) q%d * %d' % (n, n + 2))
            else:
                margs.append('%d.25%s' % (200 + n, {'f': 'f', 'd': '', 'x': 'L'}[k]))
                mterms.append('(unsigned long) (q%d * 4) * %d' % (n, n + 2))
        info.append(dict(i=i, tn=tn, params=', '.join(params), pre_args=args, extra=extra,
                         ptypes=', '.join(['long'] * nl + ['double'] * nd + [tn, 'struct c08_tl', 'struct c08_td', 'long']),
                         mbig=big, mparams=', '.join(mps), margs=margs, mextra=' + '.join(mterms + ['0']),
                         mptypes=', '.join([MIX_CTYPE[k] for k in kinds] + [tn, 'struct c08_tl', 'struct c08_td'])))
    return '\n'.join(out) + '\n', info


TAKE_BODY = '{ return sum%d (&a) * 3 + (unsigned long) tl.x * 5 + (unsigned long) (td.x * 2) * 7 + (unsigned long) post * 11 + (%s); }'


def pass_tus(decls):
    """returns (gcc library source, c2m main source).  Output lines of the c2m program:
    'P <i> <dir> ok|BAD' with dir: a (c2m caller -> gcc callee, argument), r (gcc callee -> c2m caller, return
    value), A (gcc caller -> c2m callee, argument), R (c2m callee -> gcc caller, return value),
    v (c2m caller -> gcc variadic callee, va_arg), V (gcc caller -> c2m variadic callee),
    m (c2m caller -> gcc callee, mixed signature MIX_SIGS[i % 12]), M (gcc caller -> c2m callee, mixed signature),
    n (gcc callee -> c2m caller, return value stored into the middle element of an array: value and neighbours)"""
    common, info = pass_common(decls)
    lib = [common]
    main = ['#include <stdio.h>', common]
    body = []
    for d in info:
        i, tn = d['i'], d['tn']
        take = TAKE_BODY % (i, d['extra'])
        lib.append('unsigned long g_take%d (%s) %s' % (i, d['params'], take))
        lib.append('%s g_give%d (unsigned k) { %s v; fill%d (&v, k); return v; }' % (tn, i, tn, i))
        call_args = ', '.join(d['pre_args'] + ['v', 'tl', 'td', '77L'])
        lib.append('unsigned long g_call_take%d (unsigned long (*cb) (%s), unsigned k) { %s v; struct c08_tl tl = {31}; '
                   'struct c08_td td = {41.5}; fill%d (&v, k); return cb (%s); }' % (i, d['ptypes'], tn, i, call_args))
        lib.append('unsigned long g_call_give%d (%s (*cb) (unsigned), unsigned k) { %s v = cb (k); return sum%d (&v); }'
                   % (i, tn, tn, i))
        vtake = ('(int n, ...) { va_list ap; %s a; long post; va_start (ap, n); a = va_arg (ap, %s); post = va_arg (ap, long); '
                 'va_end (ap); return sum%d (&a) * 3 + (unsigned long) post * 11 + n; }' % (tn, tn, i))
        lib.append('unsigned long g_vtake%d %s' % (i, vtake))
        lib.append('unsigned long g_call_vtake%d (unsigned long (*cb) (int, ...), unsigned k) { %s v; fill%d (&v, k); return cb (2, v, 55L); }'
                   % (i, tn, i))
        # mixed scalar kinds before the aggregate, result possibly through the hidden pointer (which takes %rdi)
        mrt = 'struct c08_big' if d['mbig'] else 'unsigned long'
        mexpr = 'sum%d (&a) * 3 + (unsigned long) tl.x * 5 + (unsigned long) (td.x * 2) * 7 + (%s)' % (i, d['mextra'])
        mbody = ('{ struct c08_big r = { %s, { 1, 2, 3 } }; return r; }' % mexpr) if d['mbig'] else '{ return %s; }' % mexpr
        mcall = ', '.join(d['margs'] + ['v', 'tl', 'td'])
        hsel = '.h' if d['mbig'] else ''
        lib.append('%s g_mtake%d (%s) %s' % (mrt, i, d['mparams'], mbody))
        lib.append('unsigned long g_call_mtake%d (%s (*cb) (%s), unsigned k) { %s v; struct c08_tl tl = {31}; '
                   'struct c08_td td = {41.5}; fill%d (&v, k); return cb (%s)%s; }' % (i, mrt, d['mptypes'], tn, i, mcall, hsel))
        main.append('extern %s g_mtake%d (%s);' % (mrt, i, d['mparams']))
        main.append('extern unsigned long g_call_mtake%d (%s (*cb) (%s), unsigned k);' % (i, mrt, d['mptypes']))
        main.append('%s c_mtake%d (%s) %s' % (mrt, i, d['mparams'], mbody))
        main.append('extern unsigned long g_vtake%d (int n, ...);' % i)
        main.append('extern unsigned long g_call_vtake%d (unsigned long (*cb) (int, ...), unsigned k);' % i)
        main.append('unsigned long c_vtake%d %s' % (i, vtake))
        main.append('extern unsigned long g_take%d (%s);' % (i, d['params']))
        main.append('extern %s g_give%d (unsigned k);' % (tn, i))
        main.append('extern unsigned long g_call_take%d (unsigned long (*cb) (%s), unsigned k);' % (i, d['ptypes']))
        main.append('extern unsigned long g_call_give%d (%s (*cb) (unsigned), unsigned k);' % (i, tn))
        main.append('unsigned long c_take%d (%s) %s' % (i, d['params'], take))
        main.append('%s c_give%d (unsigned k) { %s v; fill%d (&v, k); return v; }' % (tn, i, tn, i))
        main.append('static void pass%d (void) {' % i)
        main.append('  %s v, w; struct c08_tl tl = {31}; struct c08_td td = {41.5}; unsigned long e, r; unsigned k = %d;' % (tn, 3 + i))
        main.append('  fill%d (&v, k); e = c_take%d (%s);' % (i, i, call_args))
        main.append('  r = g_take%d (%s); printf ("P %d a %%s\\n", r == e ? "ok" : "BAD");' % (i, call_args, i))
        main.append('  w = g_give%d (k + 1); fill%d (&v, k + 1); printf ("P %d r %%s\\n", sum%d (&w) == sum%d (&v) ? "ok" : "BAD");' % (i, i, i, i, i))
        main.append('  fill%d (&v, k + 2); e = c_take%d (%s); r = g_call_take%d (c_take%d, k + 2); printf ("P %d A %%s\\n", r == e ? "ok" : "BAD");'
                    % (i, i, call_args, i, i, i))
        main.append('  fill%d (&v, k + 3); r = g_call_give%d (c_give%d, k + 3); printf ("P %d R %%s\\n", r == sum%d (&v) ? "ok" : "BAD");'
                    % (i, i, i, i, i))
        main.append('  fill%d (&v, k + 4); e = c_vtake%d (2, v, 55L); r = g_vtake%d (2, v, 55L); printf ("P %d v %%s\\n", r == e ? "ok" : "BAD");'
                    % (i, i, i, i))
        main.append('  fill%d (&v, k + 5); e = c_vtake%d (2, v, 55L); r = g_call_vtake%d (c_vtake%d, k + 5); printf ("P %d V %%s\\n", r == e ? "ok" : "BAD");'
                    % (i, i, i, i, i))
        main.append('  fill%d (&v, k + 6); e = c_mtake%d (%s)%s; r = g_mtake%d (%s)%s; printf ("P %d m %%s\\n", r == e ? "ok" : "BAD");'
                    % (i, i, mcall, hsel, i, mcall, hsel, i))
        main.append('  fill%d (&v, k + 7); e = c_mtake%d (%s)%s; r = g_call_mtake%d (c_mtake%d, k + 7); printf ("P %d M %%s\\n", r == e ? "ok" : "BAD");'
                    % (i, i, mcall, hsel, i, i, i))
        # the returned value lands in the middle element of an array: intact, and the neighbours untouched
        main.append('  { %s arr[3]; memset (arr, 0xa5, sizeof arr); arr[1] = g_give%d (k + 8); fill%d (&v, k + 8); '
                    'printf ("P %d n %%s\\n", sum%d (&arr[1]) == sum%d (&v) && c08_canary_ok (&arr[0], sizeof arr[0]) '
                    '&& c08_canary_ok (&arr[2], sizeof arr[2]) ? "ok" : "BAD"); }' % (tn, i, i, i, i, i))
        main.append('}')
        body.append('  pass%d ();' % i)
    main.append('int main (void) {')
    main += body
    main += ['  return 0;', '}']
    return '\n'.join(lib) + '\n', '\n'.join(main) + '\n'


# ------------------------------------------------------------------ whole signatures (round 3, seeded z2)
#
# A signature is (res, sig, t): res = 1 when the result travels through the hidden pointer (takes %rdi); sig is a string
# over scalar letters, helper-aggregate letters, 'A' (the aggregate t under test, may occur more than once) and at most one
# '.' (what follows is the variadic tail: passed through `...`, read with va_arg).  The scalars before the aggregate are
# chosen so that each register file (6 general, 8 vector) is exactly full / one short / one over when the aggregate
# arrives, with long doubles (stack, no register) and memory-class structs sprinkled in between.

# letter: (C type, model type, class, C type after the default argument promotions, model type after them)
SX_SCALARS = {
    'c': ('char', 'bchar', 'I', 'int', 'bint'), 'b': ('_Bool', 'bbool', 'I', 'int', 'bint'),
    'h': ('short', 'bshort', 'I', 'int', 'bint'), 'i': ('int', 'bint', 'I', 'int', 'bint'),
    'u': ('unsigned', 'buint', 'I', 'unsigned', 'buint'), 'l': ('long', 'blong', 'I', 'long', 'blong'),
    'q': ('unsigned long long', 'bullong', 'I', 'unsigned long long', 'bullong'), 'p': ('void *', 'p', 'I', 'void *', 'p'),
    'e': ('enum c08_en', 'eint', 'I', 'int', 'bint'),
    'f': ('float', 'bfloat', 'S', 'double', 'bdouble'), 'd': ('double', 'bdouble', 'S', 'double', 'bdouble'),
    'x': ('long double', 'bldouble', 'X', 'long double', 'bldouble')}
SX_INT, SX_SSE = 'cbhiulqpe', 'fd'
# helper aggregates: letter -> (declaration, INTEGER registers, SSE registers, 8-byte words when in memory, MEMORY class?)
SX_HELPERS = {
    'L': ('s{ n blong }', 1, 0, 1, False), 'D': ('s{ n bdouble }', 0, 1, 1, False),
    'M': ('s{ n blong ; n bdouble }', 1, 1, 2, False), 'N': ('s{ n bdouble ; n blong }', 1, 1, 2, False),
    'E': ('s{ n bdouble ; n bdouble }', 0, 2, 2, False), 'G': ('s{ n blong ; n p }', 2, 0, 2, False),
    'F': ('s{ n bfloat ; n bfloat }', 0, 1, 1, False), 'C': ('s{ n bchar }', 1, 0, 1, False),
    'B': ('s{ n a3 blong }', 0, 0, 3, True)}
SX_PRELUDE = 'enum c08_en { c08_en_a = -1, c08_en_b = 7 };\n'


def sx_aclass(ms_arg0, size, align):
    """what the tracker needs to know of the aggregate under test: ms_arg0 = the SysV model's placement with all
    registers free ('M' or one letter per eightbyte)"""
    mem = ms_arg0 == 'M' or align >= 16
    return dict(ni=0 if mem else ms_arg0.upper().count('I') + ms_arg0.count('n'), nf=0 if mem else ms_arg0.count('S'), mem=mem,
                words=(size + 7) // 8, align16=align >= 16)


def sx_track(res, sig, a):
    """psABI register/stack accounting along a signature (python, for aiming and for the measured distribution only;
    the models are the Coq ones): list per item of (general used, vector used, stack words) BEFORE it"""
    ni, nf, words = (1 if res else 0), 0, 0
    out = []
    for ch in sig:
        out.append((ni, nf, words))
        if ch == '.':
            continue
        if ch in SX_SCALARS:
            k = SX_SCALARS[ch][2]
            if k == 'I':
                if ni < 6:
                    ni += 1
                else:
                    words += 1
            elif k == 'S':
                if nf < 8:
                    nf += 1
                else:
                    words += 1
            else:
                words = (words + 1) // 2 * 2 + 2
            continue
        if ch == 'A':
            ai, af, w, mem, a16 = a['ni'], a['nf'], a['words'], a['mem'], a['align16']
        else:
            _, ai, af, w, mem = SX_HELPERS[ch]
            a16 = False
        if mem or (ai and ni + ai > 6) or (af and nf + af > 8):
            if a16:
                words = (words + 1) // 2 * 2
                w = (w + 1) // 2 * 2
            words += w
        else:
            ni += ai
            nf += af
    out.append((ni, nf, words))
    return out


def sx_signature(rng, a):
    """a generated (res, sig) for an aggregate with tracker info a, aimed at the register boundaries"""
    r = rng
    res = 1 if r.random() < 0.3 else 0
    ai, af = a['ni'], a['nf']
    di = r.choice([0, 0, 0, -1, 1, 1, r.randint(-6, 3)])
    df = r.choice([0, 0, 0, -1, 1, 1, r.randint(-8, 3)])
    gi = min(9, max(0, 6 - ai + di - res))
    gf = min(11, max(0, 8 - af + df))
    ints = [r.choice(SX_INT) for _ in range(gi)]
    sses = [r.choice(SX_SSE) for _ in range(gf)]
    pre = ['x'] * r.choice([0, 0, 1, 1, 2, 3])
    for _ in range(2):
        if r.random() < 0.3:
            h = r.choice('LDMNEGFC')
            _, hi, hf, _, _ = SX_HELPERS[h]
            if hi <= len(ints) and hf <= len(sses):
                ints = ints[hi:]
                sses = sses[hf:]
                pre.append(h)
    if r.random() < 0.12:
        pre.append('B')
    pre += ints + sses
    r.shuffle(pre)
    post = ['L', 'D']
    r.shuffle(post)
    if r.random() < 0.3:
        post.insert(r.randint(0, 2), r.choice(SX_INT + SX_SSE + 'x'))
    if r.random() < 0.25:
        post.append(r.choice(['A', 'M', 'E', 'G']))
    items = pre + ['A'] + post
    if r.random() < 0.3:
        # variadic tail: at least one named parameter, the last named one of a type va_start accepts
        if not pre:
            items = ['i'] + items
            k = 1
        else:
            k = r.randint(1, len(pre))
        last = items[k - 1]
        items[k - 1] = {'c': 'i', 'b': 'i', 'h': 'i', 'e': 'i', 'f': 'd'}.get(last, last)
        items = items[:k] + ['.'] + items[k:]
    # MIR block types carry no alignment (known finding passing:align16-odd-stack): a 16-byte aligned aggregate gets
    # an even number of stack words in front of it - a long double scalar, which changes no register count
    sig = ''.join(items)
    if a['align16']:
        pos = 0
        while True:
            pos = sig.find('A', pos)
            if pos < 0:
                break
            if sx_track(res, sig, a)[pos][2] % 2 == 1:
                sig = sig[:pos] + 'x' + sig[pos:]
                pos += 1
            pos += 1
    return res, sig


def sx_text(res, sig, t):
    return '%d:%s %s' % (res, sig, ty_text(t))


def sx_model_line(res, sig, t):
    """the line for the model driver (command S): declared parameter types, promoted in the variadic tail"""
    toks, tail = [], False
    for ch in sig:
        if ch == '.':
            tail = True
            toks.append('.')
        elif ch in SX_SCALARS:
            toks.append(SX_SCALARS[ch][4 if tail else 1])
        elif ch == 'A':
            toks.append(ty_text(t))
        else:
            toks.append(SX_HELPERS[ch][0])
    return 'S %d %s' % (res, ' '.join(toks))


def sx_value(ch, n):
    return {'c': '%d' % (n + 3), 'b': '1', 'h': '%d' % (1000 + n), 'i': '%d' % (100000 + n), 'u': '%du' % (3000000000 + n),
            'l': '%dL' % (10000000000 + n), 'q': '0x%xULL' % (0xf000000000000000 + n), 'p': '(void *) %dL' % (0x7000 + n),
            'e': 'c08_en_b', 'f': '%d.25f' % (200 + n), 'd': '%d.5' % (300 + n), 'x': '%d.75L' % (400 + n)}[ch]


class SxCase:
    """C text of one signature case number c: support definitions, parameter list, argument list, body"""

    def __init__(self, c, res, sig, t):
        self.c, self.res, self.sig, self.t = c, res, sig, t
        self.support = []
        self.tn = {}
        idx = c * 16
        for ch in sorted(set(sig)):
            if ch == 'A' or ch in SX_HELPERS:
                idx += 1
                lines, tn = agg_support(900000 + idx, t if ch == 'A' else parse_text(SX_HELPERS[ch][0]))
                self.support += lines
                self.tn[ch] = (tn, 900000 + idx)
        self.variadic = '.' in sig
        self.rt = 'struct c08_big' if res else 'unsigned long'
        named, tail, terms, args, ptypes, locs, fills = [], [], [], [], [], [], []
        in_tail = False
        n = 0
        for ch in sig:
            if ch == '.':
                in_tail = True
                continue
            if ch in SX_SCALARS:
                ct = SX_SCALARS[ch][3 if in_tail else 0]
                args.append(sx_value(ch, n))
                if SX_SCALARS[ch][2] == 'I':
                    terms.append('(unsigned long) q%d' % n)
                else:
                    terms.append('(unsigned long) (q%d * 4)' % n)
            else:
                ct, ix = self.tn[ch]
                args.append('v%d' % n)
                locs.append('%s v%d;' % (ct, n))
                fills.append('fill%d (&v%d, k + %d);' % (ix, n, n))
                terms.append('sum%d (&q%d)' % (ix, n))
            if in_tail:
                tail.append('%s q%d = va_arg (ap, %s);' % (ct, n, ct))
            else:
                named.append('%s q%d' % (ct, n))
                ptypes.append(ct)
                self.last_named = 'q%d' % n
            n += 1
        self.params = ', '.join(named + (['...'] if self.variadic else []))
        self.ptypes = ', '.join(ptypes + (['...'] if self.variadic else []))
        self.args = ', '.join(args)
        self.locals = ' '.join(locs)
        self.fills = ' '.join(fills)
        hsh = ' '.join('h = h * 31 + %s;' % x for x in terms)
        va = ('va_list ap; va_start (ap, %s); %s va_end (ap); ' % (self.last_named, ' '.join(tail))) if self.variadic else ''
        ret = 'struct c08_big r = { h, { 1, 2, 3 } }; return r;' if res else 'return h;'
        self.body = '{ unsigned long h = 17; %s%s %s }' % (va, hsh, ret)
        self.hsel = '.h' if res else ''


def sx_tus(cases):
    """cases: list of (res, sig, t).  (gcc library source, c2m main source, c2m signature TU).  Lines of the c2m program:
    'X <c> s ok|BAD' (c2m caller -> gcc callee) and 'X <c> S ok|BAD' (gcc caller -> c2m callee)"""
    lib, main, sigtu, body = [PASS_PRELUDE, SX_PRELUDE], ['#include <stdio.h>', PASS_PRELUDE, SX_PRELUDE], [PASS_PRELUDE, SX_PRELUDE], []
    for c, (res, sig, t) in enumerate(cases):
        x = SxCase(c, res, sig, t)
        for out in (lib, main, sigtu):
            out += x.support
        lib.append('%s g_sx%d (%s) %s' % (x.rt, c, x.params, x.body))
        lib.append('unsigned long g_call_sx%d (%s (*cb) (%s), unsigned k) { %s %s return cb (%s)%s; }'
                   % (c, x.rt, x.ptypes, x.locals, x.fills, x.args, x.hsel))
        main.append('extern %s g_sx%d (%s);' % (x.rt, c, x.params))
        main.append('extern unsigned long g_call_sx%d (%s (*cb) (%s), unsigned k);' % (c, x.rt, x.ptypes))
        main.append('%s c_sx%d (%s) %s' % (x.rt, c, x.params, x.body))
        main.append('static void sx%d (void) { unsigned k = %d; unsigned long e, r; %s %s' % (c, 5 + c, x.locals, x.fills))
        main.append('  e = c_sx%d (%s)%s; r = g_sx%d (%s)%s; printf ("X %d s %%s\\n", r == e ? "ok" : "BAD");'
                    % (c, x.args, x.hsel, c, x.args, x.hsel, c))
        main.append('  r = g_call_sx%d (c_sx%d, k); printf ("X %d S %%s\\n", r == e ? "ok" : "BAD"); }' % (c, c, c))
        body.append('  sx%d ();' % c)
        # c2m -S: the prototype (named parameters) and a call site (every argument)
        sigtu.append('%s sx%d (%s) %s' % (x.rt, c, x.params, x.body))
        sigtu.append('unsigned long csx%d (unsigned k) { %s %s return sx%d (%s)%s; }' % (c, x.locals, x.fills, c, x.args, x.hsel))
    main.append('int main (void) {')
    main += body
    main += ['  return 0;', '}']
    return '\n'.join(lib) + '\n', '\n'.join(main) + '\n', '\n'.join(sigtu) + '\n'


def sx_mir_blocks(mir_text, ncases):
    """per case: (block types of the aggregate parameters in the prototype of sx<c>, block types of the aggregate
    arguments of the call of sx<c> in csx<c>) as lists of 'blk<k>', from c2m -S"""
    import re
    fns = mir_functions(mir_text)
    out = []
    for c in range(ncases):
        proto = call = None
        if 'sx%d' % c in fns:
            proto = re.findall(r'\b(blk\d):\d+\(', fns['sx%d' % c][0])
        if 'csx%d' % c in fns:
            for x in fns['csx%d' % c][1]:
                if re.match(r'call\s+\w+\s*,\s*sx%d\b' % c, x):
                    call = re.findall(r'\b(blk\d):\d+\(', x)
        out.append((proto, call))
    return out

#!/usr/bin/env python3
# Seeded generator of well-defined multi-module MIR programs for the C03 / C16 differential runs.
# Shapes aimed at the interface switch: calls across modules through import/export, recursion,
# indirect calls through function addresses (ref operands, ref data tables), label addresses
# (laddr + jmpi, lref data + jmpi), switch, C callbacks re-entering MIR code, calls to variadic C and
# variadic MIR functions, many/mixed/stack-passed arguments, multiple results, inline calls, alloca.
# The instruction mix deliberately stays away from instruction-level corner cases owned by other
# properties (division, overflow branches, huge 32-bit constants, float->int of unbounded values).
#
# gen_program(rng, ...) -> dict(text, nmodules, funcs=[dict(name, module, sig, kind)], entries=[...],
#                              features=set(), cost)
# The harness conventions (harness/c03_prog.h): entry signatures 'ii' 'i8' 'd9i' 'mix' 'va' ; externals
# ext_log ext_cb ext_cbd ext_d2 ext_va ; bss items mem<k> are hashed as "memory".

import random, zlib

INT_T = ['i64', 'i32', 'u8', 'i16', 'u32', 'i8', 'u16', 'p']
ENTRY_SIGS = {
    'ii': (['i64', 'i64'], ['i64']),
    'i8': (['i64'] * 8, ['i64']),
    'd9i': (['d'] * 9 + ['i64'], ['d']),
    'mix': (['i64', 'd', 'i32', 'f', 'u8', 'd', 'i16', 'p'], ['i64']),
    'va': (['i64'], ['i64']),          # + varargs (up to 7 i64)
    'cbi': (['i64'], ['i64']),         # callback shapes (also callable as entries)
    'cbd': (['d'], ['d']),
}
RET_CHOICES = [['i64'], ['i64'], ['d'], ['i64', 'd'], ['i32'], ['f'], ['ld'], ['i64', 'i64'], ['d', 'd'], ['u8']]


def regclass(t):
    return {'f': 'f', 'd': 'd', 'ld': 'ld'}.get(t, 'i64')


class Func:
    def __init__(self, name, module, rank, args, rets, kind, vararg=False):
        self.name, self.module, self.rank = name, module, rank
        self.args, self.rets, self.kind, self.vararg = args, rets, kind, vararg
        self.island = False   # lives in the unrelated ("island") module of a mixed-link program
        self.ngate = 0
        self.fuel = False
        self.lrefam = False   # gets "lref family" constructs (lref_dead)
        self.nojmpi = False   # no laddr / lref / jmpi statement of the ordinary kinds: no reachable jmpi in the function
        self.cost = 1
        self.body = []
        self.lrefs = []   # (table name, [labels])

    def sigkey(self):
        return (tuple(self.args), tuple(self.rets), self.vararg)


class Gen:
    def __init__(self, rng, nmodules=None, nfuncs=None, size=None, feats=None, mixed=False, lrefam=False):
        self.rng = rng
        # lrefam: the "lref family" (round 3, wave z): functions owning lref data items of every form whose labels
        # stand in reachable and in UNREACHABLE code, with and without a reachable jmpi in the function (see lref_dead)
        self.lrefam = lrefam
        self.lref_shapes = []
        # mixed: programs for histories that mix interfaces ACROSS link steps (gen_mixed_history): always layered,
        # an entry ('ii') function in every module (so each module can be executed as soon as it is linked), calls of
        # an entry gated by the bits of its second argument (the history decides which callees get their first call
        # when), and one more module ("island") that is unrelated to the others and can be linked at any moment
        self.mixed = mixed
        if mixed:
            self.nmod = nmodules or rng.choice([1, 2, 2, 3])
            self.nfuncs = nfuncs or rng.randint(4, 9)
            self.size = size or rng.choice([6, 10, 10, 16])
        else:
            self.nmod = nmodules or rng.choice([1, 2, 2, 3, 3])
            self.nfuncs = nfuncs or rng.randint(4, 9)
            self.size = size or rng.choice([6, 10, 16])
        self.island_mod = None
        self.feats = set()
        self.funcs = []
        self.lab = 0
        self.allow = feats  # None = everything

    def ok(self, feat):
        return self.allow is None or feat in self.allow

    # ------------------------------------------------------------ program skeleton
    def make_funcs(self):
        rng = self.rng
        kinds = []
        # entries first (low rank: they call everything else)
        ent = [rng.choice(['ii', 'ii', 'i8', 'd9i', 'mix', 'va']) for _ in range(rng.randint(1, 3))]
        if 'ii' not in ent:
            ent[0] = 'ii'
        for k in ent:
            kinds.append(k)
        while len(kinds) < self.nfuncs - 2:
            kinds.append('int')
        kinds += ['cbi', 'cbd']
        self.layered = True if self.mixed else rng.random() < 0.6
        if self.mixed:
            # the lowest-ranked function of every module (it may call everything else of its module and of the
            # modules below) is an entry
            first = {}
            for rank in range(len(kinds)):
                first.setdefault((len(kinds) - 1 - rank) * self.nmod // len(kinds), rank)
            for m, rank in first.items():
                if kinds[rank] == 'int':
                    kinds[rank] = 'ii'
        for rank, k in enumerate(kinds):
            if self.layered:   # callees live in modules loaded earlier: module index falls with rank
                m = (len(kinds) - 1 - rank) * self.nmod // len(kinds)
            else:
                m = rng.randrange(self.nmod)
            if k in ENTRY_SIGS:
                a, r = ENTRY_SIGS[k]
                f = Func('f%d_%s' % (rank, k), m, rank, list(a), list(r), k, vararg=(k == 'va'))
            else:
                na = rng.choice([0, 1, 2, 3, 4, 7, 9, 12])
                pool = ['i64', 'i64', 'i64', 'd', 'd', 'f', 'ld', 'i32', 'u8', 'i16', 'p', 'u32', 'i8']
                a = [rng.choice(pool) for _ in range(na)]
                f = Func('f%d' % rank, m, rank, a, list(rng.choice(RET_CHOICES)), 'int')
                if rng.random() < 0.35 and self.ok('recursion'):
                    f.args.insert(0, 'i64')
                    f.fuel = True
            if self.lrefam and k != 'va' and rng.random() < 0.75:
                f.lrefam = True
                f.nojmpi = rng.random() < 0.6
            self.funcs.append(f)
        if self.mixed:
            # the island: an entry, one or two callees, a callback target; nothing in common with the other modules
            self.island_mod = self.nmod
            base = len(kinds)
            ik = ['ii'] + ['int'] * rng.randint(1, 2) + ['cbi']
            for j, k in enumerate(ik):
                if k in ENTRY_SIGS:
                    a, r = ENTRY_SIGS[k]
                    f = Func('f%d_%s' % (base + j, k), self.island_mod, base + j, list(a), list(r), k)
                else:
                    a = [rng.choice(['i64', 'i64', 'd', 'i32', 'u8']) for _ in range(rng.choice([1, 2, 3, 7]))]
                    f = Func('f%d' % (base + j), self.island_mod, base + j, a, list(rng.choice(RET_CHOICES)), 'int')
                f.island = True
                self.funcs.append(f)

    def newlab(self, f):
        self.lab += 1
        return '%s_L%d' % (f.name, self.lab)

    # ------------------------------------------------------------ function bodies
    def gen_body(self, f):
        rng = self.rng
        out = []
        e = out.append
        ni, nd = 6, 3
        f.ir = ['r%d' % i for i in range(ni)]
        f.dr = ['d%d' % i for i in range(nd)]
        f.sr = ['s0', 's1']
        f.xr = ['x0']
        f.tmp_i = ['t0', 't1', 't2', 't3']
        # a variable tied to a callee-saved hard register ("GNU C global register variable"): the function saves the
        # register's value first and restores it before its only ret, and never reads it before writing it, so the
        # program is well defined under every engine (the interpreter keeps such variables in a per-context array)
        f.gvar = None
        if self.ok('global') and rng.random() < 0.3:
            self.feats.add('global')
            f.gvar = rng.choice(['rbx', 'r12', 'r13', 'r14', 'r15'])
            f.gv_first = rng.random() < 0.5   # `global` line before or after the `local` line (register numbering)
            e('mov gsv, gv')
            f.ir = f.ir + ['gv']
        f.ncnt = 0
        f.nal = 0
        f.argregs = []
        for i, t in enumerate(f.args):
            f.argregs.append(('a%d' % i, regclass(t)))
        # initialise every register (no engine may see an undefined value)
        ia = [a for a, c in f.argregs if c == 'i64']
        da = [a for a, c in f.argregs if c == 'd']
        fa = [a for a, c in f.argregs if c == 'f']
        xa = [a for a, c in f.argregs if c == 'ld']
        for k, r in enumerate(f.ir):
            if ia and rng.random() < 0.7:
                e('mov %s, %s' % (r, ia[k % len(ia)]))
            else:
                e('mov %s, %d' % (r, rng.randint(-100, 100)))
        for k, r in enumerate(f.dr):
            if da and rng.random() < 0.7:
                e('dmov %s, %s' % (r, da[k % len(da)]))
            else:
                e('dmov %s, %d.%s' % (r, rng.randint(-9, 9), rng.choice(['0', '5', '25'])))
        for k, r in enumerate(f.sr):
            if fa and rng.random() < 0.7:
                e('fmov %s, %s' % (r, fa[k % len(fa)]))
            else:
                e('fmov %s, %d.5f' % (r, rng.randint(-9, 9)))
        if xa:
            e('ldmov x0, %s' % xa[0])
        else:
            e('ldmov x0, %d.0l' % rng.randint(-9, 9))
        for t in f.tmp_i:
            e('mov %s, 0' % t)
        # every argument register / stack slot matters: fold all of them in (weighted by position)
        for j, a in enumerate(ia):
            e('mul t0, %s, %d' % (a, 2 * j + 3))
            e('add %s, %s, t0' % (f.ir[j % len(f.ir)], f.ir[j % len(f.ir)]))
        for j, a in enumerate(da):
            e('dmul d2, %s, %d.0' % (a, j + 2))
            e('dadd %s, %s, d2' % (f.dr[j % 2], f.dr[j % 2]))
        for j, a in enumerate(fa):
            e('fadd %s, %s, %s' % (f.sr[j % 2], f.sr[j % 2], a))
        for a in xa[1:]:
            e('ldadd x0, x0, %s' % a)
        e('mov t0, 0')
        if f.kind == 'va':
            # sum a0 variadic i64 arguments into r0
            f.feat_va = True
            self.feats.add('va_mir')
            lh, le = self.newlab(f), self.newlab(f)
            e('alloca va, 32')
            e('va_start va')
            e('mov t0, a0')
            e('%s:' % lh)
            e('ble %s, t0, 0' % le)
            e('va_arg t1, va, i64:0')
            e('mov t2, i64:(t1)')
            e('mul r0, r0, 3')
            e('add r0, r0, t2')
            e('sub t0, t0, 1')
            e('jmp %s' % lh)
            e('%s:' % le)
            e('va_end va')
        if f.lrefam:
            out += self.stmts(f, self.size // 2, 0)
            out += self.lref_dead(f)
            out += self.stmts(f, self.size - self.size // 2, 0)
            for _ in range(rng.choice([0, 0, 1, 2])):
                out += self.lref_dead(f)
        else:
            out += self.stmts(f, self.size, 0)
        if self.mixed and f.kind == 'ii':
            # an entry of a mixed-link program has a few (gated) calls for sure
            for _ in range(rng.randint(1, 3)):
                out += self.call(f, 0, 1)
                out += self.stmts(f, 1, 0)
        # result: fold everything observable into the return values
        for r in f.ir[1:]:
            e('mul r0, r0, 31')
            e('add r0, r0, %s' % r)
        e('dlt t0, d0, d1')
        e('add r0, r0, t0')
        e('flt t0, s0, s1')
        e('add r0, r0, t0')
        e('dadd d0, d0, d1')
        e('dadd d0, d0, d2')
        rets = []
        seen = {'i64': 0, 'd': 0}
        for t in f.rets:
            c = regclass(t)
            if c == 'i64':
                rets.append(['r0', 'r1'][seen['i64'] % 2]); seen['i64'] += 1
            elif c == 'd':
                rets.append(['d0', 'd1'][seen['d'] % 2]); seen['d'] += 1
            elif c == 'f':
                rets.append('s0')
            else:
                rets.append('x0')
        if f.gvar:
            e('mov gv, gsv')
        e('ret ' + ', '.join(rets))
        f.body = out

    def stmts(self, f, n, depth, inloop=1):
        out = []
        for _ in range(n):
            out += self.stmt(f, depth, inloop)
        return out

    def pick_i(self, f):
        return self.rng.choice(f.ir)

    def stmt(self, f, depth, inloop):
        rng = self.rng
        r = rng.random()
        ir, dr = f.ir, f.dr
        a, b, c = rng.choice(ir), rng.choice(ir), rng.choice(ir)
        o = []
        if r < 0.22:
            op = rng.choice(['add', 'sub', 'mul', 'and', 'or', 'xor', 'adds', 'subs', 'ands', 'xors'])
            src = c if rng.random() < 0.6 else str(rng.randint(-1000, 1000))
            o.append('%s %s, %s, %s' % (op, a, b, src))
            if op.endswith('s') and op not in ('sub',):   # high half of a 32-bit result is undefined
                o.append('%s %s, %s' % (rng.choice(['ext32', 'uext32']), a, a))
        elif r < 0.28:
            op = rng.choice(['lsh', 'rsh', 'ursh'])
            o.append('%s %s, %s, %d' % (op, a, b, rng.randint(0, 63)))
        elif r < 0.32:
            op = rng.choice(['ext8', 'ext16', 'ext32', 'uext8', 'uext16', 'uext32', 'neg'])
            o.append('%s %s, %s' % (op, a, b))
        elif r < 0.37:
            op = rng.choice(['lt', 'le', 'eq', 'ne', 'gt', 'ge', 'ult', 'uge', 'lts', 'ges'])
            o.append('%s %s, %s, %s' % (op, a, b, c))
        elif r < 0.45:
            x, y, z = rng.choice(dr), rng.choice(dr), rng.choice(dr)
            k = rng.random()
            if k < 0.5:
                o.append('%s %s, %s, %s' % (rng.choice(['dadd', 'dsub', 'dmul']), x, y,
                                            z if rng.random() < 0.5 else '%d.5' % rng.randint(-3, 3)))
            elif k < 0.7:
                o += ['and t0, %s, 1023' % a, 'i2d %s, t0' % x]
            elif k < 0.8:
                o += ['and t0, %s, 255' % a, 'i2d d2, t0', 'dmul d2, d2, 3.5', 'd2i %s, d2' % b]
            elif k < 0.9:
                o += ['d2f s0, %s' % x, 'fadd s1, s1, s0', 'f2d %s, s1' % y, 'and t0, %s, 7' % a, 'i2f s1, t0']
            else:
                o += ['and t0, %s, 1023' % a, 'i2ld x0, t0', 'ldadd x0, x0, x0', 'ld2d %s, x0' % x]
        elif r < 0.56 and self.ok('mem'):
            self.feats.add('mem')
            ty, sc, mask = rng.choice([('i64', 8, 63), ('i32', 4, 63), ('u32', 4, 63), ('i16', 2, 127), ('u16', 2, 127),
                                       ('i8', 1, 255), ('u8', 1, 255), ('d', 8, 63), ('f', 4, 63)])
            o.append('mov t3, mem%d' % f.module)
            o.append('and t0, %s, %d' % (a, mask))
            mem = '%s:(t3, t0, %d)' % (ty, sc) if sc > 1 else '%s:(t3, t0)' % ty
            st = rng.random() < 0.5
            if ty == 'd':
                x = rng.choice(dr)
                o.append('dmov %s, %s' % ((mem, x) if st else (x, mem)))
            elif ty == 'f':
                o.append('fmov %s, %s' % ((mem, 's0') if st else ('s1', mem)))
            else:
                o.append('mov %s, %s' % ((mem, b) if st else (b, mem)))
        elif r < 0.63 and depth < 3:
            l1, l2 = self.newlab(f), self.newlab(f)
            k = rng.random()
            if k < 0.6:
                br = rng.choice(['blt', 'ble', 'beq', 'bne', 'bgt', 'bge', 'ublt', 'ubge', 'blts', 'bnes'])
                o.append('%s %s, %s, %s' % (br, l1, a, b))
            elif k < 0.8:
                o.append('%s %s, %s' % (rng.choice(['bt', 'bf', 'bts', 'bfs']), l1, a))
            else:
                o.append('%s %s, %s, %s' % (rng.choice(['dblt', 'dbge', 'dbne']), l1, rng.choice(dr), rng.choice(dr)))
            o += self.stmts(f, rng.randint(1, 3), depth + 1, inloop)
            o.append('jmp %s' % l2)
            o.append('%s:' % l1)
            o += self.stmts(f, rng.randint(0, 2), depth + 1, inloop)
            o.append('%s:' % l2)
        elif r < 0.68 and depth < 2 and inloop * 4 <= 16:
            cnt = 'c%d' % f.ncnt
            f.ncnt += 1
            n = rng.randint(1, 4)
            lh = self.newlab(f)
            o.append('mov %s, %d' % (cnt, n))
            o.append('%s:' % lh)
            o += self.stmts(f, rng.randint(1, 3), depth + 1, inloop * n)
            o.append('sub %s, %s, 1' % (cnt, cnt))
            o.append('bgt %s, %s, 0' % (lh, cnt))
        elif r < 0.72 and depth < 3 and self.ok('switch'):
            self.feats.add('switch')
            n = rng.randint(2, 4)
            labs = [self.newlab(f) for _ in range(n)]
            lend = self.newlab(f)
            o.append('and t0, %s, %d' % (a, 3))
            if n < 4:
                l0 = self.newlab(f)
                o += ['blt %s, t0, %d' % (l0, n), 'mov t0, 0', '%s:' % l0]
            o.append('switch t0, ' + ', '.join(labs))
            for lb in labs:
                o.append('%s:' % lb)
                o += self.stmts(f, rng.randint(1, 2), depth + 1, inloop)
                o.append('jmp %s' % lend)
            o.append('%s:' % lend)
        elif r < 0.76 and depth < 3 and self.ok('laddr') and not f.nojmpi:
            self.feats.add('laddr')
            la, lb, ls, le = (self.newlab(f) for _ in range(4))
            o += ['laddr t1, %s' % la, 'laddr t2, %s' % lb, 'and t0, %s, 1' % a, 'bt %s, t0' % ls, 'mov t1, t2',
                  '%s:' % ls, 'jmpi t1', '%s:' % la]
            o += self.stmts(f, 1, depth + 1, inloop)
            o += ['jmp %s' % le, '%s:' % lb]
            o += self.stmts(f, 1, depth + 1, inloop)
            o.append('%s:' % le)
        elif r < 0.79 and depth < 3 and self.ok('lref') and f.kind != 'va' and not f.nojmpi:
            self.feats.add('lref')
            la, lb, le = (self.newlab(f) for _ in range(3))
            tab = 'lt_%s_%d' % (f.name, len(f.lrefs))
            f.lrefs.append((tab, [la, lb]))
            o += ['mov t3, %s' % tab, 'and t0, %s, 1' % a, 'mov t1, i64:(t3, t0, 8)', 'jmpi t1', '%s:' % la]
            o += self.stmts(f, 1, depth + 1, inloop)
            o += ['jmp %s' % le, '%s:' % lb]
            o += self.stmts(f, 1, depth + 1, inloop)
            o.append('%s:' % le)
        elif r < 0.805 and depth < 3 and self.ok('lref') and self.ok('laddr') and f.kind != 'va' and not f.nojmpi:
            # label difference in data (`lref La, Lb` = &La - &Lb in the running engine) added to a label address
            self.feats.add('lref_diff')
            la, lb, le = (self.newlab(f) for _ in range(3))
            tab = 'lt_%s_%d' % (f.name, len(f.lrefs))
            f.lrefs.append((tab, [(la, lb)]))
            o += ['laddr t1, %s' % lb, 'mov t3, %s' % tab, 'add t1, t1, i64:(t3)', 'jmpi t1', '%s:' % lb]
            o += self.stmts(f, 1, depth + 1, inloop)
            o += ['jmp %s' % le, '%s:' % la]
            o += self.stmts(f, 1, depth + 1, inloop)
            o.append('%s:' % le)
        elif 0.82 <= r < 0.835 and self.ok('faddr'):
            o += self.faddr(f, a)
        elif r < 0.82 and self.ok('alloca') and inloop == 1 and depth == 0:
            self.feats.add('alloca')
            # a register written by nothing but this alloca (MIR_link hoists constant-size allocas of
            # inlined callees to the caller's entry, which is C04's business, not ours)
            al = 'al%d' % f.nal
            f.nal += 1
            o += ['alloca %s, 64' % al, 'mov i64:(%s), %s' % (al, a), 'mov i64:24(%s), %s' % (al, b),
                  'mov %s, i64:(%s)' % (c, al), 'add %s, %s, i64:24(%s)' % (c, c, al)]
        elif r < 0.87:
            self.feats.add('ext')
            k = rng.random()
            if k < 0.5:
                o.append('call p_log, ext_log, %s, %s' % (a, b))
            elif k < 0.7:
                x = rng.choice(dr)
                o.append('call p_d2, ext_d2, %s, %s, %s' % (x, rng.choice(dr), rng.choice(dr)))
            elif k < 0.85 and self.ok('ext_va'):
                self.feats.add('ext_va')
                n = rng.randint(0, 7)
                o.append('call p_eva, ext_va, %s, %d%s' % (a, n, ''.join(', ' + rng.choice(ir) for _ in range(n))))
            else:
                o += self.callback(f, a, b)
        else:
            o += self.call(f, depth, inloop)
        return o

    def lref_dead(self, f):
        """An lref table of the function whose labels need not be reachable: the two entries of a table cancel in every
        engine (one label: `lref L, d` twice, difference 0; two labels: `lref La, Lb, d` and `lref Lb, La, -d`, sum 0; a
        table whose label the generator finds unreachable holds zeros), so reading them is well defined although a
        label address / label difference itself is engine specific.
          form   one | two | same (`lref L, L`)            x  displacement 0 / small / page sized / negative
          place  of each label: live (fall-through code) | dead (after a jmp; referred to by nothing but lref data,
                 a laddr or an unreachable jmpi)           -- reachable all the same when the function has a reachable
                 jmpi somewhere (f.nojmpi False): jmpi has an edge to every label whose address is taken
          user   none | read0 (the cancelling read) | laddr0 (laddr of the label, value masked) | jmpi_dead (a jmpi
                 through the table that is itself in unreachable code)"""
        rng = self.rng
        form = rng.choice(['one', 'one', 'two', 'two', 'two', 'two', 'same'])
        disp = rng.choice([0, 0, 8, -16, 1, 4096, -1])
        if form == 'same':
            disp = 0
        pa, pb = rng.choice(['dead', 'dead', 'live']), rng.choice(['dead', 'dead', 'live'])
        user = rng.choice(['none', 'read0', 'read0', 'read0', 'laddr0', 'jmpi_dead'])
        la, lb, le = (self.newlab(f) for _ in range(3))
        tab = 'lt_%s_%d' % (f.name, len(f.lrefs))
        if form == 'one':
            ents = [(la, None, disp), (la, None, disp)]
        elif form == 'two':
            ents = [(la, lb, disp), (lb, la, -disp)]
        else:
            ents = [(la, la, 0), (la, la, 0)]
        f.lrefs.append((tab, ents))   # (before the nested statements take the next table names)
        a = rng.choice(f.ir)
        labs = [(la, pa)] + ([(lb, pb)] if form == 'two' else [])
        if rng.random() < 0.5:
            labs.reverse()
        o = []
        for lab, pl in labs:
            if pl == 'live':
                o.append('%s:' % lab)
                o += self.stmts(f, 1, 2)
        o.append('jmp %s' % le)
        for lab, pl in labs:
            if pl == 'dead':
                o.append('%s:' % lab)
                o += self.stmts(f, rng.randint(0, 1), 2)
                if rng.random() < 0.4:
                    o.append('jmp %s' % le)
        if user == 'jmpi_dead':
            o += ['mov t3, %s' % tab, 'mov t1, i64:(t3)', 'jmpi t1']
        o.append('%s:' % le)
        if user == 'read0':
            o += ['mov t3, %s' % tab, 'mov t1, i64:(t3)', '%s t1, t1, i64:8(t3)' % ('sub' if form == 'one' else 'add'),
                  'add %s, %s, t1' % (a, a)]
        elif user == 'laddr0':
            o += ['laddr t1, %s' % rng.choice(labs)[0], 'and t1, t1, 0', 'add %s, %s, t1' % (a, a)]
        self.feats.add('lref_dead')
        self.lref_shapes.append('%s%s:%s:%s:%s' % (form, '+d' if disp else '', '/'.join(pl for _, pl in sorted(labs)), user,
                                                   'nojmpi' if f.nojmpi else 'jmpi-possible'))
        return o

    def callback(self, f, a, b):
        """C code re-entering MIR: ext_cb (fn, x) calls fn (x) where fn is a MIR function address"""
        rng = self.rng
        cbs = [g for g in self.funcs if g.rank > f.rank and g.kind in ('cbi', 'cbd') and g.island == f.island]
        if not cbs or not self.ok('callback'):
            return ['call p_log, ext_log, %s, %s' % (a, b)]
        g = rng.choice(cbs)
        self.feats.add('callback')
        f.cost += g.cost
        self.use(f, g)
        if g.kind == 'cbi':
            return ['call p_cb, ext_cb, %s, %s, %s' % (a, g.name, b)]
        x = rng.choice(f.dr)
        return ['call p_cbd, ext_cbd, %s, %s, %s' % (x, g.name, rng.choice(f.dr))]

    def faddr(self, f, a):
        """a function address is one value however and whenever it is obtained: as a ref operand, from a `ref` data
        table, in another module through an import, in the C host through item->addr"""
        rng = self.rng
        cands = [g for g in self.funcs if g.rank >= f.rank and g.island == f.island]
        g = rng.choice(cands)
        self.feats.add('faddr')
        self.use(f, g)
        if rng.random() < 0.5:
            # the C host says which function this is (index of the function whose public address it is, -1 if none)
            return ['call p_id, ext_id, t0, %s' % g.name, 'mul %s, %s, 5' % (a, a), 'add %s, %s, t0' % (a, a)]
        f.reftab = getattr(f, 'reftab', [])
        if g.name not in f.reftab:
            f.reftab.append(g.name)
        idx = f.reftab.index(g.name)
        return ['mov t1, %s' % g.name, 'mov t3, ft_%s' % f.name, 'mov t2, i64:%d(t3)' % (8 * idx), 'eq t0, t1, t2',
                'lsh %s, %s, 1' % (a, a), 'add %s, %s, t0' % (a, a)]

    def use(self, f, g):
        f.uses = getattr(f, 'uses', set())
        f.uses.add(g.name)

    def argval(self, f, t):
        rng = self.rng
        c = regclass(t)
        if c == 'i64':
            return rng.choice(f.ir) if rng.random() < 0.8 else str(rng.randint(-300, 300))
        if c == 'd':
            return rng.choice(f.dr)
        if c == 'f':
            return rng.choice(f.sr)
        return 'x0'

    def call(self, f, depth, inloop):
        rng = self.rng
        cands = [g for g in self.funcs if g.rank > f.rank and g.island == f.island]
        selfrec = f.fuel and inloop == 1 and rng.random() < 0.3 and not getattr(f, 'didrec', False)
        if selfrec:
            g = f
            f.didrec = True
            self.feats.add('recursion')
        elif cands:
            g = rng.choice(cands)
        else:
            return ['add r0, r0, 1']
        args = []
        pre = []
        if g.kind == 'va':
            n = rng.randint(0, 7)
            args = [str(n)] + [rng.choice(f.ir) for _ in range(n)]
        else:
            for i, t in enumerate(g.args):
                if i == 0 and g.fuel:
                    if g is f:
                        pre.append('sub t2, a0, 1')
                        args.append('t2')
                    else:
                        args.append(str(rng.randint(0, 2)))
                else:
                    args.append(self.argval(f, t))
        res = []
        used = set()
        for t in g.rets:
            c = regclass(t)
            pool = {'i64': f.ir, 'd': f.dr, 'f': f.sr, 'ld': f.xr}[c]
            pool = [p for p in pool if p not in used] or pool
            x = rng.choice(pool)
            used.add(x)
            res.append(x)
        self.use(f, g)
        f.cost += (g.cost if g is not f else 0) * inloop
        proto = 'p_' + g.name
        how = rng.random()
        callee = g.name
        op = 'call'
        if self.mixed and f.kind == 'ii' and g.module == f.module:
            how = 0.2 + 0.8 * how   # mostly direct (or inline) when it stays inside the module
        if g is f:
            pass
        elif how < 0.2 and self.ok('indirect'):
            self.feats.add('indirect_reg')
            pre.append('mov t3, %s' % g.name)
            callee = 't3'
        elif how < 0.35 and self.ok('reftab'):
            self.feats.add('indirect_tab')
            f.reftab = getattr(f, 'reftab', [])
            if g.name not in f.reftab:
                f.reftab.append(g.name)
            idx = f.reftab.index(g.name)
            pre += ['mov t3, ft_%s' % f.name, 'mov t3, i64:%d(t3)' % (8 * idx)]
            callee = 't3'
        elif how < 0.5 and g.kind != 'va' and self.ok('inline'):
            self.feats.add('inline')
            op = 'inline'
        lines = list(pre)
        call = '%s %s, %s%s%s' % (op, proto, callee, ''.join(', ' + x for x in res), ''.join(', ' + x for x in args))
        if g is f:
            lb = self.newlab(f)
            lines = ['ble %s, a0, 0' % lb] + pre + [call, '%s:' % lb]
        else:
            lines.append(call)
            if self.mixed and f.kind == 'ii' and rng.random() < 0.85:
                # gated by a bit of the entry's second argument: whether (and so when for the first time) the
                # callee is reached is the caller's choice
                lb = self.newlab(f)
                lines = ['and t0, a1, %d' % (1 << (f.ngate % 6)), 'bf %s, t0' % lb] + lines + ['%s:' % lb]
                f.ngate += 1
                self.feats.add('gated')
        return lines

    # ------------------------------------------------------------ text
    def proto_text(self, name, args, rets, vararg):
        parts = list(rets) + ['%s:a%d' % (t, i) for i, t in enumerate(args)]
        if vararg:
            parts.append('...')
        return '%s: proto %s' % (name, ', '.join(parts))

    def emit(self):
        # bodies from the highest rank down so that callee costs are known
        for f in reversed(self.funcs):
            self.gen_body(f)
        for f in self.funcs:
            if f.fuel:
                f.cost *= 4
        txt = []
        byname = {f.name: f for f in self.funcs}
        orng = random.Random(zlib.crc32('|'.join(f.name + ':' + ';'.join(f.body) for f in self.funcs).encode()))
        for m in range(self.nmod + (1 if self.island_mod is not None else 0)):
            mf = [f for f in self.funcs if f.module == m]
            txt.append('m%d: module' % m)
            used = set()
            for f in mf:
                used |= getattr(f, 'uses', set())
            imports = sorted(u for u in used if byname[u].module != m)
            txt.append('  import ext_log, ext_cb, ext_cbd, ext_d2, ext_va, ext_id' + ''.join(', ' + i for i in imports))
            txt.append('  export mem%d%s' % (m, ''.join(', ' + f.name for f in mf)))
            fw = []
            for f in mf:
                fw += [t for t, _ in f.lrefs]
                if getattr(f, 'reftab', None):
                    fw.append('ft_' + f.name)
            # functions referenced before their definition inside the module
            fw += [f.name for f in mf]
            if fw:
                txt.append('  forward ' + ', '.join(fw))
            txt.append('p_log: proto i64, i64:v')
            txt.append('p_cb: proto i64, p:fn, i64:x')
            txt.append('p_cbd: proto d, p:fn, d:x')
            txt.append('p_d2: proto d, d:a, d:b')
            txt.append('p_eva: proto i64, i64:n, ...')
            txt.append('p_id: proto i64, p:fn')
            for u in sorted(used | {f.name for f in mf}):
                g = byname[u]
                txt.append(self.proto_text('p_' + g.name, g.args, g.rets, g.vararg))
            txt.append('mem%d: bss 512' % m)
            # Definition order inside the module: a call of a function defined EARLIER refers to the func item itself
            # (such call sites are recorded by the x86-64 generator and rewritten into direct calls when an eager link
            # finishes), a call of a function defined later goes through its forward item.  The order is drawn from a
            # generator of its own, seeded by the bodies, so the programs of a seed stay the same up to this order.
            k = orng.random()
            mdef = list(mf)
            if k < 0.4:
                mdef.reverse()
            elif k < 0.7:
                orng.shuffle(mdef)
            for f in mdef:
                hdr = list(f.rets) + ['%s:a%d' % (t, i) for i, t in enumerate(f.args)]
                if f.vararg:
                    hdr.append('...')
                txt.append('%s: func %s' % (f.name, ', '.join(hdr)))
                loc = ['i64:' + r for r in f.ir + f.tmp_i if r != 'gv'] + ['d:' + r for r in f.dr] + ['f:' + r for r in f.sr] + ['ld:x0']
                loc += ['i64:c%d' % i for i in range(f.ncnt)] + ['i64:al%d' % i for i in range(f.nal)]
                if f.kind == 'va':
                    loc.append('i64:va')
                if f.gvar:
                    loc.append('i64:gsv')
                if f.gvar and f.gv_first:
                    txt.append('  global i64:gv:' + f.gvar)
                txt.append('  local ' + ', '.join(loc))
                if f.gvar and not f.gv_first:
                    txt.append('  global i64:gv:' + f.gvar)
                for l in f.body:
                    txt.append(('%s' % l) if l.endswith(':') else '  ' + l)
                txt.append('  endfunc')
            for f in mf:
                if getattr(f, 'reftab', None):
                    for i, n in enumerate(f.reftab):
                        txt.append('%sref %s, 0' % ('ft_%s: ' % f.name if i == 0 else '  ', n))
                for tab, labs in f.lrefs:
                    for i, l in enumerate(labs):
                        if not isinstance(l, str):   # (label, second label or None[, displacement])
                            l = ', '.join([l[0]] + ([l[1]] if l[1] else []) + ([str(l[2])] if len(l) > 2 and l[2] else []))
                        txt.append('%slref %s' % (tab + ': ' if i == 0 else '  ', l))
            txt.append('  endmodule')
        return '\n'.join(txt) + '\n'


def gen_program(rng, feats=None, **kw):
    for _ in range(50):
        g = Gen(rng, feats=feats, **kw)
        g.make_funcs()
        text = g.emit()
        cost = max(f.cost for f in g.funcs)
        if cost <= 20000:
            break
    funcs = [dict(name=f.name, module=f.module, kind=f.kind, rank=f.rank, nargs=len(f.args),
                  uses=sorted(getattr(f, 'uses', set())), lref=bool(f.lrefs), ngate=f.ngate) for f in g.funcs]
    entries = [f for f in funcs if f['kind'] in ENTRY_SIGS]
    return dict(text=text, nmodules=g.nmod + (1 if g.island_mod is not None else 0), layered=g.layered, funcs=funcs, entries=entries,
                features=sorted(g.feats), cost=cost, island=g.island_mod, lref_shapes=g.lref_shapes)


# ---------------------------------------------------------------- LARGE functions (round 3, wave z)
#
# Everything the engines do to machine code AFTER it was published -- change_calls (6-byte `rex call rel32` rewrite of every
# call through the constant pool), target_change_to_direct_calls (4-byte rel32 rewrite when an eager link finishes),
# setup_rel32 / target_redirect_bb_origin_branch (origin-branch patching of lazy-BB code), _MIR_update_code_arr (absolute
# addresses of switch tables) -- goes through _MIR_change_code / _MIR_set_code, i.e. depends on WHERE in the code pages the
# patched bytes lie (page start / end, straddling two pages, first / last page of a code holder).  The programs above
# have functions of a few hundred bytes; the programs below have functions whose machine code is many pages long with
# hundreds to thousands of patched sites, laid out at varying strides after a pad of random length, so that the sites
# fall on all offsets modulo the page size (a 6-byte site in a run of 9-byte calls straddles a given page boundary with
# probability 5/9).  Cheap: ~0.1 s to generate and run 5000 call sites.

BIG_SEGS = ('pad', 'calls', 'branches', 'switch', 'loop', 'diamonds')


def gen_big_program(rng, scale=1.0):
    nmod = rng.choice([1, 1, 2])
    lab = [0]
    feats = set(['big'])

    def newlab():
        lab[0] += 1
        return 'B%d' % lab[0]
    # leaf callees: > 50 insns (MIR_link does not inline plain calls of them), 1..4 integer parameters, one of them logs
    ncal = rng.randint(2, 4)
    callees = []
    for k in range(ncal):
        na = rng.choice([1, 1, 2, 3, 4])
        body = ['mov r, a0']
        for i in range(1, na):
            body.append('mul t, a%d, %d' % (i, 2 * i + 3))
            body.append('add r, r, t')
        for i in range(rng.randint(52, 60)):
            body.append(rng.choice(['add r, r, %d', 'xor r, r, %d', 'sub r, r, %d']) % rng.randint(1, 999))
        if k == 0:
            body += ['and t, r, 1023', 'bne %s, t, %d' % ('G%d_skip' % k, rng.randint(0, 1023)), 'call p_log, ext_log, t, r', 'G%d_skip:' % k]
        body.append('ret r')
        callees.append(dict(name='g%d' % k, nargs=na, body=body, module=0))
    nbig = rng.choice([1, 1, 2])
    bigs = []
    regs = ['r0', 'r1', 'r2', 'r3', 'r4', 'r5']
    for b in range(nbig):
        budget = int(rng.choice([1200, 2500, 4000, 6000]) * scale)
        o = []
        e = o.append
        nseg = 0
        # the pad decides where, modulo the page size, everything after it lies
        segs = []
        while budget > 0:
            kind = 'pad' if not segs else rng.choice(['calls', 'calls', 'calls', 'branches', 'branches', 'diamonds', 'switch', 'loop', 'pad'])
            segs.append(kind)
            if kind == 'pad':
                n = rng.randint(0, 450)
            elif kind == 'calls':
                n = rng.randint(300, 2500)
            elif kind in ('branches', 'diamonds'):
                n = rng.randint(60, 500)
            elif kind == 'switch':
                n = rng.randint(3, 30)
            else:
                n = rng.randint(20, 200)
            n = max(1, int(n * scale))
            budget -= n * {'pad': 1, 'calls': 1, 'branches': 3, 'diamonds': 5, 'switch': 12, 'loop': 2}[kind]
            feats.add('big_' + kind)
            if kind == 'pad':
                for i in range(n):
                    a, c = rng.choice(regs), rng.choice(regs)
                    k = rng.random()
                    if k < 0.7:
                        e('%s %s, %s, %d' % (rng.choice(['add', 'xor', 'sub', 'or']), a, c, rng.randint(1, 10 ** rng.randint(1, 9))))
                    elif k < 0.85:
                        e('%s %s, %s, %s' % (rng.choice(['add', 'xor', 'sub', 'mul']), a, c, rng.choice(regs)))
                    else:
                        e('mov i64:%d(m), %s' % (8 * rng.randrange(64), a))
            elif kind == 'calls':
                # a run of calls at one stride: the same call repeated, or callees / registers rotating, or constant
                # arguments; sometimes an arithmetic insn after every j-th call (stride jitter)
                style = rng.choice(['same', 'same', 'rot', 'const'])
                jit = rng.choice([0, 0, 3, 7, 50])
                g = rng.choice(callees)
                a = rng.choice(regs)
                for i in range(n):
                    if style == 'rot':
                        g = callees[i % len(callees)]
                        a = regs[i % len(regs)]
                    args = [a] + [rng.choice(regs) if style != 'const' else str(rng.randint(-99, 99)) for _ in range(g['nargs'] - 1)]
                    e('call p_%s, %s, %s, %s' % (g['name'], g['name'], a, ', '.join(args)))
                    if jit and i % jit == jit - 1:
                        e('add %s, %s, %d' % (a, a, i))
            elif kind == 'branches':
                # many small blocks; which way each branch goes depends on the entry's arguments, so a second call
                # with other arguments runs (and, under lazy-BB, generates and patches in) the other successors
                fill = rng.choice([0, 0, 2, 6])   # blocks of varying length
                for i in range(n):
                    l = newlab()
                    a = rng.choice(regs)
                    for _ in range(rng.randint(0, fill)):
                        e('add %s, %s, %d' % (rng.choice(regs), rng.choice(regs), rng.randint(1, 10 ** rng.randint(1, 9))))
                    k = rng.random()
                    if k < 0.5:
                        e('and t0, a1, %d' % (1 << rng.randrange(16)))
                        e('%s %s, t0' % (rng.choice(['bf', 'bt']), l))
                    elif k < 0.8:
                        e('and t0, %s, %d' % (a, 1 << rng.randrange(8)))
                        e('%s %s, t0, 0' % (rng.choice(['beq', 'bne']), l))
                    else:
                        e('%s %s, %s, %s' % (rng.choice(['blt', 'bge', 'ubgt', 'bles']), l, a, rng.choice(regs)))
                    if rng.random() < 0.15:
                        g = rng.choice(callees)
                        e('call p_%s, %s, %s, %s' % (g['name'], g['name'], a, ', '.join([a] + [rng.choice(regs) for _ in range(g['nargs'] - 1)])))
                    else:
                        e('add %s, %s, %d' % (a, a, i + 1))
                    e('%s:' % l)
            elif kind == 'diamonds':
                for i in range(n):
                    l1, l2 = newlab(), newlab()
                    a = rng.choice(regs)
                    e('and t0, %s, %d' % (rng.choice(['a1', 'a0', a]), 1 << rng.randrange(12)))
                    e('%s %s, t0' % (rng.choice(['bf', 'bt']), l1))
                    e('add %s, %s, %d' % (a, a, 2 * i + 1))
                    e('jmp %s' % l2)
                    e('%s:' % l1)
                    e('xor %s, %s, %d' % (a, a, 3 * i + 2))
                    e('%s:' % l2)
            elif kind == 'switch':
                for i in range(n):
                    m = rng.randint(2, 6)
                    labs = [newlab() for _ in range(m)]
                    le, l0 = newlab(), newlab()
                    a = rng.choice(regs)
                    e('and t0, %s, 7' % rng.choice(['a1', a]))
                    e('ublt %s, t0, %d' % (l0, m))
                    e('mov t0, 0')
                    e('%s:' % l0)
                    e('switch t0, ' + ', '.join(labs))
                    for j, lb in enumerate(labs):
                        e('%s:' % lb)
                        e('add %s, %s, %d' % (a, a, 10 * i + j))
                        e('jmp %s' % le)
                    e('%s:' % le)
            else:   # loop: a few iterations over a short run of calls and branches (backward branches, loop alignment pads)
                lh = newlab()
                it = rng.randint(2, 3)
                e('mov c%d, %d' % (nseg, it))
                e('%s:' % lh)
                for i in range(n):
                    a = rng.choice(regs)
                    if rng.random() < 0.6:
                        g = rng.choice(callees)
                        e('call p_%s, %s, %s, %s' % (g['name'], g['name'], a, ', '.join([a] + [rng.choice(regs) for _ in range(g['nargs'] - 1)])))
                    else:
                        l = newlab()
                        e('and t0, %s, %d' % (a, 1 << rng.randrange(6)))
                        e('bt %s, t0' % l)
                        e('add %s, %s, %d' % (a, a, i + 1))
                        e('%s:' % l)
                e('sub c%d, c%d, 1' % (nseg, nseg))
                e('bgt %s, c%d, 0' % (lh, nseg))
            nseg += 1
        bigs.append(dict(name='f%d_ii' % b, body=o, nseg=nseg, segs=segs, module=nmod - 1))
    # text
    txt = []
    for m in range(nmod):
        txt.append('m%d: module' % m)
        mc = [g for g in callees if g['module'] == m]
        mb = [f for f in bigs if f['module'] == m]
        imp = [g['name'] for g in callees if g['module'] != m] if mb else []
        txt.append('  import ext_log' + ''.join(', ' + i for i in imp))
        txt.append('  export mem%d%s' % (m, ''.join(', ' + x['name'] for x in mc + mb)))
        txt.append('  forward ' + ', '.join(x['name'] for x in mc + mb))
        txt.append('p_log: proto i64, i64:v')
        for g in callees:
            txt.append('p_%s: proto i64, %s' % (g['name'], ', '.join('i64:a%d' % i for i in range(g['nargs']))))
        txt.append('mem%d: bss 512' % m)
        # a callee defined BEFORE its caller is called through the func item itself (call site recorded, rewritten to
        # a direct call by the next eager link), one defined after it through the forward item
        items = [('g', g) for g in mc] + [('f', f) for f in mb]
        # (only calls of the first kind and of imported functions are patched at all: callees first, mostly)
        k = rng.random()
        if k < 0.15:
            items.reverse()
        elif k < 0.4:
            rng.shuffle(items)
        for what, x in items:
            if what == 'g':
                txt.append('%s: func i64, %s' % (x['name'], ', '.join('i64:a%d' % i for i in range(x['nargs']))))
                txt.append('  local i64:r, i64:t')
                for l in x['body']:
                    txt.append(l if l.endswith(':') else '  ' + l)
                txt.append('  endfunc')
            else:
                txt.append('%s: func i64, i64:a0, i64:a1' % x['name'])
                txt.append('  local ' + ', '.join('i64:' + r for r in regs + ['t0', 'm'] + ['c%d' % i for i in range(x['nseg'])]))
                for i, r in enumerate(regs):
                    txt.append('  mov %s, %s' % (r, ['a0', 'a1', str(7 * i + 1)][i % 3]))
                for i in range(x['nseg']):
                    txt.append('  mov c%d, 0' % i)
                txt.append('  mov m, mem%d' % m)
                txt += ['  mov t0, 0', '  mov t0, 0']   # (end of the initialisation block: checks/c03_ifaces.py removable ())
                for l in x['body']:
                    txt.append(l if l.endswith(':') else '  ' + l)
                for r in regs[1:]:
                    txt.append('  mul r0, r0, 31')
                    txt.append('  add r0, r0, %s' % r)
                txt.append('  ret r0')
                txt.append('  endfunc')
        txt.append('  endmodule')
    funcs = [dict(name=g['name'], module=g['module'], kind='int', rank=10 + i, nargs=g['nargs'], uses=[], lref=False, ngate=0)
             for i, g in enumerate(callees)]
    funcs += [dict(name=f['name'], module=f['module'], kind='ii', rank=i, nargs=2, uses=[g['name'] for g in callees], lref=False, ngate=0)
              for i, f in enumerate(bigs)]
    entries = [f for f in funcs if f['kind'] == 'ii']
    return dict(text='\n'.join(txt) + '\n', nmodules=nmod, layered=True, funcs=funcs, entries=entries,
                features=sorted(feats), cost=sum(len(f['body']) for f in bigs), island=None,
                big_insns=[len(f['body']) for f in bigs], big_segments=[s for f in bigs for s in f['segs']])


def gen_call(rng, ent):
    """one call request for entry dict ent: 'call <name> <sig> <args...>'"""
    k = ent['kind']
    sv = lambda: rng.choice([0, 1, -1, 2, 7, -13, 100, 255, 256, 65535, -65536, 2 ** 31 - 1, -2 ** 31, 2 ** 40 + 3,
                             rng.randint(-10 ** 6, 10 ** 6)])
    dv = lambda: rng.choice([0, 1, -1, 2, 10, -7, 100, rng.randint(-1000, 1000)])
    if k == 'ii':
        a = [sv(), sv()]
    elif k == 'i8':
        a = [sv() for _ in range(8)]
    elif k == 'd9i':
        a = [dv() for _ in range(9)] + [sv()]
    elif k == 'mix':
        a = [sv(), dv(), sv(), dv(), sv(), dv(), sv(), sv()]
    elif k == 'va':
        n = rng.randint(0, 7)
        a = [n] + [sv() for _ in range(7)]
    elif k == 'cbi':
        a = [sv()]
    else:
        a = [dv()]
    return 'call %s %s %s' % (ent['name'], k, ' '.join(str(x) for x in a))


def gate_call(rng, ent, gate):
    """a call of entry ent; for an 'ii' entry of a mixed program the second argument is the gate mask"""
    c = gen_call(rng, ent)
    if ent['kind'] == 'ii' and gate is not None:
        w = c.split()
        w[4] = str(gate)
        c = ' '.join(w)
    return c


def gen_mixed_history(rng, prog, ifaces=('interp', 'lazy', 'bb', 'gen'), explicit_gen=True):
    """A history that mixes execution interfaces ACROSS link steps of one context, for a program of
    gen_program (mixed=True):   link m_a with one interface -- run part of it (entries called with few gates open, so
    that only some functions get their first call / their machine code) -- link the next module (a related one, or
    the unrelated island) with ANOTHER interface, typically eagerly -- run more of the earlier modules with the gates
    open (functions whose first call comes only now, callers that were generated while their direct callee had no code,
    callers generated per basic block) -- ...
    -> list of steps ('link', [modules], iface) | ('gen', func) | ('call', request).
    The interpreter-only reference of a history is the same list with every link made 'interp' and no 'gen'.
    API preconditions kept (asserted in the C code, not part of any property):
      * bb is chosen only for a module no later-linked module refers to: a function that ran under lazy-BB keeps its
        MIR in generator form (KNOWN_FINDINGS c16:gen-after-lazybb), so it must not be inlined afterwards;
      * explicit MIR_gen only for functions without lref data, of a module linked lazily, or linked with the
        interpreter interface while nothing ran since that link (programs with lref data) / at any time (others)."""
    funcs = prog['funcs']
    byname = {f['name']: f for f in funcs}
    n = prog['nmodules']
    isl = prog.get('island')
    regular = [m for m in range(n) if m != isl]
    order = list(regular)
    if isl is not None:
        order.insert(rng.randint(0, len(order)), isl)
    # sometimes two adjacent regular modules are linked together
    groups = []
    for m in order:
        if groups and m != isl and groups[-1][-1] != isl and rng.random() < 0.2:
            groups[-1].append(m)
        else:
            groups.append([m])
    users = {m: set() for m in range(n)}   # modules referring to functions of m
    for f in funcs:
        for u in f['uses']:
            if byname[u]['module'] != f['module']:
                users[byname[u]['module']].add(f['module'])
    early = [i for i in ifaces if i != 'gen'] or ['gen']
    # one link step (not the first when there are several) is eager; the steps before it are biased to the lazy kinds
    e = rng.randint(1, len(groups) - 1) if len(groups) > 1 else 0
    chosen = []
    for gi, g in enumerate(groups):
        if gi == e and 'gen' in ifaces:
            i = 'gen'
        elif gi < e:
            i = rng.choice(early + [x for x in early if x != 'interp'])
        else:
            i = rng.choice(list(ifaces))
        if i == 'bb':
            later = set(m for g2 in groups[gi + 1:] for m in g2)
            if any(users[m] & later for m in g):
                i = 'lazy' if 'lazy' in ifaces else 'interp'
        chosen.append(i)
    free_mix = not any(f['lref'] for f in funcs)
    steps = []
    loaded = []
    iface_of = {}
    ran_since = {}   # module -> something was called since it was linked
    for gi, g in enumerate(groups):
        i = chosen[gi]
        steps.append(('link', list(g), i))
        for m in g:
            iface_of[m] = i
            ran_since[m] = False
        loaded += g
        last = gi == len(groups) - 1
        ents = [x for x in prog['entries'] if x['module'] in loaded]
        ii = [x for x in ents if x['kind'] == 'ii']
        ncalls = rng.randint(2, 5) if last else rng.randint(0, 3)
        for k in range(ncalls):
            if explicit_gen and rng.random() < 0.2:
                c = [f for f in funcs if f['module'] in loaded and not f['lref']
                     and (iface_of[f['module']] == 'lazy'
                          or (iface_of[f['module']] == 'interp' and (free_mix or not ran_since[f['module']])))]
                if c:
                    steps.append(('gen', rng.choice(c)['name']))
            if not ents:
                continue
            x = rng.choice(ii) if ii and rng.random() < 0.75 else rng.choice(ents)
            ng = max(1, min(6, x.get('ngate', 0)))
            if gi < e:       # partial execution before the eager link: few gates open
                gate = rng.choice([0, 0, 1 << rng.randrange(ng), 1 << rng.randrange(ng), rng.getrandbits(6)])
            else:
                gate = rng.choice([-1, -1, 63, rng.getrandbits(6), 1 << rng.randrange(ng), 0])
            steps.append(('call', gate_call(rng, x, gate)))
            for m in loaded:
                ran_since[m] = True
    # at the end every gate of every entry of the modules linked before the last step is opened once more
    for x in prog['entries']:
        if x['kind'] == 'ii' and rng.random() < 0.8:
            steps.append(('call', gate_call(rng, x, -1)))
    return steps


if __name__ == '__main__':
    import random, sys
    p = gen_program(random.Random(int(sys.argv[1]) if len(sys.argv) > 1 else 1))
    sys.stdout.write(p['text'])
    sys.stderr.write('features=%s cost=%d entries=%s\n' % (p['features'], p['cost'], [e['name'] for e in p['entries']]))

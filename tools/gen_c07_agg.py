# C07 part V (round 3, wave z): expressions that combine SEVERAL by-value aggregate results.
# C11 6.2.4p8: the object holding a struct/union value returned by a call ("temporary lifetime") lives until the end of the
# containing full expression, so every aggregate result that is still needed -- as an argument of an enclosing call, as the
# operand of a member access, as an arm of ?:, as the right operand of a comma, as the value of an assignment -- must stay
# intact while the other calls of the same full expression run.  The generator builds aggregate-valued expression TREES:
#   AE(T) ::= mk_T (s) | mix_T (AE(T), AE(T)) | inc_T (AE(T), s) | pick_T (c, AE(T), AE(T)) | cvt_T'_T (AE(T')) | (*fp_T) (s)
#           | variable | array element | (T){ ... } | c ? AE(T) : AE(T) | (s, AE(T)) | (tmp = AE(T)) | (t1 = t2 = AE(T))
#           | AE(N).inner   (member of aggregate type of a call result)        | id_T (AE(T))
#   SE    ::= sum_T (AE(T)) | AE(T).leaf | pair_T_T' (AE(T), AE(T')) | tri_T_T' (AE(T), AE(T'), AE(T)) | SE op SE
# over aggregate types of every size class of the x86-64 SysV convention (1..8 bytes, 9..16 bytes in INTEGER / SSE / mixed
# registers, x87, > 16 bytes through the hidden pointer, unions, bit-fields, nested aggregates, array members), used as
# printed values, initialisers (also as an element of an enclosing aggregate's initialiser), assignment sources, return
# values of helper functions with aggregate parameters, loop bodies and conditions.  All functions are pure and all leaf values are
# small exact integers (also in floating members), so the only thing a probe observes is WHICH value reached which place.
# One line of output per probe; gcc is the reference (validated by UBSan and -O0/-O1/-O2 agreement in checks/c07.py).

BIG = 1000003

# (kind, member declarations, leaves (lvalue suffix, C type, modulus), class)
POOL = [
    ('struct', ['char c;'], [('c', 'char', 100)], 'le8-int'),
    ('struct', ['short a;', 'signed char b;'], [('a', 'short', 30011), ('b', 'signed char', 101)], 'le8-int'),
    ('struct', ['int a;', 'int b;'], [('a', 'int', BIG), ('b', 'int', BIG)], 'le8-int'),
    ('struct', ['float f;'], [('f', 'float', 65521)], 'le8-sse'),
    ('struct', ['double d;'], [('d', 'double', BIG)], 'le8-sse'),
    ('struct', ['long a;', 'int b;'], [('a', 'long', BIG), ('b', 'int', BIG)], '16-int-int'),
    ('struct', ['int a;', 'double d;'], [('a', 'int', BIG), ('d', 'double', BIG)], '16-int-sse'),
    ('struct', ['double x;', 'long y;'], [('x', 'double', BIG), ('y', 'long', BIG)], '16-sse-int'),
    ('struct', ['double x;', 'double y;'], [('x', 'double', BIG), ('y', 'double', BIG)], '16-sse-sse'),
    ('struct', ['float f[3];'], [('f[0]', 'float', 65521), ('f[1]', 'float', 65521), ('f[2]', 'float', 65521)], '16-sse-sse'),
    ('struct', ['char c[9];'], [('c[%d]' % i, 'char', 100) for i in range(9)], '16-int-int'),
    ('struct', ['long double q;'], [('q', 'long double', BIG)], 'x87'),
    ('struct', ['long v[3];'], [('v[%d]' % i, 'long', BIG) for i in range(3)], 'memory'),
    ('struct', ['char c[17];'], [('c[%d]' % i, 'char', 100) for i in (0, 1, 8, 15, 16)], 'memory'),
    ('struct', ['int a;', 'long b;', 'double d;', 'short s;'], [('a', 'int', BIG), ('b', 'long', BIG), ('d', 'double', BIG), ('s', 'short', 30011)], 'memory'),
    ('struct', ['long v[6];'], [('v[%d]' % i, 'long', BIG) for i in range(6)], 'memory'),
    ('struct', ['long double q;', 'int t;'], [('q', 'long double', BIG), ('t', 'int', BIG)], 'memory'),
    ('union', ['int i[3];', 'long l;', 'char c;'], [('i[%d]' % i, 'int', BIG) for i in range(3)], '16-int-int'),
    ('union', ['double d;', 'float f;'], [('d', 'double', BIG)], 'le8-sse'),
    ('struct', ['int a : 5;', 'unsigned b : 11;', 'long c : 40;'], [('a', 'int', 16), ('b', 'unsigned', 2039), ('c', 'long', BIG)], 'le8-int'),
    ('struct', ['unsigned char t;', 'unsigned u : 20;', 'long w;', '_Bool z;'], [('t', 'unsigned char', 251), ('u', 'unsigned', BIG), ('w', 'long', BIG), ('z', '_Bool', 2)], 'memory'),
]


class AggGen:
    def __init__(self, rng):
        self.r = rng
        self.types = []          # dict(name, tag, kind, decls, leaves, cls, inner=None|(member, type index))
        self.feats = set()
        self.tmp = 0
        self.pre = []            # declarations a probe needs before its statement

    # ------------------------------------------------------------ types and their helper functions
    def pick_types(self):
        r = self.r
        by = {}
        for p in POOL:
            by.setdefault('mem' if p[3] in ('memory',) else ('small' if p[3].startswith('le8') else 'mid'), []).append(p)
        chosen = [r.choice(by['small']), r.choice(by['mid']), r.choice(by['mem'])]
        rest = [p for p in POOL if p not in chosen]
        chosen += r.sample(rest, r.randint(1, 3))
        r.shuffle(chosen)
        for i, (kind, decls, leaves, cls) in enumerate(chosen):
            self.types.append(dict(name='%s A%d' % (kind, i), tag='A%d' % i, kind=kind, decls=list(decls), leaves=list(leaves), cls=cls, inner=None))
        # aggregates with a member of aggregate type (the member access AE(N).m yields an aggregate again)
        for _ in range(r.randint(1, 2)):
            k = r.randrange(len(self.types))
            inner = self.types[k]
            i = len(self.types)
            form = r.randrange(3)
            if form == 0:
                decls, leaves = ['int t;', '%s m;' % inner['name']], [('t', 'int', BIG)] + [('m.' + l, t, m) for l, t, m in inner['leaves']]
            elif form == 1:
                decls, leaves = ['%s m;' % inner['name'], 'char z;'], [('m.' + l, t, m) for l, t, m in inner['leaves']] + [('z', 'char', 100)]
            else:
                decls = ['%s m;' % inner['name'], '%s n;' % inner['name']]
                leaves = [('m.' + l, t, m) for l, t, m in inner['leaves']] + [('n.' + l, t, m) for l, t, m in inner['leaves']]
            self.types.append(dict(name='struct A%d' % i, tag='A%d' % i, kind='struct', decls=decls, leaves=leaves, cls='nested-of-' + inner['cls'],
                                   inner=[(d.split()[-1].rstrip(';'), k) for d in decls if d.startswith(inner['name'] + ' ')]))

    def type_text(self):
        L = []
        for t in self.types:
            L.append('%s { %s };' % (t['name'], ' '.join(t['decls'])))
        for t in self.types:
            n, g = t['name'], t['tag']
            zero = '%s r = { 0 };' % n
            L.append('static %s mk_%s (unsigned long s) { %s %s return r; }' % (n, g, zero, ' '.join(
                'r.%s = (%s) ((s * %du + %du) %% %du);' % (l, ct, 7 + 2 * i, i + 1, m) for i, (l, ct, m) in enumerate(t['leaves']))))
            L.append('static u64 sum_%s (%s v) { u64 h = 17; %s return h; }' % (g, n, ' '.join(
                'h = h * 31u + (u64) (long) v.%s;' % l for l, ct, m in t['leaves'])))
            L.append('static %s mix_%s (%s a, %s b) { %s %s return r; }' % (n, g, n, n, zero, ' '.join(
                'r.%s = (%s) (((u64) (long) a.%s * 3u + (u64) (long) b.%s * 5u + 1u) %% %du);' % (l, ct, l, l, m) for l, ct, m in t['leaves'])))
            L.append('static %s inc_%s (%s a, unsigned long k) { %s %s return r; }' % (n, g, n, zero, ' '.join(
                'r.%s = (%s) (((u64) (long) a.%s + k) %% %du);' % (l, ct, l, m) for l, ct, m in t['leaves'])))
            L.append('static %s pick_%s (int c, %s a, %s b) { return c ? a : b; }' % (n, g, n, n))
            L.append('static %s id_%s (%s a) { return a; }' % (n, g, n))
            L.append('static %s (*fp_%s) (unsigned long) = mk_%s;' % (n, g, g))
            L.append('static %s (*volatile fpm_%s) (%s, %s) = mix_%s;' % (n, g, n, n, g))
            L.append('static %s g_%s = { 0 };' % (n, g))
            L.append('static %s ga_%s[3];' % (n, g))
        self.cross = []
        nt = len(self.types)
        for _ in range(min(4, nt)):
            a, b = self.r.randrange(nt), self.r.randrange(nt)
            if a == b or (a, b) in self.cross:
                continue
            self.cross.append((a, b))
            ta, tb = self.types[a], self.types[b]
            L.append('static %s cvt_%s_%s (%s a) { return mk_%s (sum_%s (a) %% 1009u); }' % (tb['name'], ta['tag'], tb['tag'], ta['name'], tb['tag'], ta['tag']))
            L.append('static u64 pair_%s_%s (%s a, %s b) { return sum_%s (a) * 1000003u + sum_%s (b); }' % (ta['tag'], tb['tag'], ta['name'], tb['name'], ta['tag'], tb['tag']))
            L.append('static u64 tri_%s_%s (%s a, %s b, %s c) { return (sum_%s (a) * 1000003u + sum_%s (b)) * 10007u + sum_%s (c); }'
                     % (ta['tag'], tb['tag'], ta['name'], tb['name'], ta['name'], ta['tag'], tb['tag'], ta['tag']))
        return L

    # ------------------------------------------------------------ expressions
    def sval(self):
        r = self.r
        return r.choice(['%du' % r.randint(0, 999), '%du' % r.randint(0, 99999), 'k', '(k + %du)' % r.randint(1, 50), '(k * %du)' % r.randint(2, 9)])

    def temp(self, ti):
        self.tmp += 1
        n = 't%d' % self.tmp
        self.pre.append('%s %s = { 0 };' % (self.types[ti]['name'], n))
        return n

    def lit(self, ti):
        t = self.types[ti]
        r = self.r
        if t['kind'] == 'union' or t['inner'] or any('[' in l or '.' in l for l, _, _ in t['leaves']) or any(':' in d for d in t['decls']) or r.random() < 0.4:
            items = ['.%s = %s' % (l, '(%s) (%s %% %du)' % (ct, self.sval(), m)) for l, ct, m in t['leaves'] if r.random() < 0.8]
            return '(%s) { %s }' % (t['name'], ', '.join(items) if items else '0')
        return '(%s) { %s }' % (t['name'], ', '.join('(%s) (%s %% %du)' % (ct, self.sval(), m) for l, ct, m in t['leaves']))

    def ae(self, ti, depth, calls_wanted=True):
        """an expression of aggregate type ti; depth bounds the nesting"""
        r = self.r
        t = self.types[ti]
        g = t['tag']
        k = r.random()
        if depth <= 0:
            if k < 0.62:
                self.feats.add('leaf:call')
                return 'mk_%s (%s)' % (g, self.sval())
            if k < 0.70:
                self.feats.add('leaf:call-through-pointer')
                return r.choice(['(*fp_%s) (%s)', 'fp_%s (%s)']) % (g, self.sval())
            if k < 0.80:
                self.feats.add('leaf:variable')
                return r.choice(['g_%s' % g, 'ga_%s[%d]' % (g, r.randrange(3)), 'ga_%s[k %% 3u]' % g, 'v_%s' % g, '(*&v_%s)' % g])
            self.feats.add('leaf:compound-literal')
            return self.lit(ti)
        if k < 0.30:
            self.feats.add('node:two-aggregate-arguments')
            f = 'mix_%s' % g if r.random() < 0.8 else 'fpm_%s' % g
            return '%s (%s, %s)' % (f, self.ae(ti, depth - 1), self.ae(ti, depth - 1))
        if k < 0.40:
            self.feats.add('node:aggregate-and-scalar-arguments')
            return 'inc_%s (%s, %s)' % (g, self.ae(ti, depth - 1), self.sval())
        if k < 0.48:
            self.feats.add('node:pick')
            return 'pick_%s (%s, %s, %s)' % (g, r.choice(['k & 1u', '(int) (k % 3u)', '0', '1']), self.ae(ti, depth - 1), self.ae(ti, depth - 1))
        if k < 0.56:
            src = [a for a, b in self.cross if b == ti]
            if src:
                a = r.choice(src)
                self.feats.add('node:conversion-from-another-aggregate-type')
                return 'cvt_%s_%s (%s)' % (self.types[a]['tag'], g, self.ae(a, depth - 1))
        if k < 0.64:
            self.feats.add('node:conditional-operator')
            return '(%s ? %s : %s)' % (r.choice(['k & 1u', 'k > 2u', '(k ^ 1u) & 1u', 'sum_%s (%s) & 1u' % (g, self.ae(ti, 0))]),
                                       self.ae(ti, depth - 1), self.ae(ti, depth - 1))
        if k < 0.70:
            self.feats.add('node:comma-operator')
            left = r.choice(['(void) 0', '(void) (%s)' % self.se(depth - 1), '(void) sum_%s (%s)' % (g, self.ae(ti, depth - 1))])
            return '(%s, %s)' % (left, self.ae(ti, depth - 1))
        if k < 0.79:
            self.feats.add('node:assignment-value')
            if r.random() < 0.35:
                self.feats.add('node:assignment-chain')
                return '(%s = %s = %s)' % (self.temp(ti), self.temp(ti), self.ae(ti, depth - 1))
            return '(%s = %s)' % (self.temp(ti), self.ae(ti, depth - 1))
        if k < 0.88:
            outer = [(i, m) for i, tt in enumerate(self.types) if tt['inner'] for m, kk in tt['inner'] if kk == ti]
            if outer:
                i, m = r.choice(outer)
                self.feats.add('node:aggregate-member-of-a-call-result')
                return '%s.%s' % (self.ae(i, depth - 1), m)
        if k < 0.94:
            self.feats.add('node:identity-call')
            return 'id_%s (%s)' % (g, self.ae(ti, depth - 1))
        return self.ae(ti, 0)

    def se(self, depth):
        """a scalar (u64) expression fed by aggregate-valued expressions"""
        r = self.r
        ti = r.randrange(len(self.types))
        t = self.types[ti]
        g = t['tag']
        k = r.random()
        if depth <= 0 or k < 0.30:
            self.feats.add('use:sum-of-aggregate')
            return 'sum_%s (%s)' % (g, self.ae(ti, max(depth, 0)))
        if k < 0.45:
            l, ct, m = r.choice(t['leaves'])
            self.feats.add('use:member-of-aggregate-value')
            return '(u64) (long) %s.%s' % (self.paren(self.ae(ti, depth)), l)
        if k < 0.65 and self.cross:
            a, b = r.choice(self.cross)
            ta, tb = self.types[a], self.types[b]
            if r.random() < 0.5:
                self.feats.add('use:two-aggregates-of-different-types')
                return 'pair_%s_%s (%s, %s)' % (ta['tag'], tb['tag'], self.ae(a, depth - 1), self.ae(b, depth - 1))
            self.feats.add('use:three-aggregate-arguments')
            return 'tri_%s_%s (%s, %s, %s)' % (ta['tag'], tb['tag'], self.ae(a, depth - 1), self.ae(b, depth - 1), self.ae(a, depth - 1))
        self.feats.add('use:scalar-operator-over-aggregate-values')
        op = r.choice(['+', '*', '^', '-', '+ 3u *'])
        return '(%s %s %s)' % (self.se(depth - 1), op, self.se(depth - 1))

    @staticmethod
    def paren(e):
        return e if e[0].isalpha() and e.endswith(')') and ' ? ' not in e and ', ' not in e.split('(')[0] and e.count(' = ') == 0 and depth_ok(e) else '(%s)' % e

    # ------------------------------------------------------------ probes
    def probe(self, pid):
        """one function `static void q<pid> (unsigned long k)` printing one or more lines `v<pid>_<n> <hex>`"""
        r = self.r
        self.pre = []
        body = []
        nlines = [0]

        def out(e):
            body.append('printf ("v%d_%d %%llx\\n", (u64) (%s));' % (pid, nlines[0], e))
            nlines[0] += 1
        ti = r.randrange(len(self.types))
        t = self.types[ti]
        g, n = t['tag'], t['name']
        form = r.random()
        d = r.choice([1, 2, 2, 3])
        if form < 0.30:
            self.feats.add('context:printed-value')
            out(self.se(d))
        elif form < 0.42:
            self.feats.add('context:initialiser')
            body.append('%s x = %s;' % (n, self.ae(ti, d)))
            out('sum_%s (x)' % g)
        elif form < 0.52:
            self.feats.add('context:assignment')
            body.append('%s x = { 0 };' % n)
            body.append('x = %s;' % self.ae(ti, d))
            out('sum_%s (x)' % g)
            body.append('g_%s = %s;' % (g, self.ae(ti, d)))
            out('sum_%s (g_%s)' % (g, g))
        elif form < 0.62:
            # an aggregate-valued expression as an ELEMENT of the initialiser of an enclosing aggregate / of an array
            self.feats.add('context:element-of-an-enclosing-initialiser')
            outer = [(i, tt) for i, tt in enumerate(self.types) if tt['inner'] and tt['inner'][0][1] == ti]
            if outer and r.random() < 0.6:
                i, tt = r.choice(outer)
                body.append('%s x = { %s };' % (tt['name'], ', '.join('.%s = %s' % (m, self.ae(ti, d - 1)) for m, kk in tt['inner'])))
                out('sum_%s (x)' % tt['tag'])
            else:
                body.append('%s x[3] = { %s, %s, %s };' % (n, self.ae(ti, d - 1), self.ae(ti, d - 1), self.ae(ti, d - 1)))
                out('pair_x (sum_%s (x[0]), sum_%s (x[1]), sum_%s (x[2]))' % (g, g, g))
        elif form < 0.72:
            self.feats.add('context:scalar-initialiser-list-from-members')
            ls = r.sample(t['leaves'], min(len(t['leaves']), 3))
            body.append('u64 x[3] = { %s };' % ', '.join('(u64) (long) %s.%s' % (self.paren(self.ae(ti, d - 1)), l) for l, ct, m in ls))
            out('pair_x (x[0], x[1], x[2])')
        elif form < 0.82:
            self.feats.add('context:loop')
            body.append('u64 acc = 0;')
            body.append('for (unsigned long i = 0; i < 3; i++) { k = k + i; acc = acc * 131u + %s; }' % self.se(d - 1))
            out('acc')
        elif form < 0.91:
            self.feats.add('context:condition')
            body.append('if (%s %% 2u == %s %% 2u) sink = 1; else sink = 2;' % (self.se(d - 1), self.se(d - 1)))
            out('sink')
            body.append('sink = %s > %s ? %s : %s;' % (self.se(d - 1), self.se(d - 1), self.se(0), self.se(0)))
            out('sink')
        else:
            self.feats.add('context:several-statements-in-one-function')
            for _ in range(3):
                out(self.se(d - 1))
        # the same context once more through a helper that RETURNS the aggregate and has aggregate parameters
        helper = []
        if r.random() < 0.35:
            self.feats.add('context:returned-from-a-function-with-aggregate-parameters')
            pre0, self.pre = self.pre, []
            e = self.ae(ti, d)
            helper = ['static %s h%d (%s a, unsigned long k) { %s %s v_%s = a; %s return %s; }'
                      % (n, pid, n, ' '.join('%s v_%s = { 0 };' % (tt['name'], tt['tag']) for tt in self.types if tt['tag'] != g),
                         n, g, ' '.join(self.pre), e)]
            self.pre = pre0
            out('sum_%s (h%d (%s, k + 1u))' % (g, pid, self.ae(ti, 1)))
        locs = ['%s v_%s = mk_%s (k + %du);' % (tt['name'], tt['tag'], tt['tag'], 3 + j) for j, tt in enumerate(self.types)]
        fn = helper + ['static void q%d (unsigned long k) {' % pid] + ['  ' + l for l in locs + self.pre + body] + ['}']
        return fn, nlines[0]

    def program(self, nprobes):
        self.pick_types()
        L = ['#include <stdio.h>', 'typedef unsigned long long u64;', 'static volatile u64 sink;',
             'static u64 pair_x (u64 a, u64 b, u64 c) { return (a * 1000003u + b) * 10007u + c; }']
        L += self.type_text()
        calls = []
        total = 0
        for pid in range(nprobes):
            fn, n = self.probe(pid)
            L += fn
            total += n
            calls.append('  q%d (%du);' % (pid, self.r.randint(0, 9)))
        L.append('int main (void) {')
        for t in self.types:
            L.append('  g_%s = mk_%s (5u); ga_%s[0] = mk_%s (6u); ga_%s[1] = mk_%s (7u); ga_%s[2] = mk_%s (8u);' % ((t['tag'],) * 8))
        L += calls
        L += ['  return 0;', '}']
        for t in self.types:
            self.feats.add('type:' + t['cls'].replace('nested-of-', 'nested:'))
        return '\n'.join(L) + '\n', total


def depth_ok(e):
    """e is one postfix expression `name (...)`: the parenthesis opened after the name closes at the very end"""
    i = e.find('(')
    if i < 0:
        return False
    lvl = 0
    for j in range(i, len(e)):
        if e[j] == '(':
            lvl += 1
        elif e[j] == ')':
            lvl -= 1
            if lvl == 0:
                return j == len(e) - 1
    return False


def generate(rng, nprobes=30):
    g = AggGen(rng)
    text, total = g.program(nprobes)
    return text, sorted(g.feats), total


def count_live(text):
    """crude feature: the largest number of aggregate-returning calls inside one statement of the program"""
    import re
    best = 0
    for l in text.split('\n'):
        if l.startswith('static') and 'return' in l and ' h' not in l[:12]:
            continue
        best = max(best, len(re.findall(r'\b(?:mk|mix|inc|pick|id|cvt|fp|fpm)_\w+ \(|\(\*fp_', l)))
    return best


# ------------------------------------------------------------------ code tie for coq/C07/CallTemps.v
# Functions whose only frame use is the call argument area (scalar parameters and locals live in registers): the `alloca fp, N`
# and the `add t, fp, offset` instructions of `c2m -S` must be the area size and the Alloc events the extracted model computes
# for the same expression trees.  tree ::= ('C', type index | None, C function name, [trees]) | ('O', C format, [trees])
def gen_tie_unit(rng, nfun=10):
    types = rng.sample(POOL, 5)
    L = ['typedef unsigned long u64;']
    for i, (kind, decls, leaves, cls) in enumerate(types):
        L.append('%s T%d { %s };' % (kind, i, ' '.join(decls)))
        n = '%s T%d' % (kind, i)
        L.append('extern %s f%d (u64); extern %s m%d (%s, %s); extern %s i%d (%s, u64); extern u64 s%d (%s);' % (n, i, n, i, n, n, n, i, n, i, n))
    for i in range(len(types)):
        for j in range(len(types)):
            L.append('extern u64 p%d_%d (%s T%d, %s T%d);' % (i, j, types[i][0], i, types[j][0], j))
    sizeprobe = '\n'.join(L) + '\n#include <stdio.h>\nint main (void) { printf ("%s\\n", %s); return 0; }\n' % (
        ' '.join(['%d'] * len(types)), ', '.join('(int) sizeof (%s T%d)' % (t[0], i) for i, t in enumerate(types)))

    def ae(ti, depth):
        k = rng.random()
        if depth <= 0 or k < 0.3:
            return ('C', ti, 'f%d' % ti, [('O', rng.choice(['k', '7u', '(k + 2u)']), [])])
        if k < 0.7:
            return ('C', ti, 'm%d' % ti, [ae(ti, depth - 1), ae(ti, depth - 1)])
        if k < 0.85:
            return ('C', ti, 'i%d' % ti, [ae(ti, depth - 1), se(depth - 1)])
        return ('O', '(k + 1u, %s)', [ae(ti, depth - 1)])

    def se(depth):
        k = rng.random()
        ti = rng.randrange(len(types))
        if depth <= 0 or k < 0.3:
            return ('C', None, 's%d' % ti, [ae(ti, max(depth, 0))])
        if k < 0.6:
            tj = rng.randrange(len(types))
            return ('C', None, 'p%d_%d' % (ti, tj), [ae(ti, depth - 1), ae(tj, depth - 1)])
        if k < 0.75:
            l, ct, m = rng.choice(types[ti][2])
            return ('O', '(u64) (%%s).%s' % l, [ae(ti, depth)])
        return ('O', '(%%s %s %%s)' % rng.choice(['+', '^', '*']), [se(depth - 1), se(depth - 1)])

    funs = []
    for fi in range(nfun):
        body = [se(rng.choice([1, 2, 2, 3])) for _ in range(rng.randint(1, 3))]
        L.append('u64 tie%d (u64 k) { u64 r = k; %s return r; }' % (fi, ' '.join('r ^= %s;' % render(t) for t in body)))
        funs.append(('tie%d' % fi, body))
    return '\n'.join(L) + '\n', sizeprobe, funs


def render(t):
    if t[0] == 'C':
        return '%s (%s)' % (t[2], ', '.join(render(x) for x in t[3]))
    return t[1] % tuple(render(x) for x in t[2]) if t[2] else t[1]


def tie_query(body, sizes):
    def q(t):
        if t[0] == 'C':
            return 'C %d %d %s' % (0 if t[1] is None else sizes[t[1]], len(t[3]), ' '.join(q(x) for x in t[3]))
        return 'O %d %s' % (len(t[2]), ' '.join(q(x) for x in t[2]))
    return ' ; '.join(q(t) for t in body)


def parse_tie_mir(text):
    """{function: (alloca size or 0, [offsets of `add t, fp, off` in code order], [(offset, size) of rblk results in call order])}"""
    import re
    res, cur = {}, None
    regs = {}
    for l in text.split('\n'):
        m = re.match(r'^(\w+):\s+func\b', l)
        if m:
            cur = m.group(1)
            res[cur] = [0, [], []]
            regs = {}
            continue
        if cur is None:
            continue
        if re.match(r'^\s+endfunc', l):
            cur = None
            continue
        m = re.match(r'^\s+alloca\s+fp,\s*(\d+)', l)
        if m:
            res[cur][0] = int(m.group(1))
            continue
        m = re.match(r'^\s+add\s+(\w+),\s*fp,\s*(\d+)', l)
        if m:
            res[cur][1].append(int(m.group(2)))
            regs[m.group(1)] = int(m.group(2))
            continue
        m = re.match(r'^\s+(?:call|inline)\s+.*?rblk:(\d+)\((\w+)\)', l)
        if m and m.group(2) in regs:
            res[cur][2].append((regs[m.group(2)], int(m.group(1))))
    return res

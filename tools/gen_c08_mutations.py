# C08: the hand-made breaking changes of design/C08.md ("which check catches which change").
# usage: python3 tools/gen_c08_mutations.py [name ...]   -- applies each change in a scratch worktree of /repo
# (created and removed here), runs `VERIF_REPO=<worktree> ./check C08` and prints the first finding.
import subprocess, sys, os, re
WT='/var/tmp/wt-aud2-c08-mut-%d' % os.getpid()
subprocess.run(['git','-C','/repo','worktree','add','-q','--detach',WT],check=True)
muts = {
 'M1-straddle': ('c2mir/c2mir.c', "      if ((curr_offset + field_type_size) * MIR_CHAR_BIT\n          < prev_field_offset * MIR_CHAR_BIT + *bound_bit + bits) {", "      if ((curr_offset + field_type_size) * MIR_CHAR_BIT + 4\n          < prev_field_offset * MIR_CHAR_BIT + *bound_bit + bits) {"),
 'M2-zero-width-ignored': ('c2mir/c2mir.c', "          if (bits == 0 && (type->mode == TM_UNION || overall_size == 0)) {", "          if (bits == 0) {"),
 'M3-union-size-unpadded': ('c2mir/c2mir.c', "  return type->align == 0 ? size : round_size (size, type->align);", "  return type->align == 0 || type->mode == TM_UNION ? size : round_size (size, type->align);"),
 'M4-ldouble-align-8': ('c2mir/c2mir.c', "  return basic_type_size (bt);\n}\n\nstatic int type_align", "  return bt == TP_LDOUBLE ? 8 : basic_type_size (bt);\n}\n\nstatic int type_align"),
 'M5-floats-INTEGER': ('c2mir/x86_64/cx86_64-ABI-code.c', "    case MIR_T_F:\n    case MIR_T_D: types[qword] = get_result_type (MIR_T_D, types[qword]); break;", "    case MIR_T_F: types[qword] = get_result_type (MIR_T_I64, types[qword]); break;\n    case MIR_T_D: types[qword] = get_result_type (MIR_T_D, types[qword]); break;"),
 'M6-second-eightbyte': ('c2mir/x86_64/cx86_64-ABI-code.c', "    case MIR_T_D: types[qword] = get_result_type (MIR_T_D, types[qword]); break;", "    case MIR_T_D: types[0] = get_result_type (MIR_T_D, types[0]); break;"),
 'M7-array-align': ('c2mir/c2mir.c', "    align = type_align (type->u.arr_type->el_type);", "    align = sizeof (mir_size_t);"),
 'M8-merge-sse-int': ('c2mir/x86_64/cx86_64-ABI-code.c', "  if (arg_type1 == MIR_T_I64 || arg_type1 == MIR_T_I32 || arg_type2 == MIR_T_I64\n      || arg_type2 == MIR_T_I32)\n    return MIR_T_I64;", "  if (arg_type1 == MIR_T_I64 || arg_type1 == MIR_T_I32) return MIR_T_I64;\n  if (arg_type2 == MIR_T_I64 || arg_type2 == MIR_T_I32) return arg_type1;"),
 'M9-last-qword-size': ('c2mir/x86_64/cx86_64-ABI-code.c', "  if (last_size <= 4 && mir_type == MIR_T_D) qword_types[n - 1] = MIR_T_F;", "  if (last_size <= 4 && mir_type == MIR_T_D) qword_types[n - 1] = MIR_T_I32;"),
 'M10-bitfield-after-regular': ('c2mir/c2mir.c', "          if (*bound_bit + bits <= (long) field_type_size * MIR_CHAR_BIT) continue;", "          if (*bound_bit + bits < (long) field_type_size * MIR_CHAR_BIT) continue;"),
 # ---- round-2 audit: aimed at what the first-round harness did not reach (a value may be a list of edits;
 # count = number of occurrences replaced)
 'R2-1-hidden-ptr-takes-no-reg': [('c2mir/x86_64/cx86_64-ABI-code.c', "    VARR_PUSH (MIR_var_t, arg_vars, var);\n    arg_info->n_iregs++;", "    VARR_PUSH (MIR_var_t, arg_vars, var);"),
                                  ('c2mir/x86_64/cx86_64-ABI-code.c', "  } else if (ret_type->mode == TM_STRUCT || ret_type->mode == TM_UNION) { /* return by reference */\n    arg_info->n_iregs++;", "  } else if (ret_type->mode == TM_STRUCT || ret_type->mode == TM_UNION) { /* return by reference */")],
 'R2-2-ldouble-scalar-takes-int-reg': [('c2mir/x86_64/cx86_64-ABI-code.c', "    else if (type != MIR_T_LD)\n      arg_info->n_iregs++;", "    else\n      arg_info->n_iregs++;", 2)],
 'R2-3-enum-bitfield-sign-width': ('c2mir/c2mir.c', "                 || op.decl->width >= (int) sizeof (mir_int) * MIR_CHAR_BIT)", "                 || op.decl->width >= (int) sizeof (mir_int) * MIR_CHAR_BIT - 1)"),
 'R2-4-one-bit-signed-field-unsigned': ('c2mir/c2mir.c', "         signed_integer_type_p (op.decl->decl_spec.type)\n             && (op.decl->decl_spec.type->mode != TM_ENUM", "         signed_integer_type_p (op.decl->decl_spec.type) && op.decl->width > 1\n             && (op.decl->decl_spec.type->mode != TM_ENUM"),
 'R2-5-array-last-element-unclassified': ('c2mir/x86_64/cx86_64-ABI-code.c', "    for (mir_size_t i = 0; i * el_size < size; i++)", "    for (mir_size_t i = 0; (i + 1) * el_size < size; i++)"),
 'R2-6-ldouble-struct-returned-by-address': ('c2mir/x86_64/cx86_64-ABI-code.c', "    if (n_iregs > 2 || n_fregs > 2 || n_stregs > 1) n_qwords = 0;", "    if (n_iregs > 2 || n_fregs > 2 || n_stregs > 0) n_qwords = 0;"),
 'R2-7-anon-member-offset-not-relative': ('c2mir/x86_64/cx86_64-ABI-code.c', "          member_offset -= ((decl_t) container->attr)->offset;", "          member_offset -= 0 * ((decl_t) container->attr)->offset;"),
 'R2-8-enum-uint-range-is-8-bytes': ('c2mir/c2mir.c', "               : max_val <= MIR_UINT_MAX && 0 <= min_val            ? TP_UINT", "               : max_val <= MIR_UINT_MAX && 0 <= min_val            ? TP_ULONG"),
 # harmless refactorings: must NOT be reported
 'H1-merge-tests-reordered': ('c2mir/x86_64/cx86_64-ABI-code.c', "  if ((enum add_arg_class) arg_type1 == NO_CLASS) return arg_type2;\n  if ((enum add_arg_class) arg_type2 == NO_CLASS) return arg_type1;\n\n  if (arg_type1 == MIR_T_UNDEF || arg_type2 == MIR_T_UNDEF) return MIR_T_UNDEF;",
                              "  if (arg_type1 == MIR_T_UNDEF || arg_type2 == MIR_T_UNDEF) return MIR_T_UNDEF;\n  if ((enum add_arg_class) arg_type2 == NO_CLASS) return arg_type1;\n  if ((enum add_arg_class) arg_type1 == NO_CLASS) return arg_type2;\n"),
 'H2-layout-round-size-helper': [('c2mir/c2mir.c', "  start_offset = curr_offset\n    = (*overall_size + field_type_align - 1) / field_type_align * field_type_align;", "  start_offset = curr_offset = round_size (*overall_size, (mir_size_t) field_type_align);"),
                                 ('c2mir/c2mir.c', "          end = offset + (bits <= 0 ? member_size : (mir_size_t) (bound_bit + MIR_CHAR_BIT - 1) / MIR_CHAR_BIT);", "          end = bits <= 0 ? offset + member_size : offset + (mir_size_t) ((bound_bit - 1) / MIR_CHAR_BIT + 1);")],
}
which = sys.argv[1:] or list(muts)
for name in which:
    edits = muts[name] if isinstance(muts[name], list) else [muts[name]]
    subprocess.run(['git','-C',WT,'checkout','-q','--','.'],check=True)
    okp = True
    for e in edits:
        f, old, new = e[:3]
        cnt = e[3] if len(e) > 3 else 1
        p=os.path.join(WT,f); s=open(p).read()
        if s.count(old)!=cnt:
            print(name,'PATTERN COUNT',s.count(old)); okp = False; break
        open(p,'w').write(s.replace(old,new))
    if not okp:
        continue
    r=subprocess.run(['./check','C08'],cwd=os.path.dirname(os.path.dirname(os.path.abspath(__file__))),env=dict(os.environ,VERIF_REPO=WT),capture_output=True,text=True)
    lines=r.stdout.split('\n')
    viol=[l for l in lines if l.startswith('VIOLATION')]
    what=[l for l in lines if l.startswith('# ')]
    print('%-28s rc=%d violations=%d %s' % (name, r.returncode, len(viol), (what[0][:170] if what else '')), flush=True)
    if r.returncode==2: print(r.stdout[-600:])
subprocess.run(['git','-C','/repo','worktree','remove','--force',WT],check=True)

# C08: the hand-made breaking changes of design/C08.md ("which check catches which change").
# usage: python3 tools/gen_c08_mutations.py [name ...]   -- applies each change in a scratch worktree of /repo
# (created and removed here), runs `VERIF_REPO=<worktree> ./check C08` and prints the first finding.
import subprocess, sys, os, re
WT='/var/tmp/wt-c08-mut-%d' % os.getpid()
subprocess.run(['git','-C','/repo','worktree','add','-q','--detach',WT],check=True)
muts = {
 'M1-straddle': ('c2mir/c2mir.c', "      if ((curr_offset + field_type_size) * MIR_CHAR_BIT\n          < prev_field_offset * MIR_CHAR_BIT + *bound_bit + bits) {", "      if ((curr_offset + field_type_size) * MIR_CHAR_BIT + 4\n          < prev_field_offset * MIR_CHAR_BIT + *bound_bit + bits) {"),
 'M2-zero-width-ignored': ('c2mir/c2mir.c', "          if (bits == 0 && (type->mode == TM_UNION || overall_size == 0)) {", "          if (bits == 0) {"),
 'M3-union-size-unpadded': ('c2mir/c2mir.c', "  return type->align == 0 ? size : round_size (size, type->align);", "  return type->align == 0 || type->mode == TM_UNION ? size : round_size (size, type->align);"),
 'M4-ldouble-align-8': ('c2mir/c2mir.c', "  return basic_type_size (bt);\n}\n\nstatic int type_align", "  return bt == TP_LDOUBLE ? 8 : basic_type_size (bt);\n}\n\nstatic int type_align"),
 'M5-floats-INTEGER': ('c2mir/x86_64/cx86_64-ABI-code.c', "    case MIR_T_F:\n    case MIR_T_D: types[qword] = get_result_type (MIR_T_D, types[qword]); break;", "    case MIR_T_F: types[qword] = get_result_type (MIR_T_I64, types[qword]); break;\n    case MIR_T_D: types[qword] = get_result_type (MIR_T_D, types[qword]); break;"),
 'M6-second-eightbyte': ('c2mir/x86_64/cx86_64-ABI-code.c', "    case MIR_T_D: types[qword] = get_result_type (MIR_T_D, types[qword]); break;", "    case MIR_T_D: types[0] = get_result_type (MIR_T_D, types[0]); break;"),
 'M7-array-align': ('c2mir/c2mir.c', "    align = type_align (type->u.arr_type->el_type);", "    align = sizeof (mir_size_t);"),
 'M8-merge-sse-int': ('c2mir/x86_64/cx86_64-ABI-code.c', "  if (arg_type1 == MIR_T_I64 || arg_type1 == MIR_T_I32 || arg_type2 == MIR_T_I64\n      || arg_type2 == MIR_T_I32)\n    return MIR_T_I64;", "  if (arg_type1 == MIR_T_I64 || arg_type1 == MIR_T_I32) return MIR_T_I64;\n  if (arg_type2 == MIR_T_I64 || arg_type2 == MIR_T_I32) return arg_type1;"),
 'M9-last-qword-size': ('c2mir/x86_64/cx86_64-ABI-code.c', "  if (last_size <= 4 && mir_type == MIR_T_D) qword_types[n - 1] = MIR_T_F;", "  if (last_size <= 4 && mir_type == MIR_T_D) qword_types[n - 1] = MIR_T_I32;"),
 'M10-bitfield-after-regular': ('c2mir/c2mir.c', "          if (*bound_bit + bits <= (long) field_type_size * MIR_CHAR_BIT) continue;", "          if (*bound_bit + bits < (long) field_type_size * MIR_CHAR_BIT) continue;"),
}
which = sys.argv[1:] or list(muts)
for name in which:
    f, old, new = muts[name]
    subprocess.run(['git','-C',WT,'checkout','-q','--','.'],check=True)
    p=os.path.join(WT,f); s=open(p).read()
    if s.count(old)!=1:
        print(name,'PATTERN COUNT',s.count(old)); continue
    open(p,'w').write(s.replace(old,new))
    r=subprocess.run(['./check','C08'],cwd=os.path.dirname(os.path.dirname(os.path.abspath(__file__))),env=dict(os.environ,VERIF_REPO=WT),capture_output=True,text=True)
    lines=r.stdout.split('\n')
    viol=[l for l in lines if l.startswith('VIOLATION')]
    what=[l for l in lines if l.startswith('# ')]
    print('%-28s rc=%d violations=%d %s' % (name, r.returncode, len(viol), (what[0][:170] if what else '')), flush=True)
    if r.returncode==2: print(r.stdout[-600:])
subprocess.run(['git','-C','/repo','worktree','remove','--force',WT],check=True)

(* Property C20: the C code emitted by the MIR-to-C translator computes what the MIR module computes.
   Only property theorems.  The template table is REGENERATED from mir2c/mir2c.c of the checked tree on
   every run (tools/tr_c20_mir2c.py -> coq/gen/Mir2cTable.v): each row is the C text out_insn prints
   for one opcode, parsed back into Mir/CExpr.v statements. *)
From Coq Require Import ZArith List Bool.
From MirV Require Import Base.W64 Mir.DocSpec Mir.CExpr C02.RowCheck C02.Table C20.Mir2cCheck C20.ConstPrint C20.AddrPrint gen.Mir2cTable C20.Mir2cFacts.
Import ListNotations.

(* every template, for ALL operand values on which MIR.md defines the instruction: the emitted C
   statement (C11 typing, two's-complement machine semantics, IEEE float/double, GCC's
   __builtin_*_overflow) yields the documented result on the defined bits / takes the documented
   branch; overflow instructions assign every flag they define to the variable the matching
   BO/BNO (signed) or UBO/UBNO (unsigned) template reads, and only their last statement writes the
   result operand *)
Theorem mir2c_row_sound :
  forall op l, In (op, l) mir2c_table -> ld_opcode op = false -> m2c_row_sound op l.
Proof. exact mir2c_rows_sound. Qed.
Print Assumptions mir2c_row_sound.

(* every opcode with a documented value / branch / overflow meaning and every long double opcode has
   a template: none falls into `default: mir_assert (FALSE)`, which prints nothing under NDEBUG *)
Theorem mir2c_table_total :
  forall op, needs_row op = true \/ ld_opcode op = true -> exists l, In (op, l) mir2c_table.
Proof. exact mir2c_rows_total. Qed.
Print Assumptions mir2c_table_total.

(* long double templates are the double templates with `long double` substituted *)
Theorem mir2c_ld_rows_are_double_twins :
  forall op s d, In (op, [s]) mir2c_table -> ld_twin op = Some d ->
  exists sd, In (d, [sd]) mir2c_table /\ cstmt_eqb sd (ld2d_stmt s) = true /\ row_sound d sd.
Proof. exact mir2c_ld_rows. Qed.
Print Assumptions mir2c_ld_rows_are_double_twins.

(* integer constants: the text out_op prints for a MIR_OP_INT ("%" PRId64) resp. MIR_OP_UINT ("%" PRIu64) operand of
   ANY 64-bit pattern v (formats re-extracted from mir2c.c on every run) is a well-formed C decimal constant, possibly
   under a unary minus, whose value in its C type (int, long, or gcc's __int128 above LONG_MAX -- INT64_MIN and unsigned
   values above INT64_MAX) is exactly the printed number: no overflow, no octal reading; so it is congruent to v mod 2^64 *)
Theorem mir2c_const_print : forall v,
  (exists toks t z, print_fmt mir2c_int_fmt v = Some toks /\ c_const toks = Some (t, z) /\ u64 z = u64 v)
  /\ (exists toks t z, print_fmt mir2c_uint_fmt v = Some toks /\ c_const toks = Some (t, z) /\ u64 z = u64 v).
Proof. exact mir2c_consts_read_back. Qed.
Print Assumptions mir2c_const_print.

(* ... and every template converts each integer operand to an integer type of at most 64 bits before using it (a cast
   directly on the operand, an assignment to an integer object, an argument of __builtin_*_overflow with an integer
   result type) or only tests it against 0; there a constant of exact value z and an int64_t variable holding the same
   64 bits give the same value: the row theorems, stated for variables, also hold for immediate operands *)
Theorem mir2c_operands_converted : forall op l s, In (op, l) mir2c_table -> In s l -> lit_safe_stmt s = true.
Proof. exact mir2c_operands_convert. Qed.
Print Assumptions mir2c_operands_converted.

Theorem mir2c_constant_converts_like_variable : forall T z v, is_int T = true -> u64 z = u64 v ->
  wrap_ty T z = wrap_ty T (s64 v).
Proof. exact literal_converts_like_variable. Qed.
Print Assumptions mir2c_constant_converts_like_variable.

Theorem mir2c_constant_zero_test : forall z v, (- 2 ^ 64 < z < 2 ^ 64)%Z -> u64 z = u64 v -> (z =? 0)%Z = (s64 v =? 0)%Z.
Proof. exact nonzero_test. Qed.
Print Assumptions mir2c_constant_zero_test.

(* memory operands.  For EVERY form of a memory operand -- displacement zero or not, base register present or absent,
   index register present or absent, scale 1, 2, 4 or 8: one row per combination, re-read on every run from what out_op
   prints (tools/tr_c20_addr.py) -- and ALL values of the displacement (printed as a decimal constant that the C
   compiler reads back as int, long or __int128: mir2c_const_print) and of the two registers (int64_t variables), the
   parenthesised C expression under the pointer cast evaluates (at the types C gives its parts, two's complement
   wrap-around) to an integer whose low 64 bits -- the pointer it is converted to -- are the address MIR.md defines,
   disp + base + index * scale modulo 2^64 with absent parts contributing nothing *)
Theorem mir2c_mem_address :
  forall f e, In (f, e) mir2c_addr_table -> addr_row_sound mir2c_disp_fmt f e.
Proof. exact mir2c_addr_rows_sound. Qed.
Print Assumptions mir2c_mem_address.

Theorem mir2c_mem_forms_total :
  forall d b i s, In s [1; 2; 4; 8]%Z ->
  exists e, In ({| af_disp := d; af_base := b; af_index := i; af_scale := s |}, e) mir2c_addr_table.
Proof. exact mir2c_addr_rows_total. Qed.
Print Assumptions mir2c_mem_forms_total.

(* ... and the object type the pointer cast names for each MIR memory type (i8 ... u64, p, f, d, ld) makes the C load
   `r = *(T * ) a` into a register variable the documented load (narrow integers sign- or zero-extended to 64 bits by
   the signedness of the memory type) and the C store `*(T * ) a = r` the documented store (truncation to the type) *)
Theorem mir2c_mem_types :
  forall ty, exists mt, In (ty, mt) mir2c_memtype_table
    /\ (forall bytes, stmt_load (SLoad (reg_cty ty) mt) bytes = Some (load_ext ty bytes))
    /\ (forall p rest, stmt_store (p :: rest) (SStore mt (EVar 0 (reg_cty ty))) = Some (store_trunc ty p)).
Proof. exact mir2c_memtypes_sound. Qed.
Print Assumptions mir2c_mem_types.

(* Property C20: the C code emitted by the MIR-to-C translator computes what the MIR module computes.
   Only property theorems.  The template table is REGENERATED from mir2c/mir2c.c of the checked tree on
   every run (tools/tr_c20_mir2c.py -> coq/gen/Mir2cTable.v): each row is the C text out_insn prints
   for one opcode, parsed back into Mir/CExpr.v statements. *)
From Coq Require Import ZArith List Bool.
From MirV Require Import Mir.DocSpec Mir.CExpr C02.RowCheck C02.Table C20.Mir2cCheck gen.Mir2cTable C20.Mir2cFacts.
Import ListNotations.

(* every template, for ALL operand values on which MIR.md defines the instruction: the emitted C
   statement (C11 typing, two's-complement machine semantics, IEEE float/double, GCC's
   __builtin_*_overflow) yields the documented result on the defined bits / takes the documented
   branch; overflow instructions assign every flag they define to the variable the matching
   BO/BNO (signed) or UBO/UBNO (unsigned) template reads, and only their last statement writes the
   result operand *)
Theorem mir2c_row_sound :
  forall op l, In (op, l) mir2c_table -> ld_opcode op = false -> m2c_row_sound op l.
Proof. exact mir2c_rows_sound. Qed.
Print Assumptions mir2c_row_sound.

(* every opcode with a documented value / branch / overflow meaning and every long double opcode has
   a template: none falls into `default: mir_assert (FALSE)`, which prints nothing under NDEBUG *)
Theorem mir2c_table_total :
  forall op, needs_row op = true \/ ld_opcode op = true -> exists l, In (op, l) mir2c_table.
Proof. exact mir2c_rows_total. Qed.
Print Assumptions mir2c_table_total.

(* long double templates are the double templates with `long double` substituted *)
Theorem mir2c_ld_rows_are_double_twins :
  forall op s d, In (op, [s]) mir2c_table -> ld_twin op = Some d ->
  exists sd, In (d, [sd]) mir2c_table /\ cstmt_eqb sd (ld2d_stmt s) = true /\ row_sound d sd.
Proof. exact mir2c_ld_rows. Qed.
Print Assumptions mir2c_ld_rows_are_double_twins.

(* Operand lowering as a simulation in the reference semantics: running the mov/mul/add chain of
   C04/Simplify.lower with Sem.exec_insn and then the instruction with its memory operand replaced by
   (type, disp 0, base = address register) behaves like the original instruction: same value
   written, same memory, flags, events, and the same registers except the fresh temporaries.
   Covers the value instructions (everything Sem executes through exec_val) with a lowered memory
   SOURCE operand whose base/index registers hold defined integers (harness addresses; alloca
   pointers carry the tag Ptr and are outside this theorem). *)
From Coq Require Import ZArith List Bool FMapPositive Lia.
From MirV Require Import Base.W64 Mir.Opcode Mir.Syntax Mir.Sem C04.Simplify C04.SimplifyProofs C04.LoweringSem.
Import ListNotations.
Local Open Scope Z_scope.

Section WithSem.
Variable isem : insn_sem.
Variable prog : program.
Variable regions : list block.
Hypothesis sem_add : forall a b, sem_val isem ADD [a; b] = Some (u64 (a + b)).
Hypothesis sem_mul : forall a b, sem_val isem MUL [a; b] = Some (u64 (a * b)).

(* ---- running a chain with Sem.exec_insn ------------------------------------------------------ *)

Fixpoint run_chain (s : state) (f : frame) (cs : list cinsn) : option (state * frame) :=
  match cs with
  | [] => Some (s, f)
  | c :: r => match exec_insn isem prog regions s f (to_insn c) with
              | Next s' => match st_frames s' with
                           | f' :: _ => run_chain s' f' r
                           | [] => None
                           end
              | _ => None
              end
  end.

Definition bits_of (rf : regfile) : rfile :=
  fun r => match PositiveMap.find r rf with Some v => v_bits v | None => 0 end.

Definition defd (rf : regfile) (r : reg) : bool :=
  match PositiveMap.find r rf with Some (V _ Def) => true | _ => false end.

Definition cdst (c : cinsn) : reg := match c with CMovImm d _ | CMul d _ _ | CAdd d _ _ => d end.
Definition csrcs (c : cinsn) : list reg :=
  match c with CMovImm _ _ => [] | CMul _ a b | CAdd _ a b => [a; b] end.

(* every register a chain instruction reads holds a defined integer when it is read *)
Fixpoint chain_ok (d : reg -> bool) (cs : list cinsn) : bool :=
  match cs with
  | [] => true
  | c :: r => forallb d (csrcs c) && chain_ok (fun x => Pos.eqb x (cdst c) || d x) r
  end.

Lemma forallb_ext' : forall (l : list reg) (d d' : reg -> bool), (forall x, d x = d' x) -> forallb d l = forallb d' l.
Proof. induction l as [|a l IH]; intros d d' H; cbn [forallb]; [reflexivity|]. rewrite H, (IH d d' H). reflexivity. Qed.

Lemma chain_ok_ext : forall cs d d', (forall x, d x = d' x) -> chain_ok d cs = chain_ok d' cs.
Proof.
  induction cs as [|c r IH]; intros d d' H; cbn [chain_ok]; [reflexivity|].
  f_equal.
  - apply forallb_ext'. exact H.
  - apply IH. intros x. rewrite H. reflexivity.
Qed.

Lemma defd_find : forall rf r, defd rf r = true -> PositiveMap.find r rf = Some (V (bits_of rf r) Def).
Proof.
  unfold defd, bits_of. intros rf r H. destruct (PositiveMap.find r rf) as [[z g]|]; [|discriminate].
  destruct g; try discriminate. reflexivity.
Qed.

Lemma bits_of_add : forall rf d v x, bits_of (PositiveMap.add d v rf) x = upd (bits_of rf) d (v_bits v) x.
Proof.
  intros. unfold bits_of, upd. destruct (Pos.eqb_spec x d) as [E|E].
  - subst. rewrite PositiveMap.gss. reflexivity.
  - rewrite PositiveMap.gso by assumption. reflexivity.
Qed.

Lemma defd_add : forall rf d z x, defd (PositiveMap.add d (V z Def) rf) x = (Pos.eqb x d || defd rf x).
Proof.
  intros. unfold defd. destruct (Pos.eqb_spec x d) as [E|E].
  - subst. rewrite PositiveMap.gss. reflexivity.
  - rewrite PositiveMap.gso by assumption. reflexivity.
Qed.

Lemma cexec_as_upd : forall g c x, cexec g c x = upd g (cdst c) (cexec g c (cdst c)) x.
Proof.
  intros g c x. destruct c; cbn [cexec cdst]; unfold upd; rewrite Pos.eqb_refl; reflexivity.
Qed.

Lemma cexec_ext : forall c g g', (forall x, g x = g' x) -> forall x, cexec g c x = cexec g' c x.
Proof.
  intros c g g' H x. destruct c; cbn [cexec]; unfold upd; rewrite ?H; reflexivity.
Qed.

Lemma fold_cexec_ext : forall cs g g', (forall x, g x = g' x) ->
  forall x, fold_left cexec cs g x = fold_left cexec cs g' x.
Proof.
  induction cs as [|c r IH]; intros g g' H x; cbn [fold_left]; [apply H|].
  apply IH. intros y. apply cexec_ext. exact H.
Qed.

(* one chain instruction in Sem = one cexec step on the register bits *)
Lemma step_c : forall s f c, forallb (defd (fr_regs f)) (csrcs c) = true ->
  exec_insn isem prog regions s f (to_insn c)
  = Next (upd_top s (next_pc (set_reg f (cdst c) (V (cexec (bits_of (fr_regs f)) c (cdst c)) Def)))
                  (st_mem s) None).
Proof.
  intros s f c H. destruct c as [d z|d a b|d a b]; cbn [csrcs forallb cdst cexec] in *.
  - rewrite exec_movimm. unfold upd. rewrite Pos.eqb_refl. reflexivity.
  - apply andb_prop in H. destruct H as [Ha H]. apply andb_prop in H. destruct H as [Hb _].
    apply defd_find in Ha. apply defd_find in Hb.
    rewrite (exec_mul isem prog regions sem_mul s f d a b _ _ Ha Hb).
    unfold after, upd. rewrite Pos.eqb_refl. unfold u64. rewrite uwrap_idem by lia. reflexivity.
  - apply andb_prop in H. destruct H as [Ha H]. apply andb_prop in H. destruct H as [Hb _].
    apply defd_find in Ha. apply defd_find in Hb.
    rewrite (exec_add isem prog regions sem_add s f d a b _ _ Ha Hb).
    unfold after, upd. rewrite Pos.eqb_refl. unfold u64. rewrite uwrap_idem by lia. reflexivity.
Qed.

(* what a chain leaves alone *)
Record same_frame (f f' : frame) (n : nat) : Prop := MkSameFrame {
  sf_body : fr_body f' = fr_body f;
  sf_res : fr_res f' = fr_res f;
  sf_pc : fr_pc f' = (fr_pc f + n)%nat;
  sf_blocks : fr_blocks f' = fr_blocks f;
  sf_dsts : fr_dsts f' = fr_dsts f }.

Record same_state (s s' : state) : Prop := MkSameState {
  ss_mem : st_mem s' = st_mem s;
  ss_next : st_next s' = st_next s;
  ss_events : st_events s' = st_events s;
  ss_oracle : st_oracle s' = st_oracle s }.

Lemma run_chain_sim : forall cs s f rest,
  st_frames s = f :: rest ->
  chain_ok (defd (fr_regs f)) cs = true ->
  exists s' f',
    run_chain s f cs = Some (s', f') /\
    st_frames s' = f' :: rest /\
    same_state s s' /\
    same_frame f f' (length cs) /\
    (forall r, bits_of (fr_regs f') r = fold_left cexec cs (bits_of (fr_regs f)) r) /\
    (forall r, ~ In r (map cdst cs) -> PositiveMap.find r (fr_regs f') = PositiveMap.find r (fr_regs f)) /\
    (forall r, In r (map cdst cs) -> defd (fr_regs f') r = true).
Proof.
  induction cs as [|c r IH]; intros s f rest Hfr Hok.
  - exists s, f. cbn [run_chain length map fold_left In]. repeat split; auto; try tauto;
      try (rewrite Nat.add_0_r; reflexivity).
  - cbn [chain_ok] in Hok. apply andb_prop in Hok. destruct Hok as [Hsrc Hok].
    pose (v := V (cexec (bits_of (fr_regs f)) c (cdst c)) Def).
    pose (f1 := next_pc (set_reg f (cdst c) v)).
    pose (s1 := upd_top s f1 (st_mem s) None).
    assert (Hfr1 : st_frames s1 = f1 :: rest).
    { unfold s1, upd_top. cbn [st_frames]. rewrite Hfr. reflexivity. }
    assert (Hok1 : chain_ok (defd (fr_regs f1)) r = true).
    { rewrite <- Hok. apply chain_ok_ext. intros x. unfold f1, next_pc, set_pc, set_reg, v. cbn [fr_regs].
      apply defd_add. }
    destruct (IH s1 f1 rest Hfr1 Hok1) as (s' & f' & Hrun & Hfr' & Hss & Hsf & Hbits & Hkeep & Hdef).
    exists s', f'. split; [|split; [|split; [|split; [|split; [|split]]]]].
    + cbn [run_chain]. rewrite (step_c s f c Hsrc). fold v. fold f1. fold s1. rewrite Hfr1. exact Hrun.
    + exact Hfr'.
    + destruct Hss as [A B C D]. constructor; [rewrite A|rewrite B|rewrite C|rewrite D]; reflexivity.
    + destruct Hsf as [A B C D E].
      constructor; [rewrite A|rewrite B|rewrite C|rewrite D|rewrite E]; try reflexivity.
      unfold f1, next_pc, set_pc, set_reg. cbn [fr_pc length]. lia.
    + intros x. rewrite Hbits. cbn [fold_left]. apply fold_cexec_ext. intros y.
      unfold f1, next_pc, set_pc, set_reg. cbn [fr_regs]. rewrite bits_of_add. unfold v. cbn [v_bits].
      symmetry. apply cexec_as_upd.
    + intros x Hx. cbn [map In] in Hx. rewrite Hkeep by tauto.
      unfold f1, next_pc, set_pc, set_reg. cbn [fr_regs]. apply PositiveMap.gso. intros E. apply Hx. left. congruence.
    + intros x Hx. cbn [map In] in Hx. destruct (in_dec Pos.eq_dec x (map cdst r)) as [I|I].
      * apply Hdef. exact I.
      * unfold defd. rewrite Hkeep by exact I. destruct Hx as [E|E]; [|contradiction]. subst x.
        unfold f1, next_pc, set_pc, set_reg. cbn [fr_regs]. rewrite PositiveMap.gss. reflexivity.
Qed.

(* ---- the chain of [lower] ------------------------------------------------------------------- *)

Definition defd_opt (rf : regfile) (o : option reg) : Prop :=
  match o with Some r => defd rf r = true | None => True end.

Lemma lower_chain_ok : forall m t rf, defd_opt rf (m_base m) -> defd_opt rf (m_index m) ->
  chain_ok (defd rf) (fst (lower m t)) = true.
Proof.
  intros m t rf Hb Hi. destruct m as [ty disp base index scale]. cbn [m_base m_index] in *.
  unfold lower. cbn [m_base m_index m_disp m_scale].
  destruct base as [b|]; destruct index as [i|]; cbn [defd_opt] in *;
    repeat match goal with
           | |- context [if ?c then _ else _] => destruct c
           end;
    cbn [fst app chain_ok forallb csrcs cdst andb];
    rewrite ?Pos.eqb_refl, ?Hb, ?Hi, ?orb_true_r; cbn [orb andb]; reflexivity.
Qed.

(* the address register is written by the chain or is the base/index register itself *)
Lemma lower_addr_reg : forall m t cs a, lower m t = (cs, Some a) ->
  In a (map cdst cs) \/ (cs = [] /\ (m_base m = Some a \/ m_index m = Some a)).
Proof.
  intros m t cs a. destruct m as [ty disp base index scale].
  unfold lower. cbn [m_base m_index m_disp m_scale].
  destruct base as [b|]; destruct index as [i|];
    repeat match goal with
           | |- context [if ?c then _ else _] => destruct c
           end;
    cbn [app]; intros H; inversion H; subst; clear H; cbn [map cdst In app];
    rewrite ?map_app; cbn [map cdst In]; auto 10; try (left; rewrite ?in_app_iff; cbn [In]; auto 10).
Qed.

Definition lowered_memop (m : memop) (a : reg) : memop := MkMem (m_ty m) 0 (Some a) None 1.

Lemma eval_addr_defd : forall rf m, defd_opt rf (m_base m) -> defd_opt rf (m_index m) ->
  eval_addr rf m = Ok (V (mem_addr (bits_of rf) m) Def).
Proof.
  intros rf m Hb Hi. unfold eval_addr, mem_addr, addr_part, get_reg.
  destruct (m_base m) as [b|]; destruct (m_index m) as [i|]; cbn [defd_opt opt_val] in *;
    try (apply defd_find in Hb; rewrite Hb); try (apply defd_find in Hi; rewrite Hi);
    cbn [of_opt bind v_tag v_bits]; reflexivity.
Qed.

Definition agree_out (T : list reg) (rf rf' : regfile) : Prop :=
  forall r, ~ In r T -> PositiveMap.find r rf' = PositiveMap.find r rf.

Theorem lowered_operand_address : forall m t s f rest cs a,
  st_frames s = f :: rest ->
  fresh t m ->
  (m_index m <> None -> m_scale m = 1 \/ m_scale m = 2 \/ m_scale m = 4 \/ m_scale m = 8) ->
  defd_opt (fr_regs f) (m_base m) -> defd_opt (fr_regs f) (m_index m) ->
  lower m t = (cs, Some a) ->
  exists s' f',
    run_chain s f cs = Some (s', f') /\
    st_frames s' = f' :: rest /\ same_state s s' /\ same_frame f f' (length cs) /\
    agree_out (temps_list t) (fr_regs f) (fr_regs f') /\
    eval_addr (fr_regs f') (lowered_memop m a) = eval_addr (fr_regs f) m.
Proof.
  intros m t s f rest cs a Hfr Hfresh Hsc Hb Hi Hlow.
  pose proof (lower_chain_ok m t (fr_regs f) Hb Hi) as Hok. rewrite Hlow in Hok. cbn [fst] in Hok.
  destruct (run_chain_sim cs s f rest Hfr Hok) as (s' & f' & Hrun & Hfr' & Hss & Hsf & Hbits & Hkeep & Hdef).
  pose proof (lowered_address_eq_lemma m t (bits_of (fr_regs f)) Hfresh Hsc) as Haddr. rewrite Hlow in Haddr.
  destruct Haddr as [Haddr Hother].
  exists s', f'. split; [exact Hrun|]. split; [exact Hfr'|]. split; [exact Hss|]. split; [exact Hsf|]. split.
  - (* only temporaries are written *)
    intros r Hr. apply Hkeep. intros Hin.
    assert (Hsub : forall x, In x (map cdst cs) -> In x (temps_list t)).
    { clear - Hlow. destruct m as [ty disp base index scale]. unfold lower in Hlow. cbn [m_base m_index m_disp m_scale] in Hlow.
      destruct t as [td ts tsi tbi ta]. cbn [t_disp t_scale t_si t_bi t_addr] in Hlow. unfold temps_list. cbn [t_disp t_scale t_si t_bi t_addr].
      destruct base as [b|]; destruct index as [i|];
        repeat match type of Hlow with
               | context [if ?c then _ else _] => destruct c
               end;
        cbn [app] in Hlow; inversion Hlow; subst; clear Hlow; intros x; cbn [map cdst In app]; intuition. }
    apply Hr. apply Hsub. exact Hin.
  - rewrite (eval_addr_defd (fr_regs f) m Hb Hi).
    assert (Ha : defd (fr_regs f') a = true).
    { destruct (lower_addr_reg m t cs a Hlow) as [I|[E [B|B]]].
      - apply Hdef. exact I.
      - subst cs. unfold defd. rewrite Hkeep by (cbn; tauto). rewrite B in Hb. exact Hb.
      - subst cs. unfold defd. rewrite Hkeep by (cbn; tauto). rewrite B in Hi. exact Hi. }
    unfold eval_addr, lowered_memop, addr_part, get_reg. cbn [m_base m_index m_disp m_scale].
    apply defd_find in Ha. rewrite Ha. cbn [of_opt bind v_tag v_bits].
    rewrite Hbits. rewrite Z.mul_0_l, Z.add_0_l, Z.add_0_r. rewrite Haddr. reflexivity.
Qed.

(* ---- the instruction after the chain ---------------------------------------------------------- *)

Definition op_regs (o : operand) : list reg :=
  match o with
  | Oreg r => [r]
  | Omem m => (match m_base m with Some r => [r] | None => [] end)
              ++ (match m_index m with Some r => [r] | None => [] end)
  | _ => []
  end.

Definition no_temps (T : list reg) (o : operand) : Prop := forall r, In r (op_regs o) -> ~ In r T.

Lemma all_blocks_same : forall s s' f f' rest,
  st_frames s = f :: rest -> st_frames s' = f' :: rest -> fr_blocks f' = fr_blocks f ->
  all_blocks regions s' = all_blocks regions s.
Proof.
  intros s s' f f' rest H H' Hb. unfold all_blocks. rewrite H, H'. cbn [flat_map]. rewrite Hb. reflexivity.
Qed.

Lemma load_same : forall s s' t a, st_mem s' = st_mem s -> all_blocks regions s' = all_blocks regions s ->
  load regions s' t a = load regions s t a.
Proof. intros s s' t a Hm Hb. unfold load, valid_range. rewrite Hm, Hb. reflexivity. Qed.

Lemma store_same : forall s s' t a v, st_mem s' = st_mem s -> all_blocks regions s' = all_blocks regions s ->
  store regions s' t a v = store regions s t a v.
Proof. intros s s' t a v Hm Hb. unfold store, valid_range. rewrite Hm, Hb. reflexivity. Qed.

Lemma eval_addr_agree : forall T rf rf' m, agree_out T rf rf' -> no_temps T (Omem m) ->
  eval_addr rf' m = eval_addr rf m.
Proof.
  intros T rf rf' m Hag Hno. unfold eval_addr, addr_part, get_reg. unfold no_temps in Hno. cbn [op_regs] in Hno.
  destruct (m_base m) as [b|]; destruct (m_index m) as [i|]; cbn [app] in Hno;
    rewrite ?(Hag b) by (apply Hno; cbn; tauto); rewrite ?(Hag i) by (apply Hno; cbn; tauto); reflexivity.
Qed.

Lemma read_op_agree : forall T s s' rf rf' o,
  st_mem s' = st_mem s -> all_blocks regions s' = all_blocks regions s ->
  agree_out T rf rf' -> no_temps T o ->
  read_op regions s' rf' o = read_op regions s rf o.
Proof.
  intros T s s' rf rf' o Hm Hb Hag Hno. destruct o; cbn [read_op]; try reflexivity.
  - unfold get_reg. rewrite Hag; [reflexivity|]. apply Hno. cbn. tauto.
  - rewrite (eval_addr_agree T rf rf' m Hag Hno). destruct (eval_addr rf m); cbn [bind]; [|reflexivity].
    apply load_same; assumption.
Qed.

Lemma read_ops_agree : forall T s s' rf rf' os,
  st_mem s' = st_mem s -> all_blocks regions s' = all_blocks regions s ->
  agree_out T rf rf' -> Forall (no_temps T) os ->
  read_ops regions s' rf' os = read_ops regions s rf os.
Proof.
  intros T s s' rf rf' os Hm Hb Hag Hall. induction Hall as [|o r Ho Hr IH]; cbn [read_ops]; [reflexivity|].
  rewrite (read_op_agree T s s' rf rf' o Hm Hb Hag Ho), IH. reflexivity.
Qed.

(* results of the two executions: equal but for the temporaries and the position in the body *)
Definition sim_result (T : list reg) (n : nat) (s1 s1' : state) : Prop :=
  st_mem s1' = st_mem s1 /\ st_flags s1' = st_flags s1 /\ st_next s1' = st_next s1 /\
  st_events s1' = st_events s1 /\ st_oracle s1' = st_oracle s1 /\
  exists g g' rest, st_frames s1 = g :: rest /\ st_frames s1' = g' :: rest /\
                    same_frame g g' n /\ agree_out T (fr_regs g) (fr_regs g').

Theorem lowering_preserves_value_insn : forall m t s f rest cs a o ks kd dst pre post s1,
  st_frames s = f :: rest ->
  fresh t m ->
  (m_index m <> None -> m_scale m = 1 \/ m_scale m = 2 \/ m_scale m = 4 \/ m_scale m = 8) ->
  defd_opt (fr_regs f) (m_base m) -> defd_opt (fr_regs f) (m_index m) ->
  lower m t = (cs, Some a) ->
  no_temps (temps_list t) dst -> Forall (no_temps (temps_list t)) pre -> Forall (no_temps (temps_list t)) post ->
  exec_val isem regions s f o ks kd dst (pre ++ Omem m :: post) = Ok s1 ->
  exists s' f' s1',
    run_chain s f cs = Some (s', f') /\
    exec_val isem regions s' f' o ks kd dst (pre ++ Omem (lowered_memop m a) :: post) = Ok s1' /\
    sim_result (temps_list t) (length cs) s1 s1'.
Proof.
  intros m t s f rest cs a o ks kd dst pre post s1 Hfr Hfresh Hsc Hb Hi Hlow Hdst Hpre Hpost Hex.
  destruct (lowered_operand_address m t s f rest cs a Hfr Hfresh Hsc Hb Hi Hlow)
    as (s' & f' & Hrun & Hfr' & [Hm Hn He Ho] & Hsf & Hag & Haddr).
  pose proof (all_blocks_same s s' f f' rest Hfr Hfr' (sf_blocks _ _ _ Hsf)) as Hbl.
  assert (Hreads : read_ops regions s' (fr_regs f') (pre ++ Omem (lowered_memop m a) :: post)
                   = read_ops regions s (fr_regs f) (pre ++ Omem m :: post)).
  { clear Hex. induction Hpre as [|p r Hp Hr IH]; cbn [app read_ops].
    - cbn [read_op]. rewrite Haddr. unfold lowered_memop at 1. cbn [m_ty].
      destruct (eval_addr (fr_regs f) m); cbn [bind]; [|reflexivity].
      rewrite (load_same s s' _ _ Hm Hbl).
      rewrite (read_ops_agree _ s s' _ _ post Hm Hbl Hag Hpost). reflexivity.
    - rewrite (read_op_agree _ s s' _ _ p Hm Hbl Hag Hp), IH. reflexivity. }
  assert (G : exists s1', exec_val isem regions s' f' o ks kd dst (pre ++ Omem (lowered_memop m a) :: post) = Ok s1'
                          /\ sim_result (temps_list t) (length cs) s1 s1').
  { unfold exec_val in Hex |- *. rewrite Hreads.
    destruct (read_ops regions s (fr_regs f) (pre ++ Omem m :: post)) as [vs|e]; cbn [bind] in Hex |- *; [|discriminate].
    match type of Hex with context [bind ?X _] => destruct X as [v|e] end; cbn [bind] in Hex |- *; [|discriminate].
    match type of Hex with context [bind ?X _] => destruct X as [fl|e] end; cbn [bind] in Hex |- *; [|discriminate].
    destruct dst as [r| | | |md| |]; cbn [write_op bind] in Hex |- *; try discriminate.
    - (* register destination *)
      inversion Hex; subst s1; clear Hex. cbn [fst snd].
      eexists. split; [reflexivity|].
      unfold sim_result, upd_top. cbn [st_mem st_flags st_next st_events st_oracle st_frames].
      rewrite Hm, Hn, He, Ho, Hfr, Hfr'. cbn [tl].
      split; [reflexivity|]. split; [reflexivity|]. split; [reflexivity|]. split; [reflexivity|]. split; [reflexivity|].
      eexists _, _, rest. split; [reflexivity|]. split; [reflexivity|]. split.
      + destruct Hsf as [A B C D E]. constructor; unfold next_pc, set_pc, set_reg; cbn; auto; try (rewrite C; lia).
      + intros x Hx. unfold next_pc, set_pc, set_reg. cbn [fr_regs].
        destruct (Pos.eq_dec x r) as [E|E].
        * subst. rewrite !PositiveMap.gss. reflexivity.
        * rewrite !PositiveMap.gso by assumption. apply Hag. exact Hx.
    - (* memory destination *)
      rewrite (eval_addr_agree _ _ _ md Hag Hdst).
      destruct (eval_addr (fr_regs f) md) as [ad|e]; cbn [bind] in Hex |- *; [|discriminate].
      rewrite (store_same s s' _ _ _ Hm Hbl).
      destruct (store regions s (m_ty md) (v_bits ad) v) as [m'|e]; cbn [bind] in Hex |- *; [|discriminate].
      inversion Hex; subst s1; clear Hex. cbn [fst snd].
      eexists. split; [reflexivity|].
      unfold sim_result, upd_top. cbn [st_mem st_flags st_next st_events st_oracle st_frames].
      rewrite Hn, He, Ho, Hfr, Hfr'. cbn [tl].
      split; [reflexivity|]. split; [reflexivity|]. split; [reflexivity|]. split; [reflexivity|]. split; [reflexivity|].
      eexists _, _, rest. split; [reflexivity|]. split; [reflexivity|]. split.
      + destruct Hsf as [A B C D E]. constructor; unfold next_pc, set_pc; cbn; auto; try (rewrite C; lia).
      + intros x Hx. unfold next_pc, set_pc. cbn [fr_regs]. apply Hag. exact Hx. }
  destruct G as (s1' & G1 & G2). exists s', f', s1'. auto.
Qed.

(* the same for a lowered memory DESTINATION operand (a store) *)
Theorem lowering_preserves_store_insn : forall m t s f rest cs a o ks kd srcs s1,
  st_frames s = f :: rest ->
  fresh t m ->
  (m_index m <> None -> m_scale m = 1 \/ m_scale m = 2 \/ m_scale m = 4 \/ m_scale m = 8) ->
  defd_opt (fr_regs f) (m_base m) -> defd_opt (fr_regs f) (m_index m) ->
  lower m t = (cs, Some a) ->
  Forall (no_temps (temps_list t)) srcs ->
  exec_val isem regions s f o ks kd (Omem m) srcs = Ok s1 ->
  exists s' f' s1',
    run_chain s f cs = Some (s', f') /\
    exec_val isem regions s' f' o ks kd (Omem (lowered_memop m a)) srcs = Ok s1' /\
    sim_result (temps_list t) (length cs) s1 s1'.
Proof.
  intros m t s f rest cs a o ks kd srcs s1 Hfr Hfresh Hsc Hb Hi Hlow Hsrcs Hex.
  destruct (lowered_operand_address m t s f rest cs a Hfr Hfresh Hsc Hb Hi Hlow)
    as (s' & f' & Hrun & Hfr' & [Hm Hn He Ho] & Hsf & Hag & Haddr).
  pose proof (all_blocks_same s s' f f' rest Hfr Hfr' (sf_blocks _ _ _ Hsf)) as Hbl.
  assert (G : exists s1', exec_val isem regions s' f' o ks kd (Omem (lowered_memop m a)) srcs = Ok s1'
                          /\ sim_result (temps_list t) (length cs) s1 s1').
  { unfold exec_val in Hex |- *. rewrite (read_ops_agree _ s s' _ _ srcs Hm Hbl Hag Hsrcs).
    destruct (read_ops regions s (fr_regs f) srcs) as [vs|e]; cbn [bind] in Hex |- *; [|discriminate].
    match type of Hex with context [bind ?X _] => destruct X as [v|e] end; cbn [bind] in Hex |- *; [|discriminate].
    match type of Hex with context [bind ?X _] => destruct X as [fl|e] end; cbn [bind] in Hex |- *; [|discriminate].
    cbn [write_op bind] in Hex |- *. rewrite Haddr. unfold lowered_memop at 1. cbn [m_ty].
    destruct (eval_addr (fr_regs f) m) as [ad|e]; cbn [bind] in Hex |- *; [|discriminate].
    rewrite (store_same s s' _ _ _ Hm Hbl).
    destruct (store regions s (m_ty m) (v_bits ad) v) as [m'|e]; cbn [bind] in Hex |- *; [|discriminate].
    inversion Hex; subst s1; clear Hex. cbn [fst snd].
    eexists. split; [reflexivity|].
    unfold sim_result, upd_top. cbn [st_mem st_flags st_next st_events st_oracle st_frames].
    rewrite Hn, He, Ho, Hfr, Hfr'. cbn [tl].
    split; [reflexivity|]. split; [reflexivity|]. split; [reflexivity|]. split; [reflexivity|]. split; [reflexivity|].
    eexists _, _, rest. split; [reflexivity|]. split; [reflexivity|]. split.
    + destruct Hsf as [A B C D E]. constructor; unfold next_pc, set_pc; cbn; auto; try (rewrite C; lia).
    + intros x Hx. unfold next_pc, set_pc. cbn [fr_regs]. apply Hag. exact Hx. }
  destruct G as (s1' & G1 & G2). exists s', f', s1'. auto.
Qed.

(* ---- the chain placed AFTER an overflow insn: the flags are gone ------------------------------- *)
(* (simplify_op keeps the address arithmetic of a memory RESULT operand of ADDO..UMULOS in front of
   the insn; behind it the MOV/MUL/ADD of the chain stand between the insn and the branch that reads
   its flags) *)

Lemma run_chain_flags_none : forall cs s f rest,
  st_frames s = f :: rest ->
  chain_ok (defd (fr_regs f)) cs = true ->
  cs <> [] ->
  forall s' f', run_chain s f cs = Some (s', f') -> st_flags s' = None.
Proof.
  induction cs as [|c r IH]; intros s f rest Hfr Hok Hne s' f' Hrun; [congruence|].
  cbn [chain_ok] in Hok. apply andb_prop in Hok. destruct Hok as [Hsrc Hok].
  pose (v := V (cexec (bits_of (fr_regs f)) c (cdst c)) Def).
  pose (f1 := next_pc (set_reg f (cdst c) v)).
  pose (s1 := upd_top s f1 (st_mem s) None).
  assert (Hfr1 : st_frames s1 = f1 :: rest).
  { unfold s1, upd_top. cbn [st_frames]. rewrite Hfr. reflexivity. }
  assert (Hok1 : chain_ok (defd (fr_regs f1)) r = true).
  { rewrite <- Hok. apply chain_ok_ext. intros x. unfold f1, next_pc, set_pc, set_reg, v. cbn [fr_regs].
    apply defd_add. }
  cbn [run_chain] in Hrun. rewrite (step_c s f c Hsrc) in Hrun. fold v in Hrun. fold f1 in Hrun. fold s1 in Hrun.
  rewrite Hfr1 in Hrun.
  destruct r as [|c2 r2].
  - cbn [run_chain] in Hrun. inversion Hrun; subst s'. reflexivity.
  - apply (IH s1 f1 rest Hfr1 Hok1 ltac:(discriminate) s' f' Hrun).
Qed.

Lemma flag_branch_needs_flags : forall s f o l,
  In o [BO; BNO; UBO; UBNO] -> st_flags s = None ->
  exec_insn isem prog regions s f (I o [Olabel l]) = Fail E_flags.
Proof.
  intros s f o l Ho Hfl. cbn [In] in Ho.
  destruct Ho as [E|[E|[E|[E|[]]]]]; subst o; cbn [exec_insn val_op br_op]; rewrite Hfl; reflexivity.
Qed.

Theorem result_address_after_overflow_insn : forall m t s f rest cs a,
  st_frames s = f :: rest ->
  defd_opt (fr_regs f) (m_base m) -> defd_opt (fr_regs f) (m_index m) ->
  lower m t = (cs, Some a) -> cs <> [] ->
  exists s' f',
    run_chain s f cs = Some (s', f') /\ st_flags s' = None /\
    forall o l, In o [BO; BNO; UBO; UBNO] ->
                exec_insn isem prog regions s' f' (I o [Olabel l]) = Fail E_flags.
Proof.
  intros m t s f rest cs a Hfr Hb Hi Hlow Hne.
  pose proof (lower_chain_ok m t (fr_regs f) Hb Hi) as Hok. rewrite Hlow in Hok. cbn [fst] in Hok.
  destruct (run_chain_sim cs s f rest Hfr Hok) as (s' & f' & Hrun & _).
  pose proof (run_chain_flags_none cs s f rest Hfr Hok Hne s' f' Hrun) as Hfl.
  exists s', f'. split; [exact Hrun|]. split; [exact Hfl|].
  intros o l Ho. apply flag_branch_needs_flags; assumption.
Qed.

End WithSem.

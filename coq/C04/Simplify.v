(* Models of the value-level cores of MIR_link's simplification (mir.c simplify_op / simplify_func /
   make_one_ret): definitions only.  Proofs: C04/SimplifyProofs.v. *)
From Coq Require Import ZArith List Bool.
From MirV Require Import Base.W64 Mir.Opcode Mir.Syntax Mir.Sem C01.InsnSem.
Import ListNotations.
Local Open Scope Z_scope.

(* ---- 1. memory operand lowering (simplify_op, case MIR_OP_MEM, mir.c ~3415-3520) ------------------- *)

(* the three instruction shapes the lowering emits, over fresh temporaries *)
Inductive cinsn : Set :=
| CMovImm (d : reg) (z : Z)       (* mov d, z *)
| CMul (d a b : reg)              (* mul d, a, b *)
| CAdd (d a b : reg).             (* add d, a, b *)

Definition to_insn (c : cinsn) : insn :=
  match c with
  | CMovImm d z => I MOV [Oreg d; Oint z]
  | CMul d a b => I MUL [Oreg d; Oreg a; Oreg b]
  | CAdd d a b => I ADD [Oreg d; Oreg a; Oreg b]
  end.

Definition rfile := reg -> Z.     (* 64-bit patterns *)
Definition upd (f : rfile) (r : reg) (v : Z) : rfile := fun x => if Pos.eqb x r then v else f x.

(* meaning of the three shapes = what Sem computes for them with the MIR.md instruction semantics
   (see cexec_matches_isem) *)
Definition cexec (f : rfile) (c : cinsn) : rfile :=
  match c with
  | CMovImm d z => upd f d (u64 z)
  | CMul d a b => upd f d (u64 (f a * f b))
  | CAdd d a b => upd f d (u64 (f a + f b))
  end.

Record temps : Set := MkTemps { t_disp : reg; t_scale : reg; t_si : reg; t_bi : reg; t_addr : reg }.

(* the address register and the instructions computing it, exactly in the order of the C code *)
Definition lower (m : memop) (t : temps) : list cinsn * option reg :=
  match m_base m, m_index m with
  | Some b, None => if m_disp m =? 0 then ([], Some b)
                    else ([CMovImm (t_disp t) (m_disp m); CAdd (t_addr t) b (t_disp t)], Some (t_addr t))
  | None, None => if m_disp m =? 0 then ([], None) else ([CMovImm (t_disp t) (m_disp m)], Some (t_disp t))
  | ob, Some i =>
      if (m_disp m =? 0) && (m_scale m =? 0) && (match ob with Some _ => true | None => false end)
      then ([], ob)                                   (* base only: index ignored when scale is 0 *)
      else if (m_disp m =? 0) && (m_scale m =? 1) && (match ob with None => true | Some _ => false end)
      then ([], Some i)
      else
        let dpart := if m_disp m =? 0 then [] else [CMovImm (t_disp t) (m_disp m)] in
        let '(spart, si) := if 1 <? m_scale m
                            then ([CMovImm (t_scale t) (m_scale m); CMul (t_si t) i (t_scale t)], t_si t)
                            else ([], i) in
        let '(bpart, bi) := match ob with
                            | Some b => ([CAdd (t_bi t) b si], t_bi t)
                            | None => ([], si)
                            end in
        if m_disp m =? 0 then (dpart ++ spart ++ bpart, Some bi)
        else (dpart ++ spart ++ bpart ++ [CAdd (t_addr t) bi (t_disp t)], Some (t_addr t))
  end.

Definition temps_list (t : temps) : list reg := [t_disp t; t_scale t; t_si t; t_bi t; t_addr t].

Definition opt_val (f : rfile) (o : option reg) : Z := match o with Some r => f r | None => 0 end.

(* the address MIR.md gives to the operand: disp + base + index * scale (mod 2^64); this is
   Sem.eval_addr on the register contents *)
Definition mem_addr (f : rfile) (m : memop) : Z :=
  u64 (m_disp m + opt_val f (m_base m) + opt_val f (m_index m) * m_scale m).

(* ---- 2. consolidation of adjacent constant-size allocas (simplify_func, mir.c ~3732-3755) ---------- *)

Definition natural_alignment (s : Z) : Z := if s <=? 2 then s else if s <=? 4 then 4 else if s <=? 8 then 8 else 16.

Definition norm_size (s : Z) : Z := if s <=? 0 then 1 else s.

(* get_alloca_size_align: (size rounded up to its alignment, alignment) *)
Definition size_align (s : Z) : Z * Z :=
  let s' := norm_size s in let a := natural_alignment s' in ((s' + a - 1) / a * a, a).

(* the loop over the following allocas: offsets given to them, final overall size.  Since 09d7e093
   every block is placed at an offset aligned to its own alignment ([max_align] only tracks the
   alignment of the whole group). *)
Fixpoint merge (overall max_align : Z) (sizes : list Z) : list Z * Z :=
  match sizes with
  | [] => ([], overall)
  | s :: r =>
      let '(sz, a) := size_align s in
      let overall' := (overall + a - 1) / a * a in
      let max' := if max_align <? a then a else max_align in
      let '(offs, tot) := merge (overall' + sz) max' r in
      (overall' :: offs, tot)
  end.

(* first alloca of the group keeps offset 0 *)
Definition consolidate (s0 : Z) (rest : list Z) : list Z * Z :=
  let '(sz0, a0) := size_align s0 in
  let '(offs, tot) := merge sz0 a0 rest in (0 :: offs, tot).

(* blocks (offset, requested size) lie one after the other inside [lo, hi) *)
Fixpoint chain (lo : Z) (blocks : list (Z * Z)) (hi : Z) : Prop :=
  match blocks with
  | [] => lo <= hi
  | (off, sz) :: r => lo <= off /\ 0 < sz /\ chain (off + sz) r hi
  end.

(* ---- 3. "x op 1" / "x op 0" => mov (simplify_func, mir.c ~3788-3799) -------------------------------- *)

(* opcodes for which [insn x, y, 1] may be replaced by [mov x, y] *)
Definition one_ok (o : opcode) : bool :=
  match o with MUL | MULS | DIV | DIVS => true | _ => false end.

(* opcodes for which [insn x, y, 0] may be replaced by [mov x, y] *)
Definition zero_ok (o : opcode) : bool :=
  match o with
  | ADD | ADDS | SUB | SUBS | OR | ORS | XOR | XORS | LSH | LSHS | RSH | RSHS | URSH | URSHS => true
  | _ => false
  end.

Definition mask (k : kind) (z : Z) : Z :=
  match k with K32 => u32 z | K16 => u16 z | K8 => u8 z | KF => u32 z | _ => z end.

(* [insn x, y, c] has the same defined result bits as [mov x, y] and sets no overflow flag
   ([int_val] is what the reference engine runs for integer opcodes: InsnSem.mir_val_int) *)
Definition acts_as_mov (o : opcode) (c : Z) : Prop :=
  ovf_op o = false /\
  exists ks kd, val_op o = Some (ks, kd) /\
    forall y, 0 <= y < 2 ^ 64 ->
      exists v, int_val o [mask ks y; mask ks c] = Some v /\ mask kd v = mask kd y.

(* ---- 3b. strength reduction by an immediate power of two (not in the pinned tree; a rule of this shape is
   picked up by tools/tr_c04_shortcuts.py into gen.C04Shortcuts.strength_pow2):
   [insn x, y, 2^n] with 2^n a signed 64-bit immediate > 1 (1 <= n <= 62)  =>  [insn' x, y, n] *)
Definition strength_ok (p : opcode * opcode) : bool :=
  match p with (MUL, LSH) | (UDIV, URSH) => true | _ => false end.

Definition acts_as_shift (o o' : opcode) : Prop :=
  ovf_op o = false /\ ovf_op o' = false /\
  forall y n, 0 <= y < 2 ^ 64 -> 1 <= n <= 62 ->
    int_val o [y; 2 ^ n] <> None /\ int_val o [y; 2 ^ n] = int_val o' [y; n].

(* ---- 4. return merging (make_one_ret, mir.c ~3542-3597) ---------------------------------------------- *)

(* the extension insn put before the single ret for a narrow result type, with its source kind *)
Definition ret_ext (t : ty) : option (opcode * kind) :=
  match t with
  | T_I8 => Some (EXT8, K8)    | T_U8 => Some (UEXT8, K8)
  | T_I16 => Some (EXT16, K16) | T_U16 => Some (UEXT16, K16)
  | T_I32 => Some (EXT32, K32) | T_U32 => Some (UEXT32, K32)
  | _ => None
  end.

(* moves executed one after the other *)
Definition seq_moves (ms : list (reg * reg)) (f : rfile) : rfile :=
  fold_left (fun g m => upd g (fst m) (g (snd m))) ms f.

(* ---- 5. where simplify_func puts the extensions of narrow parameters (mir.c, "Add extensions for
        the func args", MIR_prepend_insn) ------------------------------------------------------------ *)

(* the extension insns [exts] (one per narrow parameter, no labels among them) go in front of the body *)
Definition prepend_exts (exts body : list insn) : list insn := exts ++ body.

Definition not_a_label (i : insn) : Prop := forall l, is_label i l = false.

(* the alternative "keep a leading label first": the extension goes after the first insn *)
Definition insert_after_head (e : insn) (body : list insn) : list insn :=
  match body with
  | i :: r => i :: e :: r
  | nil => [e]
  end.

(* Proofs about the models of C04/Simplify.v. *)
From Coq Require Import ZArith List Bool Lia.
From MirV Require Import Base.W64 Mir.Opcode Mir.Syntax Mir.Sem C01.InsnSem C01.Peephole C01.PeepholeProofs C04.Simplify.
Import ListNotations.
Local Open Scope Z_scope.

Local Arguments Z.mul : simpl never.
Local Arguments Z.add : simpl never.
Local Arguments Z.modulo : simpl never.
Local Arguments Z.pow : simpl never.
Local Arguments u64 : simpl never.

(* ---------------------------------------------------------------- small arithmetic facts *)
Lemma pow64 : 2 ^ 64 = 18446744073709551616. Proof. reflexivity. Qed.
Lemma pow32 : 2 ^ 32 = 4294967296. Proof. reflexivity. Qed.

Lemma u64_small z : 0 <= z < 2 ^ 64 -> u64 z = z.
Proof. intros. unfold u64, uwrap. now apply Z.mod_small. Qed.

Lemma u64_add_l a b : u64 (u64 a + b) = u64 (a + b).
Proof. unfold u64, uwrap. now rewrite Zplus_mod_idemp_l. Qed.
Lemma u64_add_r a b : u64 (a + u64 b) = u64 (a + b).
Proof. unfold u64, uwrap. now rewrite Zplus_mod_idemp_r. Qed.

(* ---------------------------------------------------------------- 1. lowering *)

(* the three shapes mean in Sem what [cexec] says *)
Lemma cexec_matches_isem :
  (forall a b, int_val MUL [a; b] = Some (u64 (a * b))) /\
  (forall a b, int_val ADD [a; b] = Some (u64 (a + b))) /\
  val_op MUL = Some (K64, K64) /\ val_op ADD = Some (K64, K64) /\ val_op MOV = None.
Proof. repeat split. Qed.

Lemma upd_same f r v : upd f r v r = v.
Proof. unfold upd. now rewrite Pos.eqb_refl. Qed.
Lemma upd_other f r v x : x <> r -> upd f r v x = f x.
Proof. unfold upd. intros H. destruct (Pos.eqb_spec x r); congruence. Qed.

Definition fresh (t : temps) (m : memop) : Prop :=
  NoDup (temps_list t) /\
  (forall r, m_base m = Some r -> ~ In r (temps_list t)) /\
  (forall r, m_index m = Some r -> ~ In r (temps_list t)).

Ltac upd_simpl :=
  repeat first [ rewrite upd_same | rewrite upd_other by congruence ].

Lemma nodup5 (a b c d e : reg) : NoDup [a; b; c; d; e] ->
  a <> b /\ a <> c /\ a <> d /\ a <> e /\ b <> c /\ b <> d /\ b <> e /\ c <> d /\ c <> e /\ d <> e.
Proof.
  intros H. repeat match goal with H : NoDup (_ :: _) |- _ => inversion H; clear H; subst end.
  cbn [In] in *. intuition congruence.
Qed.

Lemma notin5 (r a b c d e : reg) : ~ In r [a; b; c; d; e] -> r <> a /\ r <> b /\ r <> c /\ r <> d /\ r <> e.
Proof. cbn [In]. intuition congruence. Qed.

Lemma add_mod_mid a b c M : (a + b mod M + c) mod M = (a + b + c) mod M.
Proof.
  replace (a + b mod M + c) with (a + c + b mod M) by ring.
  rewrite Zplus_mod_idemp_r. f_equal. ring.
Qed.
Lemma add_mod_first3 a b c M : (a mod M + b + c) mod M = (a + b + c) mod M.
Proof.
  replace (a mod M + b + c) with (a mod M + (b + c)) by ring.
  rewrite Zplus_mod_idemp_l. f_equal. ring.
Qed.

Ltac solve_mod :=
  unfold u64, uwrap;
  change (1 mod 2 ^ 64) with 1; change (2 mod 2 ^ 64) with 2; change (4 mod 2 ^ 64) with 4;
  change (8 mod 2 ^ 64) with 8;
  rewrite ?Z.mul_0_l, ?Z.add_0_l, ?Z.add_0_r, ?Z.mul_1_r;
  repeat first [ rewrite Zplus_mod_idemp_l | rewrite Zplus_mod_idemp_r | rewrite Zmult_mod_idemp_l
               | rewrite Zmult_mod_idemp_r | rewrite add_mod_mid | rewrite add_mod_first3
               | rewrite Z.mod_mod by discriminate ];
  try reflexivity; f_equal; ring.

Ltac other_regs :=
  let x := fresh "x" in let Hx := fresh "Hx" in
  intros x Hx; apply notin5 in Hx; destruct Hx as (? & ? & ? & ? & ?); upd_simpl; reflexivity.

Lemma lowered_address_eq_lemma : forall m t f,
  fresh t m ->
  (m_index m <> None -> m_scale m = 1 \/ m_scale m = 2 \/ m_scale m = 4 \/ m_scale m = 8) ->
  match lower m t with
  | (is, Some r) =>
      u64 (fold_left cexec is f r) = mem_addr f m /\
      (forall x, ~ In x (temps_list t) -> fold_left cexec is f x = f x)
  | (_, None) => m_base m = None /\ m_index m = None /\ m_disp m = 0
  end.
Proof.
  intros m t f [Hnd [Hb Hi]] Hsc. destruct m as [ty disp base index scale]. cbn [m_base m_index m_disp m_scale] in *.
  unfold lower, mem_addr, temps_list in *. cbn [m_base m_index m_disp m_scale opt_val].
  destruct t as [td ts tsi tbi ta]. cbn [t_disp t_scale t_si t_bi t_addr] in *.
  apply nodup5 in Hnd. destruct Hnd as (N1 & N2 & N3 & N4 & N5 & N6 & N7 & N8 & N9 & N10).
  destruct base as [b|]; destruct index as [i|].
  - specialize (Hb b eq_refl). specialize (Hi i eq_refl).
    apply notin5 in Hb. apply notin5 in Hi. destruct Hb as (B1 & B2 & B3 & B4 & B5). destruct Hi as (I1 & I2 & I3 & I4 & I5).
    destruct (Hsc ltac:(discriminate)) as [E|[E|[E|E]]]; subst scale;
      destruct (Z.eqb_spec disp 0) as [D|D]; simpl; (split; [|other_regs]); upd_simpl; subst; solve_mod.
  - specialize (Hb b eq_refl). apply notin5 in Hb. destruct Hb as (B1 & B2 & B3 & B4 & B5).
    destruct (Z.eqb_spec disp 0) as [D|D]; simpl; (split; [|try reflexivity; other_regs]); upd_simpl; subst; solve_mod.
  - specialize (Hi i eq_refl). apply notin5 in Hi. destruct Hi as (I1 & I2 & I3 & I4 & I5).
    destruct (Hsc ltac:(discriminate)) as [E|[E|[E|E]]]; subst scale;
      destruct (Z.eqb_spec disp 0) as [D|D]; simpl; (split; [|try reflexivity; other_regs]); upd_simpl; subst; solve_mod.
  - destruct (Z.eqb_spec disp 0) as [D|D]; simpl.
    + auto.
    + split; [|other_regs]. upd_simpl. solve_mod.
Qed.

(* ---------------------------------------------------------------- 2. alloca consolidation *)

Lemma natural_alignment_pos s : 0 < s -> 0 < natural_alignment s.
Proof.
  unfold natural_alignment. intros.
  destruct (Z.leb_spec s 2); [lia|]. destruct (Z.leb_spec s 4); [lia|]. destruct (Z.leb_spec s 8); lia.
Qed.

Lemma norm_size_pos s : 0 < norm_size s.
Proof. unfold norm_size. destruct (Z.leb_spec s 0); lia. Qed.

Lemma round_up_ge x a : 0 < a -> x <= (x + a - 1) / a * a.
Proof.
  intros Ha. pose proof (Z.div_mod (x + a - 1) a ltac:(lia)) as E.
  pose proof (Z.mod_pos_bound (x + a - 1) a Ha) as B.
  set (q := (x + a - 1) / a) in *. set (r := (x + a - 1) mod a) in *. clearbody q r.
  replace (q * a) with (a * q) by ring. lia.
Qed.

Lemma size_align_ge s : norm_size s <= fst (size_align s) /\ 0 < snd (size_align s).
Proof.
  unfold size_align. cbn [fst snd]. pose proof (norm_size_pos s) as Hp.
  pose proof (natural_alignment_pos _ Hp) as Ha. split; [now apply round_up_ge | assumption].
Qed.

(* the blocks given out by the loop: (offset, requested size) *)
Definition blocks_of (offs : list Z) (sizes : list Z) : list (Z * Z) :=
  combine offs (map norm_size sizes).

Lemma merge_chain : forall sizes overall max_align,
  0 < max_align ->
  let '(offs, tot) := merge overall max_align sizes in
  length offs = length sizes /\ chain overall (blocks_of offs sizes) tot.
Proof.
  induction sizes as [|s r IH]; intros overall max_align Hm; cbn [merge].
  - cbn. split; [reflexivity | lia].
  - destruct (size_align s) as [sz a] eqn:Esa.
    pose proof (size_align_ge s) as [Hge Hapos]. rewrite Esa in Hge, Hapos. cbn [fst snd] in Hge, Hapos.
    set (overall' := (overall + a - 1) / a * a).
    set (max' := if max_align <? a then a else max_align).
    assert (Hmax' : 0 < max') by (unfold max'; destruct (max_align <? a); lia).
    assert (Hov : overall <= overall') by (unfold overall'; now apply round_up_ge).
    specialize (IH (overall' + sz) max' Hmax').
    destruct (merge (overall' + sz) max' r) as [offs tot]. destruct IH as [Hlen Hch].
    split; [cbn; now rewrite Hlen|].
    unfold blocks_of. cbn [map combine chain]. pose proof (norm_size_pos s).
    repeat split; try lia.
    (* the rest of the chain starts at overall' + sz >= overall' + requested size *)
    clear - Hch Hge. fold (blocks_of offs r).
    destruct (blocks_of offs r) as [|[o z] rest]; cbn [chain] in *; [lia|].
    destruct Hch as (H1 & H2 & H3). repeat split; try lia; assumption.
Qed.

Lemma consolidate_chain : forall s0 rest,
  let '(offs, tot) := consolidate s0 rest in
  length offs = S (length rest) /\ chain 0 (blocks_of offs (s0 :: rest)) tot.
Proof.
  intros s0 rest. unfold consolidate.
  destruct (size_align s0) as [sz0 a0] eqn:E0.
  pose proof (size_align_ge s0) as [Hge Hapos]. rewrite E0 in Hge, Hapos. cbn [fst snd] in Hge, Hapos.
  pose proof (merge_chain rest sz0 a0 Hapos) as H.
  destruct (merge sz0 a0 rest) as [offs tot]. destruct H as [Hlen Hch].
  split; [cbn; now rewrite Hlen|].
  unfold blocks_of. cbn [map combine chain]. pose proof (norm_size_pos s0).
  repeat split; try lia. fold (blocks_of offs rest).
  destruct (blocks_of offs rest) as [|[o z] r']; cbn [chain] in *; [lia|].
  destruct Hch as (H1 & H2 & H3). repeat split; try lia; assumption.
Qed.

(* a chain is pairwise disjoint and inside [lo, hi) *)
Lemma chain_bounds : forall bl lo hi, chain lo bl hi ->
  forall off sz, In (off, sz) bl -> lo <= off /\ off + sz <= hi /\ 0 < sz.
Proof.
  induction bl as [|[o z] r IH]; intros lo hi H off sz Hin; [contradiction|].
  cbn [chain] in H. destruct H as (H1 & H2 & H3). destruct Hin as [E|Hin].
  - inversion E; subst. repeat split; try lia.
    clear - H3. revert H3. generalize (off + sz). induction r as [|[o z] r IH]; cbn [chain]; intros; [lia|].
    destruct H3 as (A & B & C). specialize (IH _ C). lia.
  - specialize (IH _ _ H3 _ _ Hin). lia.
Qed.

Lemma chain_disjoint : forall bl lo hi, chain lo bl hi ->
  forall i j o1 s1 o2 s2, (i < j)%nat -> nth_error bl i = Some (o1, s1) -> nth_error bl j = Some (o2, s2) ->
  o1 + s1 <= o2.
Proof.
  induction bl as [|[o z] r IH]; intros lo hi H i j o1 s1 o2 s2 Hij Hi Hj.
  - destruct i; discriminate.
  - cbn [chain] in H. destruct H as (H1 & H2 & H3). destruct j as [|j]; [lia|]. cbn [nth_error] in Hj.
    destruct i as [|i].
    + cbn in Hi. inversion Hi; subst. apply nth_error_In in Hj.
      pose proof (chain_bounds _ _ _ H3 _ _ Hj). lia.
    + cbn [nth_error] in Hi. apply (IH _ _ H3 i j o1 s1 o2 s2); [lia | exact Hi | exact Hj].
Qed.

(* every block sits at a multiple of its own natural alignment *)
Definition aligned_block (off s : Z) : Prop := off mod natural_alignment (norm_size s) = 0.

Lemma merge_aligned : forall sizes overall max_align,
  Forall2 aligned_block (fst (merge overall max_align sizes)) sizes.
Proof.
  induction sizes as [|s r IH]; intros overall max_align; cbn [merge].
  - constructor.
  - destruct (size_align s) as [sz a] eqn:Esa.
    assert (Ea : a = natural_alignment (norm_size s)) by (unfold size_align in Esa; now inversion Esa).
    specialize (IH ((overall + a - 1) / a * a + sz) (if max_align <? a then a else max_align)).
    destruct (merge ((overall + a - 1) / a * a + sz) (if max_align <? a then a else max_align) r) as [offs tot].
    cbn [fst] in *. constructor; [|exact IH].
    unfold aligned_block. rewrite <- Ea. apply Z.mod_mul.
    pose proof (natural_alignment_pos _ (norm_size_pos s)). lia.
Qed.

Lemma consolidate_aligned : forall s0 rest,
  Forall2 aligned_block (fst (consolidate s0 rest)) (s0 :: rest).
Proof.
  intros s0 rest. unfold consolidate. destruct (size_align s0) as [sz0 a0].
  pose proof (merge_aligned rest sz0 a0) as H. destruct (merge sz0 a0 rest) as [offs tot].
  cbn [fst] in *. constructor; [|exact H]. unfold aligned_block. apply Z.mod_0_l.
  pose proof (natural_alignment_pos _ (norm_size_pos s0)). lia.
Qed.

(* what the snapshot did (only re-aligned when the alignment grew): after (16, 1) an 8-byte block got
   offset 17; with the code of 09d7e093 it gets 24 *)
Lemma consolidate_example : fst (consolidate 16 [1; 8]) = [0; 16; 24].
Proof. reflexivity. Qed.

(* ---------------------------------------------------------------- 3. x op 1 / x op 0 => mov *)

Lemma u32_small z : 0 <= z < 2 ^ 32 -> u32 z = z.
Proof. intros. unfold u32, uwrap. now apply Z.mod_small. Qed.

Lemma u32_range z : 0 <= u32 z < 2 ^ 32.
Proof. unfold u32, uwrap. apply Z.mod_pos_bound. reflexivity. Qed.

Lemma u32_idem z : u32 (u32 z) = u32 z.
Proof. unfold u32. apply uwrap_idem. lia. Qed.

Lemma sdivw_one n a : 0 < n -> 1 < 2 ^ (n - 1) \/ True -> 0 <= a < 2 ^ n -> 2 <= n -> sdivw n a 1 = Some a.
Proof.
  intros Hn _ Ha Hn2. unfold sdivw.
  assert (H1 : swrap n 1 = 1).
  { apply swrap_id; [lia|]. unfold in_s. split.
    - pose proof (Z.pow_pos_nonneg 2 (n - 1) ltac:(lia) ltac:(lia)). lia.
    - apply Z.pow_gt_1; lia. }
  rewrite H1. cbn [Z.eqb]. rewrite andb_false_r. unfold cdiv. rewrite Z.quot_1_r.
  rewrite uwrap_swrap by lia. f_equal. apply uwrap_id. exact Ha.
Qed.

Lemma one_ok_sound : forall o, one_ok o = true -> acts_as_mov o 1.
Proof.
  intros o H. destruct o; try discriminate H; (split; [reflexivity|]).
  - (* MUL *) exists K64, K64. split; [reflexivity|]. intros y Hy. exists (u64 (y * 1)). split; [reflexivity|].
    cbn [mask]. rewrite Z.mul_1_r. now apply u64_small.
  - (* MULS *) exists K32, K32. split; [reflexivity|]. intros y Hy. eexists. split; [reflexivity|].
    cbn [mask]. change (u32 1) with 1. rewrite Z.mul_1_r. now rewrite !u32_idem.
  - (* DIV *) exists K64, K64. split; [reflexivity|]. intros y Hy. exists y. split; [|reflexivity].
    cbn [mask int_val]. apply sdivw_one; try lia; auto.
  - (* DIVS *) exists K32, K32. split; [reflexivity|]. intros y Hy. exists (u32 y). split; [|cbn [mask]; now rewrite u32_idem].
    cbn [mask]. change (u32 1) with 1. cbn [int_val].
    apply sdivw_one; try lia; auto. apply u32_range.
Qed.

Lemma shl_zero n a : 0 <= n -> 0 <= a < 2 ^ n -> shl n a 0 = a.
Proof. intros. unfold shl. rewrite Z.pow_0_r, Z.mul_1_r. now apply uwrap_id. Qed.
Lemma lshr_zero n a : 0 <= n -> 0 <= a < 2 ^ n -> lshr n a 0 = a.
Proof. intros. unfold lshr. rewrite Z.pow_0_r, Z.div_1_r. now apply uwrap_id. Qed.
Lemma ashr_zero n a : 0 < n -> 0 <= a < 2 ^ n -> uwrap n (ashr n a 0) = a.
Proof. intros. unfold ashr. rewrite Z.pow_0_r, Z.div_1_r. rewrite uwrap_swrap by lia. now apply uwrap_id. Qed.

Lemma zero_ok_sound : forall o, zero_ok o = true -> acts_as_mov o 0.
Proof.
  intros o H. destruct o; try discriminate H; (split; [reflexivity|]).
  all: try (exists K64, K64; split; [reflexivity|]; intros y Hy; exists y; split; [|reflexivity];
            cbn [mask int_val];
            first [ now rewrite Z.add_0_r, u64_small by assumption
                  | now rewrite Z.sub_0_r, u64_small by assumption
                  | now rewrite Z.lor_0_r | now rewrite Z.lxor_0_r
                  | unfold shlw; cbn; now rewrite shl_zero by (try lia; assumption)
                  | unfold ashrw; cbn; now rewrite ashr_zero by (try lia; assumption)
                  | unfold lshrw; cbn; now rewrite lshr_zero by (try lia; assumption) ]).
  all: exists K32, K32; split; [reflexivity|]; intros y Hy; exists (u32 y); (split; [|cbn [mask]; now rewrite u32_idem]);
       cbn [mask]; change (u32 0) with 0; cbn [int_val];
       pose proof (u32_range y);
       first [ now rewrite Z.add_0_r, u32_idem
             | now rewrite Z.sub_0_r, u32_idem
             | now rewrite Z.lor_0_r | now rewrite Z.lxor_0_r
             | unfold shlw; cbn; now rewrite shl_zero by (try lia; assumption)
             | unfold ashrw; cbn; now rewrite ashr_zero by (try lia; assumption)
             | unfold lshrw; cbn; now rewrite lshr_zero by (try lia; assumption) ].
Qed.

(* the snapshot's list also had MULO/MULOS: replacing them loses the overflow flag *)
Lemma mulo_is_not_a_mov : ~ acts_as_mov MULO 1 /\ ~ acts_as_mov MULOS 1.
Proof. split; intros [H _]; discriminate H. Qed.

(* ---------------------------------------------------------------- 4. return merging *)

Lemma ret_ext_matches_conv : forall t o k, ret_ext t = Some (o, k) ->
  forall z, int_val o [mask k z] = ext_ty t z.
Proof.
  intros t o k H z. destruct t; inversion H; subst; cbn [mask int_val ext_ty]; f_equal.
  - unfold s8, u8. now rewrite swrap_uwrap by lia.
  - unfold u8. now rewrite uwrap_idem by lia.
  - unfold s16, u16. now rewrite swrap_uwrap by lia.
  - unfold u16. now rewrite uwrap_idem by lia.
  - unfold s32, u32. now rewrite swrap_uwrap by lia.
  - unfold u32. now rewrite uwrap_idem by lia.
Qed.

(* sequential moves into fresh, pairwise distinct registers act as one parallel assignment *)
Lemma seq_moves_other : forall ms f x, ~ In x (map fst ms) -> seq_moves ms f x = f x.
Proof.
  induction ms as [|[d s] r IH]; intros f x Hx; [reflexivity|].
  unfold seq_moves in *. cbn [fold_left fst snd map In] in *.
  rewrite IH by tauto. apply upd_other. intuition congruence.
Qed.

Lemma seq_moves_parallel : forall ms f,
  NoDup (map fst ms) -> (forall d, In d (map fst ms) -> ~ In d (map snd ms)) ->
  forall d s, In (d, s) ms -> seq_moves ms f d = f s.
Proof.
  induction ms as [|[d0 s0] r IH]; intros f Hnd Hds d s Hin; [contradiction|].
  cbn [map fst snd] in Hnd, Hds. inversion Hnd as [|? ? Hni Hnd']; subst.
  destruct Hin as [E|Hin].
  - inversion E; subst. change (seq_moves r (upd f d (f s)) d = f s).
    rewrite seq_moves_other by assumption. apply upd_same.
  - change (seq_moves r (upd f d0 (f s0)) d = f s).
    rewrite (IH (upd f d0 (f s0)) Hnd') with (s := s).
    + apply upd_other. intro E; subst s.
      apply (Hds d0 (or_introl eq_refl)). right. exact (in_map snd _ _ Hin).
    + intros x Hx Hx'. apply (Hds x (or_intror Hx)). right. assumption.
    + exact Hin.
Qed.

(* ... and not when a destination is also a source: ret a,b / ret b,a of the snapshot *)
Lemma seq_moves_overlap_refuted :
  exists ms f d s, In (d, s) ms /\ seq_moves ms f d <> f s.
Proof.
  exists [(1%positive, 2%positive); (2%positive, 1%positive)], (fun r => Zpos r), 2%positive, 1%positive.
  split; [right; left; reflexivity | vm_compute; discriminate].
Qed.

(* ---- parameter extensions are prepended: no jump of the body can reach them again ---------------- *)

Lemma find_label_from : forall l body n,
  find_label l body n = option_map (fun p => (n + p)%nat) (find_label l body 0%nat).
Proof.
  intros l body. induction body as [|i r IH]; intros n; [reflexivity|].
  cbn [find_label]. destruct (is_label i l).
  - cbn. f_equal. lia.
  - rewrite (IH (S n)), (IH 1%nat). destruct (find_label l r 0%nat); cbn; [f_equal; lia | reflexivity].
Qed.

Lemma find_label_prepend : forall exts body l,
  Forall not_a_label exts ->
  find_label l (prepend_exts exts body) 0%nat
  = option_map (fun p => (length exts + p)%nat) (find_label l body 0%nat).
Proof.
  unfold prepend_exts. induction exts as [|e r IH]; intros body l H.
  - cbn. destruct (find_label l body 0%nat); reflexivity.
  - inversion H as [|? ? He Hr]; subst. cbn [app find_label length]. rewrite (He l).
    rewrite find_label_from, (IH body l Hr).
    destruct (find_label l body 0%nat); cbn; [f_equal; lia | reflexivity].
Qed.

(* in Sem: a jump in the function with the extensions in front lands where the same jump of the
   original body lands, shifted by the number of extensions - in particular behind all of them *)
Lemma goto_prepend_exts : forall exts f l,
  Forall not_a_label exts ->
  goto (MkFrame (prepend_exts exts (fr_body f)) (fr_res f) (fr_pc f) (fr_regs f) (fr_blocks f) (fr_dsts f)) l
  = match goto f l with
    | Ok f' => Ok (MkFrame (prepend_exts exts (fr_body f)) (fr_res f) (length exts + fr_pc f')
                           (fr_regs f) (fr_blocks f) (fr_dsts f))
    | Er e => Er e
    end.
Proof.
  intros exts f l H. unfold goto. cbn [fr_body].
  rewrite (find_label_prepend exts (fr_body f) l H).
  destruct (find_label l (fr_body f) 0%nat); reflexivity.
Qed.

Lemma prepend_exts_targets_behind : forall exts body l pc,
  Forall not_a_label exts ->
  find_label l (prepend_exts exts body) 0%nat = Some pc ->
  (length exts <= pc)%nat /\ find_label l body 0%nat = Some (pc - length exts)%nat.
Proof.
  intros exts body l pc H E. rewrite (find_label_prepend exts body l H) in E.
  destruct (find_label l body 0%nat) as [p|]; cbn in E; [|discriminate].
  inversion E; subst. split; [lia | f_equal; lia].
Qed.

(* putting the extension behind a leading label instead: the label stays the target (pc 0) and the
   extension is the very next insn - every jump back to the label runs it again *)
Lemma ext_after_head_label_refuted :
  exists e body l pc, not_a_label e /\ find_label l body 0%nat = Some pc /\
    find_label l (insert_after_head e body) 0%nat = Some pc /\
    nth_error (insert_after_head e body) (S pc) = Some e.
Proof.
  exists (I UEXT8 [Oreg 1%positive; Oreg 1%positive]),
         [I LABEL [Olabel 1%positive]; I ADD [Oreg 1%positive; Oreg 1%positive; Oint 100];
          I JMP [Olabel 1%positive]], 1%positive, 0%nat.
  split; [intro l; reflexivity | repeat split; reflexivity].
Qed.

(* ---------------------------------------------------------------- 3b. strength reduction by 2^n *)
Lemma strength_ok_sound : forall p, strength_ok p = true -> acts_as_shift (fst p) (snd p).
Proof.
  intros [o o'] H. destruct o; try discriminate H; destruct o'; try discriminate H;
    cbn [fst snd]; (split; [reflexivity|]); (split; [reflexivity|]); intros y n Hy Hn.
  - (* MUL -> LSH *) split; [cbn [int_val]; discriminate|]. apply mul_pow2_is_lsh. lia.
  - (* UDIV -> URSH *) split; [|apply udiv_pow2_is_ursh; [exact Hy|lia]].
    cbn [int_val]. unfold udivw.
    assert (0 < 2 ^ n) by (apply Z.pow_pos_nonneg; lia).
    destruct (Z.eqb_spec (2 ^ n) 0); [lia|discriminate].
Qed.

(* an arithmetic right shift rounds towards minus infinity, DIV truncates: -9 / 8 *)
Lemma div_is_not_rsh : ~ acts_as_shift DIV RSH.
Proof.
  intros (_ & _ & H). destruct (H (2 ^ 64 - 9) 3) as [_ E]; [vm_compute; split; congruence|lia|].
  vm_compute in E. discriminate E.
Qed.

Lemma strength_ok_nonvacuous : forallb strength_ok [(MUL, LSH); (UDIV, URSH)] = true.
Proof. reflexivity. Qed.

(* The three instruction shapes emitted by operand lowering, executed by the reference semantics
   (Sem.exec_insn), do what C04/Simplify.cexec says: this connects lowered_address_eq to Sem. *)
From Coq Require Import ZArith List Bool FMapPositive.
From MirV Require Import Base.W64 Mir.Opcode Mir.Syntax Mir.Sem C04.Simplify.
Import ListNotations.
Local Open Scope Z_scope.

Section WithSem.
Variable isem : insn_sem.
Variable prog : program.
Variable regions : list block.
(* the only facts about the instruction semantics that are used (true of C01.InsnSem.mir_isem, see
   add_mul_of_mir_isem in Properties_C04) *)
Hypothesis sem_add : forall a b, sem_val isem ADD [a; b] = Some (u64 (a + b)).
Hypothesis sem_mul : forall a b, sem_val isem MUL [a; b] = Some (u64 (a * b)).

Definition reg_is (f : frame) (r : reg) (z : Z) : Prop := PositiveMap.find r (fr_regs f) = Some (V z Def).

Definition after (s : state) (f : frame) (d : reg) (z : Z) : state :=
  upd_top s (next_pc (set_reg f d (V z Def))) (st_mem s) None.

Lemma exec_movimm : forall s f d z,
  exec_insn isem prog regions s f (to_insn (CMovImm d z)) = Next (upd_top s (next_pc (set_reg f d (V (u64 z) Def))) (st_mem s) None).
Proof. intros. reflexivity. Qed.

Lemma exec_add : forall s f d a b va vb, reg_is f a va -> reg_is f b vb ->
  exec_insn isem prog regions s f (to_insn (CAdd d a b)) = Next (after s f d (u64 (u64 (va + vb)))).
Proof.
  intros s f d a b va vb Ha Hb. unfold reg_is in *.
  cbn [to_insn exec_insn val_op br_op]. unfold exec_val.
  cbn [read_ops read_op]. unfold get_reg. rewrite Ha, Hb. cbn [of_opt bind has_ptr existsb v_tag orb use_all use_as v_bits].
  rewrite sem_add. cbn [of_opt bind mk_result ovf_op write_op fst snd]. reflexivity.
Qed.

Lemma exec_mul : forall s f d a b va vb, reg_is f a va -> reg_is f b vb ->
  exec_insn isem prog regions s f (to_insn (CMul d a b)) = Next (after s f d (u64 (u64 (va * vb)))).
Proof.
  intros s f d a b va vb Ha Hb. unfold reg_is in *.
  cbn [to_insn exec_insn val_op br_op]. unfold exec_val.
  cbn [read_ops read_op]. unfold get_reg. rewrite Ha, Hb. cbn [of_opt bind has_ptr existsb v_tag orb use_all use_as v_bits].
  rewrite sem_mul. cbn [of_opt bind mk_result ovf_op write_op fst snd]. reflexivity.
Qed.

End WithSem.

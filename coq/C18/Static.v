(* C18: the record the statics translator (tools/tr_c18_statics.py) fills in. Definitions only. *)
From Coq Require Import List String NArith Bool.
Import ListNotations.
Local Open Scope string_scope.

Record static_obj := {
  so_unit : string;          (* translation unit: mir | mir-gen | c2mir *)
  so_name : string;          (* symbol (function-local statics carry gcc's ".N" suffix) *)
  so_section : string;       (* writable section it was placed in *)
  so_size : N;
  so_tls : bool;             (* thread-local storage: one instance per thread *)
  so_writers : list string;     (* functions with an instruction storing to it *)
  so_src_writes : list string;  (* "file:function" with a syntactic assignment to it / its elements *)
  so_addr_takers : list string; (* functions taking its address *)
  so_readers : list string;
  so_data_refs : list string    (* data objects whose initialiser points to it *)
}.

(* C18: proofs about the context-independence model (Contexts.v). *)
From Coq Require Import List String ZArith NArith Bool Lia Arith.
From MirV Require Import C18.Static C18.Contexts.
Import ListNotations.
Local Open Scope string_scope.

(* ---------- from the regenerated fact to empty footprints (generic in the object list) *)
Section FootprintP.
  Variable audited : list (string * string).

  Lemma obj_free_no_write o f : obj_write_free audited o = true -> may_write audited f o = false.
  Proof.
    unfold obj_write_free, may_write. destruct (so_tls o); simpl; [reflexivity|].
    unfold src_writer.
    destruct (so_writers o); [|discriminate]. destruct (so_src_writes o); [|discriminate]. simpl.
    intros H. destruct (escapes o); simpl in *; [|reflexivity].
    rewrite H. reflexivity.
  Qed.

  Lemma write_free_footprint objs :
    statics_write_free audited objs = true -> forall f, writes_of audited objs f = [].
  Proof.
    unfold statics_write_free, writes_of. intros H f. rewrite forallb_forall in H.
    induction objs as [|o r IH]; simpl; [reflexivity|].
    rewrite (obj_free_no_write o f) by (apply H; left; reflexivity).
    apply IH. intros x Hx. apply H. right. exact Hx.
  Qed.

  Lemma write_free_no_offenders objs :
    statics_write_free audited objs = true <-> offenders audited objs = [].
  Proof.
    unfold statics_write_free, offenders. induction objs as [|o r IH]; simpl; [tauto|].
    destruct (obj_write_free audited o); simpl.
    - exact IH.
    - split; discriminate.
  Qed.
End FootprintP.

(* ---------- non-interference *)
Section SysP.
  Variable Ctx : Type.
  Variable footprint : string -> list string.
  Notation step := (step Ctx).
  Notation sys := (sys Ctx).

  Definition sh_eq (a b : shared) : Prop := forall x, a x = b x.

  Hypothesis no_shared_writes : forall f, footprint f = [].

  Lemma step_keeps_shared (s : step) sh c : step_ok Ctx footprint s -> sh_eq (fst (act Ctx s sh c)) sh.
  Proof. intros [F _] x. apply F. rewrite no_shared_writes. intros []. Qed.

  Lemma exec1_shared (st : sys) i (s : step) : step_ok Ctx footprint s ->
    sh_eq (fst (exec1 Ctx st (i, s))) (fst st).
  Proof.
    intros Hs. unfold exec1. pose proof (step_keeps_shared s (fst st) (snd st i) Hs) as H.
    destruct (act Ctx s (fst st) (snd st i)) as [sh' c']. exact H.
  Qed.

  Lemma exec1_other (st : sys) i j (s : step) : j <> i -> snd (exec1 Ctx st (i, s)) j = snd st j.
  Proof.
    intros Hne. unfold exec1. destruct (act Ctx s (fst st) (snd st i)) as [sh' c']. simpl. unfold upd.
    destruct (Nat.eqb_spec j i); [contradiction | reflexivity].
  Qed.

  Lemma exec1_own (st st' : sys) i (s : step) : step_ok Ctx footprint s ->
    sh_eq (fst st) (fst st') -> snd st i = snd st' i ->
    snd (exec1 Ctx st (i, s)) i = snd (exec1 Ctx st' (i, s)) i.
  Proof.
    intros [_ E] Hsh Hc. unfold exec1. rewrite <- Hc.
    pose proof (E (fst st) (fst st') (snd st i) Hsh) as H.
    destruct (act Ctx s (fst st) (snd st i)) as [sh1 c1].
    destruct (act Ctx s (fst st') (snd st i)) as [sh2 c2]. simpl in *. unfold upd.
    rewrite Nat.eqb_refl. exact H.
  Qed.

  Opaque exec1.
  (* the interleaved run and the run of thread i alone, started from related states *)
  Lemma noninterference_gen : forall (sched : list (nat * step)) (st st' : sys) i,
    Forall (fun p => step_ok Ctx footprint (snd p)) sched ->
    sh_eq (fst st) (fst st') -> snd st i = snd st' i ->
    result Ctx i (run Ctx sched st) = result Ctx i (run Ctx (alone Ctx i sched) st').
  Proof.
    induction sched as [|[j s] r IH]; intros st st' i Hok Hsh Hc; simpl.
    - exact Hc.
    - inversion Hok as [|? ? Hs Hr]; subst. simpl in Hs.
      destruct (Nat.eqb_spec j i) as [->|Hne]; simpl.
      + apply IH; auto.
        * intros x. rewrite (exec1_shared st i s Hs x), (exec1_shared st' i s Hs x). apply Hsh.
        * apply exec1_own; auto.
      + apply IH; auto.
        * intros x. rewrite (exec1_shared st j s Hs x). apply Hsh.
        * rewrite exec1_other by auto. exact Hc.
  Qed.

  Theorem noninterference_lemma : forall (sched : list (nat * step)) (st : sys) i,
    Forall (fun p => step_ok Ctx footprint (snd p)) sched ->
    result Ctx i (run Ctx sched st) = result Ctx i (run Ctx (alone Ctx i sched) st).
  Proof. intros. apply noninterference_gen; auto. intros x; reflexivity. Qed.

  (* any two interleavings of the same per-thread step lists give every thread the same result *)
  Theorem schedule_independence_lemma : forall (s1 s2 : list (nat * step)) (st : sys),
    Forall (fun p => step_ok Ctx footprint (snd p)) s1 ->
    Forall (fun p => step_ok Ctx footprint (snd p)) s2 ->
    (forall i, alone Ctx i s1 = alone Ctx i s2) ->
    forall i, result Ctx i (run Ctx s1 st) = result Ctx i (run Ctx s2 st).
  Proof.
    intros s1 s2 st H1 H2 E i.
    rewrite (noninterference_lemma s1 st i H1), (noninterference_lemma s2 st i H2), (E i). reflexivity.
  Qed.

  (* steps of different threads commute (observed on every context and on the shared contents) *)
  Theorem steps_commute_lemma : forall (st : sys) i j (s t : step),
    i <> j -> step_ok Ctx footprint s -> step_ok Ctx footprint t ->
    let a := exec1 Ctx (exec1 Ctx st (i, s)) (j, t) in
    let b := exec1 Ctx (exec1 Ctx st (j, t)) (i, s) in
    sh_eq (fst a) (fst b) /\ forall k, snd a k = snd b k.
  Proof.
    intros st i j s t Hne Hs Ht a b. split.
    - intros x. unfold a, b.
      rewrite (exec1_shared _ j t Ht x), (exec1_shared _ i s Hs x),
        (exec1_shared _ i s Hs x), (exec1_shared _ j t Ht x). reflexivity.
    - intros k. unfold a, b.
      destruct (Nat.eq_dec k i) as [->|Hki]; [|destruct (Nat.eq_dec k j) as [->|Hkj]].
      + rewrite (exec1_other _ j i t) by auto.
        apply exec1_own; auto.
        * intros x. symmetry. apply (exec1_shared st j t Ht x).
        * symmetry. apply exec1_other. auto.
      + rewrite (exec1_other (exec1 Ctx st (j, t)) i j s) by auto.
        apply exec1_own; auto.
        * intros x. apply (exec1_shared st i s Hs x).
        * apply exec1_other. auto.
      + rewrite !exec1_other by auto. reflexivity.
  Qed.
End SysP.

Transparent exec1.
(* ---------- the hypothesis matters: one shared counter breaks it *)
Definition bump : step Z :=
  {| fn := "MIR_new_module";
     act := fun sh c => ((fun x => if String.eqb x "counter" then (sh x + 1)%Z else sh x), sh "counter") |}.

Example interference_with_a_shared_counter :
  let st : sys Z := ((fun _ => 0%Z), (fun _ => 0%Z)) in
  result Z 1 (run Z [(0, bump); (1, bump)] st) = 1%Z /\
  result Z 1 (run Z (alone Z 1 [(0, bump); (1, bump)]) st) = 0%Z.
Proof. split; reflexivity. Qed.

Example bump_respects_its_footprint :
  step_ok Z (fun f => if String.eqb f "MIR_new_module" then ["counter"] else []) bump.
Proof.
  split.
  - intros sh c x Hx. simpl in *. destruct (String.eqb_spec x "counter"); [|reflexivity].
    exfalso. apply Hx. left. auto.
  - intros sh sh' c H. simpl. apply H.
Qed.

(* C18: objects in writable sections whose address is taken or that are pointed to by another
   table, audited BY READING as never written after program load.  Everything not listed here
   whose address escapes makes [statics_write_free] false.  Each entry is additionally covered by the
   syntactic write scan of the translator (so_src_writes must be empty), by the TSan runs of
   harness/c18_threads.c, which execute the functions named in so_addr_takers concurrently, and --
   since a store through a pointer is invisible to both scans -- by the read-only pass of
   checks/c18.py: the library is linked as a shared object of its own, its .data/.bss pages are
   write-protected and API histories are run (harness/c18_rostatics.c); any store to any object
   of the statics list, audited or not, faults and is reported with the object's name.
   History: VOID_TYPE was listed here as "only its address is stored" while set_type_layout wrote
   its raw_size/align through u.ptr_type (fixed in /repo 9acaa19e, witness corpus/c18_sets.jsonl). *)
From Coq Require Import List String.
Import ListNotations.
Local Open Scope string_scope.

Definition audited : list (string * string) := [
  (* mir-alloc-default.c / mir-code-alloc-default.c: callback tables; _MIR_init stores their address
     in ctx->alloc / ctx->code_alloc, MIR_malloc & co. only read the function pointers *)
  ("mir", "default_alloc"); ("mir", "default_code_alloc");
  (* mir-gen-x86_64.c: nop byte strings indexed by padding length (target_translate reads) *)
  ("mir-gen", "nop_pats");
  (* mir-gen-x86_64.c: instruction pattern table; read by pattern matching and qsort's comparison.
     (Its max_insn_size field WAS written by every patterns_init: the translator's source scan reports
     that as so_src_writes, which the audit does not excuse.) *)
  ("mir-gen", "patterns");
  (* c2mir.c: VOID_TYPE is the pointee type of alloca results and label addresses; it is defined with its final
     layout (raw_size 1, align 1), so set_type_layout returns at once when it reaches it and never stores;
     err_struct is the parser's error sentinel, compared by address only *)
  ("c2mir", "VOID_TYPE"); ("c2mir", "err_struct");
  (* c2mir x86_64 headers as strings and their index table: read by add_standard_includes /
     get_include_fname into string streams, which copy characters out *)
  ("c2mir", "standard_includes"); ("c2mir", "float_str"); ("c2mir", "iso646_str"); ("c2mir", "limits_str");
  ("c2mir", "stdalign_str"); ("c2mir", "stdarg_str"); ("c2mir", "stdbool_str"); ("c2mir", "stddef_str");
  ("c2mir", "stdint_str"); ("c2mir", "stdnoreturn_str"); ("c2mir", "x86_64_mirc")
].

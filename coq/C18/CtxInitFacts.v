(* C18 (round 3, wave 6): the finite facts about the field lists regenerated from the current tree by
   tools/tr_c18_ctxinit.py (coq/gen/C18CtxInit.v): for struct MIR_context / _MIR_init, struct gen_ctx / MIR_gen_init,
   struct interp_ctx / interp_init, every field is stored to by the init function (or a function it calls), except the
   audited fields below, which a later API call writes before anything reads them. *)
From Coq Require Import List String ZArith Bool Arith.
From MirV Require Import C18.HeapInit gen.C18CtxInit.
Import ListNotations.
Local Open Scope string_scope.

(* audited by reading: (struct, field) not established by init on purpose *)
Definition deferred_fields : list (string * string) := [
  ("MIR_context", "gen_ctx");            (* written by MIR_gen_init before any read *)
  ("MIR_context", "c2mir_ctx");          (* written by c2mir_init before any read *)
  ("gen_ctx", "curr_func_item");         (* per-function working state: set at the start of every generation *)
  ("gen_ctx", "curr_cfg");
  ("gen_ctx", "curr_bb_index");
  ("gen_ctx", "curr_loop_node_index");
  ("gen_ctx", "full_escape_p");
  ("gen_ctx", "func_stack_slots_num");
  ("interp_ctx", "dispatch_label_tab");  (* filled by eval (ctx, NULL, ...) called from interp_init *)
  ("interp_ctx", "global_regs");         (* global hard-register variables: the program stores before it reads *)
  ("interp_ctx", "jret_addr")            (* stored by the insn preceding its only read *)
].

Definition in_strs (x : string) (l : list string) : bool := existsb (String.eqb x) l.
Definition is_deferred (sn f : string) : bool :=
  existsb (fun p => String.eqb (fst p) sn && String.eqb (snd p) f) deferred_fields.

(* fields are numbered by their position in the struct *)
Definition positions (sel : string -> bool) (fields : list string) : list nat :=
  map fst (filter (fun p => sel (snd p)) (combine (seq 0 (List.length fields)) fields)).

(* the stores of the init function (the stored values do not matter for independence) *)
Definition init_stores (cs : ctx_struct) : list (nat * Z) :=
  map (fun i => (i, 0%Z)) (positions (fun f => in_strs f (cs_written cs)) (cs_fields cs)).

(* the fields whose contents the library's behaviour may depend on: all but the audited ones *)
Definition read_fields (cs : ctx_struct) : list nat :=
  positions (fun f => negb (is_deferred (cs_name cs) f)) (cs_fields cs).

Definition struct_established (cs : ctx_struct) : bool :=
  negb (Nat.eqb (List.length (cs_fields cs)) 0) && covers (init_stores cs) (read_fields cs).

Lemma all_established : forallb struct_established ctx_structs = true.
Proof. vm_compute. reflexivity. Qed.

Lemma three_structs : List.length ctx_structs = 3%nat /\ (80 <= List.length (flat_map cs_fields ctx_structs))%nat.
Proof. split; vm_compute; [reflexivity | repeat constructor]. Qed.

(* a stale audit entry is an error too *)
Lemma deferred_exist :
  forallb (fun p => existsb (fun cs => String.eqb (cs_name cs) (fst p) && in_strs (snd p) (cs_fields cs)) ctx_structs)
          deferred_fields = true.
Proof. vm_compute. reflexivity. Qed.

Lemma context_heap_independent_lemma :
  forall cs, In cs ctx_structs ->
    forall (Obs : Type) (beh : block -> Obs),
      (forall b1 b2, agree (read_fields cs) b1 b2 -> beh b1 = beh b2) ->
      forall b1 b2, List.length b1 = List.length b2 ->
        beh (run_init (init_stores cs) b1) = beh (run_init (init_stores cs) b2).
Proof.
  intros cs Hin Obs beh Hb b1 b2 HL.
  pose proof all_established as A. rewrite forallb_forall in A. specialize (A cs Hin).
  unfold struct_established in A. apply andb_true_iff in A. destruct A as [_ C].
  eapply behaviour_independent_lemma; eauto.
Qed.

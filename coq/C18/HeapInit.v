(* C18 (round 3, wave 6): contexts are not coupled through the heap.

   A context lives in a block obtained from the user's allocator (MIR_malloc, not calloc): the block
   arrives with arbitrary bytes -- in particular the bytes a previously finished context left there.
   [init] is a list of stores (field, value); everything the library does afterwards is a function of
   the block's fields.  The context's behaviour is independent of what the allocator returned exactly
   when init stores to every field that is ever read; a single unwritten, read field makes two contexts
   (the finished one that left its bytes, and the new one) interfere.  Definitions and lemmas. *)
From Coq Require Import List ZArith Bool Lia.
Import ListNotations.

Definition block := list Z.                     (* field index -> contents *)

Fixpoint store (i : nat) (v : Z) (b : block) : block :=
  match b, i with
  | [], _ => []
  | _ :: r, O => v :: r
  | x :: r, S k => x :: store k v r
  end.

Definition run_init (ws : list (nat * Z)) (b : block) : block :=
  fold_left (fun acc w => store (fst w) (snd w) acc) ws b.

Definition written (ws : list (nat * Z)) (i : nat) : bool := existsb (fun w => Nat.eqb (fst w) i) ws.

(* every field among [reads] is stored to by init *)
Definition covers (ws : list (nat * Z)) (reads : list nat) : bool := forallb (written ws) reads.

(* two blocks agree on the fields in [reads] *)
Definition agree (reads : list nat) (b1 b2 : block) : Prop :=
  forall i, In i reads -> nth_error b1 i = nth_error b2 i.

Lemma store_length : forall i v b, length (store i v b) = length b.
Proof. induction i; destruct b; simpl; auto. Qed.

Lemma nth_store_same : forall i v b, i < length b -> nth_error (store i v b) i = Some v.
Proof. induction i; destruct b; simpl; intros; try lia; auto. apply IHi. lia. Qed.

Lemma nth_store_other : forall i j v b, i <> j -> nth_error (store i v b) j = nth_error b j.
Proof.
  induction i; destruct b; simpl; intros; auto.
  - destruct j; simpl; auto. congruence.
  - destruct j; simpl; auto.
Qed.

Lemma run_init_length : forall ws b, length (run_init ws b) = length b.
Proof.
  induction ws; simpl; intros; auto. unfold run_init in *. simpl. rewrite IHws. apply store_length.
Qed.

(* a field that init never stores to keeps the allocator's bytes *)
Lemma unwritten_inherited :
  forall ws b i, written ws i = false -> nth_error (run_init ws b) i = nth_error b i.
Proof.
  induction ws as [|[f v] ws IH]; simpl; intros b i H; auto.
  apply orb_false_iff in H. destruct H as [Hf Hw]. apply Nat.eqb_neq in Hf.
  unfold run_init in *. simpl. rewrite IH by exact Hw. apply nth_store_other. exact Hf.
Qed.

(* a field that init stores to no longer depends on the allocator's bytes *)
Lemma written_independent :
  forall ws b1 b2 i, length b1 = length b2 -> written ws i = true ->
    nth_error (run_init ws b1) i = nth_error (run_init ws b2) i.
Proof.
  induction ws as [|[f v] ws IH]; simpl; intros b1 b2 i HL H; try discriminate.
  unfold run_init in *. simpl.
  destruct (written ws i) eqn:W.
  - apply IH; auto. rewrite !store_length. exact HL.
  - fold (run_init ws (store f v b1)). fold (run_init ws (store f v b2)).
    rewrite !unwritten_inherited by exact W.
    rewrite orb_false_r in H. apply Nat.eqb_eq in H. subst f.
    destruct (Nat.lt_ge_cases i (length b1)) as [Hlt|Hge].
    + rewrite !nth_store_same; auto. lia.
    + assert (E1 : nth_error (store i v b1) i = None)
        by (apply nth_error_None; rewrite store_length; lia).
      assert (E2 : nth_error (store i v b2) i = None)
        by (apply nth_error_None; rewrite store_length; lia).
      congruence.
Qed.

Lemma init_establishes_lemma :
  forall ws reads b1 b2, length b1 = length b2 -> covers ws reads = true ->
    agree reads (run_init ws b1) (run_init ws b2).
Proof.
  intros ws reads b1 b2 HL HC i Hi. unfold covers in HC. rewrite forallb_forall in HC.
  apply written_independent; auto.
Qed.

(* behaviour = any function of the fields it reads *)
Lemma behaviour_independent_lemma :
  forall (Obs : Type) (beh : block -> Obs) ws reads,
    (forall b1 b2, agree reads b1 b2 -> beh b1 = beh b2) ->
    covers ws reads = true ->
    forall b1 b2, length b1 = length b2 -> beh (run_init ws b1) = beh (run_init ws b2).
Proof. intros. apply H. apply init_establishes_lemma; auto. Qed.

(* the dropped store: a read field that init does not write couples the new context to the bytes of
   the block's previous owner -- for every such init there are two heaps on which the contexts differ *)
Lemma init_gap_inherits_lemma :
  forall ws i n, i < n -> written ws i = false ->
    exists b1 b2, length b1 = n /\ length b2 = n /\
      nth_error (run_init ws b1) i = Some 0%Z /\ nth_error (run_init ws b2) i = Some 1%Z.
Proof.
  intros ws i n Hi HW.
  exists (repeat 0%Z n), (repeat 1%Z n). rewrite !repeat_length. repeat split; auto.
  - rewrite unwritten_inherited by exact HW. apply nth_error_repeat. exact Hi.
  - rewrite unwritten_inherited by exact HW. apply nth_error_repeat. exact Hi.
Qed.

(* non-vacuity: the redefinition-permission flag (field 1 of a 3-field block), read by load_module *)
Example init_ok_example :
  covers [(0%nat, 7%Z); (1%nat, 0%Z); (2%nat, 0%Z)] [0%nat; 1%nat; 2%nat] = true.
Proof. reflexivity. Qed.
Example init_dropped_example :
  covers [(0%nat, 7%Z); (2%nat, 0%Z)] [0%nat; 1%nat; 2%nat] = false
  /\ run_init [(0%nat, 7%Z); (2%nat, 0%Z)] [5%Z; 1%Z; 9%Z] = [7%Z; 1%Z; 0%Z]
  /\ run_init [(0%nat, 7%Z); (2%nat, 0%Z)] [0%Z; 0%Z; 0%Z] = [7%Z; 0%Z; 0%Z].
Proof. repeat split; reflexivity. Qed.

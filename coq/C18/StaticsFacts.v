(* C18: the finite facts about the statics list regenerated from the current tree. *)
From Coq Require Import List String ZArith NArith Bool.
From MirV Require Import C18.Static C18.Contexts C18.ContextsProofs C18.Audit gen.C18Statics.
Import ListNotations.
Local Open Scope string_scope.

Lemma statics_free : statics_write_free audited statics = true.
Proof. vm_compute. reflexivity. Qed.

Lemma statics_no_offenders : offenders audited statics = [].
Proof. apply write_free_no_offenders. exact statics_free. Qed.

Lemma statics_footprints_empty : forall f, writes_of audited statics f = [].
Proof. apply write_free_footprint. exact statics_free. Qed.

(* the list is not trivially empty: the translator sees the library's writable objects *)
Lemma statics_nonempty : (10 <= List.length statics)%nat.
Proof. vm_compute. repeat constructor. Qed.

(* every audited entry names an object that exists (a stale audit entry is an error too) *)
Lemma audit_entries_exist :
  forallb (fun p => existsb (fun o => String.eqb (fst p) (so_unit o) && String.eqb (snd p) (so_name o)) statics)
          audited = true.
Proof. vm_compute. reflexivity. Qed.

(* no reference to a libc function with process-wide hidden state (strtok, rand, localtime, setlocale, getenv, ...) *)
Lemma no_unsafe_libc : unsafe_libc_refs = [].
Proof. vm_compute. reflexivity. Qed.

(* C18: independent contexts do not interfere -- the model.  Definitions only.

   The process state is the contents of the library's static objects ([shared], by symbol name)
   plus one private state per thread (everything reachable from that thread's MIR_context_t).
   A step of thread i executes one library function [fn] on (shared, ctx_i).  Its footprint on
   the statics is NOT assumed: it is computed from the object list regenerated from the tree
   (coq/gen/C18Statics.v): a function may write exactly the objects that list it as a writer, plus
   every object whose address escapes and that has not been audited as a read-only table. *)
From Coq Require Import List String ZArith NArith Bool.
From MirV Require Import C18.Static.
Import ListNotations.
Local Open Scope string_scope.

Definition mem_str (x : string) (l : list string) : bool := existsb (String.eqb x) l.

(* address-taken / pointed-to objects audited by hand as read-only tables (C18/Audit.v gives the
   list for the current tree); anything else whose address escapes counts as writable by anyone *)
Section Footprint.
  Variable audited : list (string * string).      (* (unit, object) *)
  Variable objs : list static_obj.

  Definition is_audited (o : static_obj) : bool :=
    existsb (fun p => String.eqb (fst p) (so_unit o) && String.eqb (snd p) (so_name o)) audited.

  Definition escapes (o : static_obj) : bool :=
    match so_addr_takers o, so_data_refs o with [], [] => false | _, _ => true end.

  Definition src_writer (f : string) (o : static_obj) : bool :=
    existsb (fun w => match index 0 (":" ++ f) w with
                      | Some n => Nat.eqb (n + String.length (":" ++ f)) (String.length w)
                      | None => false end) (so_src_writes o).

  (* may function f write object o? *)
  Definition may_write (f : string) (o : static_obj) : bool :=
    negb (so_tls o) &&
    (mem_str f (so_writers o) || src_writer f o || (escapes o && negb (is_audited o))).

  Definition writes_of (f : string) : list string := map so_name (filter (may_write f) objs).

  (* the regenerated fact: no object is written by anybody *)
  Definition obj_write_free (o : static_obj) : bool :=
    so_tls o ||
    (match so_writers o, so_src_writes o with [], [] => true | _, _ => false end
     && (negb (escapes o) || is_audited o)).
  Definition statics_write_free : bool := forallb obj_write_free objs.

  (* the offending objects, for the report *)
  Definition offenders : list (string * string) :=
    map (fun o => (so_unit o, so_name o)) (filter (fun o => negb (obj_write_free o)) objs).
End Footprint.

Section Sys.
  Variable Ctx : Type.
  Definition shared := string -> Z.

  Record step := { fn : string; act : shared -> Ctx -> shared * Ctx }.

  Variable footprint : string -> list string.     (* function -> statics it may write *)

  (* a step is a function of (shared contents, own context) and respects its footprint *)
  Definition step_ok (s : step) : Prop :=
    (forall sh c x, ~ In x (footprint (fn s)) -> fst (act s sh c) x = sh x) /\
    (forall sh sh' c, (forall x, sh x = sh' x) -> snd (act s sh c) = snd (act s sh' c)).

  Definition sys := (shared * (nat -> Ctx))%type.

  Definition upd (cs : nat -> Ctx) (i : nat) (c : Ctx) : nat -> Ctx :=
    fun j => if Nat.eqb j i then c else cs j.

  Definition exec1 (st : sys) (p : nat * step) : sys :=
    let '(i, s) := p in
    let '(sh', c') := act s (fst st) (snd st i) in (sh', upd (snd st) i c').

  (* a schedule is any interleaving: a list of (thread, step) *)
  Definition run (sched : list (nat * step)) (st : sys) : sys := fold_left exec1 sched st.
  Definition alone (i : nat) (sched : list (nat * step)) : list (nat * step) :=
    filter (fun p => Nat.eqb (fst p) i) sched.
  Definition result (i : nat) (st : sys) : Ctx := snd st i.
End Sys.

(* C15: non-vacuity.  Concrete contexts built through the API model satisfy the hypotheses of the
   theorems, and the verdicts on concrete instructions are the expected ones. *)
From Coq Require Import List NArith ZArith Bool.
From MirV Require Import Mir.Opcode C15.Defs gen.InsnDescs C15.Validate C15.DocModes C15.TableProofs
  C15.ValidateProofs C15.VarProofs C15.FuncProofs C15.ErrProofs C15.DeclProofs.
Import ListNotations.

Definition n_a : name := [97]%N.
Definition n_b : name := [98]%N.
Definition n_x : name := [120]%N.

(* func i64 (i64 a), locals: d x, i64 b *)
Definition ex_cmds : list cmd :=
  [CFunc false [T_I64] [(T_I64, n_a)]; CReg T_D n_x; CReg T_I64 n_b].

Definition ex_state : state :=
  match run init_state ex_cmds with Ok s => s | Err _ => init_state end.

Definition ex_fc : func_ctx :=
  match s_func ex_state with Some fc => fc
  | None => {| f_vararg := false; f_res := []; f_regs := []; f_nvars := 0; f_nglobals := 0 |} end.

Example ex_reachable : run init_state ex_cmds = Ok ex_state /\ s_func ex_state = Some ex_fc.
Proof. split; vm_compute; reflexivity. Qed.

Example ex_hypotheses_hold : fc_wf ex_fc /\ res_types_ok ex_fc = true.
Proof.
  pose proof (reachable_wf_lemma ex_cmds init_state ex_state init_state_wf (proj1 ex_reachable)) as H.
  unfold state_wf in H. rewrite (proj2 ex_reachable) in H. exact H.
Qed.

Definition p_ex : proto :=
  {| p_res := [T_D]; p_args := [(T_I32, 0%Z); (T_BLK1, 24%Z)]; p_vararg := true |}.

(* a body: add b, a, 1; call p, f, x, b, blk1:24(b), 2.5; addo/bo; ret b *)
Definition ex_body : list insn :=
  [ {| i_code := ADD; i_ops := [OReg 3; OReg 1; OInt 1] |};
    {| i_code := CALL; i_ops := [ORef I_proto (Some p_ex); ORef I_func None; OReg 2; OReg 3;
                                 OMem T_BLK1 24 3 0; ODouble] |};
    {| i_code := ADDO; i_ops := [OReg 3; OReg 3; OReg 1] |};
    {| i_code := MOV; i_ops := [OMem T_I32 8 1 3; OReg 3] |};
    {| i_code := BO; i_ops := [OLabel] |};
    {| i_code := RET; i_ops := [OReg 3] |} ].

Example ex_body_in_domain : forallb insn_in_domain ex_body = true.
Proof. vm_compute. reflexivity. Qed.

Example ex_body_accepted : check_body [] ex_fc ex_body = Ok tt /\ doc_func_ok ex_fc ex_body = true.
Proof. split; vm_compute; reflexivity. Qed.

(* the same body with the double result register replaced by an immediate: rejected, out_op *)
Definition ex_bad_body : list insn :=
  [ {| i_code := CALL; i_ops := [ORef I_proto (Some p_ex); ORef I_func None; ODouble; OReg 3;
                                 OMem T_BLK1 24 3 0] |};
    {| i_code := RET; i_ops := [OReg 3] |} ].

Example ex_bad_body_rejected :
  check_body [] ex_fc ex_bad_body = Err E_out_op /\ doc_func_ok ex_fc ex_bad_body = false.
Proof. split; vm_compute; reflexivity. Qed.

(* error codes of single instructions in this context *)
Example ex_codes :
  check_insn [] ex_fc {| i_code := ADD; i_ops := [OReg 3; OReg 1] |} = Err E_ops_num
  /\ check_insn [] ex_fc {| i_code := ADD; i_ops := [OReg 3; OReg 2; OInt 1] |} = Err E_op_mode
  /\ check_insn [] ex_fc {| i_code := ADD; i_ops := [OInt 1; OReg 1; OInt 1] |} = Err E_out_op
  /\ check_insn [] ex_fc {| i_code := ADD; i_ops := [OReg 9; OReg 1; OInt 1] |} = Err E_undeclared_func_reg
  /\ check_insn [] ex_fc {| i_code := MOV; i_ops := [OReg 3; OMem T_BLK0 0 1 0] |} = Err E_wrong_type
  /\ check_insn [] ex_fc {| i_code := MOV; i_ops := [OReg 3; OMem T_I8 0 2 0] |} = Err E_reg_type
  /\ check_insn [] ex_fc {| i_code := ADDR; i_ops := [OReg 3; OInt 5] |} = Err E_op_mode
  /\ check_insn [] ex_fc {| i_code := LADDR; i_ops := [OInt 5; OLabel] |} = Err E_out_op.
Proof. repeat split; vm_compute; reflexivity. Qed.

(* declarations *)
Example ex_decl_errors :
  new_func_reg ex_fc T_I64 n_a None = Err E_repeated_decl
  /\ new_func_reg ex_fc T_I32 [99]%N None = Err E_reg_type
  /\ new_func_reg ex_fc T_I64 [104; 114; 49]%N None = Err E_reserved_name
  /\ new_global_func_reg ex_fc T_I64 [103]%N None = Err E_hard_reg
  /\ mir_reg ex_fc [122]%N = Err E_undeclared_func_reg
  /\ mir_reg ex_fc n_x = Ok 2%N.
Proof. repeat split; vm_compute; reflexivity. Qed.

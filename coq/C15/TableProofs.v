(* C15: well-formedness of the regenerated operand-mode table and of the enumerations the model
   shares with mir.h.  Everything here is a finite computation over the table of the CURRENT tree
   (coq/gen/InsnDescs.v is rewritten by tools/tr_c15_insn_descs.py on every run), lifted to
   quantified statements. *)
From Coq Require Import String Ascii List NArith ZArith Bool Lia.
From MirV Require Import Mir.Opcode C15.Defs gen.InsnDescs C15.Validate.
Import ListNotations.
Local Open Scope bool_scope.

Definition nm (s : string) : name := map N_of_ascii (list_ascii_of_string s).

Fixpoint forallb_i {A} (f : nat -> A -> bool) (i : nat) (l : list A) : bool :=
  match l with
  | [] => true
  | x :: l' => f i x && forallb_i f (S i) l'
  end.

Lemma forallb_i_nth {A} (f : nat -> A -> bool) l : forall i,
  forallb_i f i l = true -> forall j x, nth_error l j = Some x -> f (i + j) x = true.
Proof.
  induction l as [|a l IH]; intros i H j x Hj.
  - destruct j; discriminate.
  - cbn in H. apply andb_true_iff in H as [Ha Hl]. destruct j as [|j].
    + cbn in Hj. inversion Hj; subst. now rewrite Nat.add_0_r.
    + cbn in Hj. rewrite <- Nat.add_succ_comm. now apply IH.
Qed.

(* an expectation mode a row may carry *)
Definition expect_mode_ok (mb : op_mode * bool) : bool :=
  let '(m, out) := mb in
  match m with
  | OP_INT | OP_FLOAT | OP_DOUBLE | OP_LDOUBLE => true
  | OP_UNDEF | OP_REG | OP_LABEL => negb out
  | _ => false
  end.

(* the initialisers are: expectation modes, then exactly one unflagged MIR_OP_BOUND, within the
   cells of op_modes[] *)
Definition modes_terminated (l : list (op_mode * bool)) : bool :=
  (length l <=? OP_MODES_CELLS)
  && match rev l with
     | (OP_BOUND, false) :: before => forallb expect_mode_ok before
     | _ => false
     end.

Definition row_ok (i : nat) (r : desc_row) : bool :=
  match r with
  | Row (Some c) n modes =>
      N.eqb (opcode_num c) (N.of_nat i) && modes_terminated modes
      && negb (match n with [] => true | _ => false end)
  | _ => false
  end.

Fixpoint nodup_names (l : list name) : bool :=
  match l with
  | [] => true
  | x :: l' => negb (existsb (name_eqb x) l') && nodup_names l'
  end.

Definition table_wf_b : bool :=
  (length insn_descs =? N.to_nat (opcode_num INSN_BOUND))
  && forallb_i row_ok 0 insn_descs
  && nodup_names (map row_name insn_descs)
  && match op_modes_cells with Some n => n =? OP_MODES_CELLS | None => false end
  && out_flag_is_bit7.

Lemma table_wf_b_true : table_wf_b = true.
Proof. vm_compute. reflexivity. Qed.

Lemma name_eqb_eq a : forall b, name_eqb a b = true <-> a = b.
Proof.
  induction a as [|x a IH]; destruct b as [|y b]; cbn; try (split; [discriminate|discriminate]); try tauto.
  rewrite andb_true_iff, N.eqb_eq, IH. split; [intros [-> ->]; reflexivity | intros H; inversion H; auto].
Qed.

Lemma nodup_names_NoDup l : nodup_names l = true -> NoDup l.
Proof.
  induction l as [|x l IH]; cbn; intros H; constructor.
  - apply andb_true_iff in H as [H _]. intro Hin. apply negb_true_iff in H.
    assert (existsb (name_eqb x) l = true) as E by (apply existsb_exists; exists x; split; [exact Hin | now apply name_eqb_eq]).
    congruence.
  - apply andb_true_iff in H as [_ H]. now apply IH.
Qed.

(* what check_and_prepare_insn_descs asserts only in debug builds, and a little more *)
Lemma insn_descs_wellformed_lemma :
  length insn_descs = N.to_nat (opcode_num INSN_BOUND)
  /\ (forall i r, nth_error insn_descs i = Some r ->
        exists c n modes, r = Row (Some c) n modes /\ opcode_num c = N.of_nat i
                          /\ modes_terminated modes = true /\ n <> [])
  /\ NoDup (map row_name insn_descs)
  /\ op_modes_cells = Some OP_MODES_CELLS.
Proof.
  pose proof table_wf_b_true as H. unfold table_wf_b in H.
  apply andb_true_iff in H as [H Hflag]. apply andb_true_iff in H as [H Hcells].
  apply andb_true_iff in H as [H Hnodup]. apply andb_true_iff in H as [Hlen Hrows].
  split; [now apply Nat.eqb_eq|]. split; [|split].
  - intros i r Hr. pose proof (forallb_i_nth row_ok insn_descs 0 Hrows i r Hr) as Hi. cbn in Hi.
    destruct r as [[c|] n modes|]; try discriminate. unfold row_ok in Hi.
    apply andb_true_iff in Hi as [Hi Hn]. apply andb_true_iff in Hi as [Hc Ht].
    exists c, n, modes. repeat split; auto. now apply N.eqb_eq.
    intros ->. discriminate.
  - now apply nodup_names_NoDup.
  - destruct op_modes_cells as [n|]; [|discriminate]. apply Nat.eqb_eq in Hcells. now subst.
Qed.

(* the row used for an opcode is the row that names this opcode (codes = positions) *)
Lemma desc_of_code : forall c, c <> INSN_BOUND ->
  exists n modes, desc_of c = Row (Some c) n modes /\ modes_terminated modes = true.
Proof.
  intros c Hc. destruct insn_descs_wellformed_lemma as (Hlen & Hrows & _).
  unfold desc_of.
  assert (N.to_nat (opcode_num c) < length insn_descs) as Hlt.
  { rewrite Hlen. destruct c; try (vm_compute; lia). congruence. }
  destruct (nth_error insn_descs (N.to_nat (opcode_num c))) as [r|] eqn:E.
  - destruct (Hrows _ _ E) as (c' & n & modes & -> & Hnum & Hterm & _).
    rewrite N2Nat.id in Hnum. apply opcode_num_inj in Hnum. subst c'.
    exists n, modes. split; [|exact Hterm]. now apply nth_error_nth.
  - apply nth_error_None in E. lia.
Qed.

(* ---------------------------------------------------------------- enumerations vs mir.h *)

Definition expected_error_names : list name :=
  map nm ["no"; "syntax"; "binary_io"; "alloc"; "finish"; "no_module"; "nested_module"; "no_func";
          "func"; "vararg_func"; "nested_func"; "wrong_param_value"; "hard_reg";
          "reserved_name"; "import_export"; "undeclared_func_reg"; "repeated_decl"; "reg_type";
          "wrong_type"; "unique_reg"; "undeclared_op_ref"; "ops_num"; "call_op"; "unspec_op";
          "wrong_lref"; "ret"; "op_mode"; "out_op"; "invalid_insn"; "ctx_change"]%string.

Definition expected_mode_names : list name :=
  map nm ["UNDEF"; "REG"; "VAR"; "INT"; "UINT"; "FLOAT"; "DOUBLE"; "LDOUBLE";
          "REF"; "STR"; "MEM"; "VAR_MEM"; "LABEL"; "BOUND"]%string.

Definition expected_type_names : list name :=
  map nm ["I8"; "U8"; "I16"; "U16"; "I32"; "U32"; "I64"; "U64"; "F"; "D"; "LD"; "P";
          "BLK"; "RBLK"; "UNDEF"; "BOUND"]%string.

Fixpoint names_eqb (a b : list name) : bool :=
  match a, b with
  | [], [] => true
  | x :: a', y :: b' => name_eqb x y && names_eqb a' b'
  | _, _ => false
  end.

Definition enums_b : bool :=
  names_eqb error_names expected_error_names
  && names_eqb op_mode_names expected_mode_names
  && names_eqb type_names expected_type_names
  && name_eqb type_explicit_values (nm "MIR_T_RBLK=MIR_T_BLK+5")
  && forallb_i (fun i e => N.eqb (error_num e) (N.of_nat i)) 0 all_errors
  && forallb_i (fun i m => N.eqb (mode_num m) (N.of_nat i)) 0 all_modes
  && forallb_i (fun i t => N.eqb (type_num t) (N.of_nat i)) 0 all_types
  && (length all_errors =? length error_names)
  && (length all_modes =? length op_mode_names)
  && (length hard_reg_names =? hard_reg_enum_len)
  && match first_xmm_hard_reg, fixed_hard_regs with Some _, Some _ => true | _, _ => false end.

Lemma enums_b_true : enums_b = true.
Proof. vm_compute. reflexivity. Qed.

Lemma names_eqb_eq a : forall b, names_eqb a b = true -> a = b.
Proof.
  induction a as [|x a IH]; destruct b as [|y b]; cbn; try discriminate; auto.
  intros H. apply andb_true_iff in H as [H1 H2]. apply name_eqb_eq in H1. f_equal; auto.
Qed.

(* the hand-written inductives of Defs.v list exactly the enumerators of the current mir.h, in
   order (so the names the harness prints and the names the model prints are the same codes) *)
Lemma enums_match_header_lemma :
  error_names = expected_error_names
  /\ op_mode_names = expected_mode_names
  /\ type_names = expected_type_names
  /\ map error_num all_errors = map N.of_nat (seq 0 (length error_names))
  /\ map mode_num all_modes = map N.of_nat (seq 0 (length op_mode_names)).
Proof.
  pose proof enums_b_true as H. unfold enums_b in H.
  repeat match type of H with (_ && _) = true => apply andb_true_iff in H as [H _] end.
  pose proof enums_b_true as H'. unfold enums_b in H'.
  do 8 (apply andb_true_iff in H' as [H' _]).
  apply andb_true_iff in H' as [H' H3]. apply andb_true_iff in H' as [H1 H2].
  repeat split; try (now apply names_eqb_eq); vm_compute; reflexivity.
Qed.

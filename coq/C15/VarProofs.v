(* C15: proofs, part 2: instructions with a variable number of operands (ret, switch, call,
   inline, jcall) -- by induction over the operand list, for any number of operands and any
   prototype; the per-operand facts are finite sweeps over operand shapes. *)
From Coq Require Import List NArith ZArith Bool Lia.
From MirV Require Import Mir.Opcode C15.Defs gen.InsnDescs C15.Validate C15.DocModes C15.TableProofs
  C15.ValidateProofs.
Import ListNotations.
Local Open Scope bool_scope.

(* ------------------------------------------------------------------ position independence *)

Lemma check_shape_ret_i i e o s : check_shape RET i e o s = check_shape RET 0 e o s.
Proof.
  unfold check_shape. destruct s as [rc|k|t n b x| |k|]; try reflexivity.
  cbn [call_code_p va_list_pos negb]. destruct (all_blk_type_p t), (i <? 2); reflexivity.
Qed.

Lemma check_shape_switch_i i e o s : check_shape SWITCH i e o s = check_shape SWITCH 0 e o s.
Proof.
  unfold check_shape. destruct s as [rc|k|t n b x| |k|]; try reflexivity.
  cbn [call_code_p va_list_pos negb]. destruct (all_blk_type_p t), (i <? 2); reflexivity.
Qed.

Definition is_call (c : opcode) : bool := match c with CALL | INLINE | JCALL => true | _ => false end.

Lemma check_shape_call_i code i e o s : is_call code = true -> 2 <= i ->
  check_shape code i e o s = check_shape code 2 e o s.
Proof.
  intros Hc Hi. assert ((i <? 2) = false) as Hlt by (apply Nat.ltb_ge; lia).
  destruct code; try discriminate Hc; unfold check_shape;
    (destruct s as [rc|k|t n b x| |k|]; try reflexivity;
     cbn [call_code_p va_list_pos negb]; rewrite Hlt; reflexivity).
Qed.

(* ------------------------------------------------------------------ finite sweeps *)

Definition shape_blk (s : shape) : bool :=
  match s with SMem t _ _ _ => is_blk_type t | _ => false end.

Definition class_of_type_b (t : mir_type) (f : vclass -> bool) : bool :=
  match vclass_of_type t with Some k => f k | None => true end.

Lemma ret_sweep :
  forallb (fun t => class_of_type_b t (fun k =>
    forallb (fun s => Bool.eqb (is_ok (check_shape RET 0 (type2mode t) false s)) (has_class s k)) all_shapes))
    all_types = true.
Proof. vm_compute. reflexivity. Qed.

Lemma switch_sweep :
  forallb (fun s =>
     Bool.eqb (is_ok (check_shape SWITCH 0 OP_INT false s)) (has_class s VInt)
     && Bool.eqb (is_ok (check_shape SWITCH 0 OP_LABEL false s)) (match s with SLabel => true | _ => false end))
    all_shapes = true.
Proof. vm_compute. reflexivity. Qed.

Definition call_codes : list opcode := [CALL; INLINE; JCALL].

Lemma call_sweep :
  forallb (fun code =>
    forallb (fun s =>
      (* called address (operand 1), when it is not a reference *)
      (match s with SRef _ => true | _ => Bool.eqb (is_ok (check_shape code 1 OP_INT false s)) (has_class s VInt) end)
      && (if shape_blk s then
            match s with
            | SMem t neg b x =>
                Bool.eqb (is_ok (check_shape code 2 OP_INT false s)) (negb neg && addr_reg_ok b && addr_reg_ok x)
                && Bool.eqb (is_ok (check_shape code 2 OP_UNDEF false s)) (negb neg && addr_reg_ok b && addr_reg_ok x)
            | _ => true
            end
          else
            Bool.eqb (is_ok (check_shape code 2 OP_UNDEF false s)) (operand_valid s)
            && forallb (fun t => class_of_type_b t (fun k =>
                 Bool.eqb (is_ok (check_shape code 2 (type2mode t) true s)) (doc_shape_ok (COut k) s)
                 && Bool.eqb (is_ok (check_shape code 2 (type2mode t) false s)) (has_class s k))) all_types))
      all_shapes) call_codes = true.
Proof. vm_compute. reflexivity. Qed.

Lemma has_class_ref_int k : has_class (SRef k) VInt = true.
Proof. reflexivity. Qed.

(* ------------------------------------------------------------------ ret *)

Lemma ret_shape_spec t k s : vclass_of_type t = Some k -> shape_wf s = true ->
  is_ok (check_shape RET 0 (type2mode t) false s) = has_class s k.
Proof.
  intros Ht Hs. pose proof (proj1 (forallb_forall _ _) ret_sweep t (all_types_complete t)) as H.
  cbv beta in H. unfold class_of_type_b in H. rewrite Ht in H.
  pose proof (proj1 (forallb_forall _ _) H s (all_shapes_complete s Hs)) as H'. cbv beta in H'.
  now apply eqb_prop in H'.
Qed.

Lemma check_ops_ret unspec fc all : fc_wf fc -> forall res pre ops,
  f_res fc = pre ++ res -> length ops = length res ->
  forallb (fun t => match vclass_of_type t with Some _ => true | None => false end) res = true ->
  is_ok (check_ops_from unspec fc RET all (length pre) ops) = doc_ret_ok fc res ops.
Proof.
  intros Hwf. induction res as [|t res IH]; intros pre ops Hres Hlen Hdata.
  - destruct ops; [reflexivity|discriminate].
  - destruct ops as [|o ops]; [discriminate|]. cbn [check_ops_from doc_ret_ok skipped].
    cbn in Hdata. apply andb_true_iff in Hdata as [Ht Hdata].
    destruct (vclass_of_type t) as [k|] eqn:Ek; [|discriminate].
    rewrite is_ok_bind_unit. f_equal.
    + unfold expected_of. rewrite Hres, app_nth2, Nat.sub_diag by lia. cbn [nth].
      rewrite check_shape_ret_i. apply ret_shape_spec; auto. now apply shape_of_wf.
    + replace (S (length pre)) with (length (pre ++ [t])) by (rewrite app_length; cbn; lia).
      apply IH; auto. now rewrite <- app_assoc.
Qed.

Lemma doc_ret_ok_length fc : forall res ops, doc_ret_ok fc res ops = true -> length ops = length res.
Proof.
  induction res as [|t res IH]; destruct ops as [|o ops]; cbn; try discriminate; auto.
  destruct (vclass_of_type t); [|discriminate]. intros H. apply andb_true_iff in H as [_ H]. f_equal. auto.
Qed.

(* ret: header count check + operand loop = "operands correspond to the return types" *)
Lemma validate_ret_bool unspec fc ops : fc_wf fc -> res_types_ok fc = true ->
  (length ops =? length (f_res fc))
  && is_ok (check_ops unspec fc {| i_code := RET; i_ops := ops |})
  = doc_ret_ok fc (f_res fc) ops.
Proof.
  intros Hwf Hres. destruct (length ops =? length (f_res fc)) eqn:E.
  - apply Nat.eqb_eq in E. cbn [andb]. unfold check_ops. cbn [i_code i_ops].
    apply (check_ops_ret unspec fc ops Hwf (f_res fc) [] ops); auto.
  - cbn [andb]. destruct (doc_ret_ok fc (f_res fc) ops) eqn:D; [|reflexivity].
    apply doc_ret_ok_length in D. apply Nat.eqb_neq in E. congruence.
Qed.

(* ------------------------------------------------------------------ switch *)

Lemma switch_shape_spec s : shape_wf s = true ->
  is_ok (check_shape SWITCH 0 OP_INT false s) = has_class s VInt
  /\ is_ok (check_shape SWITCH 0 OP_LABEL false s) = match s with SLabel => true | _ => false end.
Proof.
  intros Hs. pose proof (proj1 (forallb_forall _ _) switch_sweep s (all_shapes_complete s Hs)) as H.
  cbv beta in H. apply andb_true_iff in H as [H1 H2]. split; now apply eqb_prop.
Qed.

Lemma check_ops_switch_labels unspec fc all : fc_wf fc -> forall ops i,
  is_ok (check_ops_from unspec fc SWITCH all (S i) ops)
  = forallb (fun o => match shape_of fc o with SLabel => true | _ => false end) ops.
Proof.
  intros Hwf. induction ops as [|o ops IH]; intros i; [reflexivity|].
  cbn [check_ops_from forallb skipped]. rewrite is_ok_bind_unit, IH. f_equal.
  unfold expected_of. cbn [Nat.eqb]. rewrite check_shape_switch_i.
  apply (switch_shape_spec (shape_of fc o)). now apply shape_of_wf.
Qed.

Lemma check_ops_from_cons unspec fc code all i o ops :
  check_ops_from unspec fc code all i (o :: ops)
  = bind (if skipped code i o then Ok tt
          else let '(e, out_p) := expected_of unspec fc code all i in
               check_shape code i e out_p (shape_of fc o))
         (fun _ => check_ops_from unspec fc code all (S i) ops).
Proof. reflexivity. Qed.

Lemma validate_switch_bool unspec fc ops : fc_wf fc ->
  is_ok (check_new_insn unspec SWITCH ops)
  && is_ok (check_ops unspec fc {| i_code := SWITCH; i_ops := ops |})
  = doc_switch_ok fc ops.
Proof.
  intros Hwf. unfold check_new_insn, check_ops. cbn [call_code_p negb andb i_code i_ops].
  destruct ops as [|idx [|l labels]]; try reflexivity.
  cbn [length Nat.ltb Nat.leb is_ok andb doc_switch_ok].
  rewrite check_ops_from_cons. cbn [skipped].
  rewrite is_ok_bind_unit, check_ops_switch_labels by assumption. f_equal.
  unfold expected_of. cbn [Nat.eqb].
  apply (switch_shape_spec (shape_of fc idx)). now apply shape_of_wf.
Qed.

(* ------------------------------------------------------------------ call / inline / jcall *)

Ltac bool_arith :=
  match goal with
  | |- ?a = ?b =>
      destruct a eqn:?, b eqn:?; try reflexivity; exfalso;
      repeat match goal with
             | H : (_ && _) = true |- _ => apply andb_true_iff in H as [? ?]
             | H : (_ && _) = false |- _ => apply andb_false_iff in H as [?|?]
             | H : negb _ = true |- _ => apply negb_true_iff in H
             | H : negb _ = false |- _ => apply negb_false_iff in H
             | H : (_ <? _) = true |- _ => apply Nat.ltb_lt in H
             | H : (_ <? _) = false |- _ => apply Nat.ltb_ge in H
             | H : (_ <=? _) = true |- _ => apply Nat.leb_le in H
             | H : (_ <=? _) = false |- _ => apply Nat.leb_gt in H
             | H : (_ =? _) = true |- _ => apply Nat.eqb_eq in H
             | H : (_ =? _) = false |- _ => apply Nat.eqb_neq in H
             end; lia
  end.

Lemma all_blk_is_blk t : all_blk_type_p t = is_blk_type t.
Proof. destruct t; reflexivity. Qed.

Lemma type_eqb_eq a b : type_eqb a b = true <-> a = b.
Proof. unfold type_eqb. rewrite N.eqb_eq. split; [|congruence]. destruct a, b; cbn; congruence. Qed.

Lemma type_eqb_sym a b : type_eqb a b = type_eqb b a.
Proof. unfold type_eqb. apply N.eqb_sym. Qed.

Lemma in_call_codes code : is_call code = true -> In code call_codes.
Proof. destruct code; try discriminate; cbn; tauto. Qed.

Section Call.
  Variable unspec : list proto.
  Variable fc : func_ctx.
  Variable code : opcode.
  Variable p : proto.
  Hypothesis Hcode : is_call code = true.
  Hypothesis Hwf : fc_wf fc.
  Hypothesis Hp : proto_wf p = true.

  Let nres := length (p_res p).
  Let nargs := length (p_args p).

  (* expected mode and out flag of the operand with index k + 2 *)
  Definition call_expected (k : nat) : op_mode * bool :=
    if p_vararg p && (nres + nargs <=? k) then (OP_UNDEF, false)
    else if k <? nres then (type2mode (nth k (p_res p) T_I64), true)
    else (type2mode (fst (nth (k - nres) (p_args p) (T_I64, 0%Z))), false).

  Lemma expected_call all k : nth_op all 0 = ORef I_proto (Some p) ->
    expected_of unspec fc code all (S (S k)) = call_expected k.
  Proof.
    intros Hall.
    assert (proto_of_call unspec code all = p) as Hpc
      by (destruct code; try discriminate Hcode; unfold proto_of_call; rewrite Hall; reflexivity).
    unfold call_expected.
    assert (expected_of unspec fc code all (S (S k))
            = (let out_p := (2 <=? S (S k)) && (S (S k) <? nres + 2) in
               if p_vararg p && (nres + 2 + nargs <=? S (S k)) then (OP_UNDEF, out_p)
               else if out_p then (type2mode (nth (S (S k) - 2) (p_res p) T_I64), out_p)
               else (type2mode (fst (nth (S (S k) - 2 - nres) (p_args p) (T_I64, 0%Z))), out_p))) as ->.
    { destruct code; try discriminate Hcode; unfold expected_of, insn_op_mode, addr_code_p;
        cbn [andb]; rewrite Hpc; reflexivity. }
    cbv zeta.
    replace ((2 <=? S (S k)) && (S (S k) <? nres + 2)) with (k <? nres) by bool_arith.
    replace (nres + 2 + nargs <=? S (S k)) with (nres + nargs <=? k) by bool_arith.
    replace (S (S k) - 2) with k by lia.
    destruct (p_vararg p && (nres + nargs <=? k)) eqn:E.
    - apply andb_true_iff in E as [_ E]. apply Nat.leb_le in E.
      replace (k <? nres) with false by (symmetry; apply Nat.ltb_ge; lia). reflexivity.
    - destruct (k <? nres); reflexivity.
  Qed.

  Definition elem_ok (k : nat) (o : operand) : bool :=
    is_ok (blk_here p k o)
    && is_ok (let '(e, out_p) := call_expected k in check_shape code 2 e out_p (shape_of fc o)).

  Lemma skipped_call_rest k o : skipped code (S (S k)) o = false.
  Proof. destruct code; try discriminate Hcode; reflexivity. Qed.

  Lemma rest_checks all : nth_op all 0 = ORef I_proto (Some p) -> forall rest k,
    is_ok (check_blk_args p k rest) && is_ok (check_ops_from unspec fc code all (S (S k)) rest)
    = forallb_i elem_ok k rest.
  Proof.
    intros Hall. induction rest as [|o rest IH]; intros k; [reflexivity|].
    cbn [check_blk_args forallb_i]. rewrite check_ops_from_cons, !is_ok_bind_unit, skipped_call_rest.
    rewrite <- IH. unfold elem_ok. rewrite (expected_call all k Hall).
    destruct (call_expected k) as [e outp].
    rewrite (check_shape_call_i code (S (S k))) by (auto; lia).
    destruct (is_ok (blk_here p k o)), (is_ok (check_blk_args p (S k) rest)),
      (is_ok (check_shape code 2 e outp (shape_of fc o))); reflexivity.
  Qed.

  (* ---- sweeps specialised *)
  Lemma call_sweep_at s : shape_wf s = true ->
    (match s with SRef _ => true | _ => Bool.eqb (is_ok (check_shape code 1 OP_INT false s)) (has_class s VInt) end)
    && (if shape_blk s then
          match s with
          | SMem t neg b x =>
              Bool.eqb (is_ok (check_shape code 2 OP_INT false s)) (negb neg && addr_reg_ok b && addr_reg_ok x)
              && Bool.eqb (is_ok (check_shape code 2 OP_UNDEF false s)) (negb neg && addr_reg_ok b && addr_reg_ok x)
          | _ => true
          end
        else
          Bool.eqb (is_ok (check_shape code 2 OP_UNDEF false s)) (operand_valid s)
          && forallb (fun t => class_of_type_b t (fun k =>
               Bool.eqb (is_ok (check_shape code 2 (type2mode t) true s)) (doc_shape_ok (COut k) s)
               && Bool.eqb (is_ok (check_shape code 2 (type2mode t) false s)) (has_class s k))) all_types) = true.
  Proof.
    intros Hs.
    pose proof (proj1 (forallb_forall _ _) call_sweep code (in_call_codes code Hcode)) as H. cbv beta in H.
    exact (proj1 (forallb_forall _ _) H s (all_shapes_complete s Hs)).
  Qed.

  Lemma nonblk_shape_spec s t c : shape_wf s = true -> shape_blk s = false -> vclass_of_type t = Some c ->
    is_ok (check_shape code 2 (type2mode t) true s) = doc_shape_ok (COut c) s
    /\ is_ok (check_shape code 2 (type2mode t) false s) = has_class s c
    /\ is_ok (check_shape code 2 OP_UNDEF false s) = operand_valid s.
  Proof.
    intros Hs Hb Ht. pose proof (call_sweep_at s Hs) as H. rewrite Hb in H.
    apply andb_true_iff in H as [_ H]. apply andb_true_iff in H as [Hu H].
    pose proof (proj1 (forallb_forall _ _) H t (all_types_complete t)) as H'. cbv beta in H'.
    unfold class_of_type_b in H'. rewrite Ht in H'. apply andb_true_iff in H' as [H1 H2].
    repeat split; now apply eqb_prop.
  Qed.

  Lemma blk_shape_spec t neg b x : bclass_wf b = true -> bclass_wf x = true -> is_blk_type t = true ->
    is_ok (check_shape code 2 OP_INT false (SMem t neg b x)) = negb neg && addr_reg_ok b && addr_reg_ok x
    /\ is_ok (check_shape code 2 OP_UNDEF false (SMem t neg b x)) = negb neg && addr_reg_ok b && addr_reg_ok x.
  Proof.
    intros Hb Hx Ht. assert (shape_wf (SMem t neg b x) = true) as Hs by (cbn; now rewrite Hb, Hx).
    pose proof (call_sweep_at _ Hs) as H. cbn [shape_blk] in H. rewrite Ht in H.
    apply andb_true_iff in H as [_ H]. apply andb_true_iff in H as [H1 H2]. split; now apply eqb_prop.
  Qed.

  Lemma faddr_spec o :
    (if skipped code 1 o then true else is_ok (check_shape code 1 OP_INT false (shape_of fc o)))
    = has_class (shape_of fc o) VInt.
  Proof.
    assert (skipped code 1 o = match o with ORef _ _ => true | _ => false end) as ->
      by (destruct code; try discriminate Hcode; destruct o; reflexivity).
    pose proof (call_sweep_at (shape_of fc o) (shape_of_wf fc o Hwf)) as H.
    apply andb_true_iff in H as [H _].
    destruct o; cbn [shape_of] in *; try (now apply eqb_prop in H); reflexivity.
  Qed.

  Lemma blk_type_no_class t : is_blk_type t = true -> vclass_of_type t = None.
  Proof. destruct t; cbn; congruence. Qed.

  Lemma blk_shape_no_class s c : shape_blk s = true -> has_class s c = false.
  Proof.
    destruct s as [| |t n b x| | |]; cbn [shape_blk]; try discriminate. intros Ht.
    unfold has_class. cbn [value_class]. rewrite (blk_type_no_class t Ht).
    destruct (addr_reg_ok b && addr_reg_ok x); reflexivity.
  Qed.

  Definition op_is_blk (o : operand) : bool :=
    match o with OMem t _ _ _ => is_blk_type t | _ => false end.

  Lemma shape_blk_of o : shape_blk (shape_of fc o) = op_is_blk o.
  Proof. destruct o; reflexivity. Qed.

  (* ---- E1: a result position *)
  Lemma elem_result k o t c : nth_error (p_res p) k = Some t -> vclass_of_type t = Some c ->
    elem_ok k o = doc_shape_ok (COut c) (shape_of fc o).
  Proof.
    intros Hk Ht. assert (k < nres) as Hlt by (apply nth_error_Some; congruence).
    unfold elem_ok, call_expected.
    replace (p_vararg p && (nres + nargs <=? k)) with false
      by (symmetry; apply andb_false_iff; right; apply Nat.leb_gt; lia).
    replace (k <? nres) with true by (symmetry; now apply Nat.ltb_lt).
    rewrite (nth_error_nth _ _ T_I64 Hk).
    destruct (op_is_blk o) eqn:Eb.
    - (* block memory as a result: rejected at creation; no class *)
      destruct o as [| | | | | |t' disp b x| | |]; try discriminate Eb. cbn [op_is_blk] in Eb.
      unfold blk_here. rewrite all_blk_is_blk, Eb. fold nres.
      replace (k <? nres) with true by (symmetry; now apply Nat.ltb_lt). cbn [is_ok andb].
      symmetry. cbn [doc_shape_ok]. rewrite blk_shape_no_class; [apply andb_false_r|].
      cbn. exact Eb.
    - assert (is_ok (blk_here p k o) = true) as ->.
      { unfold blk_here. fold nres. replace (nres <=? k) with false by (symmetry; apply Nat.leb_gt; lia).
        destruct o; try reflexivity. cbn [op_is_blk] in Eb. rewrite all_blk_is_blk, Eb. reflexivity. }
      cbn [andb]. apply (nonblk_shape_spec (shape_of fc o) t c); auto.
      + now apply shape_of_wf.
      + now rewrite shape_blk_of.
  Qed.

  Lemma Z_nonneg_ltb z : negb (z <? 0)%Z = (0 <=? z)%Z.
  Proof. destruct (Z.ltb_spec z 0), (Z.leb_spec 0 z); cbn; auto; lia. Qed.

  (* ---- E2: a fixed parameter position *)
  Lemma elem_arg k o pt psize : nres <= k -> nth_error (p_args p) (k - nres) = Some (pt, psize) ->
    param_type_ok pt = true ->
    elem_ok k o = doc_arg_ok fc (pt, psize) o.
  Proof.
    intros Hge Hk Hpt. assert (k - nres < nargs) as Hlt by (apply nth_error_Some; congruence).
    unfold elem_ok, call_expected.
    replace (p_vararg p && (nres + nargs <=? k)) with false
      by (symmetry; apply andb_false_iff; right; apply Nat.leb_gt; lia).
    replace (k <? nres) with false by (symmetry; apply Nat.ltb_ge; lia).
    rewrite (nth_error_nth _ _ (T_I64, 0%Z) Hk). cbn [fst].
    unfold doc_arg_ok. destruct (is_blk_type pt) eqn:Epb.
    - (* block parameter *)
      assert (type2mode pt = OP_INT) as -> by (destruct pt; try discriminate Epb; reflexivity).
      destruct o as [| | | | | |t disp b x| | |];
        try (unfold blk_here; fold nres; replace (nres <=? k) with true by (symmetry; apply Nat.leb_le; lia);
             rewrite Hk, all_blk_is_blk, Epb; reflexivity).
      destruct (is_blk_type t) eqn:Et.
      + unfold blk_here. fold nres. rewrite all_blk_is_blk, Et.
        replace (k <? nres) with false by (symmetry; apply Nat.ltb_ge; lia). rewrite Hk.
        rewrite (type_eqb_sym t pt), (Z.eqb_sym disp psize).
        destruct (type_eqb pt t) eqn:Ety; cbn [negb andb is_ok]; [|reflexivity].
        destruct (psize =? disp)%Z; cbn [negb andb is_ok]; [|reflexivity].
        cbn [shape_of].
        destruct (blk_shape_spec t (disp <? 0)%Z (bclass_of fc b) (bclass_of fc x)
                    (bclass_of_wf fc b Hwf) (bclass_of_wf fc x Hwf) Et) as [-> _].
        rewrite Z_nonneg_ltb. rewrite <- !andb_assoc. reflexivity.
      + (* non-block memory for a block parameter *)
        unfold blk_here. fold nres. rewrite all_blk_is_blk, Et.
        replace (nres <=? k) with true by (symmetry; apply Nat.leb_le; lia).
        rewrite Hk, all_blk_is_blk, Epb. cbn [is_ok andb].
        destruct (type_eqb t pt) eqn:Ety; [|reflexivity].
        apply type_eqb_eq in Ety. subst. congruence.
    - (* scalar parameter *)
      unfold param_type_ok in Hpt. rewrite Epb in Hpt.
      destruct (vclass_of_type pt) as [c|] eqn:Ec; [|discriminate].
      destruct (op_is_blk o) eqn:Eb.
      + destruct o as [| | | | | |t disp b x| | |]; try discriminate Eb. cbn [op_is_blk] in Eb.
        unfold blk_here. fold nres. rewrite all_blk_is_blk, Eb.
        replace (k <? nres) with false by (symmetry; apply Nat.ltb_ge; lia). rewrite Hk.
        destruct (type_eqb pt t) eqn:Ety.
        * apply type_eqb_eq in Ety. subst. congruence.
        * reflexivity.
      + assert (is_ok (blk_here p k o) = true) as ->.
        { unfold blk_here. fold nres. replace (nres <=? k) with true by (symmetry; apply Nat.leb_le; lia).
          rewrite Hk, all_blk_is_blk, Epb.
          destruct o; try reflexivity. cbn [op_is_blk] in Eb. rewrite all_blk_is_blk, Eb. reflexivity. }
        cbn [andb].
        destruct (nonblk_shape_spec (shape_of fc o) pt c) as (_ & -> & _); auto.
        * now apply shape_of_wf.
        * now rewrite shape_blk_of.
        * destruct o; try reflexivity. cbn [op_is_blk] in Eb. rewrite Eb. reflexivity.
  Qed.

  (* ---- E3: an argument in the variable part *)
  Lemma elem_vararg k o : p_vararg p = true -> nres + nargs <= k ->
    elem_ok k o = doc_vararg_ok fc o.
  Proof.
    intros Hva Hge. unfold elem_ok, call_expected. rewrite Hva.
    replace (nres + nargs <=? k) with true by (symmetry; apply Nat.leb_le; lia). cbn [andb].
    assert (nth_error (p_args p) (k - nres) = None) as Hnone by (apply nth_error_None; fold nargs; lia).
    unfold doc_vararg_ok.
    destruct (op_is_blk o) eqn:Eb.
    - destruct o as [| | | | | |t disp b x| | |]; try discriminate Eb. cbn [op_is_blk] in Eb.
      rewrite Eb. unfold blk_here. fold nres. rewrite all_blk_is_blk, Eb.
      replace (k <? nres) with false by (symmetry; apply Nat.ltb_ge; lia). rewrite Hnone.
      cbn [shape_of].
      destruct (blk_shape_spec t (disp <? 0)%Z (bclass_of fc b) (bclass_of fc x)
                  (bclass_of_wf fc b Hwf) (bclass_of_wf fc x Hwf) Eb) as [_ ->].
      rewrite Z_nonneg_ltb.
      destruct (type_eqb t T_RBLK); cbn [negb is_ok andb]; [reflexivity|].
      rewrite <- !andb_assoc. reflexivity.
    - assert (is_ok (blk_here p k o) = true) as ->.
      { unfold blk_here. fold nres. rewrite Hnone.
        destruct (nres <=? k); destruct o; try reflexivity;
          cbn [op_is_blk] in Eb; rewrite all_blk_is_blk, Eb; reflexivity. }
      cbn [andb].
      assert (exists t c, vclass_of_type t = Some c) as (t0 & c0 & Htc) by (exists T_I64, VInt; reflexivity).
      destruct (nonblk_shape_spec (shape_of fc o) t0 c0) as (_ & _ & ->); auto.
      + now apply shape_of_wf.
      + now rewrite shape_blk_of.
      + destruct o; try reflexivity. cbn [op_is_blk] in Eb. rewrite Eb. reflexivity.
  Qed.

  (* ---- assembling: results *)
  Lemma results_equiv : forall todo done rest, p_res p = done ++ todo -> length rest = length todo ->
    forallb_i elem_ok (length done) rest = doc_results_ok fc todo rest.
  Proof.
    induction todo as [|t todo IH]; intros done rest Hres Hlen.
    - destruct rest; [reflexivity|discriminate].
    - destruct rest as [|o rest]; [discriminate|]. cbn [forallb_i doc_results_ok].
      assert (nth_error (p_res p) (length done) = Some t) as Hn
        by (rewrite Hres, nth_error_app2, Nat.sub_diag by lia; reflexivity).
      assert (exists c, vclass_of_type t = Some c) as [c Hc].
      { unfold proto_wf in Hp. apply andb_true_iff in Hp as [Hr _].
        pose proof (proj1 (forallb_forall _ _) Hr t) as Ht. cbv beta in Ht.
        destruct (vclass_of_type t) as [c|]; [now exists c|].
        exfalso. assert (In t (p_res p)) as Hin by (rewrite Hres; apply in_or_app; right; now left).
        specialize (Ht Hin). discriminate. }
      rewrite Hc, (elem_result _ o t c Hn Hc). f_equal.
      replace (S (length done)) with (length (done ++ [t])) by (rewrite app_length; cbn; lia).
      apply IH; [now rewrite <- app_assoc | now inversion Hlen].
  Qed.

  Lemma varargs_equiv : p_vararg p = true -> forall rest k, nres + nargs <= k ->
    forallb_i elem_ok k rest = forallb (doc_vararg_ok fc) rest.
  Proof.
    intros Hva. induction rest as [|o rest IH]; intros k Hk; [reflexivity|].
    cbn [forallb_i forallb]. rewrite (elem_vararg k o Hva Hk), IH by lia. reflexivity.
  Qed.

  (* ---- assembling: arguments, including the count rule *)
  Lemma args_equiv : forall todo done rest, p_args p = done ++ todo ->
    (length todo <=? length rest) && ((length rest =? length todo) || p_vararg p)
    && forallb_i elem_ok (nres + length done) rest
    = doc_args_ok fc (p_vararg p) todo rest.
  Proof.
    induction todo as [|a todo IH]; intros done rest Hargs.
    - assert (length done = nargs) as Hd by (unfold nargs; rewrite Hargs, app_nil_r; reflexivity).
      destruct rest as [|o rest]; [reflexivity|].
      cbn [length Nat.leb Nat.eqb orb andb doc_args_ok].
      destruct (p_vararg p) eqn:Hva; [|reflexivity]. cbn [andb].
      apply varargs_equiv; auto. lia.
    - destruct rest as [|o rest]; [reflexivity|]. cbn [length doc_args_ok forallb_i].
      destruct a as [pt psize].
      assert (nth_error (p_args p) (nres + length done - nres) = Some (pt, psize)) as Hn.
      { replace (nres + length done - nres) with (length done) by lia.
        rewrite Hargs, nth_error_app2, Nat.sub_diag by lia. reflexivity. }
      assert (param_type_ok pt = true) as Hpt.
      { unfold proto_wf in Hp. apply andb_true_iff in Hp as [_ Ha].
        apply (proj1 (forallb_forall _ _) Ha (pt, psize)). rewrite Hargs. apply in_or_app; right; now left. }
      rewrite (elem_arg (nres + length done) o pt psize ltac:(lia) Hn Hpt).
      specialize (IH (done ++ [(pt, psize)]) rest). rewrite <- app_assoc in IH. specialize (IH Hargs).
      rewrite app_length in IH. cbn [length] in IH.
      replace (nres + (length done + 1)) with (S (nres + length done)) in IH by lia.
      rewrite <- IH. cbn [Nat.leb Nat.eqb].
      destruct (doc_arg_ok fc (pt, psize) o); cbn [andb]; [reflexivity|].
      now rewrite andb_false_r.
  Qed.

  Lemma forallb_i_app {A} (f : nat -> A -> bool) l1 l2 i :
    forallb_i f i (l1 ++ l2) = forallb_i f i l1 && forallb_i f (i + length l1) l2.
  Proof.
    revert i. induction l1 as [|a l1 IH]; intros i; cbn [app forallb_i length].
    - now rewrite Nat.add_0_r.
    - rewrite IH, andb_assoc. now rewrite Nat.add_succ_comm.
  Qed.

  (* all the operands after the called address *)
  Lemma rest_equiv rest :
    (nres + nargs <=? length rest) && ((length rest =? nres + nargs) || p_vararg p)
    && forallb_i elem_ok 0 rest
    = doc_results_ok fc (p_res p) (firstn nres rest) && (nres <=? length rest)
      && doc_args_ok fc (p_vararg p) (p_args p) (skipn nres rest).
  Proof.
    destruct (nres <=? length rest) eqn:Hn.
    - apply Nat.leb_le in Hn.
      rewrite <- (firstn_skipn nres rest) at 3.
      rewrite forallb_i_app. cbn [Nat.add].
      assert (length (firstn nres rest) = nres) as Hf by (rewrite firstn_length; lia).
      rewrite Hf.
      pose proof (results_equiv (p_res p) [] (firstn nres rest) eq_refl Hf) as HA. cbn [length] in HA. rewrite HA.
      pose proof (args_equiv (p_args p) [] (skipn nres rest) eq_refl) as HB.
      cbn [length] in HB. rewrite Nat.add_0_r in HB. rewrite <- HB.
      rewrite skipn_length. fold nargs.
      replace (nargs <=? length rest - nres) with (nres + nargs <=? length rest) by bool_arith.
      replace (length rest - nres =? nargs) with (length rest =? nres + nargs) by bool_arith.
      destruct (doc_results_ok fc (p_res p) (firstn nres rest)); cbn [andb]; [|now rewrite !andb_false_r].
      rewrite ?andb_true_r. reflexivity.
    - apply Nat.leb_gt in Hn.
      replace (nres + nargs <=? length rest) with false by (symmetry; apply Nat.leb_gt; lia).
      cbn [andb]. now rewrite andb_false_r.
  Qed.

  Lemma validate_call_with_proto f rest :
    let ops := ORef I_proto (Some p) :: f :: rest in
    is_ok (check_new_insn unspec code ops) && is_ok (check_ops unspec fc {| i_code := code; i_ops := ops |})
    = doc_call_ok fc ops.
  Proof.
    cbv zeta. set (ops := ORef I_proto (Some p) :: f :: rest).
    assert (nth_op ops 0 = ORef I_proto (Some p)) as Hall by reflexivity.
    assert (is_ok (check_new_insn unspec code ops)
            = (nres + nargs <=? length rest) && ((length rest =? nres + nargs) || p_vararg p)
              && is_ok (check_blk_args p 0 rest)) as ->.
    { destruct code; try discriminate Hcode; unfold check_new_insn; cbn [call_code_p negb andb];
        unfold ops; cbn [length nth_op nth skipn];
        replace (S (S (length rest)) <? 2) with false by (symmetry; apply Nat.ltb_ge; lia);
        cbn [bind]; fold nres; fold nargs;
        replace (S (S (length rest)) <? nres + nargs + 2) with (negb (nres + nargs <=? length rest)) by bool_arith;
        replace (S (S (length rest)) =? nres + nargs + 2) with (length rest =? nres + nargs) by bool_arith;
        destruct (nres + nargs <=? length rest), (length rest =? nres + nargs), (p_vararg p); reflexivity. }
    unfold check_ops. cbn [i_code i_ops]. unfold ops at 2.
    rewrite check_ops_from_cons.
    assert (skipped code 0 (ORef I_proto (Some p)) = true) as -> by (destruct code; try discriminate Hcode; reflexivity).
    cbn [bind]. rewrite check_ops_from_cons, is_ok_bind_unit.
    assert (expected_of unspec fc code ops 1 = (OP_INT, false)) as ->.
    { assert (proto_of_call unspec code ops = p) as Hpc by (destruct code; try discriminate Hcode; reflexivity).
      destruct code; try discriminate Hcode; unfold expected_of, insn_op_mode, addr_code_p; cbn [andb];
        rewrite Hpc; fold nres; fold nargs;
        replace (nres + 2 + nargs <=? 1) with false by (symmetry; apply Nat.leb_gt; lia);
        rewrite andb_false_r; reflexivity. }
    assert (is_ok (if skipped code 1 f then Ok tt else check_shape code 1 OP_INT false (shape_of fc f))
            = has_class (shape_of fc f) VInt) as ->.
    { rewrite <- faddr_spec. destruct (skipped code 1 f); reflexivity. }
    unfold doc_call_ok. unfold ops at 2. fold nres.
    pose proof (rest_equiv rest) as HR. rewrite <- (rest_checks ops Hall rest 0) in HR.
    set (cnt := (nres + nargs <=? length rest) && ((length rest =? nres + nargs) || p_vararg p)) in *.
    set (bk := is_ok (check_blk_args p 0 rest)) in *.
    set (oc := is_ok (check_ops_from unspec fc code ops 2 rest)) in *.
    set (hf := has_class (shape_of fc f) VInt) in *.
    set (dr := doc_results_ok fc (p_res p) (firstn nres rest)) in *.
    set (le := nres <=? length rest) in *.
    set (da := doc_args_ok fc (p_vararg p) (p_args p) (skipn nres rest)) in *.
    clearbody cnt bk oc hf dr le da.
    destruct cnt, bk, oc, hf, dr, le, da; cbn in *; congruence.
  Qed.
End Call.

(* call / inline / jcall with any operand list: accepted exactly when the prototype discipline of
   MIR.md is met *)
Lemma validate_call_bool unspec fc code ops : is_call code = true -> fc_wf fc ->
  insn_in_domain {| i_code := code; i_ops := ops |} = true ->
  is_ok (check_new_insn unspec code ops) && is_ok (check_ops unspec fc {| i_code := code; i_ops := ops |})
  = doc_call_ok fc ops.
Proof.
  intros Hc Hwf Hdom.
  assert (forall o0, (forall p, o0 <> ORef I_proto (Some p)) -> forall tl,
            is_ok (check_new_insn unspec code (o0 :: tl)) = false) as Hbad.
  { intros o0 Hno tl. destruct code; try discriminate Hc; unfold check_new_insn; cbn [call_code_p negb andb];
      (destruct tl as [|f tl]; [reflexivity|]);
      cbn [length Nat.ltb Nat.leb nth_op nth];
      (destruct o0 as [| | | | | | | |k [pp|]|]; try reflexivity;
       destruct k; try reflexivity; exfalso; apply (Hno pp); reflexivity). }
  destruct ops as [|o0 [|f rest]].
  - destruct code; try discriminate Hc; reflexivity.
  - assert (is_ok (check_new_insn unspec code [o0]) = false) as ->
      by (destruct code; try discriminate Hc; reflexivity).
    destruct o0 as [| | | | | | | |k [pp|]|]; try reflexivity; destruct k; reflexivity.
  - destruct o0 as [| | | | | | | |k [pp|]|];
      try (rewrite Hbad by (intros; discriminate); reflexivity).
    + destruct k; try (rewrite Hbad by (intros; discriminate); reflexivity).
      apply validate_call_with_proto; auto.
      unfold insn_in_domain in Hdom. cbn [i_code i_ops] in Hdom.
      apply andb_true_iff in Hdom as [_ Hdom]. destruct code; try discriminate Hc; exact Hdom.
    + rewrite Hbad by (intros; discriminate). destruct k; reflexivity.
Qed.

(* ------------------------------------------------------------------ error codes of call insns *)

(* what MIR_new_insn_arr reports for call / inline / jcall: too few operands to hold prototype and
   address -> MIR_ops_num_error; first operand not a prototype reference, or operand count not
   matching the prototype (more allowed only for vararg prototypes) -> MIR_call_op_error; any
   block-argument rule broken -> MIR_wrong_type_error; nothing else *)
Lemma call_error_codes_lemma unspec code ops : is_call code = true ->
  (length ops < 2 -> check_new_insn unspec code ops = Err E_ops_num)
  /\ (2 <= length ops -> (forall p, nth_op ops 0 <> ORef I_proto (Some p)) ->
      check_new_insn unspec code ops = Err E_call_op)
  /\ (forall p, 2 <= length ops -> nth_op ops 0 = ORef I_proto (Some p) ->
      let n := length (p_res p) + length (p_args p) + 2 in
      (length ops < n \/ (length ops <> n /\ p_vararg p = false) ->
         check_new_insn unspec code ops = Err E_call_op)
      /\ (n <= length ops -> (length ops = n \/ p_vararg p = true) ->
          forall e, check_new_insn unspec code ops = Err e -> e = E_wrong_type)).
Proof.
  intros Hc. split; [|split].
  - intros Hl. assert ((length ops <? 2) = true) as E by (apply Nat.ltb_lt; lia).
    destruct code; try discriminate Hc; unfold check_new_insn; cbn [call_code_p negb andb]; rewrite E; reflexivity.
  - intros Hl Hno. assert ((length ops <? 2) = false) as E by (apply Nat.ltb_ge; lia).
    destruct code; try discriminate Hc; unfold check_new_insn; cbn [call_code_p negb andb]; rewrite E;
      (destruct (nth_op ops 0) as [| | | | | | | |k [pp|]|] eqn:E0; try reflexivity;
       destruct k; try reflexivity; exfalso; apply (Hno pp); reflexivity).
  - intros p Hl H0. assert ((length ops <? 2) = false) as E by (apply Nat.ltb_ge; lia).
    cbv zeta. split.
    + intros Hcnt.
      assert ((length ops <? length (p_res p) + length (p_args p) + 2)
              || negb (length ops =? length (p_res p) + length (p_args p) + 2) && negb (p_vararg p) = true) as Ec.
      { destruct Hcnt as [Hlt|[Hne Hva]].
        - apply orb_true_iff; left. apply Nat.ltb_lt. lia.
        - apply orb_true_iff; right. rewrite Hva. apply andb_true_iff. split; [|reflexivity].
          apply negb_true_iff. apply Nat.eqb_neq. lia. }
      destruct code; try discriminate Hc; unfold check_new_insn; cbn [call_code_p negb andb];
        rewrite E, H0; cbn [bind]; rewrite Ec; reflexivity.
    + intros Hge Heq e He.
      assert ((length ops <? length (p_res p) + length (p_args p) + 2)
              || negb (length ops =? length (p_res p) + length (p_args p) + 2) && negb (p_vararg p) = false) as Ec.
      { apply orb_false_iff. split; [apply Nat.ltb_ge; lia|].
        destruct Heq as [Heq|Hva]; [|rewrite Hva; apply andb_false_r].
        apply andb_false_iff; left. apply negb_false_iff. apply Nat.eqb_eq. lia. }
      assert (forall k rest e', check_blk_args p k rest = Err e' -> e' = E_wrong_type) as Hblk.
      { intros k rest. revert k. induction rest as [|o rest IH]; intros k e' Hb; [discriminate|].
        cbn [check_blk_args] in Hb. destruct (blk_here p k o) as [[]|e1] eqn:Eh; cbn [bind] in Hb.
        - eapply IH; eauto.
        - inversion Hb; subst e1. unfold blk_here in Eh.
          repeat match type of Eh with
                 | context [match ?x with _ => _ end] => destruct x; try discriminate Eh
                 end; inversion Eh; reflexivity. }
      destruct code; try discriminate Hc; unfold check_new_insn in He; cbn [call_code_p negb andb] in He;
        rewrite E, H0 in He; cbn [bind] in He; rewrite Ec in He; eapply Hblk; eauto.
Qed.

(* C15: proofs, part 4: the error code is specific.  Every way an operand can be wrong is a
   violation class with one error code; for every fixed-arity opcode, operand position and
   operand shape the checker's verdict at that position is exactly the code of the class
   (finite sweep), and an instruction that is rejected is rejected with MIR_ops_num_error for a
   wrong operand count and otherwise with the code of the violation of one of its offending
   operands. *)
From Coq Require Import List NArith ZArith Bool Lia.
From MirV Require Import Mir.Opcode C15.Defs gen.InsnDescs C15.Validate C15.DocModes C15.TableProofs
  C15.ValidateProofs.
Import ListNotations.
Local Open Scope bool_scope.

(* ------------------------------------------------------------------ violation classes *)

Inductive violation : Set :=
| V_undeclared_reg        (* an operand, base or index register that was never declared *)
| V_mem_type              (* memory of a type that is not a data type (or block memory with disp < 0) *)
| V_addr_reg_type         (* base / index register that is not an integer register *)
| V_kind                  (* operand of a kind / value class the opcode does not expect there *)
| V_not_lvalue.           (* result operand that is neither register nor memory *)

Definition code_of_violation (v : violation) : mir_error :=
  match v with
  | V_undeclared_reg => E_undeclared_func_reg
  | V_mem_type => E_wrong_type
  | V_addr_reg_type => E_reg_type
  | V_kind => E_op_mode
  | V_not_lvalue => E_out_op
  end.

Definition addr_violation (b : bclass) : option violation :=
  match b with
  | BC_none => None
  | BC_undecl => Some V_undeclared_reg
  | BC_reg t => match vclass_of_type t with Some VInt => None | _ => Some V_addr_reg_type end
  end.

Definition first_some {A} (a b : option A) : option A := match a with Some _ => a | None => b end.

(* what is wrong with the operand in itself; [undef_ok]: memory of undefined type is meaningful
   here (a va_list position) *)
Definition intrinsic_violation (undef_ok : bool) (s : shape) : option violation :=
  match s with
  | SReg RC_undecl => Some V_undeclared_reg
  | SMem t neg b x =>
      match vclass_of_type t with
      | Some _ => first_some (addr_violation b) (addr_violation x)
      | None => if undef_ok && type_eqb t T_UNDEF
                then first_some (addr_violation b) (addr_violation x)
                else Some V_mem_type
      end
  | _ => None
  end.

Definition kind_violation (ok : bool) : option violation := if ok then None else Some V_kind.

Definition doc_violation (c : oclass) (s : shape) : option violation :=
  match c with
  | CAnyMem => kind_violation (match s with SMem _ _ _ _ => true | _ => false end)
  | CPropConst => kind_violation (match s with SImm IInt => true | _ => false end)
  | CPropVar => first_some (kind_violation (is_lvalue s)) (intrinsic_violation false s)
  | CAny => intrinsic_violation false s
  | CIn k => first_some (intrinsic_violation false s) (kind_violation (has_class s k))
  | COut k =>
      first_some (intrinsic_violation false s)
        (first_some (kind_violation (has_class s k)) (if is_lvalue s then None else Some V_not_lvalue))
  | CLabel => first_some (intrinsic_violation false s) (kind_violation (match s with SLabel => true | _ => false end))
  | CVar => first_some (intrinsic_violation false s) (kind_violation (match s with SReg _ => true | _ => false end))
  | CVaList =>
      first_some (intrinsic_violation true s)
        (kind_violation (has_class s VInt || match s with SMem T_UNDEF _ _ _ => true | _ => false end))
  end.

Definition doc_pos_result (c : oclass) (s : shape) : res unit :=
  match doc_violation c s with None => Ok tt | Some v => Err (code_of_violation v) end.

(* the checker at one position of a fixed-arity instruction: the creation rule (an
   MIR_op_mode_error) comes first in time, then MIR_finish_func's operand check *)
Definition pos_result (code : opcode) (i : nat) (s : shape) : res unit :=
  if negb (creation_rule code i s) then Err E_op_mode
  else if fixed_skipped code i then Ok tt
  else let '(e, out_p) := fixed_expected code i in check_shape code i e out_p s.

Definition res_eqb (a b : res unit) : bool :=
  match a, b with
  | Ok _, Ok _ => true
  | Err x, Err y => error_eqb x y
  | _, _ => false
  end.

Lemma res_eqb_eq a b : res_eqb a b = true -> a = b.
Proof.
  destruct a as [[]|x], b as [[]|y]; cbn; try discriminate; auto.
  unfold error_eqb. rewrite N.eqb_eq. intros H. f_equal. destruct x, y; cbn in H; congruence.
Qed.

Definition err_sweep_shape (code : opcode) (i : nat) (cls : oclass) (s : shape) : bool :=
  res_eqb (pos_result code i s) (doc_pos_result cls s).

Definition err_sweep_pos (code : opcode) (i : nat) (cls : oclass) : bool :=
  forallb (err_sweep_shape code i cls) all_shapes.

Definition err_sweep_code (code : opcode) : bool :=
  match doc_sig code with
  | None => true
  | Some sig => forallb_i (err_sweep_pos code) 0 sig
  end.

Lemma err_sweep_true : forallb err_sweep_code all_opcodes = true.
Proof. vm_compute. reflexivity. Qed.

(* per position: the verdict IS the code of the violation class *)
Lemma position_error_code_lemma code sig i cls s :
  doc_sig code = Some sig -> nth_error sig i = Some cls -> shape_wf s = true ->
  pos_result code i s = doc_pos_result cls s.
Proof.
  intros Hsig Hi Hs.
  pose proof (proj1 (forallb_forall _ _) err_sweep_true code (all_opcodes_complete code)) as H.
  unfold err_sweep_code in H. rewrite Hsig in H.
  pose proof (forallb_i_nth (err_sweep_pos code) sig 0 H i cls Hi) as Hp. change (0 + i) with i in Hp.
  unfold err_sweep_pos in Hp.
  pose proof (proj1 (forallb_forall _ _) Hp s (all_shapes_complete s Hs)) as Hq.
  now apply res_eqb_eq.
Qed.

(* a violation is reported exactly when the documentation-derived rule fails *)
Lemma violation_iff_not_ok code sig i cls s :
  doc_sig code = Some sig -> nth_error sig i = Some cls -> shape_wf s = true ->
  (doc_violation cls s = None <-> doc_shape_ok cls s = true).
Proof.
  intros Hsig Hi Hs.
  pose proof (position_error_code_lemma code sig i cls s Hsig Hi Hs) as H1.
  destruct (sweep_spec code sig Hsig) as [_ H2]. specialize (H2 i cls s Hi Hs).
  rewrite <- H2. unfold doc_pos_result in H1. unfold pos_ok, finish_pos_ok. unfold pos_result in H1.
  destruct (creation_rule code i s); cbn [negb andb] in *.
  - destruct (fixed_skipped code i).
    + destruct (doc_violation cls s); [discriminate|]. tauto.
    + destruct (fixed_expected code i) as [e o].
      destruct (doc_violation cls s); rewrite H1; cbn; split; congruence.
  - destruct (doc_violation cls s); split; congruence.
Qed.

(* ------------------------------------------------------------------ lifting to instructions *)

Lemma check_ops_from_err unspec fc code sig all : doc_sig code = Some sig ->
  forall ops i e, i + length ops <= length sig ->
  check_ops_from unspec fc code all i ops = Err e ->
  exists j o, nth_error ops j = Some o /\ fixed_skipped code (i + j) = false
              /\ (let '(ex, out_p) := fixed_expected code (i + j) in
                  check_shape code (i + j) ex out_p (shape_of fc o)) = Err e.
Proof.
  intros Hsig. induction ops as [|o ops IH]; intros i e Hlen H; [discriminate|].
  cbn [check_ops_from] in H. cbn [length] in Hlen.
  rewrite (skipped_fixed _ _ _ _ Hsig) in H.
  rewrite (expected_fixed _ _ _ _ _ _ Hsig) in H by lia.
  destruct (fixed_skipped code i) eqn:Es.
  - cbn [bind] in H. destruct (IH (S i) e ltac:(lia) H) as (j & o' & Hj & Hsk & Hc).
    exists (S j), o'. rewrite <- Nat.add_succ_comm. auto.
  - destruct (let '(ex, out_p) := fixed_expected code i in check_shape code i ex out_p (shape_of fc o)) as [[]|e'] eqn:Ec.
    + cbn [bind] in H. destruct (IH (S i) e ltac:(lia) H) as (j & o' & Hj & Hsk & Hc).
      exists (S j), o'. rewrite <- Nat.add_succ_comm. auto.
    + cbn [bind] in H. inversion H; subst e'. exists 0, o. rewrite Nat.add_0_r. auto.
Qed.

Lemma creation_err unspec fc code sig ops e : doc_sig code = Some sig -> length ops = desc_nops code ->
  check_new_insn unspec code ops = Err e ->
  e = E_op_mode /\ exists j o, nth_error ops j = Some o /\ creation_rule code j (shape_of fc o) = false.
Proof.
  intros Hsig Hlen H. apply Nat.eqb_eq in Hlen.
  destruct code; try discriminate Hsig;
    try (unfold check_new_insn in H; cbn [call_code_p negb andb] in H; rewrite Hlen in H; discriminate H).
  - (* VA_ARG *)
    unfold check_new_insn in H; cbn [call_code_p negb andb] in H; rewrite Hlen in H. cbn [negb] in H.
    apply Nat.eqb_eq in Hlen. rewrite desc_nops_va_arg in Hlen. destruct (length3 _ Hlen) as (a & b & c & ->).
    cbn in H. destruct (is_mem c) eqn:E; [discriminate|]. inversion H. split; [reflexivity|].
    exists 2, c. split; [reflexivity|]. cbn. rewrite (is_mem_shape fc c) in E. destruct (shape_of fc c); congruence.
  - (* PRSET *)
    unfold check_new_insn in H; cbn [call_code_p negb andb] in H; rewrite Hlen in H. cbn [negb] in H.
    apply Nat.eqb_eq in Hlen. rewrite desc_nops_prset in Hlen. destruct (length2 _ Hlen) as (a & b & ->).
    cbn in H. destruct (is_int_imm b) eqn:E; [discriminate|]. inversion H. split; [reflexivity|].
    exists 1, b. split; [reflexivity|]. cbn. rewrite (is_int_imm_shape fc b) in E.
    destruct (shape_of fc b) as [|[]| | | |]; congruence.
  - (* PRBEQ *)
    unfold check_new_insn in H; cbn [call_code_p negb andb] in H; rewrite Hlen in H. cbn [negb] in H.
    apply Nat.eqb_eq in Hlen. rewrite desc_nops_prbeq in Hlen. destruct (length3 _ Hlen) as (a & b & c & ->).
    cbn in H. destruct (is_int_imm c) eqn:E.
    + cbn in H. destruct (is_reg b) eqn:Er; [discriminate|]. destruct (is_mem b) eqn:Em; [discriminate|].
      inversion H. split; [reflexivity|]. exists 1, b. split; [reflexivity|]. cbn.
      rewrite (is_reg_shape fc b) in Er. rewrite (is_mem_shape fc b) in Em. destruct (shape_of fc b); congruence.
    + cbn in H. inversion H. split; [reflexivity|]. exists 2, c. split; [reflexivity|]. cbn.
      rewrite (is_int_imm_shape fc c) in E. destruct (shape_of fc c) as [|[]| | | |]; congruence.
  - (* PRBNE *)
    unfold check_new_insn in H; cbn [call_code_p negb andb] in H; rewrite Hlen in H. cbn [negb] in H.
    apply Nat.eqb_eq in Hlen. rewrite desc_nops_prbne in Hlen. destruct (length3 _ Hlen) as (a & b & c & ->).
    cbn in H. destruct (is_int_imm c) eqn:E.
    + cbn in H. destruct (is_reg b) eqn:Er; [discriminate|]. destruct (is_mem b) eqn:Em; [discriminate|].
      inversion H. split; [reflexivity|]. exists 1, b. split; [reflexivity|]. cbn.
      rewrite (is_reg_shape fc b) in Er. rewrite (is_mem_shape fc b) in Em. destruct (shape_of fc b); congruence.
    + cbn in H. inversion H. split; [reflexivity|]. exists 2, c. split; [reflexivity|]. cbn.
      rewrite (is_int_imm_shape fc c) in E. destruct (shape_of fc c) as [|[]| | | |]; congruence.
Qed.

Lemma creation_arity_err unspec code sig ops : doc_sig code = Some sig -> length ops <> desc_nops code ->
  check_new_insn unspec code ops = Err E_ops_num.
Proof.
  intros Hsig Hlen. apply Nat.eqb_neq in Hlen.
  destruct code; try discriminate Hsig; unfold check_new_insn; cbn [call_code_p negb andb]; rewrite Hlen; reflexivity.
Qed.

Lemma creation_rule_all_ok unspec fc code sig ops : doc_sig code = Some sig ->
  check_new_insn unspec code ops = Ok tt ->
  forall j o, nth_error ops j = Some o -> creation_rule code j (shape_of fc o) = true.
Proof.
  intros Hsig H j o Hj. pose proof (check_new_insn_fixed unspec fc code sig ops Hsig) as E.
  rewrite H in E. cbn [is_ok] in E. symmetry in E. apply andb_true_iff in E as [_ E].
  pose proof (forallb_i_nth _ _ _ E j o Hj) as Hr. exact Hr.
Qed.

(* a rejected fixed-arity instruction: MIR_ops_num_error for a wrong operand count; otherwise
   the code of the violation class of an operand that MIR.md indeed forbids at its position *)
Lemma validate_error_code_specific_lemma unspec fc ins sig e :
  fc_wf fc -> doc_sig (i_code ins) = Some sig -> check_insn unspec fc ins = Err e ->
  (length (i_ops ins) <> length sig /\ e = E_ops_num)
  \/ (length (i_ops ins) = length sig
      /\ exists i cls o v, nth_error sig i = Some cls /\ nth_error (i_ops ins) i = Some o
                           /\ doc_shape_ok cls (shape_of fc o) = false
                           /\ doc_violation cls (shape_of fc o) = Some v
                           /\ e = code_of_violation v).
Proof.
  intros Hwf Hsig H. destruct ins as [code ops]. cbn [i_code i_ops] in *.
  destruct (sweep_spec code sig Hsig) as [Hn _].
  destruct (Nat.eq_dec (length ops) (length sig)) as [Hlen|Hlen].
  - right. split; [exact Hlen|]. unfold check_insn in H. cbn [i_code i_ops] in H.
    assert (forall j o v, nth_error ops j = Some o -> pos_result code j (shape_of fc o) = Err (code_of_violation v) ->
              doc_violation (nth j sig CAny) (shape_of fc o) = Some v ->
              exists i cls o0 v0, nth_error sig i = Some cls /\ nth_error ops i = Some o0
                /\ doc_shape_ok cls (shape_of fc o0) = false
                /\ doc_violation cls (shape_of fc o0) = Some v0 /\ code_of_violation v = code_of_violation v0) as Hpack.
    { intros j o v Hj _ Hv.
      assert (j < length sig) as Hlt by (rewrite <- Hlen; apply nth_error_Some; congruence).
      destruct (nth_error sig j) as [cls|] eqn:Ecls; [|apply nth_error_None in Ecls; lia].
      rewrite (nth_error_nth _ _ CAny Ecls) in Hv.
      exists j, cls, o, v. repeat split; auto.
      destruct (doc_shape_ok cls (shape_of fc o)) eqn:Eok; [|reflexivity].
      apply (violation_iff_not_ok code sig j cls _ Hsig Ecls (shape_of_wf fc o Hwf)) in Eok. congruence. }
    destruct (check_new_insn unspec code ops) as [[]|e'] eqn:Ecr.
    + (* finish-time error *)
      cbn [bind] in H. unfold check_ops in H. cbn [i_code i_ops] in H.
      destruct (check_ops_from_err unspec fc code sig ops Hsig ops 0 e ltac:(lia) H) as (j & o & Hj & Hsk & Hc).
      cbn [Nat.add] in *.
      assert (j < length sig) as Hlt by (rewrite <- Hlen; apply nth_error_Some; congruence).
      destruct (nth_error sig j) as [cls|] eqn:Ecls; [|apply nth_error_None in Ecls; lia].
      pose proof (position_error_code_lemma code sig j cls (shape_of fc o) Hsig Ecls (shape_of_wf fc o Hwf)) as Hp.
      unfold pos_result in Hp.
      rewrite (creation_rule_all_ok unspec fc code sig ops Hsig Ecr j o Hj), Hsk in Hp. cbn [negb] in Hp.
      rewrite Hc in Hp. unfold doc_pos_result in Hp.
      destruct (doc_violation cls (shape_of fc o)) as [v|] eqn:Ev; [|discriminate].
      inversion Hp; subst e.
      exists j, cls, o, v. repeat split; auto.
      destruct (doc_shape_ok cls (shape_of fc o)) eqn:Eok; [|reflexivity].
      apply (violation_iff_not_ok code sig j cls _ Hsig Ecls (shape_of_wf fc o Hwf)) in Eok. congruence.
    + (* creation-time error with the right operand count *)
      cbn [bind] in H. inversion H; subst e'.
      destruct (creation_err unspec fc code sig ops e Hsig ltac:(lia) Ecr) as (-> & j & o & Hj & Hr).
      assert (j < length sig) as Hlt by (rewrite <- Hlen; apply nth_error_Some; congruence).
      destruct (nth_error sig j) as [cls|] eqn:Ecls; [|apply nth_error_None in Ecls; lia].
      pose proof (position_error_code_lemma code sig j cls (shape_of fc o) Hsig Ecls (shape_of_wf fc o Hwf)) as Hp.
      unfold pos_result in Hp. rewrite Hr in Hp. cbn [negb] in Hp. unfold doc_pos_result in Hp.
      destruct (doc_violation cls (shape_of fc o)) as [v|] eqn:Ev; [|discriminate].
      inversion Hp as [Hcode].
      exists j, cls, o, v. repeat split; auto.
      destruct (doc_shape_ok cls (shape_of fc o)) eqn:Eok; [|reflexivity].
      apply (violation_iff_not_ok code sig j cls _ Hsig Ecls (shape_of_wf fc o Hwf)) in Eok. congruence.
  - left. split; [exact Hlen|]. unfold check_insn in H. cbn [i_code i_ops] in H.
    rewrite (creation_arity_err unspec code sig ops Hsig) in H by lia. cbn in H. congruence.
Qed.

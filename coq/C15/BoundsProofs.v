(* C15: MIR_insn_op_mode's table path ("mode = insn_descs[code].op_modes[nop]") never reads outside
   the 5 cells of op_modes[] for an instruction MIR_new_insn_arr accepted.  (Before fix C15-3 the
   jcall operands took this path with any index.) *)
From Coq Require Import List NArith ZArith Bool Lia.
From MirV Require Import Mir.Opcode C15.Defs gen.InsnDescs C15.Validate C15.TableProofs C15.ValidateProofs.
Import ListNotations.
Local Open Scope bool_scope.

(* codes for which MIR_insn_op_mode indexes op_modes[] with the operand number *)
Definition uses_table (c : opcode) : bool :=
  match c with
  | RET | SWITCH | ADDR | ADDR8 | ADDR16 | ADDR32 | PHI | USE | CALL | INLINE | JCALL | UNSPEC => false
  | _ => true
  end.

Lemma all_nops_in_cells : forallb (fun c => desc_nops c <? OP_MODES_CELLS) all_opcodes = true.
Proof. vm_compute. reflexivity. Qed.

Lemma created_arity unspec code ops : uses_table code = true ->
  check_new_insn unspec code ops = Ok tt -> length ops = desc_nops code.
Proof.
  intros Hu H. apply Nat.eqb_eq.
  destruct code; try discriminate Hu; try discriminate H;
    unfold check_new_insn in H; cbn [call_code_p negb andb] in H;
    (destruct (length ops =? desc_nops _); [reflexivity | discriminate H]).
Qed.

Lemma table_lookup_in_bounds_lemma unspec code ops : uses_table code = true ->
  check_new_insn unspec code ops = Ok tt ->
  forall i, i < length ops ->
    i < OP_MODES_CELLS /\ insn_op_mode unspec code ops i = cell (desc_of code) i.
Proof.
  intros Hu H i Hi. rewrite (created_arity unspec code ops Hu H) in Hi.
  pose proof (proj1 (forallb_forall _ _) all_nops_in_cells code (all_opcodes_complete code)) as Hc.
  cbv beta in Hc. apply Nat.ltb_lt in Hc. split; [lia|].
  destruct code; try discriminate Hu; reflexivity.
Qed.

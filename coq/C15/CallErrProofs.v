(* C15, round 2: the error code of a call / inline / jcall that was created (MIR_new_insn_arr raised
   nothing: call_error_codes) and is rejected by MIR_finish_func is the code of the violation class
   of one of its operands, the class being what the prototype says about that position. *)
From Coq Require Import List NArith ZArith Bool Lia.
From MirV Require Import Mir.Opcode C15.Defs gen.InsnDescs C15.Validate C15.DocModes C15.TableProofs
  C15.ValidateProofs C15.VarProofs C15.FuncProofs C15.ErrProofs C15.VarErrProofs C15.BoundsProofs
  C15.Safe C15.SafeProofs.
Import ListNotations.
Local Open Scope bool_scope.

(* any instruction: a finish-time error is the verdict of check_shape at some unskipped operand *)
Lemma check_ops_from_err_any unspec fc code all : forall ops i e,
  check_ops_from unspec fc code all i ops = Err e ->
  exists j o, nth_error ops j = Some o /\ skipped code (i + j) o = false
    /\ (let '(ex, out_p) := expected_of unspec fc code all (i + j) in
        check_shape code (i + j) ex out_p (shape_of fc o)) = Err e.
Proof.
  induction ops as [|o ops IH]; intros i e H; [discriminate|].
  cbn [check_ops_from] in H.
  destruct (skipped code i o) eqn:Es.
  - cbn [bind] in H. destruct (IH (S i) e H) as (j & o' & Hj & Hs & Hc).
    exists (S j), o'. rewrite <- Nat.add_succ_comm. auto.
  - destruct (let '(ex, out_p) := expected_of unspec fc code all i in check_shape code i ex out_p (shape_of fc o))
      as [[]|e'] eqn:Ec.
    + cbn [bind] in H. destruct (IH (S i) e H) as (j & o' & Hj & Hs & Hc).
      exists (S j), o'. rewrite <- Nat.add_succ_comm. auto.
    + cbn [bind] in H. inversion H; subst e'. exists 0, o. rewrite Nat.add_0_r. auto.
Qed.

Lemma check_blk_args_nth p : forall rest k, check_blk_args p k rest = Ok tt ->
  forall j o, nth_error rest j = Some o -> blk_here p (k + j) o = Ok tt.
Proof.
  induction rest as [|o0 rest IH]; intros k H j o Hj; [destruct j; discriminate|].
  cbn [check_blk_args] in H. destruct (blk_here p k o0) as [[]|e] eqn:E; [|discriminate].
  cbn [bind] in H. destruct j as [|j].
  - inversion Hj; subst. now rewrite Nat.add_0_r.
  - rewrite <- Nat.add_succ_comm. apply (IH (S k) H j o Hj).
Qed.

(* what the prototype says about the operand with index k + 2 (None: a block parameter) *)
Definition call_class (p : proto) (k : nat) : option oclass :=
  if k <? length (p_res p) then option_map COut (vclass_of_type (nth k (p_res p) T_I64))
  else match nth_error (p_args p) (k - length (p_res p)) with
       | Some (t, _) => option_map CIn (vclass_of_type t)
       | None => Some CAny
       end.

Lemma created_blk_args unspec code p f rest : is_call code = true ->
  check_new_insn unspec code (ORef I_proto (Some p) :: f :: rest) = Ok tt -> check_blk_args p 0 rest = Ok tt.
Proof.
  intros Hc H. destruct code; try discriminate Hc; unfold check_new_insn in H; cbn [call_code_p negb andb] in H;
    cbn [length Nat.ltb Nat.leb nth_op nth bind skipn] in H;
    match type of H with (if ?c then _ else _) = _ => destruct c; [discriminate H | exact H] end.
Qed.

Lemma call_error_code_specific_lemma unspec fc code p f rest e :
  is_call code = true -> fc_wf fc -> proto_wf p = true ->
  check_new_insn unspec code (ORef I_proto (Some p) :: f :: rest) = Ok tt ->
  check_ops unspec fc {| i_code := code; i_ops := ORef I_proto (Some p) :: f :: rest |} = Err e ->
  (skipped code 1 f = false /\ doc_pos_result (CIn VInt) (shape_of fc f) = Err e)
  \/ exists k o, nth_error rest k = Some o
       /\ ((op_is_blk o = true /\ blk_pos_result (shape_of fc o) = Err e)
           \/ (op_is_blk o = false
               /\ exists cls, call_class p k = Some cls /\ doc_pos_result cls (shape_of fc o) = Err e)).
Proof.
  intros Hc Hwf Hp Hcr H.
  set (all := ORef I_proto (Some p) :: f :: rest) in *.
  assert (Hall : nth_op all 0 = ORef I_proto (Some p)) by reflexivity.
  destruct (created_call unspec code all Hc Hcr) as (p' & H0 & _ & Hle & Hva).
  rewrite Hall in H0. inversion H0; subst p'. clear H0.
  assert (Hlen : length all = S (S (length rest))) by reflexivity. rewrite Hlen in Hle, Hva.
  pose proof (created_blk_args unspec code p f rest Hc Hcr) as Hblk.
  unfold check_ops in H. cbn [i_code i_ops] in H.
  destruct (check_ops_from_err_any unspec fc code all all 0 e H) as (j & o & Hj & Hsk & Hcs).
  cbn [Nat.add] in Hsk, Hcs.
  destruct j as [|[|k]].
  - (* the prototype operand is skipped *)
    exfalso. destruct code; try discriminate Hc; discriminate Hsk.
  - (* the called address *)
    left. cbn in Hj. inversion Hj; subst o. split; [exact Hsk|].
    assert (expected_of unspec fc code all 1 = (OP_INT, false)) as Hex.
    { assert (proto_of_call unspec code all = p) as Hpc
        by (destruct code; try discriminate Hc; reflexivity).
      destruct code; try discriminate Hc; unfold expected_of, insn_op_mode, addr_code_p; cbn [andb];
        rewrite Hpc; cbn [Nat.eqb Nat.leb Nat.ltb negb andb];
        (replace (length (p_res p) + 2 + length (p_args p) <=? 1) with false by (symmetry; apply Nat.leb_gt; lia));
        rewrite andb_false_r; reflexivity. }
    rewrite Hex in Hcs.
    pose proof (call_address_error_code code (shape_of fc f) Hc (shape_of_wf fc f Hwf)) as Ha.
    assert (skipped code 1 f = match f with ORef _ _ => true | _ => false end) as Hs'
      by (destruct code; try discriminate Hc; destruct f; reflexivity).
    rewrite Hs' in Hsk.
    destruct f; cbn [shape_of] in *; try (rewrite <- Ha; exact Hcs); discriminate Hsk.
  - (* an operand after prototype and address *)
    right. cbn [nth_error all] in Hj. exists k, o. split; [exact Hj|].
    rewrite (expected_call unspec fc code p Hc all k Hall) in Hcs.
    assert (Hklt : k < length rest) by (apply nth_error_Some; congruence).
    pose proof (check_blk_args_nth p rest 0 Hblk k o Hj) as Hbh. cbn [Nat.add] in Hbh.
    pose proof (call_position_error_code code (S (S k)) (shape_of fc o) Hc ltac:(lia) (shape_of_wf fc o Hwf))
      as [Pblk Pnon].
    rewrite shape_blk_of in Pblk, Pnon.
    set (nres := length (p_res p)) in *. set (nargs := length (p_args p)) in *.
    unfold call_expected in Hcs. fold nres nargs in Hcs.
    destruct (op_is_blk o) eqn:Eb.
    + (* block memory: a block parameter or the variable part *)
      left. split; [reflexivity|]. destruct (Pblk eq_refl) as [Pi Pu].
      destruct o as [| | | | | |t disp b x| | |]; try discriminate Eb. cbn [op_is_blk] in Eb.
      unfold blk_here in Hbh. rewrite all_blk_is_blk, Eb in Hbh. fold nres in Hbh.
      destruct (k <? nres) eqn:Ekr; [discriminate Hbh|].
      destruct (p_vararg p && (nres + nargs <=? k)) eqn:Ev; [rewrite <- Pu; exact Hcs|].
      destruct (nth_error (p_args p) (k - nres)) as [[pt psize]|] eqn:Ea.
      * destruct (type_eqb pt t) eqn:Ety; [|discriminate Hbh]. apply type_eqb_eq in Ety. subst pt.
        rewrite (nth_error_nth _ _ (T_I64, 0%Z) Ea) in Hcs. cbn [fst] in Hcs.
        assert (type2mode t = OP_INT) as Ht by (destruct t; try discriminate Eb; reflexivity).
        rewrite Ht in Hcs. rewrite <- Pi. exact Hcs.
      * (* no such parameter: then the prototype is vararg and k is in the variable part *)
        exfalso. apply nth_error_None in Ea. fold nargs in Ea. apply Nat.ltb_ge in Ekr.
        destruct (p_vararg p) eqn:Hv.
        -- cbn [andb] in Ev. apply Nat.leb_gt in Ev. lia.
        -- specialize (Hva eq_refl). lia.
    + (* not block memory *)
      right. split; [reflexivity|]. destruct (Pnon eq_refl) as [Pu Pt].
      unfold call_class. fold nres.
      destruct (p_vararg p && (nres + nargs <=? k)) eqn:Ev.
      * (* variable part *)
        apply andb_true_iff in Ev as [Hv Ek]. apply Nat.leb_le in Ek.
        replace (k <? nres) with false by (symmetry; apply Nat.ltb_ge; lia).
        assert (nth_error (p_args p) (k - nres) = None) as -> by (apply nth_error_None; fold nargs; lia).
        exists CAny. split; [reflexivity|]. rewrite <- Pu. exact Hcs.
      * destruct (k <? nres) eqn:Ekr.
        -- (* a result *)
           apply Nat.ltb_lt in Ekr.
           assert (exists c, vclass_of_type (nth k (p_res p) T_I64) = Some c) as [c Hcl].
           { unfold proto_wf in Hp. apply andb_true_iff in Hp as [Hr _].
             pose proof (proj1 (forallb_forall _ _) Hr (nth k (p_res p) T_I64) (nth_In _ _ Ekr)) as Ht.
             cbv beta in Ht. destruct (vclass_of_type (nth k (p_res p) T_I64)) as [c|]; [now exists c | discriminate]. }
           rewrite Hcl. exists (COut c). split; [reflexivity|].
           rewrite <- (proj1 (Pt _ c Hcl)). exact Hcs.
        -- (* a fixed parameter *)
           apply Nat.ltb_ge in Ekr.
           assert (k - nres < nargs) as Hka.
           { destruct (p_vararg p) eqn:Hv.
             - cbn [andb] in Ev. apply Nat.leb_gt in Ev. lia.
             - specialize (Hva eq_refl). lia. }
           destruct (nth_error (p_args p) (k - nres)) as [[pt psize]|] eqn:Ea;
             [|apply nth_error_None in Ea; fold nargs in Ea; lia].
           rewrite (nth_error_nth _ _ (T_I64, 0%Z) Ea) in Hcs. cbn [fst] in Hcs.
           (* the parameter is not a block (creation rejected a non-block operand for a block) *)
           assert (is_blk_type pt = false) as Hnb.
           { unfold blk_here in Hbh. fold nres in Hbh.
             replace (nres <=? k) with true in Hbh by (symmetry; apply Nat.leb_le; lia).
             rewrite Ea, all_blk_is_blk in Hbh.
             destruct (is_blk_type pt); [|reflexivity]. exfalso.
             destruct o; try discriminate Hbh. cbn [op_is_blk] in Eb. rewrite all_blk_is_blk, Eb in Hbh.
             discriminate Hbh. }
           assert (exists c, vclass_of_type pt = Some c) as [c Hcl].
           { unfold proto_wf in Hp. apply andb_true_iff in Hp as [_ Ha].
             pose proof (proj1 (forallb_forall _ _) Ha (pt, psize) (nth_error_In _ _ Ea)) as Ht.
             cbn [fst] in Ht. unfold param_type_ok in Ht. rewrite Hnb in Ht.
             destruct (vclass_of_type pt) as [c|]; [now exists c | discriminate]. }
           rewrite Hcl. exists (CIn c). split; [reflexivity|].
           rewrite <- (proj2 (Pt _ c Hcl)). exact Hcs.
Qed.

(* C15: executable model of MIR's well-formedness checker (definitions only; proofs in
   ValidateProofs.v).  Transcribed from /repo/mir.c:
     insn_code_nops / check_and_prepare_insn_descs   -> desc_nops
     type2mode, wrong_type_p, MIR_all_blk_type_p ...  -> same names
     MIR_new_insn_arr (arity, prototype, block args, va_arg / prset / prb* rules) -> check_new_insn
     MIR_new_insn (variadic creator)                  -> check_new_insn_va
     MIR_insn_op_mode                                 -> insn_op_mode
     MIR_finish_func (header checks + operand loop)   -> check_finish
     create_func_reg / new_func_reg / MIR_new_global_func_reg / MIR_reg / MIR_reg_type / new_func_arr
                                                      -> create_func_reg ... new_func
   Every function returns [Ok] or [Err e] where e is the MIR_error_type_t handed to the context's
   error function (the FIRST call: the error function does not return).
   The operand-mode table is the regenerated MirV.gen.InsnDescs.insn_descs.
   Host assumptions: x86-64 Linux (long double is not double, so canon_type is the identity). *)
From Coq Require Import List NArith ZArith Bool.
From MirV Require Import Mir.Opcode C15.Defs gen.InsnDescs.
Import ListNotations.
Local Open Scope bool_scope.

(* ------------------------------------------------------------------ the table *)

Definition desc_of (c : opcode) : desc_row :=
  nth (N.to_nat (opcode_num c)) insn_descs (Unknown []).

Definition row_modes (r : desc_row) : list (op_mode * bool) :=
  match r with Row _ _ m => m | Unknown _ => [] end.

Definition row_name (r : desc_row) : name :=
  match r with Row _ n _ => n | Unknown _ => [] end.

(* C cell op_modes[j] (j < 5): the j-th initialiser, 0 (= MIR_OP_UNDEF, no flag) when absent *)
Definition cell (r : desc_row) (j : nat) : op_mode * bool := nth j (row_modes r) (OP_UNDEF, false).

Fixpoint until_bound (l : list (op_mode * bool)) : nat :=
  match l with
  | [] => 0
  | (m, _) :: l' => if mode_eqb m OP_BOUND then 0 else S (until_bound l')
  end.

(* insn_code_nops: cells before the first MIR_OP_BOUND *)
Definition desc_nops (c : opcode) : nat := until_bound (row_modes (desc_of c)).

(* ------------------------------------------------------------------ small predicates (mir.h / mir.c) *)

Definition type2mode (t : mir_type) : op_mode :=
  match t with
  | T_UNDEF => OP_UNDEF | T_F => OP_FLOAT | T_D => OP_DOUBLE | T_LD => OP_LDOUBLE | _ => OP_INT
  end.

(* wrong_type_p: type < MIR_T_I8 || type >= MIR_T_BLK *)
Definition wrong_type_p (t : mir_type) : bool :=
  match t with
  | T_BLK0 | T_BLK1 | T_BLK2 | T_BLK3 | T_BLK4 | T_RBLK | T_UNDEF | T_BOUND => true
  | _ => false
  end.

Definition all_blk_type_p (t : mir_type) : bool :=
  match t with T_BLK0 | T_BLK1 | T_BLK2 | T_BLK3 | T_BLK4 | T_RBLK => true | _ => false end.

Definition call_code_p (c : opcode) : bool :=
  match c with CALL | INLINE | JCALL => true | _ => false end.

Definition addr_code_p (c : opcode) : bool :=
  match c with ADDR | ADDR8 | ADDR16 | ADDR32 => true | _ => false end.

Definition overflow_insn_code_p (c : opcode) : bool :=
  match c with ADDO | ADDOS | SUBO | SUBOS | MULO | MULOS | UMULO | UMULOS => true | _ => false end.

Definition ovf_branch_p (c : opcode) : bool :=
  match c with BO | UBO | BNO | UBNO => true | _ => false end.

(* ------------------------------------------------------------------ prototypes *)

Definition empty_proto : proto := {| p_res := []; p_args := []; p_vararg := false |}.

(* ------------------------------------------------------------------ MIR_new_insn_arr *)

Definition is_mem (o : operand) : bool := match o with OMem _ _ _ _ => true | _ => false end.
Definition is_reg (o : operand) : bool := match o with OReg _ => true | _ => false end.
Definition is_int_imm (o : operand) : bool := match o with OInt _ => true | _ => false end.

Definition nth_op (ops : list operand) (i : nat) : operand := nth i ops OLabel.

(* one iteration of the loop "for (i = args_start; i < nops; i++)" over call / unspec operands;
   [k] = i - args_start *)
Definition blk_here (p : proto) (k : nat) (o : operand) : res unit :=
  let nres := length (p_res p) in
  let nonblk : res unit :=          (* operand is not block memory: the parameter must not be a block *)
    if nres <=? k then
      match nth_error (p_args p) (k - nres) with
      | Some (pt, _) => if all_blk_type_p pt then Err E_wrong_type else Ok tt
      | None => Ok tt
      end
    else Ok tt in
  match o with
  | OMem t disp _ _ =>
      if all_blk_type_p t then
        if k <? nres then Err E_wrong_type
        else match nth_error (p_args p) (k - nres) with
             | Some (pt, psize) =>
                 if negb (type_eqb pt t) then Err E_wrong_type
                 else if negb (Z.eqb psize disp) then Err E_wrong_type
                 else Ok tt
             | None => if type_eqb t T_RBLK then Err E_wrong_type else Ok tt
             end
      else nonblk
  | _ => nonblk
  end.

Fixpoint check_blk_args (p : proto) (k : nat) (ops : list operand) : res unit :=
  match ops with
  | [] => Ok tt
  | o :: ops' => bind (blk_here p k o) (fun _ => check_blk_args p (S k) ops')
  end.

(* [unspec] = the context's table of registered unspec prototypes *)
Definition check_new_insn (unspec : list proto) (code : opcode) (ops : list operand) : res unit :=
  let nops := length ops in
  match code with
  | INSN_BOUND => Err E_wrong_param_value        (* insn_code_nops: code >= MIR_INSN_BOUND *)
  | _ =>
  if negb (call_code_p code)
     && negb (match code with UNSPEC | USE | PHI | RET | SWITCH => true | _ => false end)
     && negb (nops =? desc_nops code)
  then Err E_ops_num
  else match code with
  | SWITCH => if nops <? 2 then Err E_ops_num else Ok tt
  | PHI => if nops <? 3 then Err E_ops_num else Ok tt
  | CALL | INLINE | JCALL | UNSPEC =>
      let unspec_p := match code with UNSPEC => true | _ => false end in
      let args_start := if unspec_p then 1 else 2 in
      if nops <? args_start then Err E_ops_num
      else
        let pr : res proto :=
          if unspec_p then
            match nth_op ops 0 with
            | OInt v => if (0 <=? v)%Z && (Z.to_nat v <? length unspec) then Ok (nth (Z.to_nat v) unspec empty_proto)
                        else Err E_unspec_op
            | _ => Err E_unspec_op
            end
          else
            match nth_op ops 0 with
            | ORef I_proto (Some p) => Ok p
            | _ => Err E_call_op
            end in
        bind pr (fun p =>
          let i := length (p_res p) + length (p_args p) in
          if (nops <? i + args_start) || (negb (nops =? i + args_start) && negb (p_vararg p))
          then Err (if unspec_p then E_unspec_op else E_call_op)
          else check_blk_args p 0 (skipn args_start ops))
  | VA_ARG => if is_mem (nth_op ops 2) then Ok tt else Err E_op_mode
  | PRSET => if is_int_imm (nth_op ops 1) then Ok tt else Err E_op_mode
  | PRBEQ | PRBNE =>
      if negb (is_int_imm (nth_op ops 2)) then Err E_op_mode
      else if negb (is_reg (nth_op ops 1)) && negb (is_mem (nth_op ops 1)) then Err E_op_mode
      else Ok tt
  | _ => Ok tt
  end
  end.

(* MIR_new_insn: takes insn_code_nops operands from the va_list *)
Definition check_new_insn_va (unspec : list proto) (code : opcode) (ops : list operand) : res (list operand) :=
  match code with
  | INSN_BOUND => Err E_wrong_param_value
  | USE | PHI => Err E_call_op
  | CALL | INLINE | JCALL | UNSPEC | RET | SWITCH => Err E_call_op
  | _ =>
      let ops' := firstn (desc_nops code) (ops ++ repeat (OInt 0) 5) in
      bind (check_new_insn unspec code ops') (fun _ => Ok ops')
  end.

(* positions where "va_list as undef type mem" is special-cased *)
Definition va_list_pos (code : opcode) (i : nat) : bool :=
  match code, i with
  | VA_START, 0 | VA_END, 0 | VA_ARG, 1 | VA_BLOCK_ARG, 1 => true
  | _, _ => false
  end.

Definition check_bclass (b : bclass) : res unit :=
  match b with
  | BC_none => Ok tt
  | BC_undecl => Err E_undeclared_func_reg
  | BC_reg t => if mode_eqb (type2mode t) OP_INT then Ok tt else Err E_reg_type
  end.

(* the body of the operand loop of MIR_finish_func for one operand whose expected mode and
   out flag are known *)
Definition check_shape (code : opcode) (i : nat) (expected : op_mode) (out_p : bool) (s : shape) : res unit :=
  let classify : res (op_mode * bool) :=           (* (mode, can_be_out_p) *)
    match s with
    | SReg RC_undecl => Err E_undeclared_func_reg
    | SReg (RC t) => Ok (type2mode t, true)
    | SMem t neg b x =>
        if wrong_type_p t && (negb (all_blk_type_p t) || negb (call_code_p code) || (i <? 2))
           && (negb (type_eqb t T_UNDEF) || negb (va_list_pos code i))
        then Err E_wrong_type
        else if all_blk_type_p t && neg then Err E_wrong_type
        else bind (check_bclass b) (fun _ => bind (check_bclass x) (fun _ => Ok (type2mode t, true)))
    | SRef _ | SStr => Ok (OP_INT, false)
    | _ => Ok (shape_mode s, false)
    end in
  bind classify (fun mc =>
    let '(mode, can_be_out) := mc in
    let modecheck : res unit :=
      if mode_eqb mode OP_UNDEF && mode_eqb (shape_mode s) OP_MEM && va_list_pos code i then Ok tt
      else if mode_eqb expected OP_REG then
        (if mode_eqb (shape_mode s) OP_REG then Ok tt else Err E_op_mode)
      else if negb (mode_eqb expected OP_UNDEF)
              && negb (mode_eqb (if mode_eqb mode OP_UINT then OP_INT else mode) expected)
      then Err E_op_mode
      else Ok tt in
    bind modecheck (fun _ => if out_p && negb can_be_out then Err E_out_op else Ok tt)).

(* ------------------------------------------------------------------ MIR_insn_op_mode *)

Definition proto_of_call (unspec : list proto) (code : opcode) (ops : list operand) : proto :=
  match code with
  | UNSPEC => match nth_op ops 0 with
              | OInt v => nth (Z.to_nat v) unspec empty_proto
              | _ => empty_proto
              end
  | _ => match nth_op ops 0 with
         | ORef I_proto (Some p) => p
         | _ => empty_proto
         end
  end.

Definition insn_op_mode (unspec : list proto) (code : opcode) (ops : list operand) (nop : nat)
  : op_mode * bool :=
  match code with
  | RET => (op_mode_of (nth_op ops nop), false)
  | SWITCH => (if nop =? 0 then OP_INT else op_mode_of (nth_op ops nop), false)
  | ADDR | ADDR8 | ADDR16 | ADDR32 =>
      (if nop =? 0 then OP_INT else op_mode_of (nth_op ops nop), nop =? 0)
  | PHI => (op_mode_of (nth_op ops nop), nop =? 0)
  | USE => (op_mode_of (nth_op ops nop), false)
  | CALL | INLINE | JCALL | UNSPEC =>
      let p := proto_of_call unspec code ops in
      let args_start := match code with UNSPEC => 1 | _ => 2 end in
      let nres := length (p_res p) in
      let out_p := (args_start <=? nop) && (nop <? nres + args_start) in
      let nargs := nres + args_start + length (p_args p) in
      if p_vararg p && (nargs <=? nop) then (OP_UNDEF, out_p)
      else if nop =? 0 then (op_mode_of (nth_op ops nop), out_p)
      else if (nop =? 1) && negb (match code with UNSPEC => true | _ => false end) then (OP_INT, out_p)
      else if out_p then (type2mode (nth (nop - args_start) (p_res p) T_I64), out_p)
      else (type2mode (fst (nth (nop - args_start - nres) (p_args p) (T_I64, 0%Z))), out_p)
  | _ => cell (desc_of code) nop
  end.

(* expected mode and out flag as MIR_finish_func computes them *)
Definition expected_of (unspec : list proto) (fc : func_ctx) (code : opcode) (ops : list operand) (i : nat)
  : op_mode * bool :=
  match code with
  | SWITCH => (if i =? 0 then OP_INT else OP_LABEL, false)
  | RET => (type2mode (nth i (f_res fc) T_I64), false)
  | _ => if addr_code_p code && (i =? 1) then (OP_REG, false)
         else insn_op_mode unspec code ops i
  end.

(* operands the loop skips ("checked during insn creation") *)
Definition skipped (code : opcode) (i : nat) (o : operand) : bool :=
  match code with
  | UNSPEC => i =? 0
  | CALL | INLINE | JCALL => (i =? 0) || ((i =? 1) && mode_eqb (op_mode_of o) OP_REF)
  | VA_ARG => i =? 2
  | _ => false
  end.

Fixpoint check_ops_from (unspec : list proto) (fc : func_ctx) (code : opcode) (all : list operand)
         (i : nat) (ops : list operand) : res unit :=
  match ops with
  | [] => Ok tt
  | o :: ops' =>
      bind (if skipped code i o then Ok tt
            else let '(e, out_p) := expected_of unspec fc code all i in
                 check_shape code i e out_p (shape_of fc o))
           (fun _ => check_ops_from unspec fc code all (S i) ops')
  end.

Definition check_ops (unspec : list proto) (fc : func_ctx) (ins : insn) : res unit :=
  check_ops_from unspec fc (i_code ins) (i_ops ins) 0 (i_ops ins).

(* ------------------------------------------------------------------ MIR_finish_func *)

(* "for (prev_insn = DLIST_PREV ...; prev_insn != NULL; ...)
      if (prev_insn->code != MIR_MOV || prev_insn->ops[1].mode != MIR_OP_REG) break;"
   [before] = the preceding insns, nearest first *)
Fixpoint ovf_producer (before : list insn) : option opcode :=
  match before with
  | [] => None
  | p :: before' =>
      if opcode_eqb (i_code p) MOV && is_reg (nth_op (i_ops p) 1) then ovf_producer before'
      else Some (i_code p)
  end.

Definition code_is (c d : opcode) : bool := opcode_eqb c d.

Definition check_header (fc : func_ctx) (ret_p jret_p : bool) (before : list insn) (ins : insn) : res unit :=
  let code := i_code ins in
  let nops := length (i_ops ins) in
  if code_is code PHI || code_is code USE then Err E_vararg_func
  else if negb (f_vararg fc) && code_is code VA_START then Err E_vararg_func
  else if code_is code JRET && negb (length (f_res fc) =? 0) then Err E_vararg_func
  else if (code_is code JRET && ret_p) || (code_is code RET && jret_p) then Err E_vararg_func
  else if code_is code RET && negb (nops =? length (f_res fc)) then Err E_vararg_func
  else if call_code_p code then Ok tt
  else if ovf_branch_p code then
    match ovf_producer before with
    | None => Err E_invalid_insn
    | Some pc =>
        if negb (overflow_insn_code_p pc) then Err E_invalid_insn
        else if (code_is code UBO || code_is code UBNO) && (code_is pc MULO || code_is pc MULOS)
        then Err E_invalid_insn
        else if (code_is code BO || code_is code BNO) && (code_is pc UMULO || code_is pc UMULOS)
        then Err E_invalid_insn
        else Ok tt
    end
  else Ok tt.

Fixpoint check_insns (unspec : list proto) (fc : func_ctx) (ret_p jret_p : bool) (before : list insn)
         (insns : list insn) : res unit :=
  match insns with
  | [] => Ok tt
  | ins :: rest =>
      let ret_p' := ret_p || code_is (i_code ins) RET in
      let jret_p' := jret_p || code_is (i_code ins) JRET in
      bind (check_header fc ret_p' jret_p' before ins) (fun _ =>
      bind (check_ops unspec fc ins) (fun _ =>
      check_insns unspec fc ret_p' jret_p' (ins :: before) rest))
  end.

Definition check_finish (unspec : list proto) (fc : func_ctx) (insns : list insn) : res unit :=
  check_insns unspec fc false false [] insns.

(* building a function body: every instruction is created (MIR_new_insn_arr) and appended, then
   MIR_finish_func runs.  The first error wins; creation errors come first in time. *)
Fixpoint check_created (unspec : list proto) (insns : list insn) : res unit :=
  match insns with
  | [] => Ok tt
  | ins :: rest => bind (check_new_insn unspec (i_code ins) (i_ops ins)) (fun _ => check_created unspec rest)
  end.

Definition check_body (unspec : list proto) (fc : func_ctx) (insns : list insn) : res unit :=
  bind (check_created unspec insns) (fun _ => check_finish unspec fc insns).

(* ------------------------------------------------------------------ register declarations *)

Fixpoint is_prefix (p n : name) : bool :=
  match p, n with
  | [], _ => true
  | x :: p', y :: n' => N.eqb x y && is_prefix p' n'
  | _ :: _, [] => false
  end.

Definition is_digit (c : N) : bool := (48 <=? c)%N && (c <=? 57)%N.

(* _MIR_reserved_name_p: ".lc..." or "hr" followed by digits only (possibly none) *)
Definition reserved_name_p (n : name) : bool :=
  is_prefix [46; 108; 99]%N n
  || (is_prefix [104; 114]%N n && forallb is_digit (skipn 2 n)).

Fixpoint index_of (n : name) (l : list name) (k : N) : option N :=
  match l with
  | [] => None
  | x :: l' => if name_eqb x n then Some k else index_of n l' (k + 1)%N
  end.

(* _MIR_get_hard_reg *)
Definition hard_reg_index (h : name) : option N := index_of h hard_reg_names 0%N.

Definition int_type_p (t : mir_type) : bool :=
  match t with
  | T_I8 | T_U8 | T_I16 | T_U16 | T_I32 | T_U32 | T_I64 | T_U64 | T_P => true
  | _ => false
  end.

(* target_hard_reg_type_ok_p (x86-64) *)
Definition hard_reg_type_ok (hr : N) (t : mir_type) : bool :=
  match t with
  | T_LD => false
  | _ => match first_xmm_hard_reg with
         | Some x => if int_type_p t then (hr <? x)%N else (x <=? hr)%N
         | None => false
         end
  end.

Definition hard_reg_fixed (hr : N) : bool :=
  match fixed_hard_regs with
  | Some l => existsb (N.eqb hr) l
  | None => true
  end.

Definition opt_name_eqb (a : option name) (b : name) : bool :=
  match a with Some x => name_eqb x b | None => false end.

(* create_func_reg with any_p = FALSE; returns the new context and the register number handed back *)
Definition create_func_reg (fc : func_ctx) (nm : name) (hard : option name) (reg : N) (t : mir_type)
  : res (func_ctx * N) :=
  if reserved_name_p nm then Err E_reserved_name
  else match find_rd_by_name fc nm with
  | Some _ => Err E_repeated_decl
  | None =>
      let add := {| f_vararg := f_vararg fc; f_res := f_res fc;
                    f_regs := {| rd_reg := reg; rd_name := nm; rd_type := t; rd_hard := hard |} :: f_regs fc;
                    f_nvars := f_nvars fc; f_nglobals := f_nglobals fc |} in
      match hard with
      | None => Ok (add, reg)
      | Some h =>
          match hard_reg_index h with
          | None => Err E_hard_reg
          | Some hr =>
              if negb (hard_reg_type_ok hr t) then Err E_hard_reg
              else if hard_reg_fixed hr then Err E_hard_reg
              else match find (fun d => opt_name_eqb (rd_hard d) h) (f_regs fc) with
                   | Some d => if negb (type_eqb t (rd_type d)) then Err E_repeated_decl
                               else Ok (fc, rd_reg d)       (* the existing register; name not declared *)
                   | None => Ok (add, reg)
                   end
          end
      end
  end.

(* new_func_reg (func != NULL) *)
Definition new_func_reg (fc : func_ctx) (t : mir_type) (nm : name) (hard : option name) : res (func_ctx * N) :=
  if negb (reg_type_ok t) then Err E_reg_type
  else
    let reg := (f_nvars fc + 1 + f_nglobals fc)%N in
    bind (create_func_reg fc nm hard reg t) (fun r =>
      let '(fc', got) := r in
      if negb (N.eqb got reg) then Ok (fc', got)
      else Ok ({| f_vararg := f_vararg fc'; f_res := f_res fc'; f_regs := f_regs fc';
                  f_nvars := match hard with None => (f_nvars fc' + 1)%N | Some _ => f_nvars fc' end;
                  f_nglobals := match hard with None => f_nglobals fc' | Some _ => (f_nglobals fc' + 1)%N end |},
               got)).

(* MIR_new_global_func_reg *)
Definition new_global_func_reg (fc : func_ctx) (t : mir_type) (nm : name) (hard : option name) : res (func_ctx * N) :=
  match hard with
  | None => Err E_hard_reg
  | Some _ => new_func_reg fc t nm hard
  end.

(* MIR_reg / MIR_reg_type *)
Definition mir_reg (fc : func_ctx) (nm : name) : res N :=
  match find_rd_by_name fc nm with Some d => Ok (rd_reg d) | None => Err E_undeclared_func_reg end.

Definition mir_reg_type (fc : func_ctx) (r : N) : res mir_type :=
  match find_rd_by_reg fc r with Some d => Ok (rd_type d) | None => Err E_undeclared_func_reg end.

(* new_func_arr: [args] = (type, name) of the parameters *)
Fixpoint declare_args (fc : func_ctx) (k : N) (args : list (mir_type * name)) : res func_ctx :=
  match args with
  | [] => Ok fc
  | (t, nm) :: args' =>
      let rt := match t with T_F | T_D | T_LD => t | _ => T_I64 end in
      bind (create_func_reg fc nm None (k + 1)%N rt) (fun r => declare_args (fst r) (k + 1)%N args')
  end.

Definition new_func (vararg : bool) (res_types : list mir_type) (args : list (mir_type * name)) : res func_ctx :=
  if (length args =? 0) && vararg then Err E_vararg_func
  else if existsb wrong_type_p res_types then Err E_wrong_type
  else declare_args {| f_vararg := vararg; f_res := res_types; f_regs := [];
                       f_nvars := N.of_nat (length args); f_nglobals := 0 |} 0%N args.

(* new_proto_arr *)
Definition new_proto (res_types : list mir_type) : res unit :=
  if existsb wrong_type_p res_types then Err E_wrong_type else Ok tt.

(* ------------------------------------------------------------------ the API as a step machine
   (what harness/c15_api.c drives; ocaml/driver_c15.ml drives this) *)

Record state : Type := {
  s_func : option func_ctx;       (* curr_func *)
  s_insns : list insn;            (* its insns, most recent FIRST *)
  s_unspec : list proto
}.

Definition init_state : state := {| s_func := None; s_insns := []; s_unspec := [] |}.

Inductive cmd : Type :=
| CProto (res_types : list mir_type)
| CUnspecProto (p : proto)
| CFunc (vararg : bool) (res_types : list mir_type) (args : list (mir_type * name))
| CReg (t : mir_type) (nm : name)
| CGreg (t : mir_type) (nm : name) (hard : option name)
| CLookup (nm : name)
| CRegType (r : N)
| CInsn (code : N) (ops : list operand)
| CNew (code : N) (ops : list operand)
| CFinish.

(* result: new state and, for register-creating / looking-up steps, the register number *)
Definition step (s : state) (c : cmd) : res (state * option N) :=
  let with_fc (fc : func_ctx) := {| s_func := Some fc; s_insns := s_insns s; s_unspec := s_unspec s |} in
  match c with
  | CProto rt => bind (new_proto rt) (fun _ => Ok (s, None))
  | CUnspecProto p => Ok ({| s_func := s_func s; s_insns := s_insns s; s_unspec := s_unspec s ++ [p] |}, None)
  | CFunc v rt args =>
      match s_func s with
      | Some _ => Err E_nested_func
      | None => bind (new_func v rt args) (fun fc =>
                  Ok ({| s_func := Some fc; s_insns := []; s_unspec := s_unspec s |}, None))
      end
  | CReg t nm =>
      match s_func s with
      | None => Err E_reg_type
      | Some fc => bind (new_func_reg fc t nm None) (fun r => Ok (with_fc (fst r), Some (snd r)))
      end
  | CGreg t nm hard =>
      match hard, s_func s with
      | None, _ => Err E_hard_reg
      | Some _, None => Err E_reg_type
      | Some _, Some fc => bind (new_global_func_reg fc t nm hard) (fun r => Ok (with_fc (fst r), Some (snd r)))
      end
  | CLookup nm =>
      match s_func s with
      | None => Err E_no_func
      | Some fc => bind (mir_reg fc nm) (fun r => Ok (s, Some r))
      end
  | CRegType r =>
      match s_func s with
      | None => Err E_no_func
      | Some fc => bind (mir_reg_type fc r) (fun _ => Ok (s, None))
      end
  | CInsn code ops =>
      match opcode_of_num code with
      | None => Err E_wrong_param_value
      | Some oc =>
          bind (check_new_insn (s_unspec s) oc ops) (fun _ =>
            Ok ({| s_func := s_func s; s_insns := {| i_code := oc; i_ops := ops |} :: s_insns s;
                   s_unspec := s_unspec s |}, None))
      end
  | CNew code ops =>
      match opcode_of_num code with
      | None => Err E_wrong_param_value
      | Some oc =>
          bind (check_new_insn_va (s_unspec s) oc ops) (fun ops' =>
            Ok ({| s_func := s_func s; s_insns := {| i_code := oc; i_ops := ops' |} :: s_insns s;
                   s_unspec := s_unspec s |}, None))
      end
  | CFinish =>
      match s_func s with
      | None => Err E_no_func
      | Some fc =>
          bind (check_finish (s_unspec s) fc (rev (s_insns s))) (fun _ =>
            Ok ({| s_func := None; s_insns := []; s_unspec := s_unspec s |}, None))
      end
  end.

(* C15: proofs, part 3: whole function bodies.  Building any list of instructions through the
   API and finishing the function raises no error exactly when MIR.md's rules allow every
   instruction and the function-level rules hold (ret count and ret/jret discipline, va_start
   only in vararg functions, overflow branches after their producer) -- by induction over the
   instruction list. *)
From Coq Require Import List NArith ZArith Bool Lia.
From MirV Require Import Mir.Opcode C15.Defs gen.InsnDescs C15.Validate C15.DocModes C15.TableProofs
  C15.ValidateProofs C15.VarProofs.
Import ListNotations.
Local Open Scope bool_scope.

Definition created (unspec : list proto) (ins : insn) : bool :=
  is_ok (check_new_insn unspec (i_code ins) (i_ops ins)).

(* ------------------------------------------------------------------ atoms about opcodes *)

Lemma code_is_refl c : code_is c c = true.
Proof. unfold code_is. now apply opcode_eqb_eq. Qed.

Lemma code_is_neq c d : c <> d -> code_is c d = false.
Proof.
  intros H. unfold code_is. destruct (opcode_eqb c d) eqn:E; [|reflexivity].
  apply opcode_eqb_eq in E. contradiction.
Qed.

Lemma code_is_true c d : code_is c d = true -> c = d.
Proof. apply opcode_eqb_eq. Qed.

Lemma is_code_code_is c d : is_code c d = code_is c d.
Proof. reflexivity. Qed.

Lemma overflow_same c : overflow_insn_code_p c = is_overflow_insn c.
Proof. destruct c; reflexivity. Qed.

(* fixed-arity codes are not ret / call / phi / use *)
Lemma fixed_atoms code sig : doc_sig code = Some sig ->
  code_is code RET = false /\ code_is code PHI = false /\ code_is code USE = false
  /\ call_code_p code = false.
Proof. intros H. destruct code; try discriminate H; repeat split; reflexivity. Qed.

Lemma fixed_not_special code sig : doc_sig code = Some sig ->
  match code with CALL | INLINE | JCALL | SWITCH | RET => False | _ => True end.
Proof. intros H. destruct code; try discriminate H; exact I. Qed.

Lemma ovf_branch_codes c :
  ovf_branch_p c = match c with BO | BNO | UBO | UBNO => true | _ => false end.
Proof. destruct c; reflexivity. Qed.

(* ------------------------------------------------------------------ the overflow-branch rule *)

Lemma created_mov unspec p : created unspec p = true -> code_is (i_code p) MOV = true ->
  exists a b, i_ops p = [a; b].
Proof.
  intros Hc Hm. apply code_is_true in Hm. unfold created in Hc. rewrite Hm in Hc.
  unfold check_new_insn in Hc. cbn [call_code_p negb andb] in Hc.
  destruct (length (i_ops p) =? desc_nops MOV) eqn:E; [|discriminate].
  apply Nat.eqb_eq in E. assert (desc_nops MOV = 2) as D by (vm_compute; reflexivity). rewrite D in E.
  now apply length2.
Qed.

Definition ovf_cond (c pc : opcode) : bool :=
  overflow_insn_code_p pc
  && negb ((code_is c UBO || code_is c UBNO) && (code_is pc MULO || code_is pc MULOS))
  && negb ((code_is c BO || code_is c BNO) && (code_is pc UMULO || code_is pc UMULOS)).

Lemma ovf_cond_doc c pc :
  ovf_cond c pc
  = is_overflow_insn pc
    && negb (match c with UBO | UBNO => true | _ => false end
             && match pc with MULO | MULOS => true | _ => false end)
    && negb (match c with BO | BNO => true | _ => false end
             && match pc with UMULO | UMULOS => true | _ => false end).
Proof.
  unfold ovf_cond. rewrite overflow_same.
  assert ((code_is c UBO || code_is c UBNO) = match c with UBO | UBNO => true | _ => false end) as ->
    by (destruct c; reflexivity).
  assert ((code_is c BO || code_is c BNO) = match c with BO | BNO => true | _ => false end) as ->
    by (destruct c; reflexivity).
  assert ((code_is pc MULO || code_is pc MULOS) = match pc with MULO | MULOS => true | _ => false end) as ->
    by (destruct pc; reflexivity).
  assert ((code_is pc UMULO || code_is pc UMULOS) = match pc with UMULO | UMULOS => true | _ => false end) as ->
    by (destruct pc; reflexivity).
  reflexivity.
Qed.

Lemma ovf_equiv unspec c : forall before, forallb (created unspec) before = true ->
  match ovf_producer before with None => false | Some pc => ovf_cond c pc end
  = doc_ovf_pred c before.
Proof.
  induction before as [|p before IH]; intros Hcr; [reflexivity|].
  cbn [forallb] in Hcr. apply andb_true_iff in Hcr as [Hp Hb].
  cbn [ovf_producer doc_ovf_pred].
  destruct (opcode_eqb (i_code p) MOV) eqn:Em.
  - destruct (created_mov unspec p Hp Em) as (a & b & Hops).
    apply opcode_eqb_eq in Em.
    assert (is_reg_move p = is_reg b) as -> by (unfold is_reg_move; rewrite Em, Hops; destruct b; reflexivity).
    rewrite Hops. cbn [nth_op nth andb]. destruct (is_reg b); [now apply IH|].
    rewrite Em, ovf_cond_doc. reflexivity.
  - cbn [andb].
    assert (is_reg_move p = false) as ->.
    { unfold is_reg_move. destruct (i_code p) eqn:E; try reflexivity.
      rewrite (proj2 (opcode_eqb_eq MOV MOV) eq_refl) in Em. discriminate. }
    rewrite ovf_cond_doc. reflexivity.
Qed.

(* ------------------------------------------------------------------ the header as a formula *)

Lemma header_bool fc rp jp before ins :
  is_ok (check_header fc rp jp before ins)
  = negb (code_is (i_code ins) PHI || code_is (i_code ins) USE)
    && negb (negb (f_vararg fc) && code_is (i_code ins) VA_START)
    && negb (code_is (i_code ins) JRET && negb (length (f_res fc) =? 0))
    && negb ((code_is (i_code ins) JRET && rp) || (code_is (i_code ins) RET && jp))
    && negb (code_is (i_code ins) RET && negb (length (i_ops ins) =? length (f_res fc)))
    && (call_code_p (i_code ins) || negb (ovf_branch_p (i_code ins))
        || match ovf_producer before with None => false | Some pc => ovf_cond (i_code ins) pc end).
Proof.
  unfold check_header, ovf_cond.
  destruct (code_is (i_code ins) PHI || code_is (i_code ins) USE); [reflexivity|].
  destruct (negb (f_vararg fc) && code_is (i_code ins) VA_START); [reflexivity|].
  destruct (code_is (i_code ins) JRET && negb (length (f_res fc) =? 0)); [reflexivity|].
  destruct ((code_is (i_code ins) JRET && rp) || (code_is (i_code ins) RET && jp)); [reflexivity|].
  destruct (code_is (i_code ins) RET && negb (length (i_ops ins) =? length (f_res fc))); [reflexivity|].
  destruct (call_code_p (i_code ins)); [reflexivity|].
  destruct (ovf_branch_p (i_code ins)); [|reflexivity].
  destruct (ovf_producer before) as [pc|]; [|reflexivity].
  destruct (overflow_insn_code_p pc); [|reflexivity].
  destruct ((code_is (i_code ins) UBO || code_is (i_code ins) UBNO) && (code_is pc MULO || code_is pc MULOS));
    [reflexivity|].
  destruct ((code_is (i_code ins) BO || code_is (i_code ins) BNO) && (code_is pc UMULO || code_is pc UMULOS));
    reflexivity.
Qed.

Ltac eval_code_is :=
  repeat match goal with
         | |- context [code_is ?a ?b] =>
             let v := eval vm_compute in (code_is a b) in change (code_is a b) with v
         end.

(* ------------------------------------------------------------------ one instruction in its place *)

(* the function-level conjuncts of DocModes.doc_insns_ok for one instruction *)
Definition doc_rules (fc : func_ctx) (rets jrets : bool) (before : list insn) (c : opcode) : bool :=
  (negb (code_is c VA_START) || f_vararg fc)
  && (negb (code_is c JRET) || ((length (f_res fc) =? 0) && negb rets))
  && (negb (code_is c RET) || negb jrets)
  && (negb (match c with BO | BNO | UBO | UBNO => true | _ => false end) || doc_ovf_pred c before).

Lemma check_insn_fixed_bool unspec fc ins sig : fc_wf fc -> doc_sig (i_code ins) = Some sig ->
  created unspec ins && is_ok (check_ops unspec fc ins) = doc_insn_ok fc ins.
Proof.
  intros Hwf Hsig. pose proof (validate_iff_doc_fixed_lemma unspec fc ins sig Hwf Hsig) as H.
  unfold check_insn in H. rewrite <- is_ok_true, is_ok_bind_unit in H. unfold created.
  destruct (is_ok (check_new_insn unspec (i_code ins) (i_ops ins)) && is_ok (check_ops unspec fc ins)),
    (doc_insn_ok fc ins); try reflexivity.
  - symmetry. now apply H.
  - now apply H.
Qed.

Lemma one_insn unspec fc rets jrets before ins :
  fc_wf fc -> res_types_ok fc = true -> insn_in_domain ins = true ->
  forallb (created unspec) before = true ->
  created unspec ins
  && is_ok (check_header fc (rets || code_is (i_code ins) RET) (jrets || code_is (i_code ins) JRET) before ins)
  && is_ok (check_ops unspec fc ins)
  = doc_insn_ok fc ins && doc_rules fc rets jrets before (i_code ins).
Proof.
  intros Hwf Hres Hdom Hbefore.
  rewrite header_bool, (ovf_equiv unspec (i_code ins) before Hbefore), ovf_branch_codes.
  unfold doc_rules.
  destruct (doc_sig (i_code ins)) as [sig|] eqn:Hsig.
  - (* fixed arity *)
    destruct (fixed_atoms _ _ Hsig) as (Hret & Hphi & Huse & Hcall).
    rewrite Hret, Hphi, Huse, Hcall.
    rewrite <- (check_insn_fixed_bool unspec fc ins sig Hwf Hsig).
    set (a := created unspec ins). set (b := is_ok (check_ops unspec fc ins)).
    set (va := code_is (i_code ins) VA_START). set (jr := code_is (i_code ins) JRET).
    set (ob := match i_code ins with BO | BNO | UBO | UBNO => true | _ => false end).
    set (op := doc_ovf_pred (i_code ins) before). set (vf := f_vararg fc).
    set (z := length (f_res fc) =? 0).
    clearbody a b va jr ob op vf z.
    destruct a, b, va, jr, ob, op, vf, z, rets, jrets; reflexivity.
  - destruct ins as [code ops]. cbn [i_code i_ops] in *.
    destruct code; try discriminate Hsig; try discriminate Hdom;
      unfold doc_insn_ok; cbn [i_code i_ops doc_sig]; eval_code_is; cbn [call_code_p negb andb orb].
    + (* CALL *)
      rewrite <- (validate_call_bool unspec fc CALL ops eq_refl Hwf Hdom). unfold created. cbn [i_code i_ops].
      destruct (is_ok (check_new_insn unspec CALL ops)), (is_ok (check_ops unspec fc {| i_code := CALL; i_ops := ops |})),
        (f_vararg fc); reflexivity.
    + (* INLINE *)
      rewrite <- (validate_call_bool unspec fc INLINE ops eq_refl Hwf Hdom). unfold created. cbn [i_code i_ops].
      destruct (is_ok (check_new_insn unspec INLINE ops)), (is_ok (check_ops unspec fc {| i_code := INLINE; i_ops := ops |})),
        (f_vararg fc); reflexivity.
    + (* JCALL *)
      rewrite <- (validate_call_bool unspec fc JCALL ops eq_refl Hwf Hdom). unfold created. cbn [i_code i_ops].
      destruct (is_ok (check_new_insn unspec JCALL ops)), (is_ok (check_ops unspec fc {| i_code := JCALL; i_ops := ops |})),
        (f_vararg fc); reflexivity.
    + (* SWITCH *)
      rewrite <- (validate_switch_bool unspec fc ops Hwf). unfold created. cbn [i_code i_ops].
      destruct (is_ok (check_new_insn unspec SWITCH ops)), (is_ok (check_ops unspec fc {| i_code := SWITCH; i_ops := ops |})),
        (f_vararg fc); reflexivity.
    + (* RET *)
      rewrite <- (validate_ret_bool unspec fc ops Hwf Hres).
      assert (created unspec {| i_code := RET; i_ops := ops |} = true) as -> by reflexivity.
      destruct (length ops =? length (f_res fc)), (is_ok (check_ops unspec fc {| i_code := RET; i_ops := ops |})),
        jrets, (f_vararg fc); reflexivity.
    + (* USE *) now rewrite andb_false_r.
    + (* PHI *) now rewrite andb_false_r.
    + (* INSN_BOUND *)
      assert (created unspec {| i_code := INSN_BOUND; i_ops := ops |} = false) as -> by reflexivity.
      reflexivity.
Qed.

(* ------------------------------------------------------------------ whole bodies *)

Lemma check_body_bool unspec fc : fc_wf fc -> res_types_ok fc = true ->
  forall insns before rets jrets,
  forallb insn_in_domain insns = true -> forallb (created unspec) before = true ->
  is_ok (check_created unspec insns) && is_ok (check_insns unspec fc rets jrets before insns)
  = doc_insns_ok fc rets jrets before insns.
Proof.
  intros Hwf Hres. induction insns as [|ins insns IH]; intros before rets jrets Hdom Hbefore; [reflexivity|].
  cbn [forallb] in Hdom. apply andb_true_iff in Hdom as [Hd Hdom].
  cbn [check_created check_insns doc_insns_ok]. rewrite !is_ok_bind_unit.
  pose proof (one_insn unspec fc rets jrets before ins Hwf Hres Hd Hbefore) as H1.
  unfold doc_rules in H1. change is_code with code_is.
  fold (created unspec ins).
  set (h := is_ok (check_header fc (rets || code_is (i_code ins) RET) (jrets || code_is (i_code ins) JRET) before ins)) in *.
  set (o := is_ok (check_ops unspec fc ins)) in *.
  set (dio := doc_insn_ok fc ins) in *.
  set (r1 := negb (code_is (i_code ins) VA_START) || f_vararg fc) in *.
  set (r2 := negb (code_is (i_code ins) JRET) || (length (f_res fc) =? 0) && negb rets) in *.
  set (r3 := negb (code_is (i_code ins) RET) || negb jrets) in *.
  set (r4 := negb match i_code ins with BO | UBO | BNO | UBNO => true | _ => false end
             || doc_ovf_pred (i_code ins) before) in *.
  destruct (created unspec ins) eqn:Hc.
  - assert (forallb (created unspec) (ins :: before) = true) as Hb' by (cbn; now rewrite Hc, Hbefore).
    specialize (IH (ins :: before) (rets || code_is (i_code ins) RET) (jrets || code_is (i_code ins) JRET) Hdom Hb').
    rewrite <- IH.
    set (cr := is_ok (check_created unspec insns)) in *.
    set (ci := is_ok (check_insns unspec fc (rets || code_is (i_code ins) RET) (jrets || code_is (i_code ins) JRET) (ins :: before) insns)) in *.
    clearbody h o dio r1 r2 r3 r4 cr ci.
    destruct h, o, dio, r1, r2, r3, r4, cr, ci; cbn in *; congruence.
  - clearbody h o dio r1 r2 r3 r4.
    destruct h, o, dio, r1, r2, r3, r4; cbn in *; try congruence; try reflexivity.
Qed.

Lemma validate_iff_doc_lemma unspec fc insns :
  fc_wf fc -> res_types_ok fc = true -> forallb insn_in_domain insns = true ->
  (check_body unspec fc insns = Ok tt <-> doc_func_ok fc insns = true).
Proof.
  intros Hwf Hres Hdom. rewrite <- is_ok_true. unfold check_body, check_finish, doc_func_ok.
  rewrite is_ok_bind_unit, (check_body_bool unspec fc Hwf Hres insns [] false false Hdom eq_refl). tauto.
Qed.

(* outside the documented domain the checker does accept things: e.g. the pseudo instruction
   invalid-insn with no operands *)
Lemma undocumented_code_accepted :
  exists ins, insn_in_domain ins = false
              /\ check_body [] {| f_vararg := false; f_res := []; f_regs := []; f_nvars := 0; f_nglobals := 0 |} [ins] = Ok tt.
Proof. exists {| i_code := INVALID_INSN; i_ops := [] |}. split; vm_compute; reflexivity. Qed.

(* ------------------------------------------------------------------ error codes of the header checks *)

(* MIR_finish_func's per-instruction header checks report MIR_invalid_insn_error exactly for a
   broken overflow-branch rule, and MIR_vararg_func_error for: use/phi, va_start outside a vararg
   function, jret in a function with results, ret/jret mixing, a ret whose operand count differs
   from the number of results.  (The code is what mir.c passes; MIR_ret_error is never used.) *)
Lemma header_error_codes_lemma fc rp jp before ins e :
  check_header fc rp jp before ins = Err e ->
  (e = E_invalid_insn /\ ovf_branch_p (i_code ins) = true /\ call_code_p (i_code ins) = false
   /\ match ovf_producer before with None => false | Some pc => ovf_cond (i_code ins) pc end = false)
  \/ (e = E_vararg_func
      /\ (code_is (i_code ins) PHI || code_is (i_code ins) USE
          || (negb (f_vararg fc) && code_is (i_code ins) VA_START)
          || (code_is (i_code ins) JRET && negb (length (f_res fc) =? 0))
          || ((code_is (i_code ins) JRET && rp) || (code_is (i_code ins) RET && jp))
          || (code_is (i_code ins) RET && negb (length (i_ops ins) =? length (f_res fc)))) = true).
Proof.
  unfold check_header, ovf_cond. intros H.
  destruct (code_is (i_code ins) PHI || code_is (i_code ins) USE) eqn:E1;
    [right; inversion H; split; [reflexivity|]; reflexivity|].
  destruct (negb (f_vararg fc) && code_is (i_code ins) VA_START) eqn:E2;
    [right; inversion H; split; reflexivity|].
  destruct (code_is (i_code ins) JRET && negb (length (f_res fc) =? 0)) eqn:E3;
    [right; inversion H; split; [reflexivity|]; now rewrite orb_true_r|].
  destruct ((code_is (i_code ins) JRET && rp) || (code_is (i_code ins) RET && jp)) eqn:E4;
    [right; inversion H; split; [reflexivity|]; now rewrite orb_true_r|].
  destruct (code_is (i_code ins) RET && negb (length (i_ops ins) =? length (f_res fc))) eqn:E5;
    [right; inversion H; split; [reflexivity|]; now rewrite orb_true_r|].
  destruct (call_code_p (i_code ins)) eqn:E6; [discriminate|].
  destruct (ovf_branch_p (i_code ins)) eqn:E7; [|discriminate].
  left. destruct (ovf_producer before) as [pc|].
  - destruct (overflow_insn_code_p pc); cbn [negb andb] in *.
    + destruct ((code_is (i_code ins) UBO || code_is (i_code ins) UBNO) && (code_is pc MULO || code_is pc MULOS)).
      * inversion H. repeat split; reflexivity.
      * destruct ((code_is (i_code ins) BO || code_is (i_code ins) BNO) && (code_is pc UMULO || code_is pc UMULOS));
          [inversion H; repeat split; reflexivity | discriminate].
    + inversion H. repeat split; reflexivity.
  - inversion H. repeat split; reflexivity.
Qed.

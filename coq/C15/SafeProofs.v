(* C15, round 2: the strict checker (Safe.v) never takes an out-of-bounds branch: for every list of
   instructions, in every function context, it equals [Some] of the plain checker model. *)
From Coq Require Import List NArith ZArith Bool Lia.
From MirV Require Import Mir.Opcode C15.Defs gen.InsnDescs C15.Validate C15.TableProofs C15.ValidateProofs
  C15.DocModes C15.VarProofs C15.FuncProofs C15.BoundsProofs C15.Safe.
Import ListNotations.
Local Open Scope bool_scope.

Lemma nth_error_nth_op ops i : i < length ops -> nth_error ops i = Some (nth_op ops i).
Proof. intros H. unfold nth_op. now apply nth_error_nth'. Qed.

Lemma nth_error_nth_lt {A} (l : list A) i d : i < length l -> nth_error l i = Some (nth i l d).
Proof. intros H. now apply nth_error_nth'. Qed.

(* ------------------------------------------------------------------ creation *)

Lemma s_check_new_insn_eq unspec code ops :
  s_check_new_insn unspec code ops = Some (check_new_insn unspec code ops).
Proof.
  unfold s_check_new_insn, check_new_insn.
  destruct code; try reflexivity;
    cbn [call_code_p negb andb];
    try (destruct (length ops =? desc_nops _) eqn:E; cbn [negb]; [|reflexivity]);
    try reflexivity.
  - (* CALL *)
    destruct (length ops <? 2) eqn:E2; [reflexivity|]. apply Nat.ltb_ge in E2.
    rewrite (nth_error_nth_op ops 0) by lia. cbn [bindo].
    destruct (nth_op ops 0) as [| | | | | | | |k p|]; try reflexivity.
    destruct k; try reflexivity. destruct p as [p|]; [|reflexivity]. cbn [bindo bind].
    destruct ((length ops <? _) || _); reflexivity.
  - (* INLINE *)
    destruct (length ops <? 2) eqn:E2; [reflexivity|]. apply Nat.ltb_ge in E2.
    rewrite (nth_error_nth_op ops 0) by lia. cbn [bindo].
    destruct (nth_op ops 0) as [| | | | | | | |k p|]; try reflexivity.
    destruct k; try reflexivity. destruct p as [p|]; [|reflexivity]. cbn [bindo bind].
    destruct ((length ops <? _) || _); reflexivity.
  - (* JCALL *)
    destruct (length ops <? 2) eqn:E2; [reflexivity|]. apply Nat.ltb_ge in E2.
    rewrite (nth_error_nth_op ops 0) by lia. cbn [bindo].
    destruct (nth_op ops 0) as [| | | | | | | |k p|]; try reflexivity.
    destruct k; try reflexivity. destruct p as [p|]; [|reflexivity]. cbn [bindo bind].
    destruct ((length ops <? _) || _); reflexivity.
  - (* VA_ARG *)
    apply Nat.eqb_eq in E. rewrite desc_nops_va_arg in E.
    rewrite (nth_error_nth_op ops 2) by lia. reflexivity.
  - (* UNSPEC *)
    destruct (length ops <? 1) eqn:E2; [reflexivity|]. apply Nat.ltb_ge in E2.
    rewrite (nth_error_nth_op ops 0) by lia. cbn [bindo].
    destruct (nth_op ops 0) as [|v| | | | | | | |]; try reflexivity.
    destruct ((0 <=? v)%Z && (Z.to_nat v <? length unspec)) eqn:Ev; [|reflexivity].
    apply andb_true_iff in Ev as [_ Ev]. apply Nat.ltb_lt in Ev.
    rewrite (nth_error_nth_lt unspec (Z.to_nat v) empty_proto Ev). cbn [option_map bindo bind].
    destruct ((length ops <? _) || _); reflexivity.
  - (* PRSET *)
    apply Nat.eqb_eq in E. rewrite desc_nops_prset in E.
    rewrite (nth_error_nth_op ops 1) by lia. reflexivity.
  - (* PRBEQ *)
    apply Nat.eqb_eq in E. rewrite desc_nops_prbeq in E.
    rewrite (nth_error_nth_op ops 2), (nth_error_nth_op ops 1) by lia. cbn [bindo].
    destruct (negb (is_int_imm (nth_op ops 2))); reflexivity.
  - (* PRBNE *)
    apply Nat.eqb_eq in E. rewrite desc_nops_prbne in E.
    rewrite (nth_error_nth_op ops 2), (nth_error_nth_op ops 1) by lia. cbn [bindo].
    destruct (negb (is_int_imm (nth_op ops 2))); reflexivity.
Qed.

Lemma s_check_created_eq unspec insns : s_check_created unspec insns = Some (check_created unspec insns).
Proof.
  induction insns as [|ins insns IH]; [reflexivity|].
  cbn [s_check_created check_created]. rewrite s_check_new_insn_eq. cbn [seq_o].
  destruct (check_new_insn unspec (i_code ins) (i_ops ins)) as [[]|e]; [exact IH | reflexivity].
Qed.

(* ------------------------------------------------------------------ the shape of a created call *)

Lemma created_call unspec code ops : is_call code = true ->
  check_new_insn unspec code ops = Ok tt ->
  exists p, nth_op ops 0 = ORef I_proto (Some p) /\ 2 <= length ops
            /\ length (p_res p) + length (p_args p) + 2 <= length ops
            /\ (p_vararg p = false -> length ops = length (p_res p) + length (p_args p) + 2).
Proof.
  intros Hc H.
  assert (exists p, nth_op ops 0 = ORef I_proto (Some p) /\ 2 <= length ops
            /\ ((length ops <? length (p_res p) + length (p_args p) + 2)
                || (negb (length ops =? length (p_res p) + length (p_args p) + 2) && negb (p_vararg p))) = false) as (p & H0 & H2 & Hn).
  { destruct code; try discriminate Hc; unfold check_new_insn in H; cbn [call_code_p negb andb] in H;
      (destruct (length ops <? 2) eqn:E2; [discriminate H|]; apply Nat.ltb_ge in E2;
       destruct (nth_op ops 0) as [| | | | | | | |k p|]; try discriminate H;
       destruct k; try discriminate H; destruct p as [p|]; [|discriminate H];
       cbn [bind] in H; exists p; split; [reflexivity|]; split; [exact E2|];
       destruct ((length ops <? _) || _); [discriminate H | reflexivity]). }
  exists p. split; [exact H0|]. split; [exact H2|].
  apply orb_false_iff in Hn as [Ha Hb]. apply Nat.ltb_ge in Ha. split; [exact Ha|].
  intros Hv. rewrite Hv in Hb. cbn [negb] in Hb. rewrite andb_true_r in Hb.
  apply negb_false_iff, Nat.eqb_eq in Hb. exact Hb.
Qed.

Lemma created_unspec unspec ops :
  check_new_insn unspec UNSPEC ops = Ok tt ->
  exists v p, nth_op ops 0 = OInt v /\ (0 <= v)%Z /\ nth_error unspec (Z.to_nat v) = Some p
              /\ nth (Z.to_nat v) unspec empty_proto = p /\ 1 <= length ops
              /\ length (p_res p) + length (p_args p) + 1 <= length ops
              /\ (p_vararg p = false -> length ops = length (p_res p) + length (p_args p) + 1).
Proof.
  intros H. unfold check_new_insn in H. cbn [call_code_p negb andb] in H.
  destruct (length ops <? 1) eqn:E2; [discriminate H|]. apply Nat.ltb_ge in E2.
  destruct (nth_op ops 0) as [|v| | | | | | | |]; try discriminate H.
  destruct ((0 <=? v)%Z && (Z.to_nat v <? length unspec)) eqn:Ev; [|discriminate H].
  apply andb_true_iff in Ev as [Ev0 Ev]. apply Nat.ltb_lt in Ev. apply Z.leb_le in Ev0.
  cbn [bind] in H. set (p := nth (Z.to_nat v) unspec empty_proto) in *.
  exists v, p. split; [reflexivity|]. split; [exact Ev0|].
  split; [unfold p; now apply nth_error_nth'|]. split; [reflexivity|]. split; [exact E2|].
  destruct ((length ops <? length (p_res p) + length (p_args p) + 1)
            || (negb (length ops =? length (p_res p) + length (p_args p) + 1) && negb (p_vararg p))) eqn:Hn;
    [discriminate H|].
  apply orb_false_iff in Hn as [Ha Hb]. apply Nat.ltb_ge in Ha. split; [exact Ha|].
  intros Hv. rewrite Hv in Hb. cbn [negb] in Hb. rewrite andb_true_r in Hb.
  apply negb_false_iff, Nat.eqb_eq in Hb. exact Hb.
Qed.

(* ------------------------------------------------------------------ MIR_insn_op_mode *)

(* the operand-mode computation of a call-like instruction, given its prototype *)
Lemma s_call_mode unspec code ops p args_start nop :
  (code = UNSPEC /\ args_start = 1) \/ (is_call code = true /\ args_start = 2) ->
  s_proto_of_call unspec code ops = Some p -> proto_of_call unspec code ops = p ->
  nop < length ops ->
  length (p_res p) + length (p_args p) + args_start <= length ops ->
  (p_vararg p = false -> length ops = length (p_res p) + length (p_args p) + args_start) ->
  s_insn_op_mode unspec code ops nop = Some (insn_op_mode unspec code ops nop).
Proof.
  intros Hcode Hsp Hp Hnop Hle Hva.
  assert (s_insn_op_mode unspec code ops nop =
    bindo (s_proto_of_call unspec code ops) (fun p =>
        let nres := length (p_res p) in
        let out_p := (args_start <=? nop) && (nop <? nres + args_start) in
        let nargs := nres + args_start + length (p_args p) in
        if p_vararg p && (nargs <=? nop) then Some (OP_UNDEF, out_p)
        else if nop =? 0 then option_map (fun o => (op_mode_of o, out_p)) (nth_error ops nop)
        else if (nop =? 1) && negb (match code with UNSPEC => true | _ => false end) then Some (OP_INT, out_p)
        else if out_p then option_map (fun t => (type2mode t, out_p)) (nth_error (p_res p) (nop - args_start))
        else option_map (fun a => (type2mode (fst a), out_p)) (nth_error (p_args p) (nop - args_start - nres)))) as ->.
  { destruct Hcode as [[-> ->]|[Hc ->]]; [reflexivity|]. destruct code; try discriminate Hc; reflexivity. }
  assert (insn_op_mode unspec code ops nop =
      let p := proto_of_call unspec code ops in
      let nres := length (p_res p) in
      let out_p := (args_start <=? nop) && (nop <? nres + args_start) in
      let nargs := nres + args_start + length (p_args p) in
      if p_vararg p && (nargs <=? nop) then (OP_UNDEF, out_p)
      else if nop =? 0 then (op_mode_of (nth_op ops nop), out_p)
      else if (nop =? 1) && negb (match code with UNSPEC => true | _ => false end) then (OP_INT, out_p)
      else if out_p then (type2mode (nth (nop - args_start) (p_res p) T_I64), out_p)
      else (type2mode (fst (nth (nop - args_start - nres) (p_args p) (T_I64, 0%Z))), out_p)) as ->.
  { destruct Hcode as [[-> ->]|[Hc ->]]; [reflexivity|]. destruct code; try discriminate Hc; reflexivity. }
  rewrite Hsp, Hp. cbn [bindo]. cbv zeta.
  destruct (p_vararg p && (length (p_res p) + args_start + length (p_args p) <=? nop)) eqn:Ev; [reflexivity|].
  destruct (nop =? 0) eqn:E0.
  { rewrite (nth_error_nth_op ops nop Hnop). reflexivity. }
  destruct ((nop =? 1) && negb match code with UNSPEC => true | _ => false end) eqn:E1; [reflexivity|].
  apply Nat.eqb_neq in E0.
  destruct ((args_start <=? nop) && (nop <? length (p_res p) + args_start)) eqn:Eo.
  - apply andb_true_iff in Eo as [Ea Eb]. apply Nat.leb_le in Ea. apply Nat.ltb_lt in Eb.
    rewrite (nth_error_nth_lt (p_res p) (nop - args_start) T_I64) by lia. reflexivity.
  - assert (args_start <= nop) as Ha.
    { destruct Hcode as [[-> ->]|[Hc ->]]; [lia|].
      assert (match code with UNSPEC => true | _ => false end = false) as Hu
        by (destruct code; try discriminate Hc; reflexivity).
      rewrite Hu in E1. cbn [negb] in E1. rewrite andb_true_r in E1. apply Nat.eqb_neq in E1. lia. }
    apply andb_false_iff in Eo as [Eo|Eo]; [apply Nat.leb_gt in Eo; lia|]. apply Nat.ltb_ge in Eo.
    assert (nop < length (p_res p) + args_start + length (p_args p)) as Hlt.
    { destruct (p_vararg p) eqn:Hv.
      - cbn [andb] in Ev. apply Nat.leb_gt in Ev. exact Ev.
      - specialize (Hva eq_refl). lia. }
    rewrite (nth_error_nth_lt (p_args p) (nop - args_start - length (p_res p)) (T_I64, 0%Z)) by lia.
    reflexivity.
Qed.

Lemma s_insn_op_mode_eq unspec code ops nop :
  check_new_insn unspec code ops = Ok tt -> nop < length ops ->
  s_insn_op_mode unspec code ops nop = Some (insn_op_mode unspec code ops nop).
Proof.
  intros Hcr Hnop.
  destruct (uses_table code) eqn:Hu.
  - destruct (table_lookup_in_bounds_lemma unspec code ops Hu Hcr nop Hnop) as [Hc Heq].
    rewrite Heq.
    assert (s_insn_op_mode unspec code ops nop = s_cell code nop) as ->
      by (destruct code; try discriminate Hu; reflexivity).
    unfold s_cell. apply Nat.ltb_lt in Hc. rewrite Hc. reflexivity.
  - destruct code; try discriminate Hu;
      try (unfold s_insn_op_mode, insn_op_mode; rewrite (nth_error_nth_op ops nop Hnop); cbn [option_map];
           try destruct (nop =? 0); reflexivity).
    + (* CALL *)
      destruct (created_call unspec CALL ops eq_refl Hcr) as (p & H0 & H2 & Hle & Hva).
      apply (s_call_mode unspec CALL ops p 2 nop); try assumption; try lia; [right; split; reflexivity | |].
      * unfold s_proto_of_call. rewrite (nth_error_nth_op ops 0) by lia. rewrite H0. reflexivity.
      * unfold proto_of_call. rewrite H0. reflexivity.
    + (* INLINE *)
      destruct (created_call unspec INLINE ops eq_refl Hcr) as (p & H0 & H2 & Hle & Hva).
      apply (s_call_mode unspec INLINE ops p 2 nop); try assumption; try lia; [right; split; reflexivity | |].
      * unfold s_proto_of_call. rewrite (nth_error_nth_op ops 0) by lia. rewrite H0. reflexivity.
      * unfold proto_of_call. rewrite H0. reflexivity.
    + (* JCALL *)
      destruct (created_call unspec JCALL ops eq_refl Hcr) as (p & H0 & H2 & Hle & Hva).
      apply (s_call_mode unspec JCALL ops p 2 nop); try assumption; try lia; [right; split; reflexivity | |].
      * unfold s_proto_of_call. rewrite (nth_error_nth_op ops 0) by lia. rewrite H0. reflexivity.
      * unfold proto_of_call. rewrite H0. reflexivity.
    + (* UNSPEC *)
      destruct (created_unspec unspec ops Hcr) as (v & p & H0 & Hv0 & Hsome & Hnth & H1 & Hle & Hva).
      apply (s_call_mode unspec UNSPEC ops p 1 nop); try assumption; try lia; [left; split; reflexivity | |].
      * unfold s_proto_of_call. rewrite (nth_error_nth_op ops 0) by lia. rewrite H0. cbn [bindo].
        apply Z.leb_le in Hv0. rewrite Hv0. exact Hsome.
      * unfold proto_of_call. rewrite H0. exact Hnth.
Qed.

(* ------------------------------------------------------------------ the operand loop *)

Lemma s_expected_of_eq unspec fc code ops i :
  check_new_insn unspec code ops = Ok tt -> i < length ops ->
  (code = RET -> length ops = length (f_res fc)) ->
  s_expected_of unspec fc code ops i = Some (expected_of unspec fc code ops i).
Proof.
  intros Hcr Hi Hret.
  destruct (opcode_eq_dec code RET) as [->|Hn].
  - unfold s_expected_of, expected_of. rewrite (nth_error_nth_lt (f_res fc) i T_I64) by (rewrite <- Hret; auto).
    reflexivity.
  - destruct (opcode_eq_dec code SWITCH) as [->|Hs]; [reflexivity|].
    assert (s_expected_of unspec fc code ops i =
            if addr_code_p code && (i =? 1) then Some (OP_REG, false) else s_insn_op_mode unspec code ops i) as ->
      by (destruct code; try reflexivity; contradiction).
    assert (expected_of unspec fc code ops i =
            if addr_code_p code && (i =? 1) then (OP_REG, false) else insn_op_mode unspec code ops i) as ->
      by (destruct code; try reflexivity; contradiction).
    destruct (addr_code_p code && (i =? 1)); [reflexivity|].
    now apply s_insn_op_mode_eq.
Qed.

Lemma s_check_ops_from_eq unspec fc code all :
  check_new_insn unspec code all = Ok tt ->
  (code = RET -> length all = length (f_res fc)) ->
  forall ops i, i + length ops = length all ->
  s_check_ops_from unspec fc code all i ops = Some (check_ops_from unspec fc code all i ops).
Proof.
  intros Hcr Hret. induction ops as [|o ops IH]; intros i Hlen; [reflexivity|].
  cbn [length] in Hlen. cbn [s_check_ops_from check_ops_from].
  destruct (skipped code i o).
  - cbn [bindo bind]. apply IH. lia.
  - rewrite (s_expected_of_eq unspec fc code all i Hcr) by (auto; lia). cbn [bindo].
    destruct (expected_of unspec fc code all i) as [e out_p]. cbn [fst snd].
    destruct (check_shape code i e out_p (shape_of fc o)) as [[]|err]; cbn [bind]; [apply IH; lia | reflexivity].
Qed.

Lemma s_check_ops_eq unspec fc ins :
  created unspec ins = true ->
  (i_code ins = RET -> length (i_ops ins) = length (f_res fc)) ->
  s_check_ops unspec fc ins = Some (check_ops unspec fc ins).
Proof.
  intros Hcr Hret. unfold s_check_ops, check_ops. apply s_check_ops_from_eq; auto.
  unfold created in Hcr. apply is_ok_true in Hcr. exact Hcr.
Qed.

(* ------------------------------------------------------------------ the header *)

Lemma s_ovf_producer_eq unspec : forall before, forallb (created unspec) before = true ->
  s_ovf_producer before = Some (ovf_producer before).
Proof.
  induction before as [|p before IH]; intros Hcr; [reflexivity|].
  cbn [forallb] in Hcr. apply andb_true_iff in Hcr as [Hp Hb].
  cbn [s_ovf_producer ovf_producer].
  destruct (opcode_eqb (i_code p) MOV) eqn:Em; [|reflexivity].
  destruct (created_mov unspec p Hp Em) as (a & b & Hops). rewrite Hops. cbn [nth_error bindo nth_op nth andb].
  destruct (is_reg b); [now apply IH | reflexivity].
Qed.

Lemma s_check_header_eq unspec fc rp jp before ins : forallb (created unspec) before = true ->
  s_check_header fc rp jp before ins = Some (check_header fc rp jp before ins).
Proof.
  intros Hb. unfold s_check_header, check_header.
  destruct (code_is (i_code ins) PHI || code_is (i_code ins) USE); [reflexivity|].
  destruct (negb (f_vararg fc) && code_is (i_code ins) VA_START); [reflexivity|].
  destruct (code_is (i_code ins) JRET && negb (length (f_res fc) =? 0)); [reflexivity|].
  destruct ((code_is (i_code ins) JRET && rp) || (code_is (i_code ins) RET && jp)); [reflexivity|].
  destruct (code_is (i_code ins) RET && negb (length (i_ops ins) =? length (f_res fc))); [reflexivity|].
  destruct (call_code_p (i_code ins)); [reflexivity|].
  destruct (ovf_branch_p (i_code ins)); [|reflexivity].
  rewrite (s_ovf_producer_eq unspec before Hb). reflexivity.
Qed.

(* a ret that passed the header has as many operands as the function has results *)
Lemma header_ok_ret fc rp jp before ins :
  check_header fc rp jp before ins = Ok tt -> i_code ins = RET -> length (i_ops ins) = length (f_res fc).
Proof.
  intros H Hc. unfold check_header in H. rewrite Hc in H.
  change (code_is RET PHI) with false in H. change (code_is RET USE) with false in H.
  change (code_is RET VA_START) with false in H. change (code_is RET JRET) with false in H.
  change (code_is RET RET) with true in H. cbn [orb andb negb] in H.
  rewrite andb_false_r in H.
  destruct jp; [discriminate H|].
  destruct (length (i_ops ins) =? length (f_res fc)) eqn:E; [now apply Nat.eqb_eq in E | discriminate H].
Qed.

(* ------------------------------------------------------------------ whole bodies *)

Lemma s_check_insns_eq unspec fc : forall insns rp jp before,
  forallb (created unspec) insns = true -> forallb (created unspec) before = true ->
  s_check_insns unspec fc rp jp before insns = Some (check_insns unspec fc rp jp before insns).
Proof.
  induction insns as [|ins insns IH]; intros rp jp before Hi Hb; [reflexivity|].
  cbn [forallb] in Hi. apply andb_true_iff in Hi as [Hc Hi].
  cbn [s_check_insns check_insns].
  rewrite (s_check_header_eq unspec fc _ _ before ins Hb). cbn [seq_o].
  destruct (check_header fc (rp || code_is (i_code ins) RET) (jp || code_is (i_code ins) JRET) before ins)
    as [[]|e] eqn:Hh; [|reflexivity].
  cbn [bind].
  rewrite (s_check_ops_eq unspec fc ins Hc (header_ok_ret fc _ _ before ins Hh)). cbn [seq_o].
  destruct (check_ops unspec fc ins) as [[]|e]; [|reflexivity].
  cbn [bind]. apply IH; [exact Hi|]. cbn [forallb]. now rewrite Hc, Hb.
Qed.

Lemma check_created_ok unspec : forall insns,
  check_created unspec insns = Ok tt -> forallb (created unspec) insns = true.
Proof.
  induction insns as [|ins insns IH]; intros H; [reflexivity|].
  cbn [check_created] in H. cbn [forallb]. unfold created at 1.
  destruct (check_new_insn unspec (i_code ins) (i_ops ins)) as [[]|e]; [|discriminate H].
  cbn [bind is_ok andb] in *. now apply IH.
Qed.

(* THE statement: no construction makes the checker index an array outside its bounds *)
Lemma checker_in_bounds_lemma unspec fc insns :
  s_check_body unspec fc insns = Some (check_body unspec fc insns).
Proof.
  unfold s_check_body, check_body, check_finish. rewrite s_check_created_eq. cbn [seq_o].
  destruct (check_created unspec insns) as [[]|e] eqn:Hc; [|reflexivity].
  cbn [bind]. apply s_check_insns_eq; [now apply check_created_ok | reflexivity].
Qed.

(* the strict checker is not trivially total: an instruction list that did NOT go through
   MIR_new_insn_arr (a mov without operands in front of an overflow branch) makes it report the
   out-of-bounds read of prev_insn->ops[1]; and before fix C15-3 the jcall path was such a read *)
Lemma strict_detects_oob :
  s_check_header {| f_vararg := false; f_res := []; f_regs := []; f_nvars := 0; f_nglobals := 0 |}
                 false false [{| i_code := MOV; i_ops := [] |}] {| i_code := BO; i_ops := [OLabel] |} = None
  /\ s_cell JCALL 5 = None
  /\ s_expected_of [] {| f_vararg := false; f_res := []; f_regs := []; f_nvars := 0; f_nglobals := 0 |}
                   RET [OInt 0] 0 = None.
Proof. repeat split; vm_compute; reflexivity. Qed.

(* C15, round 2: the error code is specific also for the instructions with a variable number of
   operands.  ErrProofs.v covers the fixed-arity opcodes; here: ret, switch and the operand positions
   of call / inline / jcall.  Per position the checker's verdict IS the code of the operand's
   violation class (finite sweeps over the operand shapes); for ret and switch the statement is
   lifted to whole instructions by induction over the operand list. *)
From Coq Require Import List NArith ZArith Bool Lia.
From MirV Require Import Mir.Opcode C15.Defs gen.InsnDescs C15.Validate C15.DocModes C15.TableProofs
  C15.ValidateProofs C15.VarProofs C15.ErrProofs.
Import ListNotations.
Local Open Scope bool_scope.

(* ------------------------------------------------------------------ finite sweeps *)

Lemma ret_err_sweep :
  forallb (fun t => class_of_type_b t (fun k =>
    forallb (fun s => res_eqb (check_shape RET 0 (type2mode t) false s) (doc_pos_result (CIn k) s)) all_shapes))
    all_types = true.
Proof. vm_compute. reflexivity. Qed.

Lemma switch_err_sweep :
  forallb (fun s =>
     res_eqb (check_shape SWITCH 0 OP_INT false s) (doc_pos_result (CIn VInt) s)
     && res_eqb (check_shape SWITCH 0 OP_LABEL false s) (doc_pos_result CLabel s))
    all_shapes = true.
Proof. vm_compute. reflexivity. Qed.

(* a block-memory operand of a call at MIR_finish_func time (the block rules themselves are
   creation-time checks, call_error_codes): negative size, then base, then index *)
Definition blk_pos_result (s : shape) : res unit :=
  match s with
  | SMem _ neg b x =>
      if neg then Err E_wrong_type
      else match first_some (addr_violation b) (addr_violation x) with
           | Some v => Err (code_of_violation v)
           | None => Ok tt
           end
  | _ => Ok tt
  end.

Lemma call_err_sweep :
  forallb (fun code =>
    forallb (fun s =>
      (* called address (operand 1) when it is not a reference (references are skipped) *)
      (match s with SRef _ => true | _ => res_eqb (check_shape code 1 OP_INT false s) (doc_pos_result (CIn VInt) s) end)
      && (if shape_blk s then
            (* block memory: for a block parameter (expected mode int) or in the variable part *)
            res_eqb (check_shape code 2 OP_INT false s) (blk_pos_result s)
            && res_eqb (check_shape code 2 OP_UNDEF false s) (blk_pos_result s)
          else
            (* variable part: anything valid; results: lvalue of the class; parameters: the class *)
            res_eqb (check_shape code 2 OP_UNDEF false s) (doc_pos_result CAny s)
            && forallb (fun t => class_of_type_b t (fun k =>
                 res_eqb (check_shape code 2 (type2mode t) true s) (doc_pos_result (COut k) s)
                 && res_eqb (check_shape code 2 (type2mode t) false s) (doc_pos_result (CIn k) s))) all_types))
      all_shapes) call_codes = true.
Proof. vm_compute. reflexivity. Qed.

(* ------------------------------------------------------------------ per position *)

Lemma ret_position_error_code i t k s : vclass_of_type t = Some k -> shape_wf s = true ->
  check_shape RET i (type2mode t) false s = doc_pos_result (CIn k) s.
Proof.
  intros Ht Hs. rewrite check_shape_ret_i.
  pose proof (proj1 (forallb_forall _ _) ret_err_sweep t (all_types_complete t)) as H.
  cbv beta in H. unfold class_of_type_b in H. rewrite Ht in H.
  pose proof (proj1 (forallb_forall _ _) H s (all_shapes_complete s Hs)) as H'. cbv beta in H'.
  now apply res_eqb_eq.
Qed.

Lemma switch_position_error_code i s : shape_wf s = true ->
  check_shape SWITCH i OP_INT false s = doc_pos_result (CIn VInt) s
  /\ check_shape SWITCH i OP_LABEL false s = doc_pos_result CLabel s.
Proof.
  intros Hs. rewrite !(check_shape_switch_i i).
  pose proof (proj1 (forallb_forall _ _) switch_err_sweep s (all_shapes_complete s Hs)) as H.
  cbv beta in H. apply andb_true_iff in H as [H1 H2]. split; now apply res_eqb_eq.
Qed.

(* call / inline / jcall: the operand at index i >= 2, by what the prototype says about it *)
Lemma call_position_error_code code i s : is_call code = true -> 2 <= i -> shape_wf s = true ->
  (shape_blk s = true ->
     check_shape code i OP_INT false s = blk_pos_result s /\ check_shape code i OP_UNDEF false s = blk_pos_result s)
  /\ (shape_blk s = false ->
      check_shape code i OP_UNDEF false s = doc_pos_result CAny s
      /\ forall t k, vclass_of_type t = Some k ->
           check_shape code i (type2mode t) true s = doc_pos_result (COut k) s
           /\ check_shape code i (type2mode t) false s = doc_pos_result (CIn k) s).
Proof.
  intros Hc Hi Hs.
  pose proof (proj1 (forallb_forall _ _) call_err_sweep code (in_call_codes code Hc)) as H. cbv beta in H.
  pose proof (proj1 (forallb_forall _ _) H s (all_shapes_complete s Hs)) as H'. cbv beta in H'.
  apply andb_true_iff in H' as [_ H'].
  split; intros Hb; rewrite Hb in H'.
  - apply andb_true_iff in H' as [H1 H2]. rewrite !(check_shape_call_i code i) by auto.
    split; now apply res_eqb_eq.
  - apply andb_true_iff in H' as [H1 H2]. rewrite !(check_shape_call_i code i) by auto.
    split; [now apply res_eqb_eq|]. intros t k Ht.
    pose proof (proj1 (forallb_forall _ _) H2 t (all_types_complete t)) as H3. cbv beta in H3.
    unfold class_of_type_b in H3. rewrite Ht in H3. apply andb_true_iff in H3 as [H3 H4].
    rewrite !(check_shape_call_i code i) by auto.
    split; now apply res_eqb_eq.
Qed.

(* the called address *)
Lemma call_address_error_code code s : is_call code = true -> shape_wf s = true ->
  match s with SRef _ => True | _ => check_shape code 1 OP_INT false s = doc_pos_result (CIn VInt) s end.
Proof.
  intros Hc Hs.
  pose proof (proj1 (forallb_forall _ _) call_err_sweep code (in_call_codes code Hc)) as H. cbv beta in H.
  pose proof (proj1 (forallb_forall _ _) H s (all_shapes_complete s Hs)) as H'. cbv beta in H'.
  apply andb_true_iff in H' as [H' _].
  destruct s; try exact I; now apply res_eqb_eq.
Qed.

(* ------------------------------------------------------------------ ret as a whole *)

Lemma check_ops_ret_err unspec fc all : fc_wf fc -> forall res pre ops e,
  f_res fc = pre ++ res -> length ops = length res ->
  forallb (fun t => match vclass_of_type t with Some _ => true | None => false end) res = true ->
  check_ops_from unspec fc RET all (length pre) ops = Err e ->
  exists j t k o v, nth_error res j = Some t /\ vclass_of_type t = Some k /\ nth_error ops j = Some o
                    /\ doc_violation (CIn k) (shape_of fc o) = Some v /\ e = code_of_violation v.
Proof.
  intros Hwf. induction res as [|t res IH]; intros pre ops e Hres Hlen Hdata H.
  - destruct ops; [discriminate H | discriminate Hlen].
  - destruct ops as [|o ops]; [discriminate Hlen|]. cbn [check_ops_from skipped] in H.
    cbn in Hdata. apply andb_true_iff in Hdata as [Ht Hdata].
    destruct (vclass_of_type t) as [k|] eqn:Ek; [|discriminate].
    unfold expected_of in H. rewrite Hres, app_nth2, Nat.sub_diag in H by lia. cbn [nth] in H.
    rewrite (ret_position_error_code _ t k _ Ek (shape_of_wf fc o Hwf)) in H.
    unfold doc_pos_result in H.
    destruct (doc_violation (CIn k) (shape_of fc o)) as [v|] eqn:Ev.
    + cbn [bind] in H. inversion H. exists 0, t, k, o, v. repeat split; auto.
    + cbn [bind] in H.
      replace (S (length pre)) with (length (pre ++ [t])) in H by (rewrite app_length; cbn; lia).
      destruct (IH (pre ++ [t]) ops e) as (j & t' & k' & o' & v' & H1 & H2 & H3 & H4 & H5); auto.
      { now rewrite <- app_assoc. }
      exists (S j), t', k', o', v'. repeat split; auto.
Qed.

(* a ret with the right number of operands that is rejected is rejected with the code of the
   violation of an operand that does not denote a value of its result type's class *)
Lemma ret_error_code_specific_lemma unspec fc ops e : fc_wf fc -> res_types_ok fc = true ->
  length ops = length (f_res fc) ->
  check_ops unspec fc {| i_code := RET; i_ops := ops |} = Err e ->
  exists j t k o v, nth_error (f_res fc) j = Some t /\ vclass_of_type t = Some k /\ nth_error ops j = Some o
                    /\ has_class (shape_of fc o) k = false
                    /\ doc_violation (CIn k) (shape_of fc o) = Some v /\ e = code_of_violation v.
Proof.
  intros Hwf Hres Hlen H. unfold check_ops in H. cbn [i_code i_ops] in H.
  destruct (check_ops_ret_err unspec fc ops Hwf (f_res fc) [] ops e eq_refl Hlen Hres H)
    as (j & t & k & o & v & H1 & H2 & H3 & H4 & H5).
  exists j, t, k, o, v. repeat split; auto.
  pose proof (ret_position_error_code 0 t k _ H2 (shape_of_wf fc o Hwf)) as Hp.
  pose proof (ret_shape_spec t k _ H2 (shape_of_wf fc o Hwf)) as Hq.
  rewrite Hp in Hq. unfold doc_pos_result in Hq. rewrite H4 in Hq. cbn in Hq. congruence.
Qed.

(* ------------------------------------------------------------------ switch as a whole *)

Lemma check_ops_switch_labels_err unspec fc all : fc_wf fc -> forall ops i e,
  check_ops_from unspec fc SWITCH all (S i) ops = Err e ->
  exists j o v, nth_error ops j = Some o /\ doc_violation CLabel (shape_of fc o) = Some v /\ e = code_of_violation v.
Proof.
  intros Hwf. induction ops as [|o ops IH]; intros i e H; [discriminate H|].
  cbn [check_ops_from skipped] in H. unfold expected_of in H. cbn [Nat.eqb] in H.
  rewrite (proj2 (switch_position_error_code (S i) _ (shape_of_wf fc o Hwf))) in H.
  unfold doc_pos_result in H.
  destruct (doc_violation CLabel (shape_of fc o)) as [v|] eqn:Ev.
  - cbn [bind] in H. inversion H. exists 0, o, v. repeat split; auto.
  - cbn [bind] in H. destruct (IH (S i) e H) as (j & o' & v' & H1 & H2 & H3).
    exists (S j), o', v'. repeat split; auto.
Qed.

(* a rejected switch: MIR_ops_num_error for fewer than two operands (creation), otherwise the code of
   the violation of the index operand (an integer value) or of an operand that is not a label *)
Lemma switch_error_code_specific_lemma unspec fc ops e : fc_wf fc ->
  bind (check_new_insn unspec SWITCH ops) (fun _ => check_ops unspec fc {| i_code := SWITCH; i_ops := ops |}) = Err e ->
  (length ops < 2 /\ e = E_ops_num)
  \/ (2 <= length ops
      /\ exists j o v, nth_error ops j = Some o
           /\ doc_violation (if j =? 0 then CIn VInt else CLabel) (shape_of fc o) = Some v
           /\ e = code_of_violation v).
Proof.
  intros Hwf H. unfold check_new_insn in H. cbn [call_code_p negb andb] in H.
  destruct (length ops <? 2) eqn:E2.
  - left. apply Nat.ltb_lt in E2. cbn [bind] in H. inversion H. auto.
  - right. apply Nat.ltb_ge in E2. split; [exact E2|]. cbn [bind] in H.
    unfold check_ops in H. cbn [i_code i_ops] in H.
    destruct ops as [|idx rest]; [cbn in E2; lia|].
    rewrite check_ops_from_cons in H. cbn [skipped] in H. unfold expected_of in H. cbn [Nat.eqb] in H.
    rewrite (proj1 (switch_position_error_code 0 _ (shape_of_wf fc idx Hwf))) in H.
    unfold doc_pos_result in H.
    destruct (doc_violation (CIn VInt) (shape_of fc idx)) as [v|] eqn:Ev.
    + cbn [bind] in H. inversion H. exists 0, idx, v. repeat split; auto.
    + cbn [bind] in H.
      destruct (check_ops_switch_labels_err unspec fc (idx :: rest) Hwf rest 0 e H) as (j & o & v & H1 & H2 & H3).
      exists (S j), o, v. repeat split; auto.
Qed.

(* C15: the operand rules of MIR instructions as MIR.md states them, written from the document
   (sections "MIR data type", "MIR insn operands", "MIR insns" and its subsections), NOT from
   insn_descs[] and not from the checker.  This file imports only the neutral data types of
   Defs.v (operands, shapes, function context); it does not import Validate.v or the generated
   table.  Definitions only.

   Where the document is silent or looser than a total decision procedure needs, the reading
   chosen is listed in design/C15.md ("readings of MIR.md"). *)
From Coq Require Import List NArith ZArith Bool.
From MirV Require Import Mir.Opcode C15.Defs.
Import ListNotations.
Local Open Scope bool_scope.

(* "A register always contain only one type value: integer, float, or (long) double" *)
Inductive vclass : Set := VInt | VFloat | VDouble | VLdouble.

Definition vclass_eqb (a b : vclass) : bool :=
  match a, b with
  | VInt, VInt | VFloat, VFloat | VDouble, VDouble | VLdouble, VLdouble => true
  | _, _ => false
  end.

(* "MIR data type": the scalar data types and the class of value an operand of that type is.
   Block types "can be used only for argument of function"; UNDEF/BOUND are not data types. *)
Definition vclass_of_type (t : mir_type) : option vclass :=
  match t with
  | T_I8 | T_U8 | T_I16 | T_U16 | T_I32 | T_U32 | T_I64 | T_U64 | T_P => Some VInt
  | T_F => Some VFloat
  | T_D => Some VDouble
  | T_LD => Some VLdouble
  | _ => None
  end.

Definition is_blk_type (t : mir_type) : bool :=
  match t with T_BLK0 | T_BLK1 | T_BLK2 | T_BLK3 | T_BLK4 | T_RBLK => true | _ => false end.

(* what an opcode expects at one operand position *)
Inductive oclass : Set :=
| CIn (k : vclass)      (* an input value of class k *)
| COut (k : vclass)     (* the result: "Only register or memory operand can be insn output" *)
| CLabel                (* a label *)
| CVar                  (* a variable (register) of any type: the address insns *)
| CVaList               (* va_list: an address, or "memory with undefined type" *)
| CAnyMem               (* "any memory operand" (va_arg: its type is the type of the argument) *)
| CPropConst            (* the integer constant of a property insn *)
| CPropVar              (* the variable (register or memory) a property branch tests *)
| CAny.                 (* prset's variable: property insns generate no code *)

Definition i2 := [COut VInt; CIn VInt].
Definition i3 := [COut VInt; CIn VInt; CIn VInt].
Definition cmp3 (k : vclass) := [COut VInt; CIn k; CIn k].     (* "the result of comparison insn is a 64-bit integer" *)
Definition fp3 (k : vclass) := [COut k; CIn k; CIn k].
Definition conv (r a : vclass) := [COut r; CIn a].
Definition br3 (k : vclass) := [CLabel; CIn k; CIn k].

(* None: the number of operands is not fixed (call, inline, jcall, ret, switch: rules below) or
   the code is not an instruction a user creates with MIR_new_insn_arr (label, unspec, use, phi,
   invalid-insn, the bound) *)
Definition doc_sig (c : opcode) : option (list oclass) :=
  match c with
  (* MIR move insns *)
  | MOV => Some (conv VInt VInt) | FMOV => Some (conv VFloat VFloat)
  | DMOV => Some (conv VDouble VDouble) | LDMOV => Some (conv VLdouble VLdouble)
  (* MIR integer insns *)
  | EXT8 | UEXT8 | EXT16 | UEXT16 | EXT32 | UEXT32 | NEG | NEGS => Some i2
  | ADD | SUB | ADDS | SUBS | MUL | DIV | UDIV | MULS | DIVS | UDIVS
  | MOD | UMOD | MODS | UMODS | AND | OR | ANDS | ORS | XOR | XORS
  | LSH | LSHS | RSH | RSHS | URSH | URSHS
  | EQ | NE | EQS | NES | LT | LE | ULT | ULE | LTS | LES | ULTS | ULES
  | GT | GE | UGT | UGE | GTS | GES | UGTS | UGES => Some i3
  (* MIR integer overflow insns *)
  | ADDO | SUBO | ADDOS | SUBOS | MULO | MULOS | UMULO | UMULOS => Some i3
  (* MIR floating point insns *)
  | F2I => Some (conv VInt VFloat) | D2I => Some (conv VInt VDouble) | LD2I => Some (conv VInt VLdouble)
  | F2D => Some (conv VDouble VFloat) | F2LD => Some (conv VLdouble VFloat)
  | D2F => Some (conv VFloat VDouble) | D2LD => Some (conv VLdouble VDouble)
  | LD2F => Some (conv VFloat VLdouble) | LD2D => Some (conv VDouble VLdouble)
  | I2F | UI2F => Some (conv VFloat VInt) | I2D | UI2D => Some (conv VDouble VInt)
  | I2LD | UI2LD => Some (conv VLdouble VInt)
  | FNEG => Some (conv VFloat VFloat) | DNEG => Some (conv VDouble VDouble)
  | LDNEG => Some (conv VLdouble VLdouble)
  | FADD | FSUB | FMUL | FDIV => Some (fp3 VFloat)
  | DADD | DSUB | DMUL | DDIV => Some (fp3 VDouble)
  | LDADD | LDSUB | LDMUL | LDDIV => Some (fp3 VLdouble)
  | FEQ | FNE | FLT | FLE | FGT | FGE => Some (cmp3 VFloat)
  | DEQ | DNE | DLT | DLE | DGT | DGE => Some (cmp3 VDouble)
  | LDEQ | LDNE | LDLT | LDLE | LDGT | LDGE => Some (cmp3 VLdouble)
  (* MIR address insns: "take address of variable as the 2nd operand and put it into the 1st" *)
  | ADDR | ADDR8 | ADDR16 | ADDR32 => Some [COut VInt; CVar]
  (* MIR branch insns *)
  | JMP => Some [CLabel]
  | BT | BTS | BF | BFS => Some [CLabel; CIn VInt]
  | JMPI => Some [CIn VInt]
  (* MIR branch on overflow insns *)
  | BO | BNO | UBO | UBNO => Some [CLabel]
  (* MIR_LADDR: "put it into 64-bit integer register or memory given as the first operand" *)
  | LADDR => Some [COut VInt; CLabel]
  (* MIR integer comparison and branch insn *)
  | BEQ | BNE | BEQS | BNES | BLT | BLE | UBLT | UBLE | BLTS | BLES | UBLTS | UBLES
  | BGT | BGE | UBGT | UBGE | BGTS | BGES | UBGTS | UBGES => Some (br3 VInt)
  (* MIR floating point comparison and branch insn *)
  | FBEQ | FBNE | FBLT | FBLE | FBGT | FBGE => Some (br3 VFloat)
  | DBEQ | DBNE | DBLT | DBLE | DBGT | DBGE => Some (br3 VDouble)
  | LDBEQ | LDBNE | LDBLT | LDBLE | LDBGT | LDBGE => Some (br3 VLdouble)
  (* MIR_JRET: "The single operand contains the return address as 64-bit integer value" *)
  | JRET => Some [CIn VInt]
  (* MIR_ALLOCA; MIR_BSTART "saves the stack pointer in the operand", MIR_BEND restores it *)
  | ALLOCA => Some i2
  | BSTART => Some [COut VInt]
  | BEND => Some [CIn VInt]
  (* va insns *)
  | VA_START | VA_END => Some [CVaList]
  | VA_ARG => Some [COut VInt; CVaList; CAnyMem]
  | VA_BLOCK_ARG => Some [CIn VInt; CVaList; CIn VInt; CIn VInt]
  (* MIR property insns *)
  | PRSET => Some [CAny; CPropConst]
  | PRBEQ | PRBNE => Some [CLabel; CPropVar; CPropConst]
  (* variable number of operands *)
  | CALL | INLINE | JCALL | SWITCH | RET => None
  (* not user-level instructions *)
  | LABEL | UNSPEC | USE | PHI | INVALID_INSN | INSN_BOUND => None
  end.

(* ------------------------------------------------------------------ operands *)

(* a declared register holds values of the class of its type *)
Definition reg_class (rc : rclass) : option vclass :=
  match rc with RC t => vclass_of_type t | RC_undecl => None end.

(* base and index of a memory operand are integer registers (address arithmetic) *)
Definition addr_reg_ok (b : bclass) : bool :=
  match b with
  | BC_none => true
  | BC_undecl => false
  | BC_reg t => match vclass_of_type t with Some VInt => true | _ => false end
  end.

(* the class of value an operand denotes; None when it denotes no value (a label) or is not a
   valid operand at all (undeclared register, memory of a non-data type, bad address register) *)
Definition value_class (s : shape) : option vclass :=
  match s with
  | SReg rc => reg_class rc
  | SImm IInt | SImm IUint => Some VInt
  | SImm IFloat => Some VFloat
  | SImm IDouble => Some VDouble
  | SImm ILdouble => Some VLdouble
  | SMem t _ b x => if addr_reg_ok b && addr_reg_ok x then vclass_of_type t else None
  | SLabel => None
  | SRef _ => Some VInt          (* the address of the item *)
  | SStr => Some VInt            (* "the memory address actually presents the string" *)
  end.

Definition is_lvalue (s : shape) : bool :=
  match s with SReg _ | SMem _ _ _ _ => true | _ => false end.

Definition has_class (s : shape) (k : vclass) : bool :=
  match value_class s with Some k' => vclass_eqb k k' | None => false end.

(* an operand that is acceptable wherever nothing particular is expected *)
Definition operand_valid (s : shape) : bool :=
  match s with
  | SLabel => true
  | _ => match value_class s with Some _ => true | None => false end
  end.

Definition doc_shape_ok (c : oclass) (s : shape) : bool :=
  match c with
  | CIn k => has_class s k
  | COut k => is_lvalue s && has_class s k
  | CLabel => match s with SLabel => true | _ => false end
  | CVar => match s with SReg rc => match reg_class rc with Some _ => true | None => false end | _ => false end
  | CVaList =>
      has_class s VInt
      || match s with SMem T_UNDEF _ b x => addr_reg_ok b && addr_reg_ok x | _ => false end
  | CAnyMem => match s with SMem _ _ _ _ => true | _ => false end
  | CPropConst => match s with SImm IInt => true | _ => false end
  | CPropVar => is_lvalue s && operand_valid s
  | CAny => operand_valid s
  end.

Fixpoint doc_ops_ok (fc : func_ctx) (sig : list oclass) (ops : list operand) : bool :=
  match sig, ops with
  | [], [] => true
  | c :: sig', o :: ops' => doc_shape_ok c (shape_of fc o) && doc_ops_ok fc sig' ops'
  | _, _ => false                     (* "Number of operands ... should be what is expected" *)
  end.

(* ------------------------------------------------------------------ ret, switch, calls *)

(* "Return insn operands should correspond to return types of the function" *)
Fixpoint doc_ret_ok (fc : func_ctx) (res_types : list mir_type) (ops : list operand) : bool :=
  match res_types, ops with
  | [], [] => true
  | t :: ts, o :: ops' =>
      match vclass_of_type t with
      | Some k => has_class (shape_of fc o) k && doc_ret_ok fc ts ops'
      | None => false
      end
  | _, _ => false
  end.

(* "The first operand ... an integer value ...; the rest operands should be N labels, N > 0" *)
Definition doc_switch_ok (fc : func_ctx) (ops : list operand) : bool :=
  match ops with
  | idx :: l :: labels =>
      has_class (shape_of fc idx) VInt
      && forallb (fun o => match shape_of fc o with SLabel => true | _ => false end) (l :: labels)
  | _ => false
  end.

(* results: "the next N operands are output operands" of the prototype's return types *)
Fixpoint doc_results_ok (fc : func_ctx) (res_types : list mir_type) (ops : list operand) : bool :=
  match res_types, ops with
  | [], [] => true
  | t :: ts, o :: ops' =>
      match vclass_of_type t with
      | Some k => doc_shape_ok (COut k) (shape_of fc o) && doc_results_ok fc ts ops'
      | None => false
      end
  | _, _ => false
  end.

(* one argument against one parameter (type, block size): a block parameter takes block memory
   of the same type and size ("blk:<the same size>(...)"), any other parameter a value of the
   class of its type (any integer parameter type takes a 64-bit integer) *)
Definition doc_arg_ok (fc : func_ctx) (param : mir_type * Z) (o : operand) : bool :=
  let '(pt, psize) := param in
  if is_blk_type pt then
    match o with
    | OMem t disp b x =>
        type_eqb t pt && Z.eqb disp psize && (0 <=? disp)%Z
        && addr_reg_ok (bclass_of fc b) && addr_reg_ok (bclass_of fc x)
    | _ => false
    end
  else
    match o with
    | OMem t _ _ _ => negb (is_blk_type t)
    | _ => true
    end
    && match vclass_of_type pt with
       | Some k => has_class (shape_of fc o) k
       | None => false                           (* a parameter of a non-data type cannot be passed *)
       end.

(* an argument in the variable part: any valid operand; block memory may be passed by value
   (BLK cases) but a return block cannot be an unnamed argument *)
Definition doc_vararg_ok (fc : func_ctx) (o : operand) : bool :=
  match o with
  | OMem t disp b x =>
      if is_blk_type t then
        negb (type_eqb t T_RBLK) && (0 <=? disp)%Z
        && addr_reg_ok (bclass_of fc b) && addr_reg_ok (bclass_of fc x)
      else operand_valid (shape_of fc o)
  | _ => operand_valid (shape_of fc o)
  end.

Fixpoint doc_args_ok (fc : func_ctx) (vararg : bool) (params : list (mir_type * Z)) (ops : list operand) : bool :=
  match params, ops with
  | [], [] => true
  | [], _ :: _ => vararg && forallb (doc_vararg_ok fc) ops
  | p :: ps, o :: ops' => doc_arg_ok fc p o && doc_args_ok fc vararg ps ops'
  | _ :: _, [] => false
  end.

(* call / inline / jcall: prototype reference, function address, results, arguments *)
Definition doc_call_ok (fc : func_ctx) (ops : list operand) : bool :=
  match ops with
  | ORef I_proto (Some p) :: f :: rest =>
      has_class (shape_of fc f) VInt
      && doc_results_ok fc (p_res p) (firstn (length (p_res p)) rest)
      && (length (p_res p) <=? length rest)
      && doc_args_ok fc (p_vararg p) (p_args p) (skipn (length (p_res p)) rest)
  | _ => false
  end.

(* one instruction taken alone *)
Definition doc_insn_ok (fc : func_ctx) (ins : insn) : bool :=
  match doc_sig (i_code ins) with
  | Some sig => doc_ops_ok fc sig (i_ops ins)
  | None =>
      match i_code ins with
      | CALL | INLINE | JCALL => doc_call_ok fc (i_ops ins)
      | SWITCH => doc_switch_ok fc (i_ops ins)
      | RET => doc_ret_ok fc (f_res fc) (i_ops ins)
      | _ => false
      end
  end.

(* ------------------------------------------------------------------ function-level rules *)

Definition is_overflow_insn (c : opcode) : bool :=
  match c with ADDO | SUBO | ADDOS | SUBOS | MULO | MULOS | UMULO | UMULOS => true | _ => false end.

Definition is_reg_move (ins : insn) : bool :=
  match i_code ins, i_ops ins with
  | MOV, [_; OReg _] => true        (* register-to-register move or store of a register *)
  | _, _ => false
  end.

(* "The previous insn must be a MIR integer overflow insn" -- reading: previous, not counting
   register moves and stores of registers; and the flag tested must be the one the insn sets
   (signed branches after unsigned multiplication and vice versa are meaningless) *)
Fixpoint doc_ovf_pred (c : opcode) (before : list insn) : bool :=
  match before with
  | [] => false
  | p :: before' =>
      if is_reg_move p then doc_ovf_pred c before'
      else is_overflow_insn (i_code p)
           && negb (match c with UBO | UBNO => true | _ => false end
                    && match i_code p with MULO | MULOS => true | _ => false end)
           && negb (match c with BO | BNO => true | _ => false end
                    && match i_code p with UMULO | UMULOS => true | _ => false end)
  end.

Definition is_code (c d : opcode) : bool := opcode_eqb c d.

(* [before]: the preceding insns, nearest first; [rets] / [jrets]: a RET / JRET occurs among them *)
Fixpoint doc_insns_ok (fc : func_ctx) (rets jrets : bool) (before : list insn) (insns : list insn) : bool :=
  match insns with
  | [] => true
  | ins :: rest =>
      let c := i_code ins in
      doc_insn_ok fc ins
      && (negb (is_code c VA_START) || f_vararg fc)                (* "only for variable number arguments functions" *)
      && (negb (is_code c JRET) || ((length (f_res fc) =? 0) && negb rets))   (* functions without ... return values; no mixing *)
      && (negb (is_code c RET) || negb jrets)
      && (negb (match c with BO | BNO | UBO | UBNO => true | _ => false end) || doc_ovf_pred c before)
      && doc_insns_ok fc (rets || is_code c RET) (jrets || is_code c JRET) (ins :: before) rest
  end.

Definition doc_func_ok (fc : func_ctx) (insns : list insn) : bool :=
  doc_insns_ok fc false false [] insns.

(* ------------------------------------------------------------------ domain of the doc rules *)

(* codes MIR.md describes as instructions a user builds (labels are made by MIR_new_label;
   unspec, use, phi and invalid-insn are internal; MIR_INSN_BOUND is not a code) *)
Definition documented (c : opcode) : bool :=
  match c with LABEL | UNSPEC | INVALID_INSN => false | _ => true end.

(* prototypes MIR.md can talk about: results and parameters of data types, or block parameters.
   (MIR_new_proto checks the result types; it does not check parameter types.) *)
Definition param_type_ok (t : mir_type) : bool :=
  match vclass_of_type t with Some _ => true | None => is_blk_type t end.

Definition proto_wf (p : proto) : bool :=
  forallb (fun t => match vclass_of_type t with Some _ => true | None => false end) (p_res p)
  && forallb (fun a => param_type_ok (fst a)) (p_args p).

Definition insn_in_domain (ins : insn) : bool :=
  documented (i_code ins)
  && match i_code ins, i_ops ins with
     | (CALL | INLINE | JCALL), ORef I_proto (Some p) :: _ => proto_wf p
     | _, _ => true
     end.

Definition res_types_ok (fc : func_ctx) : bool :=
  forallb (fun t => match vclass_of_type t with Some _ => true | None => false end) (f_res fc).

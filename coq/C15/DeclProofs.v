(* C15: proofs, part 5: register declarations and the API step machine.
   - every function context reachable through the API satisfies the hypotheses of the instruction
     theorems (fc_wf, res_types_ok);
   - declaration errors: reserved names, redeclaration, wrong register type, missing hard
     register name, undeclared look-ups -- each with its code;
   - building instructions one by one through [step] and finishing is [check_body]. *)
From Coq Require Import List NArith ZArith Bool Lia.
From MirV Require Import Mir.Opcode C15.Defs gen.InsnDescs C15.Validate C15.DocModes C15.TableProofs
  C15.ValidateProofs.
Import ListNotations.
Local Open Scope bool_scope.

(* ------------------------------------------------------------------ contexts built by the API *)

Lemma create_func_reg_wf fc nm hard reg t fc' r : fc_wf fc -> reg_type_ok t = true ->
  create_func_reg fc nm hard reg t = Ok (fc', r) ->
  fc_wf fc' /\ f_res fc' = f_res fc /\ f_vararg fc' = f_vararg fc.
Proof.
  intros Hwf Ht H. unfold create_func_reg in H.
  destruct (reserved_name_p nm); [discriminate|].
  destruct (find_rd_by_name fc nm); [discriminate|].
  assert (fc_wf {| f_vararg := f_vararg fc; f_res := f_res fc;
                   f_regs := {| rd_reg := reg; rd_name := nm; rd_type := t; rd_hard := hard |} :: f_regs fc;
                   f_nvars := f_nvars fc; f_nglobals := f_nglobals fc |}) as Hadd.
  { intros d [<-|Hin]; [exact Ht | now apply Hwf]. }
  destruct hard as [h|].
  - destruct (hard_reg_index h) as [hr|]; [|discriminate].
    destruct (negb (hard_reg_type_ok hr t)); [discriminate|].
    destruct (hard_reg_fixed hr); [discriminate|].
    destruct (find _ (f_regs fc)) as [d|].
    + destruct (negb (type_eqb t (rd_type d))); [discriminate|]. inversion H; subst. auto.
    + inversion H; subst. auto.
  - inversion H; subst. auto.
Qed.

Lemma new_func_reg_wf fc t nm hard fc' r : fc_wf fc -> new_func_reg fc t nm hard = Ok (fc', r) ->
  fc_wf fc' /\ f_res fc' = f_res fc /\ f_vararg fc' = f_vararg fc.
Proof.
  intros Hwf H. unfold new_func_reg in H.
  destruct (reg_type_ok t) eqn:Ht; [|discriminate]. cbn [negb] in H.
  destruct (create_func_reg fc nm hard (f_nvars fc + 1 + f_nglobals fc) t) as [[fc1 got]|] eqn:E; [|discriminate].
  cbn [bind] in H. destruct (create_func_reg_wf _ _ _ _ _ _ _ Hwf Ht E) as (H1 & H2 & H3).
  destruct (negb (N.eqb got (f_nvars fc + 1 + f_nglobals fc))); inversion H; subst; auto.
Qed.

Lemma declare_args_wf : forall args fc k fc', fc_wf fc -> declare_args fc k args = Ok fc' ->
  fc_wf fc' /\ f_res fc' = f_res fc /\ f_vararg fc' = f_vararg fc.
Proof.
  induction args as [|[t nm] args IH]; intros fc k fc' Hwf H.
  - inversion H; subst; auto.
  - cbn [declare_args] in H.
    destruct (create_func_reg fc nm None (k + 1) (match t with T_F | T_D | T_LD => t | _ => T_I64 end))
      as [[fc1 got]|] eqn:E; [|discriminate].
    cbn [bind fst] in H.
    assert (reg_type_ok (match t with T_F | T_D | T_LD => t | _ => T_I64 end) = true) as Ht by (destruct t; reflexivity).
    destruct (create_func_reg_wf _ _ _ _ _ _ _ Hwf Ht E) as (H1 & H2 & H3).
    destruct (IH _ _ _ H1 H) as (G1 & G2 & G3). split; [exact G1 | split; congruence].
Qed.

Lemma wrong_type_no_class t : wrong_type_p t = false <-> vclass_of_type t <> None.
Proof. destruct t; cbn; split; congruence. Qed.

Lemma new_func_wf vararg res_types args fc : new_func vararg res_types args = Ok fc ->
  fc_wf fc /\ res_types_ok fc = true /\ f_res fc = res_types /\ f_vararg fc = vararg.
Proof.
  unfold new_func. intros H.
  destruct ((length args =? 0) && vararg); [discriminate|].
  destruct (existsb wrong_type_p res_types) eqn:Ew; [discriminate|].
  match type of H with declare_args ?fc0 _ _ = _ =>
    assert (fc_wf fc0) as Hwf0 by (intros d []);
    destruct (declare_args_wf _ _ _ _ Hwf0 H) as (H1 & H2 & H3) end.
  cbn in H2, H3. repeat split; auto.
  unfold res_types_ok. rewrite H2. apply forallb_forall. intros t Hin.
  assert (wrong_type_p t = false) as Hw.
  { destruct (wrong_type_p t) eqn:E; [|reflexivity].
    assert (existsb wrong_type_p res_types = true) by (apply existsb_exists; eauto). congruence. }
  apply wrong_type_no_class in Hw. destruct (vclass_of_type t); congruence.
Qed.

Definition state_wf (s : state) : Prop :=
  match s_func s with
  | Some fc => fc_wf fc /\ res_types_ok fc = true
  | None => True
  end.

Lemma step_wf s c s' r : state_wf s -> step s c = Ok (s', r) -> state_wf s'.
Proof.
  unfold state_wf. intros Hs H. destruct c; cbn [step] in H.
  - destruct (new_proto res_types); [|discriminate]. inversion H; subst. exact Hs.
  - inversion H; subst. exact Hs.
  - destruct (s_func s); [discriminate|].
    destruct (new_func vararg res_types args) as [fc|] eqn:E; [|discriminate].
    inversion H; subst. cbn. destruct (new_func_wf _ _ _ _ E) as (H1 & H2 & _). auto.
  - destruct (s_func s) as [fc|] eqn:Ef; [|discriminate]. destruct Hs as [Hwf Hres].
    destruct (new_func_reg fc t nm None) as [[fc' got]|] eqn:E; [|discriminate].
    inversion H; subst. cbn. destruct (new_func_reg_wf _ _ _ _ _ _ Hwf E) as (H1 & H2 & _).
    split; [exact H1|]. unfold res_types_ok in *. now rewrite H2.
  - destruct hard as [h|]; [|discriminate]. destruct (s_func s) as [fc|] eqn:Ef; [|discriminate].
    destruct Hs as [Hwf Hres]. unfold new_global_func_reg in H.
    destruct (new_func_reg fc t nm (Some h)) as [[fc' got]|] eqn:E; [|discriminate].
    inversion H; subst. cbn. destruct (new_func_reg_wf _ _ _ _ _ _ Hwf E) as (H1 & H2 & _).
    split; [exact H1|]. unfold res_types_ok in *. now rewrite H2.
  - destruct (s_func s) as [fc|] eqn:Ef; [|discriminate]. destruct (mir_reg fc nm); [|discriminate].
    inversion H; subst. now rewrite Ef.
  - destruct (s_func s) as [fc|] eqn:Ef; [|discriminate]. destruct (mir_reg_type fc r0); [|discriminate].
    inversion H; subst. now rewrite Ef.
  - destruct (opcode_of_num code); [|discriminate].
    destruct (check_new_insn (s_unspec s) o ops); [|discriminate]. inversion H; subst. exact Hs.
  - destruct (opcode_of_num code); [|discriminate].
    destruct (check_new_insn_va (s_unspec s) o ops); [|discriminate]. inversion H; subst. exact Hs.
  - destruct (s_func s) as [fc|]; [|discriminate].
    destruct (check_finish (s_unspec s) fc (rev (s_insns s))); [|discriminate]. inversion H; subst. exact I.
Qed.

Fixpoint run (s : state) (cmds : list cmd) : res state :=
  match cmds with
  | [] => Ok s
  | c :: cmds' => bind (step s c) (fun r => run (fst r) cmds')
  end.

(* every state the API can reach satisfies the hypotheses of the instruction theorems *)
Lemma reachable_wf_lemma : forall cmds s s', state_wf s -> run s cmds = Ok s' -> state_wf s'.
Proof.
  induction cmds as [|c cmds IH]; intros s s' Hs H.
  - inversion H; subst; exact Hs.
  - cbn [run] in H. destruct (step s c) as [[s1 r]|] eqn:E; [|discriminate]. cbn [bind fst] in H.
    eapply IH; [|exact H]. eapply step_wf; eauto.
Qed.

Lemma init_state_wf : state_wf init_state.
Proof. exact I. Qed.

(* ------------------------------------------------------------------ creating then finishing = check_body *)

Definition as_cmd (ins : insn) : cmd := CInsn (opcode_num (i_code ins)) (i_ops ins).

Definition unit_of {A} (r : res A) : res unit := match r with Ok _ => Ok tt | Err e => Err e end.

Lemma run_insns : forall insns s,
  match check_created (s_unspec s) insns with
  | Ok _ => run s (map as_cmd insns)
            = Ok {| s_func := s_func s; s_insns := rev insns ++ s_insns s; s_unspec := s_unspec s |}
  | Err e => run s (map as_cmd insns) = Err e
  end.
Proof.
  induction insns as [|ins insns IH]; intros s.
  - cbn. destruct s; reflexivity.
  - cbn [check_created map run as_cmd step]. rewrite opcode_of_num_num.
    destruct (check_new_insn (s_unspec s) (i_code ins) (i_ops ins)) as [[]|e] eqn:E; cbn [bind fst]; [|reflexivity].
    specialize (IH {| s_func := s_func s; s_insns := {| i_code := i_code ins; i_ops := i_ops ins |} :: s_insns s;
                     s_unspec := s_unspec s |}).
    cbn [s_unspec s_func s_insns] in IH.
    destruct (check_created (s_unspec s) insns); [|exact IH].
    rewrite IH. cbn [rev]. rewrite <- app_assoc. destruct ins; reflexivity.
Qed.

Lemma run_app : forall a b s, run s (a ++ b) = bind (run s a) (fun s' => run s' b).
Proof.
  induction a as [|c a IH]; intros b s; [reflexivity|].
  cbn [app run]. destruct (step s c) as [[s1 r]|]; cbn [bind fst]; [apply IH|reflexivity].
Qed.

(* driving the API -- new insn, append, ..., finish -- from a state with an open function and
   no instructions yet is exactly check_body *)
Lemma api_run_is_check_body_lemma s fc insns : s_func s = Some fc -> s_insns s = [] ->
  unit_of (run s (map as_cmd insns ++ [CFinish])) = check_body (s_unspec s) fc insns.
Proof.
  intros Hf Hi. rewrite run_app. unfold check_body. pose proof (run_insns insns s) as H.
  destruct (check_created (s_unspec s) insns) as [[]|e]; rewrite H; cbn [bind]; [|reflexivity].
  cbn [run step s_func s_insns s_unspec]. rewrite Hf, Hi, app_nil_r, rev_involutive.
  destruct (check_finish (s_unspec s) fc insns) as [[]|e]; reflexivity.
Qed.

(* ------------------------------------------------------------------ declaration errors *)

Lemma is_prefix_spec p : forall n, is_prefix p n = true <-> exists rest, n = p ++ rest.
Proof.
  induction p as [|x p IH]; intros n; cbn.
  - split; [intros _; now exists n | reflexivity].
  - destruct n as [|y n]; [split; [discriminate | intros [r Hr]; discriminate]|].
    rewrite andb_true_iff, N.eqb_eq, IH. split.
    + intros [-> [r ->]]. now exists r.
    + intros [r Hr]. inversion Hr; subst. split; [reflexivity | now exists r].
Qed.

(* Reserved names: ".lc" followed by anything, or "hr" followed by decimal digits only *)
Lemma reserved_name_spec_lemma n :
  reserved_name_p n = true
  <-> (exists rest, n = [46; 108; 99]%N ++ rest)
      \/ (exists ds, n = [104; 114]%N ++ ds /\ Forall (fun c => (48 <= c <= 57)%N) ds).
Proof.
  unfold reserved_name_p. rewrite orb_true_iff, andb_true_iff, !is_prefix_spec. split.
  - intros [H|[[ds ->] Hd]]; [now left|]. right. exists ds. split; [reflexivity|].
    cbn [skipn app] in Hd. apply Forall_forall. intros c Hc.
    pose proof (proj1 (forallb_forall _ _) Hd c Hc) as Hx. unfold is_digit in Hx.
    apply andb_true_iff in Hx as [H1 H2]. apply N.leb_le in H1. apply N.leb_le in H2. lia.
  - intros [H|[ds [-> Hd]]]; [now left|]. right. split; [now exists ds|].
    cbn [skipn app]. apply forallb_forall. intros c Hc. rewrite Forall_forall in Hd. specialize (Hd c Hc).
    unfold is_digit. apply andb_true_iff. split; apply N.leb_le; lia.
Qed.

Lemma reserved_rejected_lemma fc t nm hard : reg_type_ok t = true -> reserved_name_p nm = true ->
  new_func_reg fc t nm hard = Err E_reserved_name.
Proof. intros Ht Hr. unfold new_func_reg, create_func_reg. rewrite Ht, Hr. reflexivity. Qed.

Lemma bad_reg_type_rejected_lemma fc t nm hard : reg_type_ok t = false ->
  new_func_reg fc t nm hard = Err E_reg_type.
Proof. intros Ht. unfold new_func_reg. rewrite Ht. reflexivity. Qed.

Lemma redeclared_rejected_lemma fc t nm hard d : reg_type_ok t = true -> reserved_name_p nm = false ->
  find_rd_by_name fc nm = Some d -> new_func_reg fc t nm hard = Err E_repeated_decl.
Proof. intros Ht Hr Hf. unfold new_func_reg, create_func_reg. rewrite Ht, Hr, Hf. reflexivity. Qed.

Lemma name_eqb_refl n : name_eqb n n = true.
Proof. now apply name_eqb_eq. Qed.

(* a successful local declaration makes the name and the number known, with the declared type *)
Lemma declared_found_lemma fc t nm fc' r : new_func_reg fc t nm None = Ok (fc', r) ->
  mir_reg fc' nm = Ok r /\ mir_reg_type fc' r = Ok t.
Proof.
  intros H. unfold new_func_reg, create_func_reg in H.
  destruct (negb (reg_type_ok t)); [discriminate|].
  destruct (reserved_name_p nm); [discriminate|].
  destruct (find_rd_by_name fc nm); [discriminate|]. cbn [bind] in H.
  rewrite N.eqb_refl in H. cbn [negb] in H. inversion H; subst. clear H.
  unfold mir_reg, mir_reg_type, find_rd_by_name, find_rd_by_reg. cbn [f_regs find rd_name rd_reg].
  rewrite name_eqb_refl, N.eqb_refl. cbn. split; reflexivity.
Qed.

Lemma undeclared_lookup_lemma fc nm : find_rd_by_name fc nm = None -> mir_reg fc nm = Err E_undeclared_func_reg.
Proof. intros H. unfold mir_reg. now rewrite H. Qed.

Lemma global_needs_hard_reg_lemma fc t nm : new_global_func_reg fc t nm None = Err E_hard_reg.
Proof. reflexivity. Qed.

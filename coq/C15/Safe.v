(* C15, round 2: "never ... a crash".  A STRICT transcription of the checker in which every array
   the C code indexes is indexed with an explicit bounds test; an index outside the array (or the
   use of a union member the operand does not carry: u.ref of a non-reference, u.u of a
   non-integer) makes the whole function return [None].  Definitions only; SafeProofs.v proves that
   [None] is unreachable: the strict checker equals [Some] of the plain model (Validate.v) for
   EVERY list of instructions the API was asked to create.

   Arrays and the accesses transcribed (mir.c):
     ops[k]                         MIR_new_insn_arr: ops[0] (call/unspec), ops[2] (va_arg), ops[1],
                                    ops[2] (prset, prbeq, prbne); MIR_insn_op_mode: insn->ops[nop];
                                    MIR_finish_func: insn->ops[i], prev_insn->ops[1] (overflow rule)
     unspec_protos[ops[0].u.u]      MIR_new_insn_arr, MIR_insn_op_mode
     proto->res_types[k], args[k]   MIR_insn_op_mode (VARR_GET without a bounds test under NDEBUG)
     curr_func->res_types[i]        MIR_finish_func, ret
     insn_descs[code].op_modes[nop] MIR_insn_op_mode default path: 5 cells
   Not arrays: the register look-ups (hash tables: C19), VARR_GET (proto->args, narg) in
   MIR_new_insn_arr (guarded by narg < VARR_LENGTH in the source: already [nth_error] in blk_here). *)
From Coq Require Import List NArith ZArith Bool.
From MirV Require Import Mir.Opcode C15.Defs gen.InsnDescs C15.Validate.
Import ListNotations.
Local Open Scope bool_scope.

Definition bindo {A B} (a : option A) (f : A -> option B) : option B :=
  match a with Some x => f x | None => None end.

(* insn_descs[code].op_modes[j]: the array has OP_MODES_CELLS cells *)
Definition s_cell (code : opcode) (j : nat) : option (op_mode * bool) :=
  if j <? OP_MODES_CELLS then Some (cell (desc_of code) j) else None.

(* ------------------------------------------------------------------ MIR_new_insn_arr *)

Definition s_check_new_insn (unspec : list proto) (code : opcode) (ops : list operand) : option (res unit) :=
  let nops := length ops in
  match code with
  | INSN_BOUND => Some (Err E_wrong_param_value)
  | _ =>
  if negb (call_code_p code)
     && negb (match code with UNSPEC | USE | PHI | RET | SWITCH => true | _ => false end)
     && negb (nops =? desc_nops code)
  then Some (Err E_ops_num)
  else match code with
  | SWITCH => Some (if nops <? 2 then Err E_ops_num else Ok tt)
  | PHI => Some (if nops <? 3 then Err E_ops_num else Ok tt)
  | CALL | INLINE | JCALL | UNSPEC =>
      let unspec_p := match code with UNSPEC => true | _ => false end in
      let args_start := if unspec_p then 1 else 2 in
      if nops <? args_start then Some (Err E_ops_num)
      else
        bindo (nth_error ops 0) (fun o0 =>
        let pr : option (res proto) :=
          if unspec_p then
            match o0 with
            | OInt v => if (0 <=? v)%Z && (Z.to_nat v <? length unspec)
                        then option_map Ok (nth_error unspec (Z.to_nat v))
                        else Some (Err E_unspec_op)
            | _ => Some (Err E_unspec_op)
            end
          else
            match o0 with
            | ORef I_proto (Some p) => Some (Ok p)
            | _ => Some (Err E_call_op)
            end in
        bindo pr (fun rp =>
          match rp with
          | Err e => Some (Err e)
          | Ok p =>
              let i := length (p_res p) + length (p_args p) in
              if (nops <? i + args_start) || (negb (nops =? i + args_start) && negb (p_vararg p))
              then Some (Err (if unspec_p then E_unspec_op else E_call_op))
              else Some (check_blk_args p 0 (skipn args_start ops))
          end))
  | VA_ARG => bindo (nth_error ops 2) (fun o => Some (if is_mem o then Ok tt else Err E_op_mode))
  | PRSET => bindo (nth_error ops 1) (fun o => Some (if is_int_imm o then Ok tt else Err E_op_mode))
  | PRBEQ | PRBNE =>
      bindo (nth_error ops 2) (fun o2 =>
        if negb (is_int_imm o2) then Some (Err E_op_mode)
        else bindo (nth_error ops 1) (fun o1 =>
          Some (if negb (is_reg o1) && negb (is_mem o1) then Err E_op_mode else Ok tt)))
  | _ => Some (Ok tt)
  end
  end.

(* ------------------------------------------------------------------ MIR_insn_op_mode *)

(* the prototype a call / unspec instruction carries: reading u.ref->u.proto of an operand that is
   not a prototype reference, or unspec_protos[] outside its length, is [None] *)
Definition s_proto_of_call (unspec : list proto) (code : opcode) (ops : list operand) : option proto :=
  bindo (nth_error ops 0) (fun o0 =>
    match code with
    | UNSPEC => match o0 with
                | OInt v => if (0 <=? v)%Z then nth_error unspec (Z.to_nat v) else None
                | _ => None
                end
    | _ => match o0 with
           | ORef I_proto (Some p) => Some p
           | _ => None
           end
    end).

Definition s_insn_op_mode (unspec : list proto) (code : opcode) (ops : list operand) (nop : nat)
  : option (op_mode * bool) :=
  let own (out : bool) := option_map (fun o => (op_mode_of o, out)) (nth_error ops nop) in
  match code with
  | RET => own false
  | SWITCH => if nop =? 0 then Some (OP_INT, false) else own false
  | ADDR | ADDR8 | ADDR16 | ADDR32 => if nop =? 0 then Some (OP_INT, true) else own false
  | PHI => own (nop =? 0)
  | USE => own false
  | CALL | INLINE | JCALL | UNSPEC =>
      bindo (s_proto_of_call unspec code ops) (fun p =>
        let args_start := match code with UNSPEC => 1 | _ => 2 end in
        let nres := length (p_res p) in
        let out_p := (args_start <=? nop) && (nop <? nres + args_start) in
        let nargs := nres + args_start + length (p_args p) in
        if p_vararg p && (nargs <=? nop) then Some (OP_UNDEF, out_p)
        else if nop =? 0 then own out_p
        else if (nop =? 1) && negb (match code with UNSPEC => true | _ => false end) then Some (OP_INT, out_p)
        else if out_p then option_map (fun t => (type2mode t, out_p)) (nth_error (p_res p) (nop - args_start))
        else option_map (fun a => (type2mode (fst a), out_p)) (nth_error (p_args p) (nop - args_start - nres)))
  | _ => s_cell code nop
  end.

Definition s_expected_of (unspec : list proto) (fc : func_ctx) (code : opcode) (ops : list operand) (i : nat)
  : option (op_mode * bool) :=
  match code with
  | SWITCH => Some (if i =? 0 then OP_INT else OP_LABEL, false)
  | RET => option_map (fun t => (type2mode t, false)) (nth_error (f_res fc) i)     (* curr_func->res_types[i] *)
  | _ => if addr_code_p code && (i =? 1) then Some (OP_REG, false)
         else s_insn_op_mode unspec code ops i
  end.

Fixpoint s_check_ops_from (unspec : list proto) (fc : func_ctx) (code : opcode) (all : list operand)
         (i : nat) (ops : list operand) : option (res unit) :=
  match ops with
  | [] => Some (Ok tt)
  | o :: ops' =>
      bindo (if skipped code i o then Some (Ok tt)
             else bindo (s_expected_of unspec fc code all i) (fun eo =>
                    Some (check_shape code i (fst eo) (snd eo) (shape_of fc o))))
        (fun r => match r with
                  | Err e => Some (Err e)
                  | Ok _ => s_check_ops_from unspec fc code all (S i) ops'
                  end)
  end.

Definition s_check_ops (unspec : list proto) (fc : func_ctx) (ins : insn) : option (res unit) :=
  s_check_ops_from unspec fc (i_code ins) (i_ops ins) 0 (i_ops ins).

(* ------------------------------------------------------------------ MIR_finish_func *)

(* prev_insn->ops[1] of a MIR_MOV *)
Fixpoint s_ovf_producer (before : list insn) : option (option opcode) :=
  match before with
  | [] => Some None
  | p :: before' =>
      if opcode_eqb (i_code p) MOV then
        bindo (nth_error (i_ops p) 1) (fun o1 =>
          if is_reg o1 then s_ovf_producer before' else Some (Some (i_code p)))
      else Some (Some (i_code p))
  end.

Definition s_check_header (fc : func_ctx) (ret_p jret_p : bool) (before : list insn) (ins : insn)
  : option (res unit) :=
  let code := i_code ins in
  let nops := length (i_ops ins) in
  if code_is code PHI || code_is code USE then Some (Err E_vararg_func)
  else if negb (f_vararg fc) && code_is code VA_START then Some (Err E_vararg_func)
  else if code_is code JRET && negb (length (f_res fc) =? 0) then Some (Err E_vararg_func)
  else if (code_is code JRET && ret_p) || (code_is code RET && jret_p) then Some (Err E_vararg_func)
  else if code_is code RET && negb (nops =? length (f_res fc)) then Some (Err E_vararg_func)
  else if call_code_p code then Some (Ok tt)
  else if ovf_branch_p code then
    bindo (s_ovf_producer before) (fun prod =>
    Some match prod with
    | None => Err E_invalid_insn
    | Some pc =>
        if negb (overflow_insn_code_p pc) then Err E_invalid_insn
        else if (code_is code UBO || code_is code UBNO) && (code_is pc MULO || code_is pc MULOS)
        then Err E_invalid_insn
        else if (code_is code BO || code_is code BNO) && (code_is pc UMULO || code_is pc UMULOS)
        then Err E_invalid_insn
        else Ok tt
    end)
  else Some (Ok tt).

Definition seq_o (a : option (res unit)) (k : option (res unit)) : option (res unit) :=
  match a with
  | None => None
  | Some (Err e) => Some (Err e)
  | Some (Ok _) => k
  end.

Fixpoint s_check_insns (unspec : list proto) (fc : func_ctx) (ret_p jret_p : bool) (before : list insn)
         (insns : list insn) : option (res unit) :=
  match insns with
  | [] => Some (Ok tt)
  | ins :: rest =>
      let ret_p' := ret_p || code_is (i_code ins) RET in
      let jret_p' := jret_p || code_is (i_code ins) JRET in
      seq_o (s_check_header fc ret_p' jret_p' before ins)
        (seq_o (s_check_ops unspec fc ins)
           (s_check_insns unspec fc ret_p' jret_p' (ins :: before) rest))
  end.

Fixpoint s_check_created (unspec : list proto) (insns : list insn) : option (res unit) :=
  match insns with
  | [] => Some (Ok tt)
  | ins :: rest => seq_o (s_check_new_insn unspec (i_code ins) (i_ops ins)) (s_check_created unspec rest)
  end.

(* create every instruction, then MIR_finish_func *)
Definition s_check_body (unspec : list proto) (fc : func_ctx) (insns : list insn) : option (res unit) :=
  seq_o (s_check_created unspec insns) (s_check_insns unspec fc false false [] insns).

(* C15: proofs about the checker model.  Part 1: instructions with a fixed number of operands --
   the checker accepts an instruction exactly when the documentation-derived rules allow it.
   The per-position statement ranges over a genuinely finite domain (opcode x operand position x
   operand shape) and is decided by vm_compute, then lifted to all operand lists and all
   function contexts structurally. *)
From Coq Require Import List NArith ZArith Bool Lia.
From MirV Require Import Mir.Opcode C15.Defs gen.InsnDescs C15.Validate C15.DocModes C15.TableProofs.
Import ListNotations.
Local Open Scope bool_scope.

(* ------------------------------------------------------------------ generalities *)

Lemma is_ok_bind_unit (r : res unit) (k : res unit) :
  is_ok (bind r (fun _ => k)) = is_ok r && is_ok k.
Proof. destruct r; reflexivity. Qed.

Lemma is_ok_true (r : res unit) : is_ok r = true <-> r = Ok tt.
Proof. destruct r as [[]|]; cbn; split; congruence. Qed.

Lemma all_opcodes_complete : forall c, In c all_opcodes.
Proof.
  intros c. assert (existsb (opcode_eqb c) all_opcodes = true) as H by (destruct c; vm_compute; reflexivity).
  apply existsb_exists in H as (d & Hin & Heq). apply opcode_eqb_eq in Heq. now subst.
Qed.

Lemma forallb_i_ext {A} (f g : nat -> A -> bool) l : forall i,
  (forall j x, nth_error l j = Some x -> f (i + j) x = g (i + j) x) ->
  forallb_i f i l = forallb_i g i l.
Proof.
  induction l as [|a l IH]; intros i H; cbn; [reflexivity|].
  f_equal.
  - specialize (H 0 a eq_refl). now rewrite Nat.add_0_r in H.
  - apply IH. intros j x Hj. specialize (H (S j) x Hj). now rewrite Nat.add_succ_comm.
Qed.

Lemma forallb_i_and {A} (f g : nat -> A -> bool) l : forall i,
  forallb_i (fun j x => f j x && g j x) i l = forallb_i f i l && forallb_i g i l.
Proof.
  induction l as [|a l IH]; intros i; cbn; [reflexivity|]. rewrite IH.
  destruct (f i a), (g i a), (forallb_i f (S i) l); cbn; auto.
Qed.

Lemma forallb_i_true {A} (l : list A) : forall i, forallb_i (fun _ _ => true) i l = true.
Proof. induction l; intros; cbn; auto. Qed.

(* ------------------------------------------------------------------ the finite shape domain *)

Definition decl_types : list mir_type := [T_I64; T_F; T_D; T_LD].
Definition all_rclass : list rclass := RC_undecl :: map RC decl_types.
Definition all_bclass : list bclass := BC_none :: BC_undecl :: map BC_reg decl_types.
Definition all_imm : list imm := [IInt; IUint; IFloat; IDouble; ILdouble].

Definition all_mem_shapes : list shape :=
  flat_map (fun t => flat_map (fun n => flat_map (fun b => map (fun x => SMem t n b x) all_bclass) all_bclass)
                              [false; true]) all_types.

Definition all_shapes : list shape :=
  map SReg all_rclass ++ map SImm all_imm ++ all_mem_shapes ++ [SLabel] ++ map SRef all_item_kinds ++ [SStr].

Lemma decl_types_complete t : reg_type_ok t = true -> In t decl_types.
Proof. destruct t; cbn; try discriminate; tauto. Qed.

Lemma all_bclass_complete b : bclass_wf b = true -> In b all_bclass.
Proof.
  destruct b as [| |t]; cbn [bclass_wf]; intros H; unfold all_bclass.
  - now left.
  - right; now left.
  - right; right. apply in_map. now apply decl_types_complete.
Qed.

Lemma all_types_complete t : In t all_types.
Proof. destruct t; cbn; tauto. Qed.

Lemma all_shapes_complete s : shape_wf s = true -> In s all_shapes.
Proof.
  unfold all_shapes. destruct s as [rc|k|t n b x| |k|]; cbn [shape_wf]; intros H.
  - apply in_or_app; left. apply in_map. destruct rc as [|t]; [now left|].
    right. apply in_map. now apply decl_types_complete.
  - apply in_or_app; right; apply in_or_app; left. apply in_map. destruct k; cbn; tauto.
  - apply in_or_app; right; apply in_or_app; right; apply in_or_app; left.
    apply andb_true_iff in H as [Hb Hx].
    unfold all_mem_shapes. apply in_flat_map. exists t. split; [apply all_types_complete|].
    apply in_flat_map. exists n. split; [destruct n; cbn; tauto|].
    apply in_flat_map. exists b. split; [now apply all_bclass_complete|].
    apply in_map. now apply all_bclass_complete.
  - do 3 (apply in_or_app; right). apply in_or_app; left. now left.
  - do 4 (apply in_or_app; right). apply in_or_app; left. apply in_map. destruct k; cbn; tauto.
  - do 5 (apply in_or_app; right). now left.
Qed.

Lemma find_rd_wf fc r d : fc_wf fc -> find_rd_by_reg fc r = Some d -> reg_type_ok (rd_type d) = true.
Proof. intros Hwf H. apply find_some in H as [Hin _]. now apply Hwf. Qed.

Lemma bclass_of_wf fc r : fc_wf fc -> bclass_wf (bclass_of fc r) = true.
Proof.
  intros Hwf. unfold bclass_of. destruct (N.eqb r 0); [reflexivity|].
  destruct (find_rd_by_reg fc r) eqn:E; [|reflexivity]. cbn. eapply find_rd_wf; eauto.
Qed.

Lemma shape_of_wf fc o : fc_wf fc -> shape_wf (shape_of fc o) = true.
Proof.
  intros Hwf. destruct o; cbn; try reflexivity.
  - unfold rclass_of. destruct (find_rd_by_reg fc r) eqn:E; [|reflexivity]. cbn. eapply find_rd_wf; eauto.
  - now rewrite !bclass_of_wf.
Qed.

(* ------------------------------------------------------------------ one operand position *)

(* the operand-level conditions MIR_new_insn_arr imposes on fixed-arity instructions *)
Definition creation_rule (code : opcode) (i : nat) (s : shape) : bool :=
  match code, i with
  | VA_ARG, 2 => match s with SMem _ _ _ _ => true | _ => false end
  | PRSET, 1 | PRBEQ, 2 | PRBNE, 2 => match s with SImm IInt => true | _ => false end
  | PRBEQ, 1 | PRBNE, 1 => match s with SReg _ | SMem _ _ _ _ => true | _ => false end
  | _, _ => true
  end.

(* expected mode / out flag of a fixed-arity instruction do not depend on the operands *)
Definition fixed_expected (code : opcode) (i : nat) : op_mode * bool :=
  if addr_code_p code then (if i =? 1 then (OP_REG, false) else (OP_INT, i =? 0))
  else cell (desc_of code) i.

Definition fixed_skipped (code : opcode) (i : nat) : bool :=
  match code with VA_ARG => i =? 2 | _ => false end.

Definition finish_pos_ok (code : opcode) (i : nat) (s : shape) : bool :=
  if fixed_skipped code i then true
  else is_ok (let '(e, out_p) := fixed_expected code i in check_shape code i e out_p s).

Definition pos_ok (code : opcode) (i : nat) (s : shape) : bool :=
  creation_rule code i s && finish_pos_ok code i s.

(* THE finite sweep: every fixed-arity opcode x every operand position x every operand shape *)
Definition sweep_shape (code : opcode) (i : nat) (cls : oclass) (s : shape) : bool :=
  Bool.eqb (pos_ok code i s) (doc_shape_ok cls s).

Definition sweep_pos (code : opcode) (i : nat) (cls : oclass) : bool :=
  forallb (sweep_shape code i cls) all_shapes.

Definition sweep_code (code : opcode) : bool :=
  match doc_sig code with
  | None => true
  | Some sig => (desc_nops code =? length sig) && forallb_i (sweep_pos code) 0 sig
  end.

Lemma fixed_sweep_true : forallb sweep_code all_opcodes = true.
Proof. vm_compute. reflexivity. Qed.

Lemma sweep_code_true code : sweep_code code = true.
Proof. exact (proj1 (forallb_forall sweep_code all_opcodes) fixed_sweep_true code (all_opcodes_complete code)). Qed.

Lemma sweep_spec code sig : doc_sig code = Some sig ->
  desc_nops code = length sig
  /\ forall i cls s, nth_error sig i = Some cls -> shape_wf s = true ->
       pos_ok code i s = doc_shape_ok cls s.
Proof.
  intros Hsig. pose proof (sweep_code_true code) as H. unfold sweep_code in H. rewrite Hsig in H.
  apply andb_true_iff in H as [Hn Hpos]. split; [now apply Nat.eqb_eq|].
  intros i cls s Hi Hwf.
  pose proof (forallb_i_nth (sweep_pos code) sig 0 Hpos i cls Hi) as Hs.
  change (0 + i) with i in Hs. unfold sweep_pos in Hs.
  pose proof (proj1 (forallb_forall _ all_shapes) Hs s (all_shapes_complete s Hwf)) as Hs'.
  unfold sweep_shape in Hs'. now apply eqb_prop in Hs'.
Qed.

(* ------------------------------------------------------------------ lifting to operand lists *)

Definition check_insn (unspec : list proto) (fc : func_ctx) (ins : insn) : res unit :=
  bind (check_new_insn unspec (i_code ins) (i_ops ins)) (fun _ => check_ops unspec fc ins).

Lemma expected_fixed unspec fc code sig all i : doc_sig code = Some sig -> i < length sig ->
  expected_of unspec fc code all i = fixed_expected code i.
Proof.
  intros Hsig Hi.
  destruct code; try discriminate Hsig;
    try (unfold expected_of, fixed_expected, insn_op_mode, addr_code_p; cbn [andb]; reflexivity);
    (* the four address insns: two operands *)
    (inversion Hsig; subst sig; cbn in Hi;
     destruct i as [|[|i]]; [reflexivity | reflexivity | lia]).
Qed.

Lemma skipped_fixed code sig i o : doc_sig code = Some sig -> skipped code i o = fixed_skipped code i.
Proof. intros Hsig. destruct code; try discriminate Hsig; reflexivity. Qed.

Lemma check_ops_from_fixed unspec fc code sig all : doc_sig code = Some sig ->
  forall ops i, i + length ops <= length sig ->
  is_ok (check_ops_from unspec fc code all i ops)
  = forallb_i (fun j o => finish_pos_ok code j (shape_of fc o)) i ops.
Proof.
  intros Hsig. induction ops as [|o ops IH]; intros i Hlen; [reflexivity|].
  cbn [check_ops_from forallb_i]. cbn [length] in Hlen.
  rewrite is_ok_bind_unit, IH by lia. f_equal.
  unfold finish_pos_ok. rewrite (skipped_fixed _ _ _ _ Hsig).
  destruct (fixed_skipped code i); [reflexivity|].
  rewrite (expected_fixed _ _ _ _ _ _ Hsig) by lia. reflexivity.
Qed.

Lemma is_mem_shape fc o : is_mem o = match shape_of fc o with SMem _ _ _ _ => true | _ => false end.
Proof. destruct o; reflexivity. Qed.
Lemma is_reg_shape fc o : is_reg o = match shape_of fc o with SReg _ => true | _ => false end.
Proof. destruct o; reflexivity. Qed.
Lemma is_int_imm_shape fc o : is_int_imm o = match shape_of fc o with SImm IInt => true | _ => false end.
Proof. destruct o; reflexivity. Qed.

Lemma desc_nops_va_arg : desc_nops VA_ARG = 3. Proof. vm_compute. reflexivity. Qed.
Lemma desc_nops_prset : desc_nops PRSET = 2. Proof. vm_compute. reflexivity. Qed.
Lemma desc_nops_prbeq : desc_nops PRBEQ = 3. Proof. vm_compute. reflexivity. Qed.
Lemma desc_nops_prbne : desc_nops PRBNE = 3. Proof. vm_compute. reflexivity. Qed.

Lemma length3 {A} (l : list A) : length l = 3 -> exists a b c, l = [a; b; c].
Proof. destruct l as [|a [|b [|c [|d l]]]]; cbn; try discriminate. intros _. now exists a, b, c. Qed.
Lemma length2 {A} (l : list A) : length l = 2 -> exists a b, l = [a; b].
Proof. destruct l as [|a [|b [|c l]]]; cbn; try discriminate. intros _. now exists a, b. Qed.

Arguments desc_nops : simpl never.

Lemma check_new_insn_fixed unspec fc code sig ops : doc_sig code = Some sig ->
  is_ok (check_new_insn unspec code ops)
  = (length ops =? desc_nops code) && forallb_i (fun j o => creation_rule code j (shape_of fc o)) 0 ops.
Proof.
  intros Hsig.
  destruct code; try discriminate Hsig;
    try (unfold check_new_insn; cbn [call_code_p negb andb];
         destruct (length ops =? desc_nops _) eqn:E; cbn [negb andb is_ok];
         [ symmetry; apply (forallb_i_true ops 0) | reflexivity ]).
  - (* VA_ARG *)
    unfold check_new_insn; cbn [call_code_p negb andb].
    destruct (length ops =? desc_nops VA_ARG) eqn:E; cbn [negb andb]; [|reflexivity].
    apply Nat.eqb_eq in E. rewrite desc_nops_va_arg in E. destruct (length3 _ E) as (a & b & c & ->).
    cbn. rewrite (is_mem_shape fc c). destruct (shape_of fc c); reflexivity.
  - (* PRSET *)
    unfold check_new_insn; cbn [call_code_p negb andb].
    destruct (length ops =? desc_nops PRSET) eqn:E; cbn [negb andb]; [|reflexivity].
    apply Nat.eqb_eq in E. rewrite desc_nops_prset in E. destruct (length2 _ E) as (a & b & ->).
    cbn. rewrite (is_int_imm_shape fc b). destruct (shape_of fc b) as [|[]| | | |]; reflexivity.
  - (* PRBEQ *)
    unfold check_new_insn; cbn [call_code_p negb andb].
    destruct (length ops =? desc_nops PRBEQ) eqn:E; cbn [negb andb]; [|reflexivity].
    apply Nat.eqb_eq in E. rewrite desc_nops_prbeq in E. destruct (length3 _ E) as (a & b & c & ->).
    cbn. rewrite (is_int_imm_shape fc c), (is_reg_shape fc b), (is_mem_shape fc b).
    destruct (shape_of fc c) as [|[]| | | |], (shape_of fc b); reflexivity.
  - (* PRBNE *)
    unfold check_new_insn; cbn [call_code_p negb andb].
    destruct (length ops =? desc_nops PRBNE) eqn:E; cbn [negb andb]; [|reflexivity].
    apply Nat.eqb_eq in E. rewrite desc_nops_prbne in E. destruct (length3 _ E) as (a & b & c & ->).
    cbn. rewrite (is_int_imm_shape fc c), (is_reg_shape fc b), (is_mem_shape fc b).
    destruct (shape_of fc c) as [|[]| | | |], (shape_of fc b); reflexivity.
Qed.

Lemma doc_ops_ok_forallb fc : forall sig ops,
  doc_ops_ok fc sig ops
  = (length ops =? length sig)
    && forallb_i (fun j o => match nth_error sig j with
                             | Some cls => doc_shape_ok cls (shape_of fc o)
                             | None => false end) 0 ops.
Proof.
  assert (forall sig ops k (pre : list oclass), length pre = k ->
            doc_ops_ok fc sig ops
            = (length ops =? length sig)
              && forallb_i (fun j o => match nth_error (pre ++ sig) j with
                                       | Some cls => doc_shape_ok cls (shape_of fc o)
                                       | None => false end) k ops) as G.
  { induction sig as [|c sig IH]; intros ops k pre Hk.
    - destruct ops; cbn; [reflexivity|]. reflexivity.
    - destruct ops as [|o ops]; [reflexivity|]. cbn [doc_ops_ok length forallb_i].
      rewrite (IH ops (S k) (pre ++ [c])) by (rewrite app_length; cbn; lia).
      rewrite <- app_assoc. cbn [app].
      replace (nth_error (pre ++ c :: sig) k) with (Some c)
        by (rewrite nth_error_app2 by lia; rewrite Hk, Nat.sub_diag; reflexivity).
      cbn [Nat.eqb]. destruct (doc_shape_ok c (shape_of fc o)), (length ops =? length sig); cbn; auto. }
  intros sig ops. apply (G sig ops 0 []). reflexivity.
Qed.

(* The checker accepts a fixed-arity instruction exactly when MIR.md allows it. *)
Lemma validate_iff_doc_fixed_lemma unspec fc ins sig :
  fc_wf fc -> doc_sig (i_code ins) = Some sig ->
  (check_insn unspec fc ins = Ok tt <-> doc_insn_ok fc ins = true).
Proof.
  intros Hwf Hsig. destruct ins as [code ops]. cbn [i_code i_ops] in *.
  rewrite <- is_ok_true. unfold check_insn, doc_insn_ok. cbn [i_code i_ops]. rewrite Hsig.
  destruct (sweep_spec code sig Hsig) as (Hn & Hpos).
  assert (is_ok (bind (check_new_insn unspec code ops)
                      (fun _ => check_ops unspec fc {| i_code := code; i_ops := ops |}))
          = doc_ops_ok fc sig ops) as ->; [|tauto].
  rewrite is_ok_bind_unit, (check_new_insn_fixed unspec fc code sig ops Hsig), doc_ops_ok_forallb, Hn.
  destruct (length ops =? length sig) eqn:E; [|reflexivity]. cbn [andb].
  apply Nat.eqb_eq in E. unfold check_ops. cbn [i_code i_ops].
  rewrite (check_ops_from_fixed unspec fc code sig ops Hsig ops 0) by lia.
  rewrite <- forallb_i_and. apply forallb_i_ext. intros j o Hj. cbn [Nat.add].
  assert (j < length sig) as Hlt by (rewrite <- E; apply nth_error_Some; congruence).
  destruct (nth_error sig j) as [cls|] eqn:Ecls; [|apply nth_error_None in Ecls; lia].
  apply (Hpos j cls (shape_of fc o) Ecls). now apply shape_of_wf.
Qed.

(* C15: data types shared by the generated table (gen/InsnDescs.v), the checker model (Validate.v) and
   the documentation-derived rules (DocModes.v).  Definitions only. *)
From Coq Require Import List NArith ZArith Bool.
From MirV Require Import Mir.Opcode.
Import ListNotations.

(* names (registers, hard registers, instruction names) are lists of character codes *)
Definition name := list N.

Fixpoint name_eqb (a b : name) : bool :=
  match a, b with
  | [], [] => true
  | x :: a', y :: b' => N.eqb x y && name_eqb a' b'
  | _, _ => false
  end.

(* MIR_type_t, in enum order (mir.h): the five block types are separate constructors *)
Inductive mir_type : Set :=
| T_I8 | T_U8 | T_I16 | T_U16 | T_I32 | T_U32 | T_I64 | T_U64 | T_F | T_D | T_LD | T_P
| T_BLK0 | T_BLK1 | T_BLK2 | T_BLK3 | T_BLK4 | T_RBLK | T_UNDEF | T_BOUND.

Definition all_types : list mir_type :=
  [T_I8; T_U8; T_I16; T_U16; T_I32; T_U32; T_I64; T_U64; T_F; T_D; T_LD; T_P;
   T_BLK0; T_BLK1; T_BLK2; T_BLK3; T_BLK4; T_RBLK; T_UNDEF; T_BOUND].

Definition type_num (t : mir_type) : N :=
  match t with
  | T_I8 => 0 | T_U8 => 1 | T_I16 => 2 | T_U16 => 3 | T_I32 => 4 | T_U32 => 5 | T_I64 => 6
  | T_U64 => 7 | T_F => 8 | T_D => 9 | T_LD => 10 | T_P => 11 | T_BLK0 => 12 | T_BLK1 => 13
  | T_BLK2 => 14 | T_BLK3 => 15 | T_BLK4 => 16 | T_RBLK => 17 | T_UNDEF => 18 | T_BOUND => 19
  end%N.

Definition type_eqb (a b : mir_type) : bool := N.eqb (type_num a) (type_num b).

(* MIR_op_mode_t in enum order *)
Inductive op_mode : Set :=
| OP_UNDEF | OP_REG | OP_VAR | OP_INT | OP_UINT | OP_FLOAT | OP_DOUBLE | OP_LDOUBLE
| OP_REF | OP_STR | OP_MEM | OP_VAR_MEM | OP_LABEL | OP_BOUND.

Definition all_modes : list op_mode :=
  [OP_UNDEF; OP_REG; OP_VAR; OP_INT; OP_UINT; OP_FLOAT; OP_DOUBLE; OP_LDOUBLE;
   OP_REF; OP_STR; OP_MEM; OP_VAR_MEM; OP_LABEL; OP_BOUND].

Definition mode_num (m : op_mode) : N :=
  match m with
  | OP_UNDEF => 0 | OP_REG => 1 | OP_VAR => 2 | OP_INT => 3 | OP_UINT => 4 | OP_FLOAT => 5
  | OP_DOUBLE => 6 | OP_LDOUBLE => 7 | OP_REF => 8 | OP_STR => 9 | OP_MEM => 10
  | OP_VAR_MEM => 11 | OP_LABEL => 12 | OP_BOUND => 13
  end%N.

Definition mode_eqb (a b : op_mode) : bool := N.eqb (mode_num a) (mode_num b).

(* MIR_error_type_t in enum order *)
Inductive mir_error : Set :=
| E_no | E_syntax | E_binary_io | E_alloc | E_finish | E_no_module | E_nested_module | E_no_func
| E_func | E_vararg_func | E_nested_func | E_wrong_param_value | E_hard_reg
| E_reserved_name | E_import_export | E_undeclared_func_reg | E_repeated_decl | E_reg_type
| E_wrong_type | E_unique_reg | E_undeclared_op_ref | E_ops_num | E_call_op | E_unspec_op
| E_wrong_lref | E_ret | E_op_mode | E_out_op | E_invalid_insn | E_ctx_change.

Definition all_errors : list mir_error :=
  [E_no; E_syntax; E_binary_io; E_alloc; E_finish; E_no_module; E_nested_module; E_no_func;
   E_func; E_vararg_func; E_nested_func; E_wrong_param_value; E_hard_reg;
   E_reserved_name; E_import_export; E_undeclared_func_reg; E_repeated_decl; E_reg_type;
   E_wrong_type; E_unique_reg; E_undeclared_op_ref; E_ops_num; E_call_op; E_unspec_op;
   E_wrong_lref; E_ret; E_op_mode; E_out_op; E_invalid_insn; E_ctx_change].

Definition error_num (e : mir_error) : N :=
  match e with
  | E_no => 0 | E_syntax => 1 | E_binary_io => 2 | E_alloc => 3 | E_finish => 4 | E_no_module => 5
  | E_nested_module => 6 | E_no_func => 7 | E_func => 8 | E_vararg_func => 9 | E_nested_func => 10
  | E_wrong_param_value => 11 | E_hard_reg => 12 | E_reserved_name => 13 | E_import_export => 14
  | E_undeclared_func_reg => 15 | E_repeated_decl => 16 | E_reg_type => 17 | E_wrong_type => 18
  | E_unique_reg => 19 | E_undeclared_op_ref => 20 | E_ops_num => 21 | E_call_op => 22
  | E_unspec_op => 23 | E_wrong_lref => 24 | E_ret => 25 | E_op_mode => 26 | E_out_op => 27
  | E_invalid_insn => 28 | E_ctx_change => 29
  end%N.

Definition error_eqb (a b : mir_error) : bool := N.eqb (error_num a) (error_num b).

(* result of a check: accepted, or the error function is called with this code *)
Inductive res (A : Type) : Type :=
| Ok (a : A)
| Err (e : mir_error).
Arguments Ok {A} a.
Arguments Err {A} e.

Definition bind {A B} (r : res A) (f : A -> res B) : res B :=
  match r with Ok a => f a | Err e => Err e end.

Definition is_ok {A} (r : res A) : bool := match r with Ok _ => true | Err _ => false end.

(* one row of insn_descs[] as transcribed by tools/tr_c15_insn_descs.py.
   [r_code]: the enumerator written in the row (None when the translator could not resolve it);
   [r_modes]: the initialisers of op_modes[] in order, each (mode, OUT_FLAG set), INCLUDING the
   MIR_OP_BOUND terminator when present; the C array has 5 cells and unwritten cells are 0 (=
   MIR_OP_UNDEF without flag).  [Unknown] carries rows the translator could not parse. *)
Inductive desc_row : Type :=
| Row (r_code : option opcode) (r_name : name) (r_modes : list (op_mode * bool))
| Unknown (text : name).

Definition OP_MODES_CELLS : nat := 5.

(* item kinds a reference operand can point to *)
Inductive item_kind : Set :=
| I_func | I_proto | I_import | I_export | I_forward | I_data | I_ref_data | I_lref_data
| I_expr_data | I_bss.

Definition all_item_kinds : list item_kind :=
  [I_func; I_proto; I_import; I_export; I_forward; I_data; I_ref_data; I_lref_data; I_expr_data; I_bss].

(* prototype: result types, fixed parameters (type, block size), vararg flag *)
Record proto : Type := {
  p_res : list mir_type;
  p_args : list (mir_type * Z);
  p_vararg : bool
}.

(* operands as the API builds them (MIR_new_*_op).  Register operands carry the register NUMBER
   the API returned (or any number: undeclared ones are the point).  A reference operand carries
   the kind of the item and, for prototypes, the prototype. *)
Inductive operand : Type :=
| OReg (r : N)
| OInt (v : Z)
| OUint (v : Z)
| OFloat
| ODouble
| OLdouble
| OMem (t : mir_type) (disp : Z) (base index : N)     (* 0 = no base / index register *)
| OLabel
| ORef (k : item_kind) (p : option proto)
| OStr.

(* MIR_op_t.mode of an operand *)
Definition op_mode_of (o : operand) : op_mode :=
  match o with
  | OReg _ => OP_REG | OInt _ => OP_INT | OUint _ => OP_UINT | OFloat => OP_FLOAT
  | ODouble => OP_DOUBLE | OLdouble => OP_LDOUBLE | OMem _ _ _ _ => OP_MEM | OLabel => OP_LABEL
  | ORef _ _ => OP_REF | OStr => OP_STR
  end.

(* an instruction as created: code number (any N: out-of-range codes are a case) and operands *)
Record insn : Type := { i_code : opcode; i_ops : list operand }.

(* ------------------------------------------------------------------ function context *)

Record reg_desc : Type := {
  rd_reg : N; rd_name : name; rd_type : mir_type; rd_hard : option name
}.

Record func_ctx : Type := {
  f_vararg : bool;
  f_res : list mir_type;
  f_regs : list reg_desc;      (* most recent first *)
  f_nvars : N;                 (* VARR_LENGTH (func->vars) *)
  f_nglobals : N               (* VARR_LENGTH (func->global_vars) *)
}.

Definition find_rd_by_reg (fc : func_ctx) (r : N) : option reg_desc :=
  find (fun d => N.eqb (rd_reg d) r) (f_regs fc).

Definition find_rd_by_name (fc : func_ctx) (n : name) : option reg_desc :=
  find (fun d => name_eqb (rd_name d) n) (f_regs fc).

(* ------------------------------------------------------------------ operand shapes *)
(* The finite abstraction of an operand in a function context: its API kind plus the outcome of
   the register look-ups (declared with which type / undeclared) for a register operand and for
   the base and index registers of a memory operand, and the sign of the displacement.  Both the
   checker model and the documentation-derived rules are functions of the shape. *)

Inductive rclass : Set := RC_undecl | RC (t : mir_type).
Inductive bclass : Set := BC_none | BC_undecl | BC_reg (t : mir_type).
Inductive imm : Set := IInt | IUint | IFloat | IDouble | ILdouble.

Inductive shape : Set :=
| SReg (rc : rclass)
| SImm (k : imm)
| SMem (t : mir_type) (neg_disp : bool) (b x : bclass)
| SLabel
| SRef (k : item_kind)
| SStr.

Definition rclass_of (fc : func_ctx) (r : N) : rclass :=
  match find_rd_by_reg fc r with
  | Some d => RC (rd_type d)
  | None => RC_undecl
  end.

Definition bclass_of (fc : func_ctx) (r : N) : bclass :=
  if N.eqb r 0 then BC_none
  else match find_rd_by_reg fc r with
       | Some d => BC_reg (rd_type d)
       | None => BC_undecl
       end.

Definition shape_of (fc : func_ctx) (o : operand) : shape :=
  match o with
  | OReg r => SReg (rclass_of fc r)
  | OInt _ => SImm IInt
  | OUint _ => SImm IUint
  | OFloat => SImm IFloat
  | ODouble => SImm IDouble
  | OLdouble => SImm ILdouble
  | OMem t disp b x => SMem t (disp <? 0)%Z (bclass_of fc b) (bclass_of fc x)
  | OLabel => SLabel
  | ORef k _ => SRef k
  | OStr => SStr
  end.

Definition shape_mode (s : shape) : op_mode :=
  match s with
  | SReg _ => OP_REG
  | SImm IInt => OP_INT | SImm IUint => OP_UINT | SImm IFloat => OP_FLOAT
  | SImm IDouble => OP_DOUBLE | SImm ILdouble => OP_LDOUBLE
  | SMem _ _ _ _ => OP_MEM | SLabel => OP_LABEL | SRef _ => OP_REF | SStr => OP_STR
  end.

(* register types the API can declare (new_func_reg: I64, F, D, LD; parameters likewise) *)
Definition reg_type_ok (t : mir_type) : bool :=
  match t with T_I64 | T_F | T_D | T_LD => true | _ => false end.

Definition fc_wf (fc : func_ctx) : Prop := forall d, In d (f_regs fc) -> reg_type_ok (rd_type d) = true.

Definition rclass_wf (rc : rclass) : bool := match rc with RC_undecl => true | RC t => reg_type_ok t end.
Definition bclass_wf (b : bclass) : bool := match b with BC_reg t => reg_type_ok t | _ => true end.
Definition shape_wf (s : shape) : bool :=
  match s with
  | SReg rc => rclass_wf rc
  | SMem _ _ b x => bclass_wf b && bclass_wf x
  | _ => true
  end.

(* Property C07 (partial), call-result temporaries: where gen() of c2mir keeps the struct/union values returned by calls
   (model coq/C07/CallTemps.v, tied to `c2m -S` by checks/c07.py part V).  C11 6.2.4p8: such a value lives until the end of
   the containing full expression.  This file holds only the theorems, each closed by [exact] + Print Assumptions. *)
From Coq Require Import List NArith Bool.
From MirV Require Import C07.CallTemps C07.CallTempsProofs.
Import ListNotations.
Local Open Scope N_scope.

(* operands / arguments l1 ++ a :: l2 processed from offset c: while l2 is processed no Alloc and no Write touches a slot
   the value of a lives in -- for every expression tree, every nesting, every size *)
Theorem sibling_values_survive : forall l1 a l2 c s e,
  let ca := snd (gen_list false l1 c) in
  let cb := snd (gen false a ca) in
  In s (vslots a ca) -> In e (fst (gen_list false l2 cb)) -> disjoint s e.
Proof. exact sibling_values_survive_l. Qed.
Print Assumptions sibling_values_survive.

(* the slot of a call's own result is not touched while the arguments of that call are processed *)
Theorem own_result_slot_apart_from_arguments : forall sz args c e,
  sz <> 0 -> In e (fst (gen_list false args (c + round16 sz))) -> disjoint (c, round16 sz) e.
Proof. exact own_result_slot_apart_from_arguments_l. Qed.
Print Assumptions own_result_slot_apart_from_arguments.

(* after a call the offset stands right behind its own result: the result stays reserved for the rest of the full
   expression (so [sibling_values_survive] applies to it as an operand of the enclosing expression), the argument slots are free *)
Theorem call_keeps_its_result_reserved : forall sz args c,
  snd (gen false (Call sz args) c) = (if sz =? 0 then c else c + round16 sz).
Proof. exact call_keeps_its_result_reserved_l. Qed.
Print Assumptions call_keeps_its_result_reserved.

(* the value of any expression processed at offset c lives inside [c, offset after it) *)
Theorem value_lives_below_the_offset : forall e c, Forall (inside c (snd (gen false e c))) (vslots e c).
Proof. exact vslots_inside. Qed.
Print Assumptions value_lives_below_the_offset.

(* check() sizes the area so that every slot gen() reserves or writes lies inside it, for a whole function body *)
Theorem area_holds_every_slot : forall body ev,
  In ev (body_events false body) -> ev_off ev + ev_len ev <= area_size body.
Proof. exact body_area_holds_every_slot_l. Qed.
Print Assumptions area_holds_every_slot.

(* the seeded change (offset remembered before the own result slot is reserved): h (f (), g ()) -- g's result gets f's slot *)
Theorem call_temps_early_save_refuted :
  let args := [Call 16 []; Call 16 []] in
  exists s e, In s (vslots (Call 16 []) 0) /\
              In e (fst (gen_list true [Call 16 []] (snd (gen true (Call 16 []) 0)))) /\ ~ disjoint s e.
Proof. exact early_save_refuted. Qed.
Print Assumptions call_temps_early_save_refuted.

(* non-vacuity: h (f (), mix (g (), g ()), f ()) with 16- and 24-byte results: offsets 0, 16, 48, 80, 48 and 112 bytes, as `c2m -S` prints *)
Example call_temps_example :
  gen false (Call 0 [Call 16 []; Call 24 [Call 24 []; Call 24 []]; Call 16 []]) 0 =
  ([Alloc 0 16; Write 0 16; Alloc 16 32; Alloc 48 32; Write 48 24; Alloc 80 32; Write 80 24; Write 16 24; Alloc 48 16; Write 48 16], 0)
  /\ snd (chk (Call 0 [Call 16 []; Call 24 [Call 24 []; Call 24 []]; Call 16 []]) 0 0) = 112.
Proof. exact gen_example. Qed.

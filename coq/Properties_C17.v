(* Property C17: all memory goes through the user's allocators and is released at finish.
   Only the property theorems, each closed by [exact] and followed by Print Assumptions. *)
From Coq Require Import List NArith Bool.
From MirV Require Import C19.Varr C17.Alloc C17.AllocProofs C17.VarrTrace C17.CodeHolder C17.CodeHolderProofs C17.Frame C17.HtabTrace.

(* The executable monitor that the check runs on the allocator-call traces of the real library
   accepts a trace exactly when the trace satisfies the contract of CUSTOM-ALLOCATORS.md stated
   declaratively: no direct libc/OS call, no double free or free of an unknown block, every realloc
   on a live block with its true size, fresh non-null allocations, no use after free, every code
   write inside a write window of mapped pages, unmap/protect only on mapped pages, and at Finish no
   live block and no mapped page. *)
Theorem monitor_sound_complete : forall t, accepts t = true <-> contract t.
Proof. exact monitor_sound_complete_lemma. Qed.
Print Assumptions monitor_sound_complete.

(* the reported index is the first event at which the contract fails: no report iff accepted *)
Theorem first_reject_none_iff_accepts : forall t, first_reject st0 t 0%N = None <-> accepts t = true.
Proof. exact first_reject_accepts. Qed.
Print Assumptions first_reject_none_iff_accepts.

(* The container layer: for every VARR operation script (model of mir-varr.h proved in C19 to report
   the true old capacity on every realloc), every element size, and every choice of non-null result
   pointers by the allocator, the emitted create / realloc* / destroy / Finish trace is accepted.
   Together with realloc_only_from_varr_resize (Properties_C17_Sites.v: MIR_realloc is called only by
   VARR expand / tailor) this covers every realloc the library can issue. *)
Theorem varr_traces_accepted :
  forall esz dsz d init p ops qs,
    d <> 0%N -> p <> 0%N -> p <> d -> Forall (fun q => q <> 0%N /\ q <> d) qs ->
    accepts (varr_trace esz dsz d init p ops qs) = true.
Proof. exact varr_traces_accepted_lemma. Qed.
Print Assumptions varr_traces_accepted.

(* The code-holder layer (mir.c:4353-4507, model C17/CodeHolder.v, tied to the real functions by the
   correspondence run): every operation's events are maps followed by at most one
   protect-write / writes / protect-exec group on one range ... *)
Theorem code_holder_ops_bracketed : forall s o, bracketed (snd (chstep s o)).
Proof. exact code_holder_ops_bracketed_lemma. Qed.
Print Assumptions code_holder_ops_bracketed.

(* ... and for every script of publications (non-empty, below 2^31 bytes), in-place publications,
   address queries, and patches lying inside already published code, followed by code_finish, the
   emitted trace is accepted by the contract monitor: every write falls into its write window inside
   the context's own mapped pages, and after code_finish no page remains mapped. *)
Theorem code_holder_traces_accepted : forall ops,
  ops_ok chs0 (ops ++ (FinishAll :: nil)) = true ->
  accepts (chtrace chs0 (ops ++ (FinishAll :: nil)) ++ (Finish :: nil)) = true.
Proof. exact code_holder_traces_accepted_lemma. Qed.
Print Assumptions code_holder_traces_accepted.

(* Frame / composition: two accepted traces that name disjoint non-null blocks and touch disjoint
   code pages (no Finish / Direct inside) stay accepted under EVERY interleaving, and if each ends
   clean (accepted with Finish appended) so does the interleaving.  A context that uses several VARRs
   (HTAB = descriptor + two VARRs, bitmap = one VARR, ...) and code holders emits an interleaving of
   their individual traces, each covered by varr_traces_accepted / code_holder_traces_accepted. *)
Theorem interleaving_accepted : forall a b t,
  merge a b t -> Forall local_event a -> Forall local_event b -> separate a b ->
  accepts a = true -> accepts b = true -> accepts t = true.
Proof. exact interleaving_accepted_lemma. Qed.
Print Assumptions interleaving_accepted.

Theorem interleaving_finish_accepted : forall a b t,
  merge a b t -> Forall local_event a -> Forall local_event b -> separate a b ->
  accepts (a ++ (Finish :: nil)) = true -> accepts (b ++ (Finish :: nil)) = true ->
  accepts (t ++ (Finish :: nil)) = true.
Proof. exact interleaving_finish_accepted_lemma. Qed.
Print Assumptions interleaving_finish_accepted.

(* The hash-table container (mir-htab.h): HTAB_CREATE mallocs a descriptor and creates two VARRs (els, entries);
   every later allocator call of the table is a VARR expand / tailor of one of them (HTAB_DO doubles both when the
   element array is full); HTAB_DESTROY destroys both and frees the descriptor.  For EVERY pair of VARR operation
   scripts, every choice of pairwise different non-null blocks and EVERY interleaving of the two VARRs' events, the
   trace  malloc descriptor, interleaving, free descriptor, Finish  meets the contract: true old sizes on every
   realloc, no double free, nothing live at the end.  (Composition of varr_traces_accepted with the frame rule.) *)
Theorem htab_traces_accepted :
  forall hsz h eA dzA dA iA pA oA qA eB dzB dB iB pB oB qB t,
    h <> 0%N -> ~ In h (varr_ptrs dA pA qA) -> ~ In h (varr_ptrs dB pB qB) ->
    (forall x, In x (varr_ptrs dA pA qA) -> ~ In x (varr_ptrs dB pB qB)) ->
    dA <> 0%N -> pA <> 0%N -> pA <> dA -> Forall (fun q => q <> 0%N /\ q <> dA) qA ->
    dB <> 0%N -> pB <> 0%N -> pB <> dB -> Forall (fun q => q <> 0%N /\ q <> dB) qB ->
    merge (varr_body eA dzA dA iA pA oA qA) (varr_body eB dzB dB iB pB oB qB) t ->
    accepts (Malloc h hsz :: t ++ (Free h :: Finish :: nil)) = true.
Proof. exact htab_traces_accepted_lemma. Qed.
Print Assumptions htab_traces_accepted.

(* The bitmap container (mir-bitmap.h): a bitmap is a VARR of 8-byte elements (bitmap_create2 = VARR_CREATE,
   bitmap_destroy = VARR_DESTROY, growth through VARR_PUSH / VARR_EXPAND). *)
Theorem bitmap_traces_accepted :
  forall dsz d init p ops qs,
    d <> 0%N -> p <> 0%N -> p <> d -> Forall (fun q => q <> 0%N /\ q <> d) qs ->
    accepts (bitmap_trace dsz d init p ops qs) = true.
Proof. exact bitmap_traces_accepted_lemma. Qed.
Print Assumptions bitmap_traces_accepted.

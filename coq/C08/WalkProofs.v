(* C08 — closed forms of the backwards-walking loop of update_field_layout (CLayout.walk). *)
From Coq Require Import ZArith List Bool Lia ZifyBool.
From MirV Require Import C08.CLayout C08.SysVLayout.
Import ListNotations.
Local Open Scope Z_scope.
Ltac Zify.zify_post_hook ::= Z.div_mod_to_equations.

(* alignments that occur on x86-64 *)
Definition pow2a (a : Z) : Prop := a = 1 \/ a = 2 \/ a = 4 \/ a = 8 \/ a = 16.

Ltac split_a H := destruct H as [H|[H|[H|[H|H]]]]; subst.

(* previous member is a regular field (or nothing), new member is a regular field *)
Lemma walk_rr prev_off prev_sz fsize a bits k bound :
  pow2a a -> bits < 0 -> 0 <= prev_off + prev_sz <= a * Z.of_nat k ->
  walk false prev_off prev_sz fsize a bits k bound = (align_up (prev_off + prev_sz) a, bound).
Proof.
  intros Ha Hb. revert bound.
  induction k as [|k IH]; intros bound He.
  - cbn [walk]. replace (0 <=? bits) with false by lia.
    unfold align_up. f_equal. split_a Ha; lia.
  - cbn [walk negb]. replace (0 <=? bits) with false by lia.
    destruct (a * Z.of_nat k <? prev_off + prev_sz) eqn:E.
    + f_equal. unfold align_up. split_a Ha; lia.
    + apply IH. lia.
Qed.

(* previous member is a bit-field ending at bit 8*prev_off + bound, new member is a regular field *)
Lemma walk_br prev_off prev_sz fsize a bits k bound :
  pow2a a -> bits < 0 -> 0 <= bound -> 0 <= prev_off ->
  prev_off + (bound + 7) / 8 <= a * Z.of_nat k ->
  walk true prev_off prev_sz fsize a bits k bound = (align_up (prev_off + (bound + 7) / 8) a, bound).
Proof.
  intros Ha Hb Hbd Hp.
  induction k as [|k IH]; intros He.
  - cbn [walk]. replace (0 <=? bits) with false by lia.
    unfold align_up. f_equal. split_a Ha; lia.
  - cbn [walk negb]. replace (bits <? 0) with true by lia.
    destruct (a * Z.of_nat k <? prev_off + (bound + 7) / 8) eqn:E.
    + f_equal. unfold align_up. split_a Ha; lia.
    + apply IH. lia.
Qed.

(* previous member is a bit-field ending at bit pos = 8*prev_off + bound, new member is a bit-field
   of width bits in a unit of f bytes: it lands in the unit that contains bit pos+bits-1 *)
Lemma walk_bb prev_off prev_sz f bits k bound :
  pow2a f -> 0 <= bits -> 0 <= prev_off -> 0 <= bound ->
  1 <= 8 * prev_off + bound + bits ->
  (8 * prev_off + bound + bits - 1) / (8 * f) <= Z.of_nat k ->
  walk true prev_off prev_sz f f bits k bound =
    (let kf := (8 * prev_off + bound + bits - 1) / (8 * f) in
     (f * kf, if 8 * prev_off + bound <=? 8 * f * kf then bits
              else 8 * prev_off + bound + bits - 8 * f * kf)).
Proof.
  intros Hf Hb Hp Hbd HE. cbv zeta.
  induction k as [|k IH]; intros Hk.
  - cbn [walk]. replace (0 <=? bits) with true by lia.
    assert ((8 * prev_off + bound + bits - 1) / (8 * f) = 0) as -> by (split_a Hf; lia).
    rewrite !Z.mul_0_r. f_equal.
    destruct (8 * prev_off + bound <=? 0) eqn:E; lia.
  - cbn [walk negb]. replace (bits <? 0) with false by lia.
    destruct ((f * Z.of_nat k + f) * 8 <? prev_off * 8 + bound + bits) eqn:E.
    + assert ((8 * prev_off + bound + bits - 1) / (8 * f) = Z.of_nat (S k)) as ->
        by (split_a Hf; lia).
      f_equal.
      destruct (prev_off * 8 + bound <=? f * Z.of_nat (S k) * 8) eqn:E1;
      destruct (8 * prev_off + bound <=? 8 * f * Z.of_nat (S k)) eqn:E2; lia.
    + apply IH. split_a Hf; lia.
Qed.

(* previous member is a regular field ending at byte e = prev_off + prev_sz, new member is a
   bit-field: walking over free units above e does nothing *)
Lemma walk_rb_top prev_off prev_sz f bits k bound :
  prev_off + prev_sz <= f * Z.of_nat k ->
  walk false prev_off prev_sz f f bits (S k) bound = walk false prev_off prev_sz f f bits k bound.
Proof.
  intros H. cbn [walk negb]. replace (f * Z.of_nat k <? prev_off + prev_sz) with false by lia.
  reflexivity.
Qed.

(* ... and at the unit that contains the byte before e it decides *)
Lemma walk_rb_at prev_off prev_sz f bits k bound :
  pow2a f -> 0 <= bits <= 8 * f -> 0 <= prev_off + prev_sz ->
  f * Z.of_nat k < prev_off + prev_sz <= f * Z.of_nat (S k) ->
  walk false prev_off prev_sz f f bits (S k) bound =
    (let e := prev_off + prev_sz in
     let b1 := (e - f * Z.of_nat k) * 8 in
     if b1 + bits <=? f * 8 then (f * Z.of_nat k, b1 + bits) else (f * Z.of_nat (S k), bits)).
Proof.
  intros Hf Hb He Hk. cbv zeta. cbn [walk negb].
  replace (f * Z.of_nat k <? prev_off + prev_sz) with true by lia.
  replace (0 <=? bits) with true by lia.
  destruct ((prev_off + prev_sz - f * Z.of_nat k) * 8 + bits <=? f * 8) eqn:E.
  - destruct k as [|k].
    + cbn [walk]. replace (0 <=? bits) with true by lia. f_equal; lia.
    + cbn [walk negb].
      replace (f * Z.of_nat k <? prev_off + prev_sz) with true by lia.
      replace (0 <=? bits) with true by lia.
      replace ((prev_off + prev_sz - f * Z.of_nat k) * 8 + bits <=? f * 8) with false
        by (split_a Hf; lia).
      replace (f * Z.of_nat (S k) <? prev_off + prev_sz) with true by lia.
      f_equal. lia.
  - replace (f * Z.of_nat (S k) <? prev_off + prev_sz) with false by lia. reflexivity.
Qed.

Lemma walk_rb prev_off prev_sz f bits k bound :
  pow2a f -> 0 <= bits <= 8 * f -> 0 < prev_off + prev_sz ->
  prev_off + prev_sz <= f * Z.of_nat k ->
  walk false prev_off prev_sz f f bits k bound =
    (let e := prev_off + prev_sz in
     let kc := (e - 1) / f in       (* unit containing the byte before e *)
     let b1 := (e - f * kc) * 8 in
     if b1 + bits <=? f * 8 then (f * kc, b1 + bits) else (f * (kc + 1), bits)).
Proof.
  intros Hf Hb He. cbv zeta.
  induction k as [|k IH]; intros Hk.
  - split_a Hf; lia.
  - destruct (f * Z.of_nat k <? prev_off + prev_sz) eqn:E.
    + rewrite walk_rb_at by (auto; lia). cbv zeta.
      assert ((prev_off + prev_sz - 1) / f = Z.of_nat k) as -> by (split_a Hf; lia).
      replace (Z.of_nat (S k)) with (Z.of_nat k + 1) by lia. reflexivity.
    + rewrite walk_rb_top by lia. apply IH. lia.
Qed.

(* nothing placed before (first member, or any member of a union): everything goes to offset 0 *)
Lemma walk_from_zero fsize f bits k bound :
  0 <= f ->
  walk false 0 0 fsize f bits k bound = (0, if 0 <=? bits then bound + bits else bound).
Proof.
  intros Hf. induction k as [|k IH].
  - cbn [walk]. reflexivity.
  - cbn [walk negb]. replace (f * Z.of_nat k <? 0 + 0) with false by lia. exact IH.
Qed.
